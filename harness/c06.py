"""C06 — the same site is seen through every protocol."""
import re

from common import Check, impl_run, impl_run_parallel
import gen
import pgsite
import trees
import validators as V
from k06 import run_k06, run_k13  # K06/K13 correspondence (model <-> real renderers)

PYG_ECHO = '''from pygopherd.handlers.pyg import PYGBase
from pygopherd.gopherentry import GopherEntry


def hx(q):
    return "NONE" if q is None else q.encode("utf-8", "surrogateescape").hex()


class PYGMain(PYGBase):
    def canhandlerequest(self):
        return True

    def isdir(self):
        return False

    def getentry(self):
        entry = GopherEntry(self.selector, self.config)
        entry.type = "0"
        entry.mimetype = "text/plain"
        entry.name = "echo Q=" + hx(self.searchrequest)
        return entry

    def write(self, wfile):
        wfile.write(("S=" + hx(self.selector) + ";Q=" + hx(self.searchrequest)).encode())
'''
SH_ECHO = ("#!/bin/sh\nprintf 'S='\nprintf '%s' \"$SELECTOR\" | od -An -v -tx1 | tr -d ' \\n'\n"
           "printf ';Q='\nprintf '%s' \"$SEARCHREQUEST\" | od -An -v -tx1 | tr -d ' \\n'\n")
TAL_ECHO = '<html><body><p>Q=[<span tal:replace="handler/searchrequest">x</span>]</p></body></html>\n'

# a program that answers with a menu; its entry says nothing about a MIME type
PYG_MENU = '''from pygopherd.handlers.pyg import PYGBase
from pygopherd.gopherentry import GopherEntry


class PYGMain(PYGBase):
    def canhandlerequest(self):
        return True

    def isdir(self):
        return True

    def getentry(self):
        entry = GopherEntry(self.selector, self.config)
        entry.type = "1"
        entry.name = "a menu made by a program"
        return entry

    def getdirlist(self):
        e = GopherEntry("/a.txt", self.config)
        e.type = "0"
        e.name = "alpha from a program"
        e.mimetype = "text/plain"
        return [e]
'''

LISTING_TYPE = {"http": b"text/html", "https": b"text/html", "wap": b"text/vnd.wap.wml", "gemini": b"text/gemini",
                "spartan": b"text/gemini"}


def menu_objects():
    """objects that are served as menus without being directories"""
    import io
    import zipfile
    buf = io.BytesIO()
    with zipfile.ZipFile(buf, "w") as z:
        z.writestr("in.txt", "inside\n")
        z.writestr("sub/deep.txt", "deep\n")
    t = [{"path": "solo.gophermap", "data": "isolo map\tfake\t(NULL)\t0\n0alpha\t/a.txt\n1remote\t/r\tgopher.other.example\t7070\n0rel\tdir1/c.txt\n"},
         {"path": "dir1/inner.gophermap", "data": "0charlie\tc.txt\n1up\t/\n"},
         {"path": "menu.pyg", "data": PYG_MENU, "mode": 0o755},
         {"path": "arch.zip", "data": buf.getvalue().decode("latin-1")},
         {"path": "box2.mbox", "data": trees.MBOX}]
    for e in t:
        e["mtime"] = 1_700_000_000
    return t


# names a protocol front-end might be tempted to treat specially: what browsers and crawlers ask every web server for,
# index documents of each protocol family, and names that merely resemble the server's own reserved prefixes
WEB_NAMES = ["favicon.ico", "robots.txt", "index.html", "index.gmi", "index.wml", "index.txt", "sitemap.xml", "humans.txt", "ads.txt",
             "apple-touch-icon.png", "apple-touch-icon-precomposed.png", "crossdomain.xml", "browserconfig.xml", "manifest.json",
             "site.webmanifest", "404.html", "style.css", "feed.atom", "folder.gif", "generic.gif", ".well-known/security.txt",
             ".well-known/host-meta.xml", ".well-known/change-password.html"]
LOOKALIKES = ["wapx/page.txt", "wapx.txt", "wap.txt", "GEMINI-QUERYx/page.txt", "GEMINI-QUERY.txt", "URLx.txt", "URL/page.txt",
              "PYGOPHERD-HTTPPROTO-ICONSx/folder.gif", "PYGOPHERD-HTTPPROTO-ICONS.gif"]
# the same names where the reservation does not reach: below a sub-directory
NESTED_ONLY = ["PYGOPHERD-HTTPPROTO-ICONS/folder.gif", "PYGOPHERD-HTTPPROTO-ICONS/mine.gif", "wap/page.txt", "wap/favicon.ico",
               "GEMINI-QUERY/page.txt", "URL:colon.txt"]
BINARY_EXT = ("ico", "png", "gif")


def wellknown_objects(rng, mtime=1_700_000_000):
    """A tree whose objects carry such names, at the root and in sub-directories, each with bytes of its own and a type the MIME
    tables know; `hub` (a UMN link file) links every one of them, also those a listing leaves out (dot directories, robots.txt)."""
    places = ["", "site/", "site/deep er/"]
    tree, links = [], []
    n = 0
    for place in places:
        names = WEB_NAMES + LOOKALIKES + (NESTED_ONLY if place else [])
        if place:
            names = [x for x in names if rng.random() < 0.7 or x in ("favicon.ico", "index.html", "robots.txt")]
        for name in names:
            n += 1
            ext = name.rsplit(".", 1)[-1]
            mark = "%s%s #%d %08x" % (place, name, n, rng.getrandbits(32))
            if ext in BINARY_EXT:
                data = {"gif": "GIF89a", "png": "\x89PNG\r\n\x1a\n", "ico": "\x00\x00\x01\x00"}[ext] + \
                    "".join(chr(rng.randrange(256)) for _ in range(rng.randrange(20, 400))) + mark
                typ = "g" if ext == "gif" else "I"   # (the hub names every object by the item type the object has by itself)
            elif ext == "html":
                data = "<html><head><title>page %d</title></head><body><p>%s</p></body></html>\n" % (n, mark)
                typ = "h"
            elif ext in ("xml", "atom"):
                data = "<?xml version=\"1.0\"?>\n<doc>%s</doc>\n" % mark
                typ = "9" if ext == "atom" else "0"
            elif ext in ("json", "webmanifest"):
                data = "{\"name\": \"%s\"}\n" % mark
                typ = "9"
            else:
                data = "this is %s\nsecond line\n" % mark
                typ = "0"
            tree.append({"path": place + name, "data": data, "mtime": mtime})
            links.append("Name=hub %d %s\nType=%s\nPath=/%s\nHost=+\nPort=+\nNumb=%d\n" % (n, name.replace("/", " "), typ, place + name, n))
    tree.append({"path": "hub/.Links", "data": "\n".join(links), "mtime": mtime})
    tree.append({"path": "hub/near.txt", "data": "a file next to the hub links\n", "mtime": mtime})
    return tree


FULL_HANDLERS = ("[url.HTMLURLHandler, gophermap.BuckGophermapHandler, mbox.MaildirFolderHandler, "
                 "mbox.MaildirMessageHandler, UMN.UMNDirHandler, tal.TALFileHandler, html.HTMLFileTitleHandler, "
                 "mbox.MBoxMessageHandler, mbox.MBoxFolderHandler, pyg.PYGHandler, scriptexec.ExecHandler, "
                 "file.CompressedFileHandler, file.FileHandler, url.URLTypeRewriter]")


def mime_of(proto, resp):
    v = V.validate(proto, resp)
    if v["kind"] != "success":
        return None
    if proto in ("http", "https", "wap"):
        return dict((k.lower(), val) for k, val in v["headers"])["content-type"]
    return v["meta"]


def body_of(proto, resp):
    try:
        return V.validate(proto, resp)["body"]
    except V.Malformed:
        return None


def diff_class(x, y):
    """'' or a suffix naming what alone differs between two listed entries (stable part of the tag)"""
    if x is None or y is None or x[:2] != y[:2]:
        return ""
    tx, ty = x[2], y[2]
    if isinstance(tx, tuple) and isinstance(ty, tuple) and len(tx) == len(ty) == 5:
        d = [i for i in range(5) if tx[i] != ty[i]]
        if d == [2]:
            return ":port-only"
        if d == [4]:
            return ":selector-only"
        if d == [3]:
            return ":type-only"
    return ""


# ----------------------------------------------------------------------------------------------------------
# menus made by programs: the handler contract (BaseHandler.getdirlist: "list, iterator, tuple, generator, etc")
# leaves the container of a listing open; whatever it is, every protocol walks it and shows the same entries
# ----------------------------------------------------------------------------------------------------------
PYG_VMENU = """import collections
import itertools
from pygopherd import gopherentry
from pygopherd.handlers.pyg import PYGBase
from pygopherd.gopherentry import GopherEntry

ITEMS = %(items)r
KIND = %(kind)r
MIMES = {"0": "text/plain", "1": "application/gopher-menu", "7": "application/gopher-menu", "9": "application/octet-stream",
         "h": "text/html", "I": "image/png"}


class OneShot:
    # an iterator in the strict sense: __next__, exhausted after one walk, no len()
    def __init__(self, xs):
        self.xs = list(xs)
        self.i = 0

    def __iter__(self):
        return self

    def __next__(self):
        if self.i >= len(self.xs):
            raise StopIteration
        self.i += 1
        return self.xs[self.i - 1]


class Again:
    # an iterable without len() or indexing that may be walked any number of times
    def __init__(self, xs):
        self.xs = list(xs)

    def __iter__(self):
        return iter(list(self.xs))


class PYGMain(PYGBase):
    def canhandlerequest(self):
        return True

    def isdir(self):
        return True

    def getentry(self):
        entry = GopherEntry(self.selector, self.config)
        entry.type = "1"
        entry.mimetype = "application/gopher-menu"
        entry.name = %(title)r
        if %(abstract)r:
            entry.ea["ABSTRACT"] = %(abstract)r
        return entry

    def mk(self, it):
        typ, name, sel, host, port, abstract = it
        if typ == "i":
            return gopherentry.getinfoentry(name, self.config)
        e = GopherEntry(sel, self.config)
        e.type = typ
        e.name = name
        e.host = host
        e.port = port
        e.mimetype = MIMES[typ]
        if abstract:
            e.ea["ABSTRACT"] = abstract
        return e

    def lazily(self):
        # entries are made one at a time, while the listing is being written
        for it in ITEMS:
            yield self.mk(it)

    def getdirlist(self):
        if KIND == "generator":
            return self.lazily()
        es = [self.mk(it) for it in ITEMS]
        if KIND == "list":
            return es
        if KIND == "tuple":
            return tuple(es)
        if KIND == "iter":
            return iter(es)
        if KIND == "map":
            return map(self.mk, ITEMS)
        if KIND == "genexpr":
            return (e for e in es)
        if KIND == "oneshot":
            return OneShot(es)
        if KIND == "again":
            return Again(es)
        if KIND == "chain":
            return itertools.chain(es[:len(es) // 2], iter(es[len(es) // 2:]))
        if KIND == "deque":
            return collections.deque(es)
        if KIND == "dictvalues":
            return dict(enumerate(es)).values()
        if KIND == "filter":
            return filter(None, es)
        if KIND == "reversed":
            return reversed(es[::-1])
        if KIND == "zip":
            return (e for (e, _) in zip(es, itertools.count()))
        raise ValueError(KIND)
"""
VMENU_KINDS = ["list", "tuple", "generator", "iter", "map", "genexpr", "oneshot", "again", "chain", "deque", "dictvalues", "filter",
               "reversed", "zip"]
VMENU_NAMES = ["alpha", "two words", "a & b <c>", "café", "quote\"d 'name'", "100% [x]", "semi;colon", "trailing dot.", "UPPER lower",
               "x" * 70, "=> arrow", "# hash", "tab-free"]
VMENU_LOCAL = ["/a.txt", "/dir1", "/dir1/c.txt", "/sp ace/f.txt", "/find", "/caf\xc3\xa9.txt", "/x?y", "/pct%41", "/d/e/f/g"]


def vmenu_items(rng, n):
    """a listing a program might compose: text lines, documents, menus, search items, items on other servers"""
    items = []
    for i in range(n):
        k = rng.randrange(10)
        name = rng.choice(VMENU_NAMES) + " %d" % i
        abstract = rng.choice([None, None, "about %d" % i, "first line %d\nsecond line" % i])
        if k == 0:
            items.append(("i", "text line %d %s" % (i, rng.choice(["", "with <markup> & more", "  indented"])), None, None, None, None))
        elif k in (1, 2, 3):
            items.append((rng.choice("009I"), name, rng.choice(VMENU_LOCAL), None, None, abstract))
        elif k in (4, 5):
            items.append(("1", name, rng.choice(VMENU_LOCAL), None, None, abstract))
        elif k == 6:
            items.append(("7", name, rng.choice(VMENU_LOCAL), None, None, abstract))
        else:
            host, port = rng.choice(trees.REMOTE_HOSTS)
            host = "gopher.other.example" if host == "+" else host
            port = 70 if port == "+" else int(port)
            items.append((rng.choice("01"), name, rng.choice(["/", "/users/bob", "/a b", "/0/plan", "/abs/path"]), host, port, abstract))
    return items


def run_virtual_menus(chk, tier):
    """-> (found, number of comparisons).  Oracles: (a) the view of a program-made menu in every protocol and Gopher+
    request form equals plain Gopher's; (b) the container the program returns is not observable: plain Gopher's view equals
    the view of the same items returned as a list; (c) that view has at least one entry per item (nothing is vacuous)."""
    rng = chk.rng
    found = False
    nlists = 4 if tier == "thorough" else 2
    settings = [("always", "on"), ("unsupported", "on"), ("never", "off")]
    jobs, metas = [], []
    for li in range(nlists):
        items = vmenu_items(rng, rng.randrange(5, 12))
        ae, ah = settings[li % len(settings)]
        kinds = ["list"] + rng.sample(VMENU_KINDS[1:], len(VMENU_KINDS) - 1)
        tree = []
        for kind in kinds:
            src = PYG_VMENU % {"items": items, "kind": kind, "title": "made by a program",
                               "abstract": "what this menu is about" if li % 2 == 0 else ""}
            tree.append({"path": "v/%s.pyg" % kind, "mode": 0o755, "data": src.encode("utf-8").decode("latin-1")})
        cfg = dict(trees.SITE_CONFIG)
        cfg["pygopherd"] = {"abstract_entries": ae, "abstract_headers": ah}
        cfg["handlers.HandlerMultiplexer"] = {"handlers": FULL_HANDLERS}
        reqs, meta = [], []
        for kind in kinds:
            sel = "/v/%s.pyg" % kind
            for proto in gen.PROTOCOLS:
                forms = ["+", "$", "$+ABSTRACT"] if proto == "gopherplus" else ["+", "$"] if proto == "sgopherplus" else [None]
                for form in forms:
                    data, tls = gen.request_bytes(proto, sel, gplus=form or "+")
                    reqs.append({"data": gen.lat(data), "tls": tls})
                    meta.append((kind, proto, form))
        jobs.append({"op": "world", "tree": tree, "config": cfg, "requests": reqs})
        metas.append((items, ae, meta, tree))
    res = impl_run_parallel(jobs, chunks=len(jobs))
    ncmp = 0
    nrep = {}
    for li, (r, (items, ae, meta, tree)) in enumerate(zip(res, metas)):
        if not r["ok"]:
            raise RuntimeError(r["err"] + r.get("tb", ""))
        views = {}
        for (kind, proto, form), o in zip(meta, r["res"]["results"]):
            out = o["out"].encode("latin-1")
            try:
                v = pgsite.view_gplus_dir(proto, out) if form and form.startswith("$") else pgsite.view_page(proto, out)
            except (V.Malformed, KeyError) as e:
                v = "unreadable: %s" % e
            views[(kind, proto, form)] = (v, o)
        listview = views[("list", "gopher", None)][0]
        for (kind, proto, form), (v, o) in views.items():
            ncmp += 1
            chk.count(("vmenu", li, kind, proto, form), nontrivial=True)
            ref = views[(kind, "gopher", None)][0]
            which = proto + (":" + ("$+" if len(form) > 1 else form) if form and form != "+" else "")
            base = {"selector": "/v/%s.pyg" % kind, "container_returned_by_getdirlist": kind, "protocol": proto, "gopherplus_form": form,
                    "abstract_entries": ae, "items": [list(x) for x in items], "handlers": FULL_HANDLERS, "tree": tree,
                    "request_latin1": gen.lat(gen.request_bytes(proto, "/v/%s.pyg" % kind, gplus=form or "+")[0]),
                    "response_head_latin1": o["out"][:400]}
            if proto == "gopher":
                a, b = listview, v
                if isinstance(b, str) or len(b) < len(items):
                    found = True
                    chk.violation(dict(base, what="a menu made by a program does not show all its entries in plain Gopher",
                                       entries_expected_at_least=len(items), entries_shown=None if isinstance(b, str) else len(b)),
                                  tag="virtual-menu-incomplete:gopher")
                elif a != b:
                    found = True
                    chk.violation(dict(base, what="the same entries show differently when getdirlist() returns another kind of "
                                                  "iterable", view_as_list=repr(a)[:600], view=repr(b)[:600]),
                                  tag="virtual-menu-container-observable:gopher")
                continue
            if isinstance(v, str):
                found = True
                chk.violation(dict(base, what="menu made by a program not readable in this protocol: " + v),
                              tag=f"unreadable-listing:{which}:virtual")
                continue
            if isinstance(ref, str):
                continue
            a, b = ref, v
            if ae == "unsupported" and proto in ("gopherplus", "sgopherplus"):
                a = [x for x in a if x[0] != "info"]
                b = [x for x in b if x[0] != "info"]
            if a != b:
                found = True
                nrep[which] = nrep.get(which, 0) + 1
                if nrep[which] > 2:
                    continue
                k = next((i for i in range(min(len(a), len(b))) if a[i] != b[i]), min(len(a), len(b)))
                chk.violation(dict(base, what="a menu made by a program shows different entries in two protocols", protocol_a="gopher",
                                   protocol_b=proto, entries_a=len(a), entries_b=len(b), first_difference_index=k,
                                   entry_a=repr(a[k]) if k < len(a) else None, entry_b=repr(b[k]) if k < len(b) else None),
                              tag=f"listing-differs:{which}:virtual" + ("" if kind in ("list", "tuple", "deque", "again", "dictvalues")
                                                                         else ":one-shot-iterator"))
    return found, ncmp


# ----------------------------------------------------------------------------------------------------------
# executable content: what a script answers depends on the process it runs in (working directory, arguments,
# environment, standard input); the same selector + search string gives the same text through every protocol,
# whether the script writes straight to the connection's descriptor or its output is captured and copied
# ----------------------------------------------------------------------------------------------------------
# every script reports facts as NAME=value records; the records travel as ONE hexadecimal word (FACTS=<hex>;), which every
# protocol's rendering of a text document leaves alone
SH_HEAD = "#!/bin/sh\nrec() { printf '%s=%s\\0' \"$1\" \"$2\"; }\n{\n"
SH_TAIL = "} | od -An -v -tx1 | tr -d ' \\n' | { printf 'FACTS='; cat; printf ';\\n'; }\n"
SH_CWD = SH_HEAD + ("rec CWD \"$(pwd)\"\nrec PHYS \"$(pwd -P)\"\n"
                    "if [ -r data.txt ]; then rec SIB \"$(cat data.txt)\"; else rec SIB '<no data.txt here>'; fi\n"
                    "if [ -r ./sub/more.txt ]; then rec SUB \"$(cat ./sub/more.txt)\"; else rec SUB '<none>'; fi\n"
                    "rec UP \"$(cd .. && pwd)\"\nrec LS \"$(ls -a | head -30)\"\nrec UMASK \"$(umask)\"\nrec Q \"${SEARCHREQUEST-<unset>}\"\n") + SH_TAIL
SH_ARGV = SH_HEAD + "rec ARGC \"$#\"\nrec ARG0 \"$0\"\nfor a in \"$@\"; do rec ARG \"$a\"; done\nrec Q \"${SEARCHREQUEST-<unset>}\"\n" + SH_TAIL
# (the environment is reported as the names of all variables, the values of those a script may rely on and a checksum
# of all the rest: replays never hold the values of unrelated variables of the machine the check runs on)
SH_ENV = SH_HEAD + ("rec NAMES \"$(awk 'BEGIN{for(k in ENVIRON) print k}' | grep -v '^_$' | LC_ALL=C sort | tr '\\n' ' ')\"\n"
                    "rec ENVSUM \"$(env | grep -v '^REMOTE_' | grep -v '^_=' | LC_ALL=C sort | cksum)\"\n"
                    "for v in SERVER_NAME SERVER_PORT SELECTOR REQUEST SEARCHREQUEST PWD OLDPWD PATH HOME LANG LC_ALL TZ TMPDIR "
                    "QUERY_STRING GATEWAY_INTERFACE; do eval \"rec \\\"V_$v\\\" \\\"\\${$v-<unset>}\\\"\"; done\n"
                    "rec RADDR \"$REMOTE_ADDR\"\nrec RHOST \"$REMOTE_HOST\"\nrec RPORT \"$REMOTE_PORT\"\n") + SH_TAIL
SH_IO = ("#!/bin/sh\necho 'BEFORE=6f7574;'\necho 'ERR=7374646572723f;' >&2\n" + SH_HEAD[len("#!/bin/sh\n"):] +
         "rec IN \"$(timeout 3 cat)\"\nrec INKIND \"$(if [ -t 0 ]; then echo tty; else echo no-tty; fi)\"\n" + SH_TAIL +
         "echo 'ERR=7374646572723f;' >&2\necho 'AFTER=6f7574;'\nexit 3\n")
SH_BIG = ("#!/bin/sh\necho 'FIRST=78;'\n"
          "awk 'BEGIN{for(i=0;i<3000;i++) printf \"L=%08x%s;\\n\", i, \"0123456789abcdef0123456789abcdef0123456789abcdef\"}'\n"
          "echo 'LAST=78;'\n")


def script_tokens(out):
    toks = []
    for k, v in re.findall(rb"\b([A-Z][A-Z0-9]*)=([0-9a-f]*);", out):
        if k == b"FACTS":
            for rec_ in bytes.fromhex(v.decode()).split(b"\0"):
                if rec_:
                    name, _, val = rec_.partition(b"=")
                    toks.append((name.decode("latin-1"), val.hex()))
        else:
            toks.append((k.decode(), v.decode()))
    return toks


def run_scripts(chk, tier):
    """-> (found, number of answers compared)"""
    found = False
    rng = chk.rng
    stree = []
    for d, what in (("", "top"), ("bin/", "bin"), ("sp ace/deep/", "deep")):
        stree.append({"path": d + "where.sh", "data": SH_CWD, "mode": 0o755})
        stree.append({"path": d + "data.txt", "data": "data next to the script in %s\n" % what})
    stree += [{"path": "bin/sub/more.txt", "data": "more below bin\n"},
              {"path": "bin/args.sh", "data": SH_ARGV, "mode": 0o755}, {"path": "bin/env.sh", "data": SH_ENV, "mode": 0o755},
              {"path": "bin/io.sh", "data": SH_IO, "mode": 0o755}, {"path": "bin/big.sh", "data": SH_BIG, "mode": 0o755}]
    outside = [{"path": "data.txt", "data": "data in the directory above the root\n"}, {"path": "sub/more.txt", "data": "more above the root\n"}]
    cfg = dict(trees.SITE_CONFIG)
    cfg["handlers.HandlerMultiplexer"] = {"handlers": FULL_HANDLERS}
    word = "".join(rng.choice("abcdefghijklmnopqrstuvwxyz") for _ in range(rng.randrange(3, 9)))
    targets = [("/where.sh", None), ("/where.sh", word), ("/bin/where.sh", None), ("/bin/where.sh", word),
               ("/sp ace/deep/where.sh", "two words"), ("/bin/args.sh", None), ("/bin/args.sh?one two", word),
               ("/bin/args.sh|" + word, None), ("/bin/args.sh?-n --flag=" + word + " x", "café " + word),
               ("/bin/env.sh", None), ("/bin/env.sh", word), ("/bin/env.sh?arg", "a&b=c " + word),
               ("/bin/io.sh", None), ("/bin/io.sh", word), ("/bin/big.sh", None)]
    live_targets = {0, 3, 4, 6, 10, 13, 14}
    direct = ("gopher", "gopherplus", "http", "spartan")   # plain TCP and no conversion: a script may be handed the descriptor
    reqs, meta = [], []
    for ti, (sel, q) in enumerate(targets):
        for proto in gen.PROTOCOLS:
            for tr in ("fd", "mem", "live"):
                if tr == "mem" and (proto not in direct or (ti % 2 and proto not in ("gopher", "http"))):
                    continue    # without a descriptor these are served exactly as over "fd"
                if tr == "live" and ti not in live_targets:
                    continue
                data, tls = gen.request_bytes(proto, sel, search=q)
                reqs.append({"data": gen.lat(data), "tls": tls, "transport": tr})
                meta.append((ti, proto, tr))
    cwds = ["parent", "root", "bin"] if tier == "thorough" else ["parent", "bin"]
    jobs, jmeta = [], []
    nsplit = 2
    for cwd in cwds:
        for part in range(nsplit):
            # (everything asked of one target is served by one world: absolute paths are comparable)
            # (under the further directories only the scripts that look around themselves)
            idx = [i for i, m_ in enumerate(meta) if m_[0] % nsplit == part and (cwd == cwds[0] or targets[m_[0]][0].endswith("where.sh"))]
            jobs.append({"op": "c06_transports", "tree": stree, "outside": outside, "config": cfg, "cwd": cwd,
                         "requests": [reqs[i] for i in idx]})
            jmeta.append((cwd, [meta[i] for i in idx], [reqs[i] for i in idx]))
    res = impl_run_parallel(jobs, chunks=len(jobs))
    answers = {}
    for r, (cwd, m, rq) in zip(res, jmeta):
        if not r["ok"]:
            raise RuntimeError(r["err"] + r.get("tb", ""))
        for (ti, proto, tr), q_, o in zip(m, rq, r["res"]["results"]):
            answers[(cwd, ti, proto, tr)] = (script_tokens(o["out"].encode("latin-1")), q_, o)
    n = 0
    nrep = {}
    for (cwd, ti, proto, tr), (toks, rq, o) in sorted(answers.items()):
        sel, q = targets[ti]
        ref = answers.get((cwd, ti, "gopher", "fd"))
        n += 1
        chk.count(("script", cwd, ti, proto, tr), nontrivial=True)
        if ref is None:
            continue
        rtoks = ref[0]

        def facts(ts, transport):
            out = []
            for k, v in ts:
                if k == "RPORT" and transport == "live":
                    continue       # every connection has its own port
                out.append((k, v))
            return out
        a, b = facts(rtoks, tr), facts(toks, tr)
        if tr != "fd":
            # the client of the reference answer sat at another address
            a = [x for x in a if x[0] not in ("RADDR", "RHOST", "RPORT")]
            b = [x for x in b if x[0] not in ("RADDR", "RHOST", "RPORT")]
        if not rtoks or a != b:
            found = True
            k = next((i for i in range(min(len(a), len(b))) if a[i] != b[i]), min(len(a), len(b)))
            key = (a[k][0] if k < len(a) else b[k][0]) if (a or b) else "no-answer"
            nrep[(proto, tr)] = nrep.get((proto, tr), 0) + 1
            if nrep[(proto, tr)] > 1 or len(nrep) > 8:
                continue     # one replay per protocol and delivery, eight in all

            def show(t):
                return None if t is None else [t[0], bytes.fromhex(t[1]).decode("latin-1")[:300]]
            chk.violation({"what": "a script answers the same selector and search string differently depending on the protocol "
                                   "(or on how the connection delivers its output)", "selector": sel, "search": q,
                           "protocol_a": "gopher", "delivery_a": "fd", "protocol_b": proto, "delivery_b": tr,
                           "deliveries": "fd = the output file is a real descriptor; mem = in-memory output file; live = real server, real sockets",
                           "daemon_working_directory": cwd, "first_differing_fact": key,
                           "fact_a": show(a[k]) if k < len(a) else None, "fact_b": show(b[k]) if k < len(b) else None,
                           "request_latin1": rq["data"], "response_head_latin1": o["out"][:400], "client_error": o.get("exc"),
                           "handlers": FULL_HANDLERS, "tree": stree, "outside": outside},
                          tag=f"script-answer-differs:{proto}:{tr}:{key}")
    return found, n


def run(tier):
    chk = Check("C06", tier)
    chk.proofs(extra_files=["Corr/K06.v"])  # K: Corr file of this property
    found = False
    rng = chk.rng
    ntrees = 8 if tier == "thorough" else 3
    settings = [("always", "on"), ("never", "off"), ("unsupported", "on")]
    specs = []
    for i in range(ntrees):
        ae, ah = settings[i % len(settings)]
        cfg = dict(trees.SITE_CONFIG)
        cfg["pygopherd"] = {"abstract_entries": ae, "abstract_headers": ah}
        specs.append({"tree": trees.rich_tree(rng, hostile=True, n_hostile=10) + trees.remote_links(rng, n=12 if i else None),
                      "config": cfg, "_ae": ae})
    # one more world where the advertised port is not 70 (entries naming <our host>:70 are then remote)
    cfg7 = dict(trees.SITE_CONFIG)
    cfg7["pygopherd"] = {"abstract_entries": "always", "abstract_headers": "on"}
    specs.append({"tree": trees.rich_tree(rng, hostile=True, n_hostile=4) + trees.remote_links(rng, n=10), "config": cfg7,
                  "_ae": "always", "server_port": 7070})
    cfgm = dict(trees.SITE_CONFIG)
    cfgm["pygopherd"] = {"abstract_entries": "always", "abstract_headers": "on"}
    cfgm["handlers.HandlerMultiplexer"] = {"handlers": "[ZIP.ZIPHandler, " + FULL_HANDLERS[1:]}
    cfgm["handlers.ZIP.ZIPHandler"] = {"enabled": "true"}
    specs.append({"tree": trees.rich_tree(rng, hostile=False) + menu_objects(), "config": cfgm, "_ae": "always"})
    # a world of objects named like things a web (or WAP, or Gemini) front-end might answer by itself: every listed link is
    # followed in every protocol, the bytes and the announced type behind it are the same object everywhere
    cfgw = dict(trees.SITE_CONFIG)
    cfgw["pygopherd"] = {"abstract_entries": "always", "abstract_headers": "on"}
    specs.append({"tree": wellknown_objects(rng), "config": cfgw, "_ae": "always", "max_pages": 600})
    all_pages = pgsite.crawl_worlds(specs)
    ndirs = ndocs = 0
    for wi, pages in enumerate(all_pages):
        bysel = {}
        for p in pages:
            bysel.setdefault(p["selector"], {})[p["proto"]] = p
        for sel, per in sorted(bysel.items()):
            ref = per.get("gopher")
            if ref is None:
                continue
            refout = ref["out"].encode("latin-1")
            is_dir = ref["type"] == "1"
            if is_dir:
                ndirs += 1
                try:
                    wport = specs[wi].get("server_port", 70)
                    refview = pgsite.view_page("gopher", refout, wport)
                except V.Malformed as e:
                    continue  # C03/C05 territory
                for proto, p in per.items():
                    if proto == "gopher":
                        continue
                    chk.count((wi, sel, proto), nontrivial=len(refview) > 0)
                    if proto in LISTING_TYPE:
                        # what is listed as a menu and read as a menu is announced as the protocol's listing type
                        try:
                            announced = mime_of(proto, p["out"].encode("latin-1"))
                        except (V.Malformed, KeyError):
                            announced = None
                        if announced is not None and announced.split(b";")[0].strip() != LISTING_TYPE[proto]:
                            found = True
                            chk.violation({"what": "a menu is announced with another type than the protocol's listing type",
                                           "protocol": proto, "selector_latin1": sel, "announced": announced.decode("latin-1"),
                                           "expected": LISTING_TYPE[proto].decode(), "response_head_latin1": p["out"][:200],
                                           "tree": specs[wi]["tree"]}, tag=f"menu-kind-differs:{proto}")
                    try:
                        view = pgsite.view_page(proto, p["out"].encode("latin-1"), wport)
                    except V.Malformed as e:
                        found = True
                        chk.violation({"what": "directory page not readable in this protocol: %s" % e, "protocol": proto,
                                       "selector_latin1": sel, "response_latin1": p["out"][:400], "tree": specs[wi]["tree"]},
                                      tag=f"unreadable-listing:{proto}")
                        continue
                    a, b = refview, view
                    if specs[wi]["_ae"] == "unsupported" and proto in ("gopherplus", "sgopherplus"):
                        # protocols that carry abstracts natively leave the info lines out by configuration
                        a = [x for x in a if x[0] != "info"]
                        b = [x for x in b if x[0] != "info"]
                    if a != b:
                        found = True
                        k = next((i for i in range(min(len(a), len(b))) if a[i] != b[i]), min(len(a), len(b)))
                        chk.violation({"what": "a directory shows different entries in two protocols", "protocol_a": "gopher",
                                       "protocol_b": proto, "selector_latin1": sel, "first_difference_index": k,
                                       "entry_a": repr(a[k]) if k < len(a) else None, "entry_b": repr(b[k]) if k < len(b) else None,
                                       "abstract_entries": specs[wi]["_ae"], "tree": specs[wi]["tree"],
                                       "server_port": specs[wi].get("server_port", 70)},
                                      tag=f"listing-differs:{proto}" + diff_class(a[k] if k < len(a) else None, b[k] if k < len(b) else None))
            else:
                ndocs += 1
                mimes = {}
                for proto in ("http", "https", "gemini", "spartan"):
                    if proto in per:
                        try:
                            mimes[proto] = mime_of(proto, per[proto]["out"].encode("latin-1"))
                        except V.Malformed:
                            mimes[proto] = b"<malformed>"
                # WAP turns plain text into a deck of its own; everything else it hands on as it is
                wap_as_is = "wap" in per and mimes.get("http") not in (None, b"<malformed>") and \
                    mimes["http"].split(b";")[0].strip() != b"text/plain"
                if wap_as_is:
                    try:
                        mimes["wap"] = mime_of("wap", per["wap"]["out"].encode("latin-1"))
                    except (V.Malformed, KeyError):
                        mimes["wap"] = b"<malformed>"
                chk.count((wi, sel, "mime"), nontrivial=True)
                if len(set(mimes.values())) > 1:
                    found = True
                    chk.violation({"what": "a selector has different MIME types in different protocols", "selector_latin1": sel,
                                   "mime_types": {k: (v.decode("latin-1") if v else None) for k, v in mimes.items()},
                                   "tree": specs[wi]["tree"]}, tag="mime-differs")
                bodies = {pr: body_of(pr, per[pr]["out"].encode("latin-1")) for pr in per if pr != "wap" or wap_as_is}
                if len(set(bodies.values())) > 1:
                    found = True
                    chk.violation({"what": "a selector resolves to different objects in different protocols", "selector_latin1": sel,
                                   "bodies_head": {k: (v[:60].decode("latin-1") if v is not None else None) for k, v in bodies.items()},
                                   "tree": specs[wi]["tree"]}, tag="object-differs")

    # ---- Gopher+ in all its request forms ----
    # The listing of a directory is the same whatever form asks for it: "+" (plain lines), "$" (every
    # attribute of every item; the item descriptor is the +INFO line, Gopher+ 2.7), "$" followed by a list of
    # wanted attributes (a suggestion the server may ignore; the items are still the +INFO lines), and "!"
    # on a listed item gives that item's own descriptor.
    GP_FORMS = ["$", "$+INFO", "$+ABSTRACT", "$+VIEWS+ABSTRACT", "$+ADMIN", "$+INFO+ABSTRACT", "$+NOSUCH", "$+", "$+views",
                "$ +ABSTRACT", "+"]
    jobs, jmeta = [], []
    for wi, pages in enumerate(all_pages):
        dirs = sorted(set(p["selector"] for p in pages if p["proto"] == "gopher" and p["type"] == "1"))
        reqs, meta = [], []
        for sel in dirs:
            for proto in ("gopherplus", "sgopherplus"):
                for form in (GP_FORMS if proto == "gopherplus" else ["$", "$+ABSTRACT"]):
                    data, tls = gen.request_bytes(proto, gen.sel_bytes_to_str(sel.encode("latin-1")), gplus=form)
                    reqs.append({"data": gen.lat(data), "tls": tls})
                    meta.append((proto, sel, form))
        j = {"op": "world", "tree": specs[wi]["tree"], "config": specs[wi]["config"], "requests": reqs}
        if "server_port" in specs[wi]:
            j["server_port"] = specs[wi]["server_port"]
        jobs.append(j)
        jmeta.append(meta)
    gres = impl_run_parallel(jobs, chunks=len(jobs))
    nforms = 0
    for wi, (r, meta) in enumerate(zip(gres, jmeta)):
        if not r["ok"]:
            raise RuntimeError(r["err"] + r.get("tb", ""))
        wport = specs[wi].get("server_port", 70)
        refs = {p["selector"]: p for p in all_pages[wi] if p["proto"] == "gopher"}
        for (proto, sel, form), o in zip(meta, r["res"]["results"]):
            try:
                refview = pgsite.view_page("gopher", refs[sel]["out"].encode("latin-1"), wport)
            except V.Malformed:
                continue
            nforms += 1
            chk.count((wi, sel, proto, form), nontrivial=len(refview) > 0)
            out = o["out"].encode("latin-1")
            try:
                view = pgsite.view_page(proto, out, wport) if form == "+" else pgsite.view_gplus_dir(proto, out, wport)
            except V.Malformed as e:
                found = True
                chk.violation({"what": "directory not readable in this Gopher+ request form: %s" % e, "protocol": proto, "form": form,
                               "selector_latin1": sel, "request_latin1": gen.lat(gen.request_bytes(proto, gen.sel_bytes_to_str(sel.encode("latin-1")), gplus=form)[0]),
                               "response_latin1": o["out"][:400], "tree": specs[wi]["tree"]}, tag=f"unreadable-listing:{proto}:{form[:1]}")
                continue
            a, b = refview, view
            if specs[wi]["_ae"] == "unsupported":
                a = [x for x in a if x[0] != "info"]
                b = [x for x in b if x[0] != "info"]
            if a != b:
                found = True
                k = next((i for i in range(min(len(a), len(b))) if a[i] != b[i]), min(len(a), len(b)))
                chk.violation({"what": "a directory shows different entries in two request forms of Gopher+", "protocol_a": "gopher",
                               "protocol_b": proto, "form": form, "selector_latin1": sel, "first_difference_index": k,
                               "entries_plain_gopher": len(a), "entries_this_form": len(b),
                               "entry_a": repr(a[k]) if k < len(a) else None, "entry_b": repr(b[k]) if k < len(b) else None,
                               "request_latin1": gen.lat(gen.request_bytes(proto, gen.sel_bytes_to_str(sel.encode("latin-1")), gplus=form)[0]),
                               "response_head_latin1": o["out"][:300], "tree": specs[wi]["tree"]},
                              tag=f"listing-differs:{proto}:{'$+' if form.startswith('$') and len(form) > 1 else form}")

    # "!" on a listed local item: the descriptor (+INFO line) of the item itself names the same target
    # (type, selector, host, port) as the line of the listing that led to it
    jobs, jmeta = [], []
    for wi, pages in enumerate(all_pages):
        wport = specs[wi].get("server_port", 70)
        reqs, meta = [], []
        for p in pages:
            if p["proto"] != "gopher" or p["type"] != "1":
                continue
            try:
                menu = V.parse_gopher_menu(p["out"].encode("latin-1"))
            except V.Malformed:
                continue
            for m in menu:
                if (m["type"] != "i" and m["host"] == pgsite.SERVER and m["port"] == wport
                        and not re.match(rb"/?URL:", m["selector"]) and b"\t" not in m["selector"] and len(reqs) < 150):
                    reqs.append({"data": gen.lat(m["selector"] + b"\t!\r\n"), "tls": False})
                    meta.append((p["selector"], m))
        j = {"op": "world", "tree": specs[wi]["tree"], "config": specs[wi]["config"], "requests": reqs}
        if "server_port" in specs[wi]:
            j["server_port"] = specs[wi]["server_port"]
        jobs.append(j)
        jmeta.append(meta)
    bres = impl_run_parallel(jobs, chunks=len(jobs))
    nbang = 0
    for wi, (r, meta) in enumerate(zip(bres, jmeta)):
        if not r["ok"]:
            raise RuntimeError(r["err"] + r.get("tb", ""))
        for (dsel, m), o in zip(meta, r["res"]["results"]):
            out = o["out"].encode("latin-1")
            try:
                v = V.validate("gopherplus", out)
                items = V.parse_gopher_menu(pgsite.gplus_info_lines(v["body"])) if v["kind"] == "success" else None
            except V.Malformed:
                items = []
            if items is None:
                continue   # the listed item cannot be served: C05's business
            nbang += 1
            chk.count((wi, dsel, m["selector"], "!"), nontrivial=True)
            want = (m["type"], m["selector"], m["host"], m["port"])
            got = [(x["type"], x["selector"], x["host"], x["port"]) for x in items]
            if got != [want]:
                found = True
                chk.violation({"what": "the Gopher+ item descriptor (\"!\") of a listed item names another target than the listing",
                               "directory_latin1": dsel, "listed": repr(want), "descriptor": repr(got),
                               "request_latin1": gen.lat(m["selector"] + b"\t!\r\n"), "response_head_latin1": o["out"][:300],
                               "tree": specs[wi]["tree"]}, tag="item-descriptor-differs:gopherplus:!")

    # ---- trailing slash on directory selectors ----
    tree = trees.rich_tree(rng, hostile=True, n_hostile=6)
    dirs = ["", "/dir1", "/dir1/sub", "/odd", "/maps", "/md", "/umn", "/odd/dir with space", "/emptydir"]
    reqs, meta = [], []
    for proto in gen.PROTOCOLS:
        for d in dirs:
            for srch in (None, "needle"):
                if srch and proto in ("gemini",) and d == "":
                    continue
                for s in (d, d + "/"):
                    data, tls = gen.request_bytes(proto, s, search=srch)
                    reqs.append({"data": gen.lat(data), "tls": tls})
                    meta.append((proto, d + ("?q" if srch else ""), s))
    r = impl_run([{"op": "world", "tree": tree, "config": trees.SITE_CONFIG, "requests": reqs}])[0]
    if not r["ok"]:
        raise RuntimeError(r["err"] + r.get("tb", ""))
    outs = r["res"]["results"]
    nslash = 0
    for i in range(0, len(outs), 2):
        a = gen.mask_times(outs[i]["out"].encode("latin-1"))
        b = gen.mask_times(outs[i + 1]["out"].encode("latin-1"))
        nslash += 1
        chk.count(("slash",) + meta[i][:2], nontrivial=True)
        if a != b:
            found = True
            chk.violation({"what": "a directory selector resolves differently with a trailing slash", "protocol": meta[i][0],
                           "selector": meta[i][1], "without_head": a[:200].decode("latin-1"), "with_head": b[:200].decode("latin-1"),
                           "tree": tree}, tag=f"trailing-slash:{meta[i][0]}")

    # ---- search strings reach the handler unchanged ----
    qtree = [{"path": "echo.pyg", "data": PYG_ECHO, "mode": 0o755}, {"path": "q.sh", "data": SH_ECHO, "mode": 0o755},
             {"path": "echo.html.tal", "data": TAL_ECHO}]
    qcfg = dict(trees.SITE_CONFIG)
    qcfg["handlers.HandlerMultiplexer"] = {"handlers": FULL_HANDLERS}
    queries = ["needle", "two words", "a+b=c&d", "100%", "caf\u00e9", "\udcae", "\udcff\udcfe", "x\u20acy", "q?r", "sl/ash", "p%41q",
               "h\u00e4?&=#", "tab\there" if False else "semi;colon", "<b>&\"'"]
    for _ in range(30 if tier == "thorough" else 10):
        n = rng.randrange(1, 9)
        raw = bytes(rng.choice([rng.randrange(33, 127), rng.randrange(128, 256), 0x20]) for _ in range(n)).strip()
        raw = raw.replace(b"\t", b"x")
        if raw[:1] in (b"+", b"$", b"!"):
            # in-band ambiguity of the protocol family, not of this server: in a two-field Gopher request a second
            # field that starts like a Gopher+ command IS a Gopher+ command (Gopher+ 2.3); a Gopher+ client puts the
            # search string into the second of three fields, where any string is fine
            raw = b"x" + raw
        if raw:
            queries.append(raw.decode("utf-8", "surrogateescape"))
    reqs, meta = [], []
    queries += ["C++", "1+1=2", "a+b", "x;y", "k=v&k2=v2", "(paren)*!", "it's", "a,b:c@d", "slash/and?qm"]
    for sel in ("/echo.pyg", "/q.sh"):
        for proto in gen.PROTOCOLS:
            for q in queries:
                if q != q.strip():
                    continue
                data, tls = gen.request_bytes(proto, sel, search=q)
                reqs.append({"data": gen.lat(data), "tls": tls})
                meta.append((proto, sel, q))
                if proto == "gemini":
                    # a client may leave every character RFC 3986 allows in a query component unescaped
                    import urllib.parse as _up
                    raw = _up.quote_from_bytes(q.encode("utf-8", "surrogateescape"), safe="+&=;:@!$'()*,/?-._~")
                    data = ("gemini://gopher.example" + sel + "?" + raw + "\r\n").encode("ascii")
                    reqs.append({"data": gen.lat(data), "tls": True})
                    meta.append((proto, sel, q))
    r = impl_run([{"op": "requests_socket", "tree": qtree, "config": qcfg, "requests": reqs}])[0]
    if not r["ok"]:
        raise RuntimeError(r["err"] + r.get("tb", ""))
    nq = 0
    for (proto, sel, q), o in zip(meta, r["res"]["results"]):
        nq += 1
        chk.count(("query", proto, sel, q), nontrivial=True)
        out = o["out"].encode("latin-1")
        want = q.encode("utf-8", "surrogateescape").hex().encode()
        m = re.search(rb"Q=([0-9a-f]*|NONE)", out)
        got = m.group(1) if m else None
        if proto == "wap" and m is None:
            # WAP converts text/plain into WML; the payload survives as text
            m = re.search(rb"Q=([0-9a-f]*)", out)
            got = m.group(1) if m else None
        if got != want:
            found = True
            kind = "non-utf8" if any(0xDC80 <= ord(c) <= 0xDCFF for c in q) else "utf8"
            chk.violation({"what": "a search string does not reach the handler as the same string", "protocol": proto,
                           "handler_selector": sel, "query": q, "query_bytes_hex": want.decode(), "handler_saw_hex": got.decode() if got else None,
                           "request_latin1": gen.lat(gen.request_bytes(proto, sel, search=q)[0]), "response_latin1": o["out"][:300]},
                          tag=f"query-differs:{proto}:{kind}")
    # ---- no search string at all: absent in one protocol and request form, absent in every one ----
    def seen_query(sel, out):
        """what the echo object at sel reports as its search string: a hex string, '' or 'NONE' (both: none), or None"""
        if sel.endswith(".tal"):
            m_ = re.search(rb"Q=\[(.*?)\]", out, re.S)
            return None if m_ is None else m_.group(1).hex().encode()
        m_ = re.search(rb"Q=([0-9a-f]*|NONE)", out)
        return m_.group(1) if m_ else None

    nreqs, nmeta = [], []
    for sel in ("/echo.pyg", "/q.sh", "/echo.html.tal"):
        for proto in gen.PROTOCOLS:
            forms = ["+", "$", "!", "+text/plain", "$+ABSTRACT"] if proto in ("gopherplus", "sgopherplus") else [None]
            for form in forms:
                for q in (None, "needle"):
                    if form == "!" and sel != "/echo.pyg":
                        continue   # only the PYG object shows its search string in its item descriptor
                    data, tls = gen.request_bytes(proto, sel, search=q, gplus=form or "+")
                    nreqs.append({"data": gen.lat(data), "tls": tls})
                    nmeta.append((proto, form, sel, q, data))
    r = impl_run([{"op": "requests_socket", "tree": qtree, "config": qcfg, "requests": nreqs}])[0]
    if not r["ok"]:
        raise RuntimeError(r["err"] + r.get("tb", ""))
    nnone = 0
    nphantom = {}
    for (proto, form, sel, q, data), o in zip(nmeta, r["res"]["results"]):
        nnone += 1
        chk.count(("no-query", proto, form, sel, q), nontrivial=True)
        got = seen_query(sel, o["out"].encode("latin-1"))
        want = b"" if q is None else q.encode().hex().encode()
        if got == b"NONE":
            got = b""
        if got != want:
            found = True
            nphantom[proto] = nphantom.get(proto, 0) + 1
            if nphantom[proto] > 3:
                continue
            chk.violation({"what": ("a request without a search string reaches the handler with one" if q is None else
                                    "a search string does not reach the handler as the same string"),
                           "protocol": proto, "gopherplus_form": form, "handler_selector": sel, "query": q,
                           "handler_saw_hex": got.decode() if got is not None else None,
                           "handler_saw": bytes.fromhex(got.decode()).decode("latin-1") if got else got,
                           "request_latin1": gen.lat(data), "response_latin1": o["out"][:300]},
                          tag=(f"phantom-query:{proto}" if q is None else f"query-differs:{proto}:utf8"))

    # ---- search items followed from the listing, each protocol's own way, to the handler ----
    # A type-7 item whose selector holds characters that mean something in a URL is listed in every protocol; a
    # client submits a query the way that protocol's listing tells it to (TAB field; FORM ACTION; WML go; the
    # Gemini prompt: link -> 10 -> link?query -> 30 -> target; Spartan input link with a body).  The handler
    # must be the listed one and see the submitted string.
    import html as _html
    import urllib.parse as _up
    # ("?" and "|" are left out: in a selector they separate a script from its arguments, in every protocol alike)
    odd_dirs = ["plain", "c#", "pct%41", "sp ace", "\xae dir", "a+b", "semi;colon", "am&p=x", "caf\xc3\xa9", "x%zz", "d:colon@at"]
    stree, blocks = [], []
    for i, d in enumerate(odd_dirs):
        ext, body_ = (("pyg", PYG_ECHO) if i % 2 == 0 else ("sh", SH_ECHO))
        stree.append({"path": d + "/find." + ext, "data": body_, "mode": 0o755})
        blocks.append("Name=find %d\nType=7\nPath=/%s/find.%s\nHost=+\nPort=+\nNumb=%d\n" % (i, d, ext, i + 1))
    stree.append({"path": "srch/.Links", "data": "\n".join(blocks)})
    sjob = {"op": "requests_socket", "tree": stree, "config": qcfg}
    protos = list(gen.PROTOCOLS)
    r = impl_run([dict(sjob, requests=[{"data": gen.lat(gen.request_bytes(pr, "/srch")[0]), "tls": gen.TLS[pr]} for pr in protos])])[0]
    if not r["ok"]:
        raise RuntimeError(r["err"] + r.get("tb", ""))
    HOSTB = b"gopher.example"

    def search_items(proto, out):
        """per listed search item: what the client has to use to submit a query (selector bytes or href str)"""
        v = V.validate(proto, out)
        body = v["body"]
        if proto in ("gopher", "sgopher", "gopherplus", "sgopherplus"):
            return [m_["selector"] for m_ in V.parse_gopher_menu(body) if m_["type"] == "7"]
        if proto in ("http", "https"):
            return [row["form"] for row in V.html_rows(body) if row["form"] is not None]
        if proto == "wap":
            return [_html.unescape(h_) for h_ in re.findall(r'<go method="get" href="([^"]*)">', body.decode("utf-8", "surrogateescape"))]
        return [l_["href"] for l_ in V.gemtext_links(body) if proto == "gemini" or l_["search"]]

    listed = {}
    for pr, o in zip(protos, r["res"]["results"]):
        try:
            listed[pr] = search_items(pr, o["out"].encode("latin-1"))
        except (V.Malformed, KeyError) as e:
            listed[pr] = []
        if len(listed[pr]) != len(odd_dirs):
            found = True
            chk.violation({"what": "a directory of search items does not list them all as search items", "protocol": pr,
                           "listed": len(listed[pr]), "expected": len(odd_dirs), "response_latin1": o["out"][:600]},
                          tag=f"search-flow-listing:{pr}")
    truth = listed.get("gopher", [])
    squeries = ["needle", "two words", "a&b=c#d%41"]

    def submit(proto, item, q):
        qb = q.encode("utf-8")
        if proto in ("gopher", "sgopher"):
            return item + b"\t" + qb + b"\r\n"
        if proto in ("gopherplus", "sgopherplus"):
            return item + b"\t" + qb + b"\t+\r\n"
        href = item.encode("utf-8", "surrogateescape")
        if proto in ("http", "https", "wap"):
            return b"GET " + href + b"?searchrequest=" + _up.quote_from_bytes(qb, safe="").encode() + b" HTTP/1.0\r\n\r\n"
        if proto == "gemini":
            return b"gemini://" + HOSTB + href + b"?" + _up.quote_from_bytes(qb, safe="").encode() + b"\r\n"
        return HOSTB + b" " + href + b" " + str(len(qb)).encode() + b"\r\n" + qb

    sreqs, smeta = [], []
    for pr in protos:
        for i, item in enumerate(listed[pr]):
            if i >= len(truth):
                break
            for q in squeries:
                sreqs.append({"data": gen.lat(submit(pr, item, q)), "tls": gen.TLS[pr]})
                smeta.append((pr, i, q, "submit"))
            if pr == "gemini":
                sreqs.append({"data": gen.lat(b"gemini://" + HOSTB + item.encode("utf-8", "surrogateescape") + b"\r\n"), "tls": True})
                smeta.append((pr, i, None, "prompt"))
    r = impl_run([dict(sjob, requests=sreqs)])[0]
    if not r["ok"]:
        raise RuntimeError(r["err"] + r.get("tb", ""))
    final = []     # (proto, item index, query, request bytes, reply bytes)
    follow, fmeta = [], []
    for (pr, i, q, what), rq, o in zip(smeta, sreqs, r["res"]["results"]):
        out = o["out"].encode("latin-1")
        if pr != "gemini":
            final.append((pr, i, q, rq["data"], out))
            continue
        m_ = re.match(rb"(\d\d) ([^\r\n]*)\r\n", out)
        if what == "prompt":
            if not m_ or m_.group(1) != b"10":
                found = True
                chk.violation({"what": "a Gemini search link does not lead to an input prompt (status 10)", "item": i,
                               "selector_latin1": gen.lat(truth[i]), "request_latin1": rq["data"], "response_latin1": o["out"][:200]},
                              tag="search-flow:gemini:prompt")
            continue
        if m_ and m_.group(1) in (b"30", b"31"):
            # the redirect target is a URL reference; the client resolves it against the server and asks again
            follow.append({"data": gen.lat(b"gemini://" + HOSTB + m_.group(2) + b"\r\n"), "tls": True})
            fmeta.append((pr, i, q, rq["data"]))
        else:
            final.append((pr, i, q, rq["data"], out))
    if follow:
        r = impl_run([dict(sjob, requests=follow)])[0]
        if not r["ok"]:
            raise RuntimeError(r["err"] + r.get("tb", ""))
        for (pr, i, q, first), rq, o in zip(fmeta, follow, r["res"]["results"]):
            final.append((pr, i, q, first + " -> " + rq["data"], o["out"].encode("latin-1")))
    nflow = 0
    nbad = {}
    for pr, i, q, req, out in final:
        nflow += 1
        chk.count(("search-flow", pr, i, q), nontrivial=True)
        m_ = re.search(rb"S=([0-9a-f]*);Q=([0-9a-f]*|NONE)", out)
        got = (bytes.fromhex(m_.group(1).decode()), m_.group(2)) if m_ else None
        want = (truth[i], q.encode("utf-8").hex().encode())
        if got != want:
            found = True
            nbad[pr] = nbad.get(pr, 0) + 1
            if nbad[pr] > 3:
                continue
            chk.violation({"what": "a query submitted the way the listing says does not reach the listed search item with that query",
                           "protocol": pr, "listed_selector_latin1": gen.lat(truth[i]), "query": q,
                           "handler_selector_latin1": gen.lat(got[0]) if got else None,
                           "handler_saw_query": (bytes.fromhex(got[1].decode()).decode("latin-1") if got[1] != b"NONE" else None) if got else None,
                           "requests_latin1": req, "response_latin1": out[:300].decode("latin-1")},
                          tag=f"search-flow:{pr}:" + ("selector" if got and got[0] != want[0] else "query" if got else "no-answer"))

    # ---- the same over real sockets, the request arriving in pieces ----
    # A query reaches the handler as the same string however the network cuts the request: in one segment,
    # cut in the middle, cut after the request line, cut inside what follows the request line, byte by byte.
    def cuts(data):
        n = len(data)
        eol = data.find(b"\r\n") + 2
        modes = {"whole": [], "halves": [n // 2], "thirds": [n // 3, 2 * n // 3]}
        if 1 < eol < n:
            modes["after-line"] = [eol]
            if n - eol > 1:
                mid = eol + (n - eol) // 2
                modes["line+part|rest"] = [mid]
                modes["line|part|rest"] = [eol, mid]
        if n <= 64:
            modes["bytes"] = list(range(1, n))
        out = {}
        for k_, pts in modes.items():
            pts = sorted(set(p_ for p_ in pts if 0 < p_ < n))
            out[k_] = [data[a_:b_] for a_, b_ in zip([0] + pts, pts + [n])]
        return out

    lqueries = ["needle", "two words & \"earl grey\" 100% -- steeping", "caf\u00e9 \udcae x", "a+b=c&d?e#f", "x" * 300,
                "tab-free;semi:colon,comma"] + [q_ for q_ in queries if 0 < len(q_) < 12][-3:]
    lreqs, lmeta = [], []
    for sel in ("/echo.pyg", "/q.sh"):
        for proto in gen.PROTOCOLS:
            for q in lqueries:
                data, tls = gen.request_bytes(proto, sel, search=q)
                for mode, pieces in cuts(data).items():
                    if sel == "/q.sh" and mode in ("thirds", "halves"):
                        continue
                    lreqs.append({"pieces": [gen.lat(x) for x in pieces], "tls": tls, "pause_ms": 2 if mode == "bytes" else 25})
                    lmeta.append((proto, sel, q, mode, data))
    nl = 8
    ljobs = [{"op": "c06_live", "tree": qtree, "config": qcfg, "requests": lreqs[i::nl]} for i in range(nl)]
    lres = impl_run_parallel(ljobs, chunks=nl)
    nlive = 0
    nsplit = {}
    for i, r in enumerate(lres):
        if not r["ok"]:
            raise RuntimeError(r["err"] + r.get("tb", ""))
        for (proto, sel, q, mode, data), o in zip(lmeta[i::nl], r["res"]["results"]):
            nlive += 1
            chk.count(("live-query", proto, sel, q, mode), nontrivial=True)
            out = o["out"].encode("latin-1")
            want = q.encode("utf-8", "surrogateescape").hex().encode()
            m = re.search(rb"Q=([0-9a-f]*|NONE)", out)
            got = m.group(1) if m else None
            if got != want:
                found = True
                nsplit[proto] = nsplit.get(proto, 0) + 1
                if nsplit[proto] > 3:
                    continue
                chk.violation({"what": "over a real socket a search string does not reach the handler as the same string when the "
                                       "request arrives in pieces", "protocol": proto, "handler_selector": sel, "query": q,
                               "delivery": mode, "pieces_latin1": [gen.lat(x) for x in cuts(data)[mode]][:12],
                               "query_bytes_hex": want.decode()[:200], "handler_saw_hex": got.decode()[:200] if got else None,
                               "client_error": o["exc"], "response_latin1": o["out"][:300]},
                              tag=f"query-differs-split:{proto}:{'whole' if mode == 'whole' else 'pieces'}")

    # ---- menus made by programs (any iterable) and executable content (process environment, both delivery paths) ----
    f_, nvmenu = run_virtual_menus(chk, tier)
    found = found or f_
    f_, nscript = run_scripts(chk, tier)
    found = found or f_

    # Gemini's two-step input dance: prompt, then redirect to selector?query
    greqs = [{"data": gen.lat(b"gemini://gopher.example/GEMINI-QUERY/echo.pyg\r\n"), "tls": True},
             {"data": gen.lat(b"gemini://gopher.example/GEMINI-QUERY/echo.pyg?a%20b%AE\r\n"), "tls": True}]
    r = impl_run([{"op": "world", "tree": qtree, "config": qcfg, "requests": greqs}])[0]
    g = [x["out"].encode("latin-1") for x in r["res"]["results"]]
    if not g[0].startswith(b"10 ") or g[1] != b"30 /echo.pyg?a%20b%AE\r\n":
        found = True
        chk.violation({"what": "Gemini search dance (prompt 10, then redirect 30 to selector?query) broken",
                       "responses": [x.decode("latin-1") for x in g]}, tag="gemini-query-dance")
    chk.sample({"kind": "listing", "selector": "/", "gopher_view": repr(pgsite.view_page("gopher", [p for p in all_pages[0] if p["proto"] == "gopher"][0]["out"].encode("latin-1"))[:400])})
    chk.sample({"kind": "query", "protocol": meta[3][0], "query": meta[3][2]})
    chk.coverage["oracle"] = {"trees": ntrees, "directory_pages": ndirs, "documents": ndocs, "trailing_slash_pairs": nslash,
                              "query_submissions": nq, "no_query_requests": nnone, "search_flow_submissions": nflow,
                              "gopherplus_request_forms": nforms, "gopherplus_item_descriptors": nbang, "live_socket_query_submissions": nlive,
                              "program_made_menu_views": nvmenu, "script_answers": nscript}
    chk.coverage["rule"] = ("every directory of each generated tree viewed through all 9 protocol variants, canonical (kind,name,target) "
                            "sequences compared with plain Gopher's; MIME type and body of every document compared across protocols; "
                            "the Gopher+ view taken in every request form (+, $, $ with attribute lists) and the item descriptor (!) of "
                            "every listed local item; links to other servers (other host and/or port) with selectors of every shape, "
                            "targets compared as (host, port, type, selector) after parsing gopher:// URLs back (RFC 4266); "
                            "a tree of objects named like things a protocol front-end might answer by itself (favicon.ico, robots.txt, index.*, "
                            "sitemap.xml, .well-known/..., names resembling the reserved prefixes where they are not reserved), at the root and "
                            "in sub-directories, every link followed in every protocol, bytes and announced type compared (WAP included "
                            "wherever it hands the object on as it is); "
                            "directory selectors with and without trailing slash; search strings (ASCII, UTF-8, non-UTF-8 bytes, URL "
                            "metacharacters) submitted through each protocol's own mechanism to a PYG and a CGI echo handler, in-process and over "
                            "real sockets (also with no query at all: absent everywhere; and search items with URL-significant characters followed from "
                            "each protocol's listing through its own submission mechanism, Gemini's prompt/redirect flow included) to the real ThreadingTCPServer with the request delivered whole, cut in two or three, cut after "
                            "the request line, cut inside what follows it, and byte by byte; menus made by programs (.pyg) whose "
                            "getdirlist() returns each kind of iterable the handler contract allows (list, tuple, deque, generator, iterator, "
                            "map/filter/chain objects, one-shot and re-iterable classes without len) viewed through all 9 variants and the "
                            "Gopher+ forms, compared with plain Gopher's view and with the view of the same items as a list; scripts "
                            "(ExecHandler) reporting their working directory, files beside them by relative name, arguments, environment, "
                            "standard input, standard error, exit status and 180 KB of output, asked for through all 9 variants with the "
                            "output file in memory, on a real descriptor and over the live server (real TCP/TLS), with the daemon "
                            "standing in different directories: the reported facts are the same for the same selector + search string")
    # ---- K: the Coq renderers / readers against the real code (harness/k06.py) ----
    kmism, kerr, kdetails = run_k06(chk, tier)
    found = found or bool(kdetails.get("oracle_hits"))  # run_k06 carries two implementation-level rules of its own
    if kmism or kerr:
        chk.correspondence_broken("K06 (renderers, directory walk, client-side readers: Model/RenderUrl.v, Model/ClientView.v)",
                                  {"mismatches": kmism[:10], "error": kerr, "counts": kdetails}, found)
    chk.assumptions += ["search strings submitted in the two-field form of plain Gopher do not begin with + $ or ! (such a field is a "
                        "Gopher+ command by the definition of Gopher+); every other protocol form carries any string"]
    chk.finish_proofs(found)
    return chk.finish("proof")
