"""C16 — ZIP archives are transparent."""
import json
import os

from common import Check, coq_eval, coq_str, coq_bool, coq_list, impl_run, impl_run_parallel
import gen
import c16gen as G

ARC = "XT"
ZSEL = "/" + ARC + ".zip"
TSEL = "/" + ARC

ZIP_FIRST = ("[ZIP.ZIPHandler, url.HTMLURLHandler, gophermap.BuckGophermapHandler, mbox.MaildirFolderHandler, "
             "mbox.MaildirMessageHandler, UMN.UMNDirHandler, html.HTMLFileTitleHandler, "
             "mbox.MBoxMessageHandler, mbox.MBoxFolderHandler, pyg.PYGHandler, scriptexec.ExecHandler, "
             "file.FileHandler, url.URLTypeRewriter]")
# conf/local.conf order: the ZIP handler after the real-file-only handlers
ZIP_LATE = ("[url.HTMLURLHandler, gophermap.BuckGophermapHandler, mbox.MaildirFolderHandler, "
            "mbox.MaildirMessageHandler, UMN.UMNDirHandler, html.HTMLFileTitleHandler, "
            "mbox.MBoxMessageHandler, mbox.MBoxFolderHandler, pyg.PYGHandler, scriptexec.ExecHandler, "
            "ZIP.ZIPHandler, file.FileHandler, url.URLTypeRewriter]")


def config_for(handlers):
    return {"handlers.HandlerMultiplexer": {"handlers": handlers},
            "handlers.ZIP.ZIPHandler": {"enabled": "true"},
            "handlers.dir.DirHandler": {"cachetime": "0"}}


# ----------------------------------------------------------------------------
# Gallina literals
# ----------------------------------------------------------------------------
def coq_member(m):
    if m["link"]:
        k = "(KLink %s)" % coq_str(m["dest"])
    elif m["is_dir"]:
        k = "KDir"
    else:
        k = "(KFile %s)" % coq_str(m["data"])
    return "(mkm %s %s %s)" % (coq_str(m["name"]), coq_str(m["oname"]), k)


def coq_members(ms):
    return coq_list(coq_member(m) for m in ms)


def coq_variant(v):
    return "(mkv %s %s %s %s)" % tuple(coq_bool(x) for x in v)


EXN_CODE = {"TypeError": 0, "IndexError": 1, "KeyError": 2}


def coq_index(r):
    """index dump of the real VFSZip -> literal of type N + (list xnode * (list str * list str))"""
    if "exc" in r:
        return "(XExc %d)" % EXN_CODE.get(r["exc"], 99)
    idx = r["index"]
    nodes = []
    for i in range(len(idx)):
        kind, val = idx[str(i)]
        if kind == "d":
            nodes.append("(XD %s)" % coq_list("(%s, %d%%nat)" % (coq_str(n), int(j)) for n, j in val))
        else:
            nodes.append("(XF %s)" % coq_str(val))
    return "(XOk %s %s %s)" % (coq_list(nodes), coq_list(coq_str(s) for s in r["invalid"]),
                                     coq_list(coq_str(s) for s in r["entrycache"]))


VOPS = {"stat": "VStat", "isdir": "VIsdir", "isfile": "VIsfile", "exists": "VExists", "listdir": "VListdir", "open": "VOpen"}


def coq_vres(op, r):
    if r[0] == "exc":
        return "RExc"
    if op == "stat":
        return "RStatDir" if r[1] == "dir" else "(RStatReg %d)" % r[2]
    if op in ("isdir", "isfile", "exists"):
        return "(RBool %s)" % coq_bool(r[1])
    if op == "listdir":
        return "(RNames %s)" % coq_list(coq_str(s) for s in r[1])
    if op == "open":
        return "(RData %s)" % coq_str(r[1])
    raise ValueError(op)


def coq_robs(r):
    if r[0] == "absent":
        return "RAbsent"
    if r[0] == "dir":
        return "(RDirSet %s)" % coq_list(coq_str(s) for s in r[1])
    return "(RFileData %s)" % coq_str(r[1])


def comps_lit(p):
    return coq_list(coq_str(c) for c in (p.split("/") if p else []))


# ----------------------------------------------------------------------------
# probes: which repairs does the code under test contain?  (each probe is also an
# implementation-level statement of the property: archive vs extracted tree)
# ----------------------------------------------------------------------------
PROBES = {
    # tag: (tree, member order, paths that exist in the extracted tree and must exist in the archive)
    "zip-link-through-later-dirlink": (
        [{"path": "d", "kind": "dir"}, {"path": "d/f.txt", "kind": "file", "data": "hello\n"},
         {"path": "l1", "kind": "link", "dest": "l2/f.txt"}, {"path": "l2", "kind": "link", "dest": "d"}],
        ["l1", "l2/f.txt", "l2"]),
    "zip-link-in-non-utf8flag-dir": (
        [{"path": "café", "kind": "dir"}, {"path": "café/a.txt", "kind": "file", "data": "A\n"},
         {"path": "café/l", "kind": "link", "dest": "a.txt"}],
        ["café/l"]),
    "zip-link-to-archive-root": (
        [{"path": "d", "kind": "dir"}, {"path": "d/a.txt", "kind": "file", "data": "A\n"},
         {"path": "d/up", "kind": "link", "dest": ".."}],
        ["d/up", "d/up/d/a.txt"]),
}
PROBE_ORDER = ["zip-link-through-later-dirlink", "zip-link-in-non-utf8flag-dir", "zip-link-to-archive-root"]


def job_for(tree, members, actions, handlers=ZIP_FIRST, extra_root=None, cwd_files=None, container=None, infolist=True):
    return {"op": "c16", "tree": G.extracted_of(tree), "stage": G.staged_of(tree), "members": members, "actions": actions,
            "config": config_for(handlers), "extra_root": extra_root or [], "cwd_files": cwd_files or [],
            "container": container, "infolist": infolist}


def obs_equal(a, b):
    """archive observation vs tree observation: class, children as sets, bytes"""
    if a[0] != b[0]:
        return False
    if a[0] == "dir":
        return sorted(a[1]) == sorted(b[1])
    if a[0] == "file":
        return a[1] == b[1]
    return True


def run_probes(chk):
    jobs = []
    for tag in PROBE_ORDER:
        tree, paths = PROBES[tag]
        jobs.append(job_for(tree, G.members_of(tree), [
            {"do": "vfs", "calls": [["obs", ZSEL + "/" + p] for p in paths]},
            {"do": "vfs_real", "calls": [["obs", TSEL + "/" + p] for p in paths]}]))
    out_tree = [{"path": "a.txt", "kind": "file", "data": "alpha\n"}, {"path": "d", "kind": "dir"},
                {"path": "d/b.txt", "kind": "file", "data": "beta\n"}]
    out_calls = [[op, s] for s in OUTSIDE_SELECTORS for op in ("exists", "isdir", "stat")]
    jobs.append(job_for(out_tree, G.members_of(out_tree), [{"do": "vfs", "calls": out_calls, "with_chain": True}],
                        extra_root=SITE_FILES))
    res = impl_run(jobs)
    variant = []
    found = False
    ro = res.pop()
    if not ro["ok"]:
        raise RuntimeError(ro["err"] + "\n" + ro.get("tb", ""))
    ao = ro["res"]["actions"][0]
    wrong = [(c, z, ch) for c, z, ch in zip(out_calls, ao.get("results", []), ao.get("chain", [])) if z != ch]
    delegate = "results" in ao and not wrong
    chk.count(("probe", "outside"))
    if not delegate:
        found = True
        chk.violation({"what": "a selector that is neither the archive nor below it is looked up INSIDE the archive "
                               "(VFSZip cuts len(archive name) characters off any selector) instead of being answered by "
                               "the file system the archive lives in",
                       "members": G.members_of(out_tree), "calls_archive_vs_site": wrong[:8]},
                      tag="zip-selector-outside-archive")
    for tag, r in zip(PROBE_ORDER, res):
        if not r["ok"]:
            raise RuntimeError(r["err"] + "\n" + r.get("tb", ""))
        tree, paths = PROBES[tag]
        za, ra = r["res"]["actions"]
        ok = "results" in za and all(obs_equal(x, y) for x, y in zip(za["results"], ra["results"]))
        variant.append(ok)
        chk.count(("probe", tag))
        if not ok:
            found = True
            chk.violation({"what": "a symbolic link that resolves to another member in the extracted tree is missing "
                                   "from the archive view (VFSZip.populate_cache)",
                           "tree": tree, "members": G.members_of(tree), "paths": paths,
                           "archive_observations": za.get("results", za), "tree_observations": ra["results"]}, tag=tag)
    return tuple(variant) + (delegate,), found


# what else the site has next to the tree and the archive
SITE_FILES = [{"path": "outside.txt", "data": "OUTSIDE\n"}, {"path": "outside.txt.abstract", "data": "about the site file\n"},
              {"path": "other.zip", "data": G.nested_zip_bytes()}]

# selectors that merely begin like the archive, site selectors, URL: selectors
OUTSIDE_SELECTORS = [ZSEL + "a.txt", ZSEL + "d/", ZSEL + "..", "/outside.txt", "/", TSEL + "/a.txt", "/nowhere/x",
                     "URL:http://example.org/", "URL:ab", "/XT.zi", "x" * len(ZSEL)]


# ----------------------------------------------------------------------------
# K: model vs real code
# ----------------------------------------------------------------------------
NSEQ = 4


def part_k(chk, tier, variant=None):
    rng = chk.rng
    cov = chk.coverage
    found = False
    if variant is None:
        variant, found = run_probes(chk)
    vlit = coq_variant(variant)
    ntrees = 60 if tier == "thorough" else 14
    nweird = 400 if tier == "thorough" else 80
    feats_cycle = [("symlinks", "prefixes", "dotdotnames"), ("symlinks", "utf8", "zipnames"), ("symlinks", "raw", "dotdotnames"),
                   ("utf8", "utf8noflag", "symlinks", "prefixes"), ("mbox", "exec", "maildir", "zipnames"),
                   ("links", "gophermap", "prefixes"), ()]
    jobs = []
    meta = []
    zl = len(ZSEL)
    conts = G.containers(rng, ntrees)
    for i in range(ntrees):
        tree = G.gen_tree(rng, feats_cycle[i % len(feats_cycle)] + (("rootmeta",) if i % 2 else ()))
        order = ["tree", "shuffle", "links_first", "dirs_last"][i % 4]
        members = G.with_member_fields(G.members_of(tree, rng, order), rng)
        sels = G.tree_selectors(tree, rng)
        calls = []
        for p in sels:
            for op in rng.sample(list(VOPS), 2):
                calls.append([op, ZSEL + ("/" + p if p else rng.choice(["", "/"]))])
        for sout in rng.sample(OUTSIDE_SELECTORS, 5):
            calls.append([rng.choice(list(VOPS)), sout])
        rng.shuffle(calls)
        # the archive side is asked in several orders, each on a fresh VFSZip (one instance = one request):
        # what an earlier lookup leaves behind must not change a later answer
        orders = [list(sels)]
        for _ in range(NSEQ - 1):
            o = list(sels)
            rng.shuffle(o)
            orders.append(o)
        acts = [{"do": "index"}, {"do": "vfs", "calls": calls, "with_chain": True},
                {"do": "vfs_real", "calls": [["obs", TSEL + ("/" + p if p else "")] for p in sels]}]
        for o in orders:
            acts.append({"do": "vfs", "calls": [["obs", ZSEL + ("/" + p if p else "")] for p in o]})
        jobs.append(job_for(tree, members, acts, extra_root=SITE_FILES,
                            container=conts[i]))
        meta.append(("tree", tree, members, sels, calls, orders))
    for members in G.weird_archives(rng, nweird):
        names = sorted({c for m in members for c in m["raw"].split("/")} | {"a", "d", "l"})
        qs = G.weird_queries(rng, names)
        calls = [[rng.choice(list(VOPS)), ZSEL + rng.choice(["/", ""]) + q] for q in qs]
        calls += [[rng.choice(list(VOPS)), sout] for sout in rng.sample(OUTSIDE_SELECTORS, 3)]
        jobs.append({"op": "c16", "tree": [], "members": members, "config": config_for(ZIP_FIRST),
                     "actions": [{"do": "index"}, {"do": "vfs", "calls": calls, "with_chain": True}]})
        meta.append(("weird", None, members, qs, calls, None))
    res = impl_run_parallel(jobs, chunks=8)
    pre = []
    idx_cases, vfs_cases, tree_cases = [], [], []
    idx_meta, vfs_meta, tree_meta = [], [], []
    oracle_hits = 0
    for k, (mt, r) in enumerate(zip(meta, res)):
        if not r["ok"]:
            raise RuntimeError(r["err"] + "\n" + r.get("tb", ""))
        kind, tree, members, sels, calls, orders = mt
        out = r["res"]
        il = out["infolist"]
        pre.append("Definition ms_%d : list member := %s." % (k, coq_members(il)))
        a = out["actions"]
        idx_cases.append("((%s, ms_%d), %s)" % (vlit, k, coq_index(a[0])))
        idx_meta.append(k)
        nontriv = "exc" not in a[0] and len(a[0]["index"]) > 2
        chk.count(("index", json.dumps(members, sort_keys=True)), nontrivial=nontriv)
        if "exc" in a[1]:
            vfs_cases.append("(((%s, ms_%d), (%s, [])), VRaised)" % (vlit, k, coq_str(ZSEL)))
        else:
            cl = coq_list("(%s, %s, %s)" % (VOPS[op], coq_str(s), coq_vres(op, ch))
                          for (op, s), ch in zip(calls, a[1]["chain"]))
            rl = coq_list(coq_vres(op, x) for (op, s), x in zip(calls, a[1]["results"]))
            vfs_cases.append("(((%s, ms_%d), (%s, %s)), VRes %s)" % (vlit, k, coq_str(ZSEL), cl, rl))
            # model-independent: a selector outside the archive is answered as the site answers it
            for (op, s), x, ch in zip(calls, a[1]["results"], a[1]["chain"]):
                if not (s == ZSEL or s.startswith(ZSEL + "/")) and x != ch:
                    oracle_hits += 1
                    found = True
                    chk.violation({"what": "a selector that is neither the archive nor below it is answered from inside the archive",
                                   "call": [op, s], "archive_vfs_answer": x, "site_answer": ch, "members": members},
                                  tag="zip-selector-outside-archive")
            for (op, s), x in zip(calls, a[1]["results"]):
                chk.count(("vfs", k, op, s), nontrivial=(x[0] == "ok" and x[1] is not False))
        vfs_meta.append(k)
        if kind == "tree":
            robs = dict(zip(sels, a[2]["results"]))
            for p, ro in robs.items():
                if "//" in p or p.startswith("/"):
                    continue
                tree_cases.append("((ms_%d, %s), %s)" % (k, comps_lit(p), coq_robs(ro)))
                tree_meta.append((k, p))
                chk.count(("treeobs", k, p), nontrivial=ro[0] != "absent")
            # model-independent statement at the VFS level: archive == extracted tree, in every order
            bad = {}            # path -> (order index, position)
            for oi, o in enumerate(orders):
                zres = a[3 + oi].get("results")
                if zres is None:
                    zres = [["exc"]] * len(o)
                for pos, (p, zo) in enumerate(zip(o, zres)):
                    chk.count(("vfsobs", k, oi, p), nontrivial=robs[p][0] != "absent")
                    if not obs_equal(zo, robs[p]):
                        bad.setdefault(p, []).append((oi, pos, zo))
            for p, hits in bad.items():
                oi, pos, zo = hits[0]
                order_dependent = len(hits) < len(orders)
                oracle_hits += 1
                found = True
                chk.violation({"what": "VFSZip and the extracted tree disagree on a path (class / children / bytes)"
                                       + (" -- only after certain earlier lookups on the same VFSZip" if order_dependent else ""),
                               "path": p, "archive_observation": zo, "tree_observation": robs[p],
                               "sequence": orders[oi][:pos + 1], "orders_tried": len(orders), "orders_failing": len(hits),
                               "tree": tree, "members": members, "pruned_links": out["pruned"]},
                              tag="zip-vfs-order-dependent" if order_dependent else
                                  (vfs_member_field_tag(members, p) or classify_vfs_diff(tree, p, variant)))
    imports = "Lib.Str Lib.ZipPath Model.Zip Corr.K16"
    # the member lists are compiled once and loaded by every shard
    import common as _c
    outdir = os.path.join(_c.BUILD, "C16", "shards")
    os.makedirs(outdir, exist_ok=True)
    with open(os.path.join(outdir, "k16pre.v"), "w") as fh:
        fh.write("From PG Require Import Lib.Str Lib.ZipPath Model.Zip.\nLocal Open Scope N_scope.\n" + "\n".join(pre) + "\n")
    rc, outp = _c.run(["timeout", "600", "coqc", "-Q", _c.COQ, "PG", "-w", "none", "k16pre.v"], cwd=outdir, timeout=700)
    if rc != 0:
        raise RuntimeError("cannot compile the member lists: " + outp[-2000:])
    pre_txt = "Require Import k16pre."
    m1, e1, n1 = coq_eval("C16", "k_index", imports, "chk_index", idx_cases, shard=12, pre=pre_txt)
    m2, e2, n2 = coq_eval("C16", "k_vfs", imports, "chk_vfs", vfs_cases, shard=12, pre=pre_txt)
    m3, e3, n3 = coq_eval("C16", "k_tree", imports, "chk_tree", tree_cases, shard=80, pre=pre_txt)
    # posixpath functions
    alpha = ["/", ".", "a", "b", "..", "//"]
    strings = [""]
    import itertools
    for n in range(1, 6 if tier == "thorough" else 5):
        strings.extend("".join(t) for t in itertools.product(["/", ".", "a"], repeat=n))
    for _ in range(600 if tier == "thorough" else 200):
        strings.append("".join(rng.choice(alpha) for _ in range(rng.randrange(3, 12))))
    pairs = [(rng.choice(strings), rng.choice(strings)) for _ in range(300)]
    pr = impl_run([{"op": "c16_paths", "paths": strings, "pairs": [list(p) for p in pairs]}])[0]
    if not pr["ok"]:
        raise RuntimeError(pr["err"])
    pr = pr["res"]
    pcases = ["(%s, (%s, (%s, %s)))" % (coq_str(s), coq_str(n), coq_str(sp[0]), coq_str(sp[1]))
              for s, n, sp in zip(strings, pr["norm"], pr["split"])]
    jcases = ["((%s, %s), %s)" % (coq_str(a), coq_str(b), coq_str(j)) for (a, b), j in zip(pairs, pr["join"])]
    m4, e4, n4 = coq_eval("C16", "k_path", imports, "chk_path", pcases, shard=400)
    m5, e5, n5 = coq_eval("C16", "k_join", imports, "chk_join", jcases, shard=400)
    for s in strings:
        chk.count(("path", s))
    errs = [e for e in (e1, e2, e3, e4, e5) if e]
    cov["correspondence"] = {
        "variant_detected": {"clear_invalid_paths_on_resolution": variant[0], "link_base_is_transcoded_name": variant[1],
                             "dot_target_is_archive_root": variant[2],
                             "selectors_outside_the_archive_go_to_the_site": variant[3]},
        "archives": len(jobs), "tree_archives": ntrees, "ill_formed_archives": len(jobs) - ntrees,
        "index_cases": len(idx_cases), "vfs_call_sequences": len(vfs_cases),
        "vfs_calls": sum(len(mt[4]) for mt in meta), "reference_tree_cases": len(tree_cases),
        "posixpath_cases": len(pcases) + len(jcases), "shards": n1 + n2 + n3 + n4 + n5,
        "mismatches": {"index": len(m1), "vfs": len(m2), "tree": len(m3), "normpath_split": len(m4), "join": len(m5)},
        "errors": errs, "vfs_level_oracle_hits": oracle_hits,
    }
    if meta:
        chk.sample({"kind": "archive", "members": meta[0][2][:6], "index": res[0]["res"]["actions"][0]})
    broken = bool(m1 or m2 or m3 or m4 or m5 or errs)
    if os.environ.get("C16_DEBUG") and m3:
        for i in m3[:5]:
            k, pth = tree_meta[i]
            print("TREE MISMATCH", pth, tree_cases[i][-300:], json.dumps(meta[k][2]))
    if broken:
        detail = {"index": [meta[idx_meta[i]][2] for i in m1[:3]],
                  "vfs": [{"members": meta[vfs_meta[i]][2], "calls": meta[vfs_meta[i]][4]} for i in m2[:2]],
                  "tree": [{"members": meta[tree_meta[i][0]][2], "path": tree_meta[i][1]} for i in m3[:3]],
                  "normpath_split": [strings[i] for i in m4[:10]], "join": [pairs[i] for i in m5[:10]],
                  "errors": errs, "variant": variant}
        chk.k16_broken = detail
    return found


def vfs_member_field_tag(members, p):
    """the path is a member whose container fields deviate, or a directory holding such a member"""
    raw = G.to_raw(p)
    own = [m for m in members if m.get("variant") and m["raw"].rstrip("/") == raw and m["kind"] != "dir"]
    if own:
        return "zip-vfs-member-field-differs:" + own[0]["variant"]
    return None


def classify_vfs_diff(tree, p, variant):
    import re
    if any(re.search(r"\.zip$", c) for c in p.split("/")):
        return "zip-vfs-differs-archive-like-name"
    by_path = {e["path"]: e for e in tree}
    parts = p.split("/") if p else []
    for i in range(1, len(parts) + 1):
        e = by_path.get("/".join(parts[:i]))
        if e and e["kind"] == "link":
            return "zip-vfs-link-differs"
    return "zip-vfs-differs"


# ----------------------------------------------------------------------------
# oracle: whole requests, /XT/<sel> vs /XT.zip/<sel>, every protocol
# ----------------------------------------------------------------------------
REAL_ONLY = {"MBoxFolderHandler", "MBoxMessageHandler", "MaildirFolderHandler", "MaildirMessageHandler",
             "PYGHandler", "ExecHandler"}


def mask(b, zipside):
    if zipside:
        b = b.replace(b"XT.zip", b"XT").replace(b"only_z", b"only_t")
    b = gen.mask_times(b)
    # a timestamp line may also be absent altogether: directories inside an archive carry no
    # time at all (stat gives 0), and Gopher+ omits Mod-Date for a zero time
    b = b.replace(b" Mod-Date: <T>\r\n", b"").replace(b"Last-Modified: <T>\r\n", b"")
    return b


def drop_lines(b, needles):
    if not needles:
        return b
    keep = []
    for line in b.split(b"\n"):
        if any(n in line for n in needles):
            continue
        keep.append(line)
    return b"\n".join(keep)


def needle_forms(sel):
    """how a selector may appear inside a listing line: raw bytes and percent-encoded"""
    raw = gen.sel_bytes(sel)
    import urllib.parse
    q = urllib.parse.quote_from_bytes(raw).encode()
    import html
    h = html.escape(sel, quote=True).encode("utf-8", "surrogateescape")
    return {raw, q, h}


def refusal_class(proto, out):
    """the protocol's not-found answer, or Spartan's server-error line (what an OSError from a handler becomes there)"""
    if gen.notfound_class(proto, out):
        return True
    return proto == "spartan" and out.startswith(b"5 ") and out.endswith(b"\r\n") and out.count(b"\n") == 1


def with_tal(handlers):
    """the same handler list with the template handler where the shipped configuration puts it"""
    return handlers.replace("html.HTMLFileTitleHandler", "tal.TALFileHandler, html.HTMLFileTitleHandler")


# Random trees carry the metadata of each directory in one content form, every class of forms takes part; in
# the forms tree each directory holds exactly one form, so that a difference can be put down to it (tag).
RANDOM_TREE_FORM_CLASSES = ("newline", "long-line", "bytes", "bytes-at-eof", "bounded-read", "unicode-linebreak")


def without_real_only(handlers):
    drop = ("mbox.MaildirFolderHandler", "mbox.MaildirMessageHandler", "mbox.MBoxMessageHandler",
            "mbox.MBoxFolderHandler", "pyg.PYGHandler", "scriptexec.ExecHandler", "ZIP.ZIPHandler")
    items = [h.strip() for h in handlers.strip()[1:-1].split(",")]
    return "[" + ", ".join(h for h in items if h not in drop) + "]"


def part_oracle(chk, tier):
    """The archive side runs with the full handler list; the extracted tree is served with the same list
    minus the real-file-only handlers (mailboxes, scripts, PYG): that is what the property says an archive
    has to look like.  Every other byte has to agree after masking the prefix and the timestamps."""
    rng = chk.rng
    found = False
    ntrees = 16 if tier == "thorough" else 4
    feats = [("symlinks", "mbox", "exec", "maildir", "links", "zipnames", "dotdotnames"),
             ("utf8", "raw", "symlinks", "gophermap", "mbox", "prefixes", "dotdotnames"),
             ("pyg", "exec", "utf8noflag", "utf8", "symlinks", "zipnames", "prefixes"),
             ("gophermap", "links", "symlinks", "prefixes", "zipnames")]
    protos = gen.PROTOCOLS
    jobs, meta = [], []
    degenerate = G.degenerate_trees()
    # the content form of metadata members: one tree that holds the same logical directory once per form
    # (line-ending conventions, bytes that are line breaks only to str.splitlines, non-UTF-8, long lines,
    # side-cars beyond a bounded read ...), served with the template handler switched on as well
    form_trees = [G.forms_tree(rng) for _ in range(3 if tier == "thorough" else 1)]
    conts = G.containers(rng, ntrees) + [{"writer": "zipfile", "sfx": True}, {"writer": "raw", "comment": True}, {"writer": "zipfile"},
                                        {"writer": "raw", "sfx": True, "store_all": True}, {"writer": "zipfile", "comment": True}][:len(degenerate)]
    fconts = [{"writer": "infozip"}, {"writer": "raw", "descriptor": True}, {"writer": "zipfile", "comment": True}]
    k0 = rng.randrange(len(fconts))
    conts += [fconts[(k0 + j) % len(fconts)] for j in range(len(form_trees))]
    for i in range(ntrees + len(degenerate) + len(form_trees)):
        big = ("bigfiles",)          # every oracle tree holds large members, the first of them always STORED
        if tier == "thorough" and i % 8 == 0:
            big += ("hugefiles",)
        is_forms = i >= ntrees + len(degenerate)
        if i < ntrees:
            # every random tree: each directory's metadata in one content form, the forms dealt out in rotation
            tree = G.apply_forms(G.gen_tree(rng, feats[i % len(feats)] + ("rootmeta", "nested") + big), rng,
                                 classes=RANDOM_TREE_FORM_CLASSES)
        elif is_forms:
            tree = form_trees[i - ntrees - len(degenerate)]
        else:
            tree = degenerate[i - ntrees][1]
        # per-member fields of the container (date stamps that are no calendar dates, creator systems, attribute
        # words, extra records, flag bits, comments, compression methods): none of them is part of the tree
        members = G.with_member_fields(G.members_of(tree, rng, ["tree", "shuffle", "links_first"][i % 3]), rng)
        if is_forms:
            fdirs = [e["path"] for e in tree if e["kind"] == "dir" and "/" not in e["path"]]
            sels = [""]
            for d in fdirs:
                sels += [d, d + "/gm", d + "/four.txt", d + "/one.txt", d + "/five.txt", d + "/three.html", d + "/page.html.tal",
                         d + "/.cap"]
        else:
            sels = G.tree_selectors(tree, rng, extra=4)
        sels = [p for p in sels if "//" not in p and not p.startswith("/")]
        if len(sels) > 70 and not is_forms:
            # always: the top, every stored archive and the first things inside it; the rest sampled
            arcs = [e["path"] for e in G.flatten(tree) if e["path"].endswith(".zip")]
            must = [p for p in sels if p == "" or p in arcs or any(p.startswith(a + "/") and p.count("/") == a.count("/") + 1 for a in arcs)]
            must = must[:40]
            rest = [p for p in sels if p not in must]
            sels = must + rng.sample(rest, min(len(rest), 70 - len(must)))
        extra = []
        for e in tree:
            if e["path"].endswith("mail.mbox"):
                extra += [e["path"] + "|/MBOX-MESSAGE/1", e["path"] + "|/MBOX-MESSAGE/7"]
            if e["path"].endswith("/md") or e["path"] == "md":
                extra += [e["path"] + "|/MAILDIR-MESSAGE/1"]
            if e["path"].endswith("run.sh"):
                extra += [e["path"] + "?arg"]
        climbers = ["../outside.txt", "a.txt/../../outside.txt", "./a.txt", "dir1//a.txt", "..", "x\x00y"]
        if is_forms:
            climbers = climbers[:1]
        allsels = sels + extra + climbers
        for handlers, hname in ((ZIP_FIRST, "zip-first"), (ZIP_LATE, "zip-late")):
            if is_forms:
                handlers = with_tal(handlers)
            zacts, tacts, plan = [], [], []
            for p in allsels:
                tsel = TSEL + ("/" + p if p else "")
                zsel = ZSEL + ("/" + p if p else "")
                zacts.append({"do": "handler", "sel": zsel})
                tacts.append({"do": "handler", "sel": tsel})
                plist = protos if hname == "zip-first" else rng.sample(protos, 3)
                if is_forms and p.count("/") == 1:
                    # what lies in a form's directory: its Gopher+ info (side-car, link-file and .cap blocks) and the
                    # document / menu itself in one more protocol; the directory of the form itself in every protocol
                    plist = [rng.choice(["gopherplus", "sgopherplus"]), rng.choice([q for q in protos if "plus" not in q])]
                    if hname != "zip-first":
                        plist = plist[:1]
                for proto in plist:
                    if proto in ("gopher", "sgopher", "gopherplus", "sgopherplus") and (p != p.strip() or "\t" in p):
                        continue
                    gp = rng.choice(["+", "!", "$"])
                    if is_forms and p.count("/") == 1:
                        gp = "!" if proto == plist[0] and not p.endswith((".cap", "/gm")) else "$"
                    d1, tls = gen.request_bytes(proto, tsel, gplus=gp)
                    d2, _ = gen.request_bytes(proto, zsel, gplus=gp)
                    tacts.append({"do": "req", "data": gen.lat(d1), "tls": tls})
                    zacts.append({"do": "req", "data": gen.lat(d2), "tls": tls})
                    plan.append((p, proto, gp, len(zacts) - 1, gen.lat(d1), gen.lat(d2), tls))
            # the entry OF the archive itself: asked for directly (getentry comes before prepare in every
            # protocol), as the header of its own menu, and as one line of the menu of its parent
            for label, tsel, zsel in (("<root>", TSEL, ZSEL), ("<parent>", "/only_t", "/only_z")):
                for proto in protos:
                    for gp in (("+", "!", "$") if proto in ("gopherplus", "sgopherplus") else ("+",)):
                        d1, tls = gen.request_bytes(proto, tsel, gplus=gp)
                        d2, _ = gen.request_bytes(proto, zsel, gplus=gp)
                        tacts.append({"do": "req", "data": gen.lat(d1), "tls": tls})
                        zacts.append({"do": "req", "data": gen.lat(d2), "tls": tls})
                        plan.append((label, proto, gp, len(zacts) - 1, gen.lat(d1), gen.lat(d2), tls))
            plan2, tree2, members2 = [], None, None
            if hname == "zip-first" and not is_forms:
                # history in ONE server process: the site is updated (archive rewritten in place, tree
                # re-extracted) between two rounds of browsing; the archive has to follow the tree
                tree2 = G.mutate_tree(tree, rng)
                members2 = G.with_member_fields(G.members_of(tree2, rng, "tree"), rng)
                rw = {"do": "rewrite", "tree": G.extracted_of(tree2), "stage": G.staged_of(tree2), "members": members2,
                      "container": conts[i]}
                zacts.append(rw)
                tacts.append(rw)
                sels2 = [p for p in G.tree_selectors(tree2, rng, extra=2) if "//" not in p and not p.startswith("/")]
                sels2 += [p for p in sels[:12] if p not in sels2]
                for p in sels2:
                    tsel = TSEL + ("/" + p if p else "")
                    zsel = ZSEL + ("/" + p if p else "")
                    for proto in rng.sample(protos, 2):
                        if proto in ("gopher", "sgopher", "gopherplus", "sgopherplus") and (p != p.strip() or "\t" in p):
                            continue
                        gp = rng.choice(["+", "!", "$"])
                        d1, tls = gen.request_bytes(proto, tsel, gplus=gp)
                        d2, _ = gen.request_bytes(proto, zsel, gplus=gp)
                        tacts.append({"do": "req", "data": gen.lat(d1), "tls": tls})
                        zacts.append({"do": "req", "data": gen.lat(d2), "tls": tls})
                        plan2.append((p, proto, gp, len(zacts) - 1, gen.lat(d1), gen.lat(d2), tls))
            common_kw = dict(extra_root=SITE_FILES,
                             cwd_files=[{"path": "mail.mbox", "data": G.MBOX.replace("one", "CWD-OUTSIDE")}])
            common_kw.update(container=conts[i], infolist=False)
            jobs.append(job_for(tree, members, zacts, handlers=handlers, **common_kw))
            jobs.append(job_for(tree, members, tacts, handlers=without_real_only(handlers), **common_kw))
            meta.append((tree, members, allsels, plan, hname, handlers, plan2, tree2, members2, conts[i], is_forms))
    # corpus: the D19 exhibit — a mailbox and a maildir at the top of an archive, a mailbox of the same
    # name in the server's working directory (outside the document root)
    ex_tree = [{"path": "a.txt", "kind": "file", "data": "alpha\n"},
               {"path": "mail.mbox", "kind": "file", "data": G.MBOX},
               {"path": "md", "kind": "dir", "explicit": True}, {"path": "md/new", "kind": "dir", "explicit": True},
               {"path": "md/cur", "kind": "dir", "explicit": True}, {"path": "md/tmp", "kind": "dir", "explicit": True},
               {"path": "md/new/1.msg", "kind": "file", "data": G.MAILMSG}]
    ex_reqs = [ZSEL + "/mail.mbox|/MBOX-MESSAGE/1", ZSEL + "/mail.mbox", ZSEL + "/md", ZSEL + "/md|/MAILDIR-MESSAGE/1"]
    ex_acts = []
    for sel in ex_reqs:
        d, tls = gen.request_bytes("gopher", sel)
        ex_acts.append({"do": "req", "data": gen.lat(d), "tls": tls})
    ex_job = job_for(ex_tree, G.members_of(ex_tree), ex_acts, handlers=ZIP_FIRST,
                     cwd_files=[{"path": "mail.mbox", "data": G.MBOX.replace("one", "CWD-OUTSIDE-THE-ROOT")}])
    res = impl_run_parallel(jobs + [ex_job], chunks=min(16, len(jobs) + 1))
    ex = res.pop()
    if not ex["ok"]:
        raise RuntimeError(ex["err"] + "\n" + ex.get("tb", ""))
    ex = ex["res"]
    leaked = [(sel, a["out"]) for sel, a in zip(ex_reqs, ex["actions"]) if "CWD-OUTSIDE-THE-ROOT" in a["out"]]
    chk.count(("corpus", "D19"))
    if leaked:
        found = True
        chk.violation({"what": "a selector into an archive is answered from a mailbox in the server's working directory: "
                               "the mailbox handler accepts the archive member and opens the member's relative path "
                               "on the real file system",
                       "selector": leaked[0][0], "response_latin1": leaked[0][1][:600], "members": G.members_of(ex_tree),
                       "cwd_files": ["mail.mbox (Subject: CWD-OUTSIDE-THE-ROOT)"], "config": config_for(ZIP_FIRST)},
                      tag="D19-answers-from-server-cwd")
    if ex["cwd_created"]:
        found = True
        chk.violation({"what": "a selector into an archive made the maildir handler create directories in the "
                               "server's working directory (mailbox.Maildir(relative member path), create=True)",
                       "selectors": ex_reqs, "created": ex["cwd_created"], "members": G.members_of(ex_tree),
                       "config": config_for(ZIP_FIRST)}, tag="D19-writes-in-server-cwd")
    nreq = ndiff = nreal = nhist = nmore = 0
    # the forms tree is looked at first: its tags name the content form a difference goes with
    for k in sorted(range(len(meta)), key=lambda j: not meta[j][10]):
        tree, members, allsels, plan, hname, handlers, plan2, tree2, members2, cont, is_forms = meta[k]
        rz_job, rt_job = res[2 * k], res[2 * k + 1]
        for r in (rz_job, rt_job):
            if not r["ok"]:
                raise RuntimeError(r["err"] + "\n" + r.get("tb", ""))
        zout, tout = rz_job["res"], rt_job["res"]
        zacts, tacts = zout["actions"], tout["actions"]
        # handler choice inside the archive
        idx = 0
        outside_archive = set()
        d19_paths = set()
        for p in allsels:
            zc = zacts[idx]["chain"]
            if ("|" in p or "?" in p) and zc and zc[0] in REAL_ONLY:
                # taken by a virtual-folder handler of the TOP-level chain (real file system): the request
                # never reaches the archive, whatever that handler then does is not about transparency
                outside_archive.add(p)
            idx += 1 + len([1 for q in plan if q[0] == p])
            inner = zc[1:] if zc and zc[0] == "ZIPHandler" else []
            chk.count(("handler", hname, json.dumps(members[:3]), p), nontrivial=bool(inner))
            bad = [h for h in inner if h in REAL_ONLY]
            if bad:
                found = True
                nreal += 1
                d19_paths.add(p)
                chk.violation({"what": "a handler that needs a real file is chosen for a member of a ZIP archive "
                                       "(its test on self.vfs is true for VFSZip, a subclass of VFS_Real, or it has none)",
                               "selector": ZSEL + "/" + p, "handler_chain": zc, "handler_list": hname,
                               "members": members, "config": config_for(handlers),
                               "created_in_server_cwd": zout["cwd_created"]}, tag="D19-real-only-handler-in-zip:" + bad[0])
        steps = [(1, q) for q in plan] + [(2, q) for q in plan2]
        # forms tree: the directory written in plain LF text is the control -- a difference is put down to the
        # content form only while that directory (same logical content) answers alike on both sides
        plain_alike = is_forms and all(mask(tacts[q[3]]["out"].encode("latin-1"), False) == mask(zacts[q[3]]["out"].encode("latin-1"), True)
                                       for _, q in steps if q[0].split("/")[0] == "f-lf")
        per_form = {}
        for step, (p, proto, gp, ai, d1, d2, tls) in steps:
            rt, rz = tacts[ai], zacts[ai]
            nreq += 2
            nhist += step == 2
            a = mask(rt["out"].encode("latin-1"), False)
            b = mask(rz["out"].encode("latin-1"), True)
            nf = gen.notfound_class(proto, rt["out"].encode("latin-1"))
            chk.count(("req", step, hname, proto, gp, p, json.dumps(members[:3])), nontrivial=not nf)
            if p in outside_archive:
                continue
            if ("|" in p or "?" in p) and nf:
                # virtual-folder arguments on something that is not a real mailbox/script: both sides have
                # to refuse; the wording of the refusal is not part of the tree
                same = refusal_class(proto, rz["out"].encode("latin-1"))
            else:
                same = a == b
            if not same:
                ndiff += 1
                found = True
                if is_forms:
                    # the same form fails in every protocol: two replays per form directory and handler list say it all
                    per_form[p.split("/")[0]] = per_form.get(p.split("/")[0], 0) + 1
                    if per_form[p.split("/")[0]] > 2:
                        nmore += 1
                        continue
                chk.violation({"what": "the answer for a selector into the archive differs from the answer for the "
                                       "same selector into the extracted tree (selector prefix and timestamps masked; "
                                       "tree served without the real-file-only handlers)",
                               "protocol": proto, "gopherplus_suffix": gp, "member_path": p, "handler_list": hname,
                               "request_tree_latin1": d1, "request_zip_latin1": d2, "tls": tls,
                               "response_tree": a.decode("latin-1")[:1500], "response_zip": b.decode("latin-1")[:1500],
                               "exception_zip": rz.get("exc"), "log_zip": rz.get("log"),
                               "tree": tree, "members": members, "pruned_links": zout["pruned"],
                               "config": config_for(handlers), "container": cont,
                               "member_fields": [{k: v for k, v in m.items() if k != "data"} for m in members
                                                 if m.get("variant") and m["raw"].rstrip("/").startswith(G.to_raw(p.split("|")[0]))][:12],
                               **({"content_form_of_the_metadata": G.form_of_dir(tree, p) or G.form_of_dir(tree, p.rsplit("/", 1)[0] if "/" in p else "")}
                                  if is_forms else {}),
                               **({"history": "step 2: after the archive was rewritten in place and the tree re-extracted, "
                                              "same server process",
                                   "tree_after_update": tree2, "members_after_update": members2} if step == 2 else {})},
                              tag=("zip-stale-after-rewrite:" if step == 2 else "") +
                                  (member_field_tag(members2 if step == 2 else members, p, a, b) or
                                   classify_request_diff(tree2 if step == 2 else tree, p, d19_paths, forms=plain_alike)))
        if zout["cwd_created"]:
            found = True
            chk.violation({"what": "requests into an archive created files in the server's working directory",
                           "created": zout["cwd_created"], "members": members, "handler_list": hname},
                          tag="D19-writes-in-server-cwd")
    chk.coverage["oracle_member_fields"] = {
        "field_variants": len(G.FIELD_VARIANTS), "classes": sorted({c for c, _ in G.FIELD_VARIANTS}),
        "date_stamps": [list(d) for d in G.DATE_VARIANTS],
        "members_with_a_deviating_field": sum(1 for m in meta if m[4] == "zip-first" for x in m[1] if x.get("variant")),
        "honoured_by": "the zipfile writer and the raw writer (zip(1) writes its own fields)"}
    chk.coverage["oracle_content_forms"] = {
        "forms": [n for n, _, _ in G.FORMS], "classes": sorted(set(G.FORM_CLASS.values())),
        "form_trees": len(form_trees), "directories_per_form_tree": len(G.FORMS),
        "classes_in_random_trees": list(RANDOM_TREE_FORM_CLASSES),
        "differences_in_the_forms_tree_beyond_two_replays_per_form": nmore,
        "metadata_members_in_a_form_other_than_lf": sum(1 for m in meta if m[4] == "zip-first" for e in G.flatten(m[0])
                                                        if e.get("form") not in (None, "lf")),
        "members": ".names / .Links / .cap/* / *.abstract / .abstract / gophermap / *.html (title) / *.html.tal (template, forms tree only)"}
    chk.coverage["oracle"] = {"trees": ntrees, "degenerate_archives": [n for n, _ in degenerate], "handler_lists": 2, "requests": nreq, "response_differences": ndiff,
                              "history_requests_after_in_place_rewrite": nhist,
                              "real_only_handler_inside_archive": nreal, "protocols": protos,
                              "masked": ["'XT.zip' -> 'XT' in the archive's answers",
                                         "Last-Modified / Mod-Date lines (value, and presence: archive directories have time 0)",
                                         "the extracted tree is served without the handlers that need a real file (mailboxes, scripts, PYG; also ZIP: an archive stored inside an archive is a document)",
                                         "wording of the refusal for selectors with |/? arguments"]}
    if meta:
        p, proto, gp, ai, d1, d2, tls = meta[-1][3][len(meta[-1][3]) // 2]
        chk.sample({"kind": "request pair", "protocol": proto, "request_tree_latin1": d1, "request_zip_latin1": d2,
                    "response_zip_latin1": res[-2]["res"]["actions"][ai]["out"][:200]})
    return found


def member_field_tag(members, p, a, b):
    """a difference that goes with a member whose container fields deviate (G.with_member_fields): the member asked
    for itself, or -- in a menu -- a member of that directory named in a line only one side has"""
    base = G.to_raw(p.split("|")[0].split("?")[0])
    by_raw = {m["raw"].rstrip("/"): m for m in members if m.get("variant")}
    if base in by_raw and by_raw[base]["kind"] != "dir":
        return "zip-member-field-differs:" + by_raw[base]["variant"]
    la, lb = a.split(b"\n"), b.split(b"\n")
    sa, sb = set(la), set(lb)
    odd = [l for l in la if l not in sb] + [l for l in lb if l not in sa]
    pre = base + "/" if base else ""
    best = None
    for raw, m in by_raw.items():
        if raw.startswith(pre) and "/" not in raw[len(pre):]:
            name = raw[len(pre):].encode("latin-1")
            if any(b"/" + n in l for l in odd for n in needle_forms_raw(name)) and (best is None or len(name) > best[0]):
                best = (len(name), m["variant"])
    if best is None and base in by_raw:
        best = (0, by_raw[base]["variant"])        # the directory's own placeholder member
    return "zip-member-field-differs:" + best[1] if best else None


def needle_forms_raw(name):
    import urllib.parse
    return {name, urllib.parse.quote_from_bytes(name).encode()}


def classify_request_diff(tree, p, d19_paths, forms=False):
    """stable tag for a response difference: by what the member path runs through"""
    if p == "<parent>":
        return "zip-archive-entry-in-parent-differs"
    if p == "<root>":
        return "zip-archive-root-entry-differs"
    base = p.split("|")[0].split("?")[0]
    if forms:
        # the forms tree: every directory holds one content form
        fc = G.form_class_near(tree, base)
        if fc and fc.startswith("template:"):
            return "zip-template-form-differs:" + fc[len("template:"):]
        if fc:
            return "zip-metadata-form-differs:" + fc
    if p in d19_paths or base in d19_paths:
        return "D19-archive-answer-differs"
    if any(q.startswith(base + "/") and "/" not in q[len(base) + 1:] for q in d19_paths if base) or \
            (base == "" and any("/" not in q for q in d19_paths)):
        return "D19-archive-listing-differs"
    by_path = {e["path"]: e for e in G.flatten(tree)}
    parts = base.split("/") if base else []
    import re
    if any(e["kind"] == "archive" and (base == e["path"] or base.startswith(e["path"] + "/")) for e in tree):
        return "zip-archive-inside-archive-differs"
    if any(re.search(r"\.zip$", c) for c in parts):
        return "zip-member-named-like-archive"
    for i in range(1, len(parts) + 1):
        e = by_path.get("/".join(parts[:i]))
        if e and e["kind"] == "link":
            return "zip-link-differs"
    e = by_path.get(base)
    if (e and e["kind"] == "dir") or base == "":
        return "zip-listing-differs"
    return "zip-response-differs"


def translator_tie(chk):
    """Gen/ZipReal.v (the tests on self.vfs as they stand in the source) must turn VFSZip away."""
    from common import coq_compute
    rc, out = coq_compute("C16", "t16", "Lib.Str Model.ZipChain Gen.ZipReal Corr.T16",
                          "(repo_guards && repo_vfs_truthiness_ok, (repo_guards, repo_vfs_truthiness_ok, vfs_truthiness_sites, repo_tests))")
    flat = out.replace("\n", " ")
    ok = rc == 0 and "= (true," in flat
    chk.coverage["translator_tie_real_only"] = {"repo_guards_and_vfs_truthiness": ok, "coq_output": out.strip()[-500:]}
    return ok


def run(tier):
    chk = Check("C16", tier)
    chk.proofs(extra_files=["Corr/K16.v", "Corr/T16.v"])
    chk.k16_broken = None
    found = part_k(chk, tier)
    found = part_oracle(chk, tier) or found
    if chk.k16_broken is not None:
        # a concrete failing input wins over the report that model and code disagree
        chk.correspondence_broken("K16 (VFSZip index / VFS operations / extracted-tree reference / posixpath)",
                                  chk.k16_broken, found)
    if chk.proof_ok and not translator_tie(chk) and not found:
        chk.violation({"what": "translator tie: the tests on self.vfs in mbox.py / pyg.py / scriptexec.py do not turn "
                               "VFSZip away (theorem C16_real_only_repo needs repo_guards = true), or a VFS class defines "
                               "__len__/__bool__ while VFS objects are used as truth values",
                       "detail": chk.coverage["translator_tie_real_only"]}, tag=None, no_input=True)
    chk.finish_proofs(found)
    chk.assumptions += [
        "zipfile (central directory parsing, decompression) is trusted: the member list given to the model is what the real "
        "library reports for the archive the real code reads",
        "the reference tree is the archive's members written to disk with their raw byte names (what zip(1)/unzip do on POSIX), "
        "absolute link targets taken relative to the tree's root, links that the OS cannot resolve inside the tree removed "
        "(a dangling link is listed by readdir but no handler can serve it)",
        "os.path.split/join/normpath modelled in Lib/ZipPath.v and compared with the real functions on every run",
        "only dbm.dumb exists on this image: shelve writes <cache>.dat/.dir/.bak, VFSZip.init_cache stats the un-suffixed name, "
        "never finds it and rebuilds the index on every request (tests/handlers/test_zip.py::test_save_cache fails on the "
        "baseline for the same reason); the cache files are deleted after every action",
        "in-process driver (real GopherRequestHandler.handle with fake socket objects); the server's working directory is a "
        "scratch directory so that D19's relative-path accesses are observable and harmless",
    ]
    chk.coverage["rule"] = (
        "K: seeded random trees (nested dirs, explicit/implicit directory members, dot-files, .abstract sidecars, .Links/.names/"
        "gophermap/.cap, UTF-8 names with and without the UTF-8 flag, raw non-UTF-8 names, relative/absolute/dangling/escaping/"
        "cyclic/chained symlink members, mbox/maildir/script/PYG) in 4 member orders + ill-formed archives (duplicate names, "
        "file used as directory, empty/./.. components, absolute names, empty link targets): real VFSZip.dircache, "
        "invalid_paths, entrycache and sequences of stat/isdir/isfile/exists/listdir/open vs the model evaluated in Coq; "
        "extract+os_walk vs the real extracted tree; posixpath functions vs Lib/ZipPath.v.  Oracle: every selector of the "
        "tree + paths through links + missing ones + climbers + virtual-folder arguments, 9 protocol syntaxes, 2 handler "
        "orders, /XT/<sel> vs /XT.zip/<sel> byte for byte after masking.  Content form of metadata members (.names/.Links/"
        ".cap/*, side-cars, gophermaps, HTML titles, templates): LF/CRLF/CR/mixed/no final newline/trailing blanks, long lines, "
        "non-UTF-8/BOM/NUL bytes, a truncated UTF-8 sequence at the end, FF/VT/FS/GS/RS/NEL/U+2028/U+2029 inside lines, side-cars "
        "beyond a bounded read -- per directory in every random oracle tree, and one tree with the same logical directory once per "
        "form (menus in 9 protocols, Gopher+ info and documents of what lies in it, template handler on).  Per-member fields "
        "of the container dealt out over the members of every archive (zipfile and raw writer): DOS date stamps incl. all-zero, "
        "month/day 0, month 13-15, hour 24-31, minute 60-63, seconds 60/62, 1980-01-01, 2107-12-31; creator systems; attribute "
        "words (zero, DOS only, unix mode without type bits, setuid/sticky); extra records; flag bits; comments; stored/deflate/"
        "bzip2/lzma; versions.  non-trivial = index has more than two inodes / "
        "call succeeded / answer is not the protocol's not-found")
    return chk.finish("proof")


# ----------------------------------------------------------------------------
# ./check C16 --replay <file>: re-run exactly that case against the repository
# ----------------------------------------------------------------------------
def replay(path):
    with open(path) as f:
        r = json.load(f)
    tag = r.get("tag") or ""
    if r.get("no_failing_input_found"):
        print("replay names a proof / correspondence obligation, not an input:", r.get("what"))
        return run("quick")
    members = r.get("members")
    tree = r.get("tree", [])
    handlers = (r.get("config") or {}).get("handlers.HandlerMultiplexer", {}).get("handlers", ZIP_FIRST)
    reproduced = False
    if "paths" in r or "path" in r:                       # VFS level
        paths = r.get("sequence") or r.get("paths") or [r["path"]]
        job = job_for(tree, members, [
            {"do": "vfs", "calls": [["obs", ZSEL + ("/" + p if p else "")] for p in paths]},
            {"do": "vfs_real", "calls": [["obs", TSEL + ("/" + p if p else "")] for p in paths]}])
        res = impl_run([job])[0]
        if not res["ok"]:
            raise RuntimeError(res["err"])
        za, ra = res["res"]["actions"]
        for p, x, y in zip(paths, za.get("results", [["exc"]] * len(paths)), ra["results"]):
            same = obs_equal(x, y)
            print("path %r: archive %s / tree %s -> %s" % (p, x[:2], y[:2], "same" if same else "DIFFERENT"))
            reproduced = reproduced or not same
    elif "request_zip_latin1" in r:                        # whole request
        acts_z = [{"do": "req", "data": r["request_zip_latin1"], "tls": r["tls"]}]
        acts_t = [{"do": "req", "data": r["request_tree_latin1"], "tls": r["tls"]}]
        if "history" in r:                                 # browse, update the site in place, browse again
            rw = {"do": "rewrite", "tree": G.extracted_of(r["tree_after_update"]), "stage": G.staged_of(r["tree_after_update"]),
                  "members": r["members_after_update"], "container": r.get("container")}
            root_z, _ = gen.request_bytes("gopher", ZSEL)
            acts_z = [{"do": "req", "data": gen.lat(root_z), "tls": False}] + acts_z + [rw] + acts_z
            acts_t = [{"do": "req", "data": r["request_tree_latin1"], "tls": r["tls"]}] + acts_t + [rw] + acts_t
        jz = job_for(tree, members, acts_z, handlers=handlers, extra_root=SITE_FILES,
                     container=r.get("container"), infolist=False)
        jt = job_for(tree, members, acts_t, handlers=without_real_only(handlers),
                     extra_root=SITE_FILES, container=r.get("container"), infolist=False)
        rz, rt = impl_run([jz, jt])
        for x in (rz, rt):
            if not x["ok"]:
                raise RuntimeError(x["err"])
        a = mask(rt["res"]["actions"][-1]["out"].encode("latin-1"), False)
        b = mask(rz["res"]["actions"][-1]["out"].encode("latin-1"), True)
        p = r.get("member_path", "")
        if ("|" in p or "?" in p) and gen.notfound_class(r["protocol"], rt["res"]["actions"][-1]["out"].encode("latin-1")):
            same = refusal_class(r["protocol"], rz["res"]["actions"][-1]["out"].encode("latin-1"))
        else:
            same = a == b
        print("tree   :", a[:300])
        print("archive:", b[:300])
        print("->", "same" if same else "DIFFERENT")
        reproduced = not same
    elif "handler_chain" in r:                             # handler choice inside the archive
        job = job_for([], members, [{"do": "handler", "sel": r["selector"]}], handlers=handlers)
        res = impl_run([job])[0]
        if not res["ok"]:
            raise RuntimeError(res["err"])
        chain = res["res"]["actions"][0]["chain"]
        print("selector %r -> %s" % (r["selector"], chain))
        reproduced = chain[:1] == ["ZIPHandler"] and any(h in REAL_ONLY for h in chain[1:])
    elif tag.startswith("D19-answers-from-server-cwd") or tag.startswith("D19-writes-in-server-cwd"):
        sels = [r["selector"]] if "selector" in r else r["selectors"]
        acts = []
        for s in sels:
            d, tls = gen.request_bytes("gopher", s)
            acts.append({"do": "req", "data": gen.lat(d), "tls": tls})
        job = job_for([], members, acts, handlers=handlers,
                      cwd_files=[{"path": "mail.mbox", "data": G.MBOX.replace("one", "CWD-OUTSIDE-THE-ROOT")}])
        res = impl_run([job])[0]
        if not res["ok"]:
            raise RuntimeError(res["err"])
        outs = [a["out"] for a in res["res"]["actions"]]
        print("answers:", [o[:80] for o in outs], "created in cwd:", res["res"]["cwd_created"])
        reproduced = any("CWD-OUTSIDE-THE-ROOT" in o for o in outs) or bool(res["res"]["cwd_created"])
    else:
        print("unknown replay shape")
        return 2
    print("REPRODUCED" if reproduced else "not reproduced")
    return 1 if reproduced else 0
