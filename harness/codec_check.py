#!/usr/bin/env python3
"""Correspondence of the codec libraries (coq/Lib/Percent.v, Utf8.v, PercentStr.v)
with CPython: the real urllib.parse.quote / quote_from_bytes / unquote /
unquote_to_bytes and the real UTF-8 + surrogateescape codec of the interpreter
pygopherd runs under, against the Gallina definitions evaluated inside Coq
(Corr/KCodec.v).

    run_codec(chk, tier) -> (mismatch_count, errors)

is meant to be called from the property checks that rest on the codec theorems
(chk is a common.Check); `python3 harness/codec_check.py [--tier quick|thorough]`
runs it alone, prints a summary and exits 0/1."""
import itertools
import os
import sys
import time

sys.path.insert(0, os.path.dirname(os.path.abspath(__file__)))
from common import (Check, build, coq_eval, coq_opt, impl_run, run, grep_forbidden,  # noqa: E402
                    BUILD, COQ)

IMPORTS = "Lib.Str Lib.Bytes Lib.Percent Lib.Utf8 Lib.PercentStr Corr.KCodec"
SHARD = 1500

BOUNDARY = [0x00, 0x7f, 0x80, 0x8f, 0x90, 0x9f, 0xa0, 0xbf, 0xc0, 0xc1, 0xc2, 0xdf, 0xe0, 0xed, 0xee, 0xef,
            0xf0, 0xf4, 0xf5, 0xff]
THIRD_QUICK = [0x00, 0x7f, 0x80, 0x8f, 0x90, 0x9f, 0xa0, 0xbf, 0xc0, 0xc2, 0xe0, 0xff]
UNQ_ALPHABET = ["%", "4", "1", "a", "F", "g", "z", "/"]
CP_BOUNDARY = [0x00, 0x41, 0x7f, 0x80, 0x7ff, 0x800, 0xd7ff, 0xd800, 0xdbff, 0xdc00, 0xdc7f, 0xdc80, 0xdcff,
               0xdd00, 0xdfff, 0xe000, 0xffff, 0x10000, 0x10ffff]
SAFE_BYTES = [b"/", b"", b"/?=&:@", b"%", b"\xe9/~", bytes(range(256))]
SAFE_STRS = ["/", "", "/?=&", "%", "\xe9/", "\udcff/"]

MAIN_THEOREMS = [
    ("Lib.PercentFacts", "unquote_quote"), ("Lib.PercentFacts", "quote_charset"),
    ("Lib.PercentFacts", "quote_no_space_ctl"), ("Lib.PercentFacts", "quote_injective"),
    ("Lib.PercentFacts", "unquote_idempotent_on_plain"),
    ("Lib.Utf8Facts", "encode_decode_se"), ("Lib.Utf8Facts", "decode_se_ascii"),
    ("Lib.Utf8Facts", "decode_se_length_le"),
    ("Lib.PercentStrFacts", "unquote_quote_str"), ("Lib.PercentStrFacts", "unquote_py_quote_str"),
]
CODEC_FILES = ["Lib/Bytes.v", "Lib/Percent.v", "Lib/PercentFacts.v", "Lib/Utf8.v", "Lib/Utf8Facts.v",
               "Lib/PercentStr.v", "Lib/PercentStrFacts.v", "Corr/KCodec.v"]


def lat(b):
    return bytes(b).decode("latin-1")


def pack(values, bits, per):
    """list of ints -> Gallina `list int` literal (primitive integers): chunks of
    `per` elements of `bits` bits, least significant first, marker bit on top
    (unpacked by Corr/KCodec.v `unpack`)."""
    out = []
    for i in range(0, len(values), per):
        n = 1
        for x in reversed(values[i:i + per]):
            n = (n << bits) | x
        out.append(str(n))
    return "[" + ";".join(out) + "]"


def cb(s):
    """bytes / ASCII text (latin-1 transport string or bytes) -> packed literal"""
    return pack(list(s) if isinstance(s, (bytes, bytearray)) else [ord(c) for c in s], 8, 7)


def cs(s):
    """str or list of code points -> packed literal"""
    return pack(s if isinstance(s, list) else [ord(c) for c in s], 21, 2)


def cps(s):
    return [ord(c) for c in s]


# ----------------------------------------------------------------------------
# generators
# ----------------------------------------------------------------------------
def random_bytes(rng, n):
    """Byte strings mixing well-formed UTF-8, truncated/over-long/surrogate
    sequences, boundary bytes and plain noise."""
    out = []
    for _ in range(n):
        parts = []
        for _ in range(rng.randrange(2, 14)):
            k = rng.random()
            if k < 0.30:
                cp = rng.choice([rng.randrange(0x80), rng.randrange(0x80, 0x800), rng.randrange(0x800, 0xd800),
                                 rng.randrange(0xe000, 0x10000), rng.randrange(0x10000, 0x110000)])
                enc = chr(cp).encode("utf-8")
                if rng.random() < 0.3:
                    enc = enc[:rng.randrange(0, len(enc) + 1)]      # truncated
                parts.append(enc)
            elif k < 0.45:
                parts.append(bytes(rng.choice(BOUNDARY) for _ in range(rng.randrange(1, 5))))
            elif k < 0.55:
                # encoded surrogates / over-long forms / beyond U+10FFFF
                parts.append(rng.choice([b"\xed\xa0\x80", b"\xed\xbf\xbf", b"\xed\xb2\x80", b"\xc0\xaf", b"\xc1\xbf",
                                         b"\xe0\x80\xaf", b"\xe0\x9f\xbf", b"\xf0\x80\x80\xaf", b"\xf0\x8f\xbf\xbf",
                                         b"\xf4\x90\x80\x80", b"\xf5\x80\x80\x80", b"\xf8\x88\x80\x80\x80",
                                         b"\xfc\x84\x80\x80\x80\x80", b"\xfe", b"\xff", b"\xef\xbf\xbd"]))
            elif k < 0.75:
                parts.append(bytes(rng.randrange(256) for _ in range(rng.randrange(1, 6))))
            else:
                parts.append(bytes(rng.choice(b"abcXYZ019 /%?&=<>\"'#~._-+\t\r\n\x00\x7f")
                                   for _ in range(rng.randrange(1, 6))))
        out.append(b"".join(parts))
    return out


def random_strs(rng, n):
    """Python strs: ASCII, BMP, astral, every kind of lone surrogate."""
    out = []
    for _ in range(n):
        cs = []
        for _ in range(rng.randrange(1, 12)):
            k = rng.random()
            if k < 0.35:
                cs.append(chr(rng.choice(b"abcXYZ019 /%?&=<>\"'#~._-+\t\n\x00\x7f")))
            elif k < 0.55:
                cs.append(chr(rng.choice(CP_BOUNDARY)))
            elif k < 0.70:
                cs.append(chr(rng.randrange(0xdc80, 0xdd00)))       # escaped bytes
            elif k < 0.76:
                cs.append(chr(rng.randrange(0xd800, 0xe000)))       # any surrogate
            else:
                cs.append(chr(rng.choice([rng.randrange(0x80, 0x800), rng.randrange(0x800, 0xd800),
                                          rng.randrange(0xe000, 0x10000), rng.randrange(0x10000, 0x110000)])))
        out.append("".join(cs))
    return out


def random_quoted(rng, n, ascii_only):
    """Strings with many "%" in all the interesting positions."""
    hexish = "0123456789abcdefABCDEF"
    other = "gGzZ/ ?%+-_.~xX\x00\x7f"
    wide = ["\xe9", "€", "\udcff", "\udc80", "\ud800", "\U0001f600", "\x80", "\xff"]
    out = []
    for _ in range(n):
        cs = []
        for _ in range(rng.randrange(1, 10)):
            k = rng.random()
            if k < 0.45:
                cs.append("%" + rng.choice(hexish) + rng.choice(hexish))
            elif k < 0.55:
                cs.append("%" + rng.choice(hexish))
            elif k < 0.65:
                cs.append("%")
            elif k < 0.72:
                cs.append("%" + rng.choice(other) + rng.choice(hexish))
            elif k < 0.85 or ascii_only:
                cs.append(rng.choice(hexish + other))
            else:
                cs.append(rng.choice(wide))
        out.append("".join(cs))
    return out


# ----------------------------------------------------------------------------
# the comparison
# ----------------------------------------------------------------------------
def run_codec(chk, tier, count=True):
    """Compare the Gallina codecs with CPython on the generated inputs.
    Returns (number of mismatching cases, list of error strings).  Details are
    left in chk.coverage["codec_correspondence"]."""
    t0 = time.time()
    rng = chk.rng
    thorough = tier == "thorough"
    errors = []
    details = {}
    total_mism = 0
    total_cases = 0
    total_shards = 0

    # ---- inputs ----
    short = [b""] + [bytes([a]) for a in range(256)] + [bytes([a, b]) for a in range(256) for b in range(256)]
    thirds = BOUNDARY if thorough else THIRD_QUICK
    three = [bytes([a, b, c]) for a in range(0xe0, 0xf5) for b in range(256) for c in thirds]
    four = [bytes(t) for t in itertools.product(BOUNDARY, repeat=4)]
    rnd_bytes = random_bytes(rng, 12000 if thorough else 3000)
    dec_only = three + four
    if thorough:
        # every three-byte string whose first two bytes can begin a sequence
        dec_only += [bytes([a, b, c]) for a in range(0xe0, 0xf5) for b in range(0x80, 0xc0) for c in range(256)
                     if c not in thirds]

    singles = ([chr(c) for c in range(0x900)] + [chr(c) for c in range(0xd700, 0xe100)] +
               [chr(c) for c in range(0xff00, 0x10100)] + [chr(c) for c in range(0x10ff00, 0x110000)] +
               [chr(rng.randrange(0x110000)) for _ in range(500)])
    pairs = [chr(a) + chr(b) for a in CP_BOUNDARY for b in CP_BOUNDARY]
    triples = [chr(a) + chr(b) + chr(c) for a in CP_BOUNDARY for b in CP_BOUNDARY for c in CP_BOUNDARY] if thorough else []
    rnd_strs = random_strs(rng, 6000 if thorough else 1500)
    decoded = [b.decode("utf-8", "surrogateescape") for b in rnd_bytes[:1000]]
    enc_inputs = singles + pairs + triples + rnd_strs + decoded

    qs_inputs = []
    pool = pairs + rnd_strs[:600] + decoded[:300] + singles[::37]
    for i, s in enumerate(pool):
        qs_inputs.append([cps(SAFE_STRS[i % len(SAFE_STRS)]), cps(s)])
        if i % 3 == 0:
            qs_inputs.append([cps("/"), cps(s)])

    q_inputs = []
    one = [b""] + [bytes([a]) for a in range(256)]
    for safe in SAFE_BYTES:
        for b in one:
            q_inputs.append([lat(safe), lat(b)])
    for i, b in enumerate(rnd_bytes[:600]):
        q_inputs.append([lat(SAFE_BYTES[i % len(SAFE_BYTES)]), lat(b)])
    via_quote = [lat(b) for b in rnd_bytes[600:1100]]

    unq_small = [""]
    for n in range(1, (5 if thorough else 4) + 1):
        unq_small.extend("".join(t) for t in itertools.product(UNQ_ALPHABET, repeat=n))
    unq_pairs = ["%" + chr(a) + chr(b) for a in range(128) for b in range(128)]
    unq_rnd = random_quoted(rng, 8000 if thorough else 2000, ascii_only=True)
    unq_ascii = unq_small + unq_pairs + unq_rnd
    unq_any = random_quoted(rng, 8000 if thorough else 2000, ascii_only=False) + rnd_strs[:500]
    unq_bytes = []
    for b in random_bytes(rng, 1500):
        # sprinkle escapes into raw byte strings
        pieces = []
        for x in b:
            pieces.append(bytes([x]))
            if rng.random() < 0.25:
                pieces.append(rng.choice([b"%", b"%4", b"%41", b"%fF", b"%zz", b"%%", b"%\xff1", b"%e9"]))
        unq_bytes.append(lat(b"".join(pieces)))

    oracle_inputs = [lat(b) for b in short[:257] + short[257::97] + four[::53] + rnd_bytes]

    # ---- the real functions ----
    jobs = [
        {"op": "codec", "fn": "bytes", "inputs": [lat(b) for b in short + rnd_bytes]},
        {"op": "codec", "fn": "decode", "inputs": [lat(b) for b in dec_only]},
        {"op": "codec", "fn": "quote_from_bytes", "inputs": q_inputs},
        {"op": "codec", "fn": "quote_bytes_via_quote", "inputs": via_quote},
        {"op": "codec", "fn": "encode", "inputs": [cps(x) for x in enc_inputs]},
        {"op": "codec", "fn": "quote_str", "inputs": qs_inputs},
        {"op": "codec", "fn": "unquote_ascii", "inputs": unq_ascii},
        {"op": "codec", "fn": "unquote_any", "inputs": [cps(x) for x in unq_any]},
        {"op": "codec", "fn": "unquote_to_bytes", "inputs": unq_bytes},
        {"op": "codec", "fn": "oracle", "inputs": oracle_inputs},
    ]
    res = impl_run(jobs)
    for j, r in zip(jobs, res):
        if not r["ok"]:
            raise RuntimeError("codec op %s failed: %s\n%s" % (j["fn"], r["err"], r.get("tb", "")))
    (r_bytes, r_dec, r_q, r_via, r_enc, r_qs, r_ua, r_uany, r_ub, r_oracle) = [r["res"] for r in res]
    t_impl = time.time() - t0

    groups = []   # (name, checker, case literals, inputs for reporting)
    ins = [lat(b) for b in short + rnd_bytes]
    groups.append(("bytes", "pk_bytes",
                   ["(%s, (%s, %s))" % (cb(x), cs(d), cb(q)) for x, (d, q) in zip(ins, r_bytes)], ins))
    ins = [lat(b) for b in dec_only]
    groups.append(("decode", "pk_decode", ["(%s, %s)" % (cb(x), cs(d)) for x, d in zip(ins, r_dec)], ins))
    groups.append(("quote_from_bytes", "pk_quote",
                   ["((%s, %s), %s)" % (cb(sf), cb(x), cb(q)) for (sf, x), q in zip(q_inputs, r_q)] +
                   ["((%s, %s), %s)" % (cb("/"), cb(x), cb(q)) for x, q in zip(via_quote, r_via)],
                   q_inputs + [["/", x] for x in via_quote]))
    groups.append(("encode", "pk_encode",
                   ["(%s, %s)" % (cs(s), coq_opt(e, cb)) for s, e in zip(enc_inputs, r_enc)], enc_inputs))
    groups.append(("quote_str", "pk_quote_str",
                   ["((%s, %s), %s)" % (cs(sf), cs(s), coq_opt(q, cb)) for (sf, s), q in zip(qs_inputs, r_qs)],
                   [["".join(map(chr, a)), "".join(map(chr, b))] for a, b in qs_inputs]))
    groups.append(("unquote_ascii", "pk_unquote_ascii",
                   ["(%s, (%s, %s))" % (cb(s), cb(ub), cs(us)) for s, (ub, us) in zip(unq_ascii, r_ua)],
                   unq_ascii))
    groups.append(("unquote_any", "pk_unquote_any",
                   ["(%s, %s)" % (cs(s), cs(us)) for s, us in zip(unq_any, r_uany)], unq_any))
    groups.append(("unquote_to_bytes", "pk_unquote_bytes",
                   ["(%s, %s)" % (cb(x), cb(u)) for x, u in zip(unq_bytes, r_ub)], unq_bytes))

    for name, checker, cases, inputs in groups:
        mism, err, nsh = coq_eval(chk.prop, "kcodec_" + name, IMPORTS, checker, cases, shard=SHARD,
                                   pre="Local Open Scope uint63_scope.")
        total_cases += len(cases)
        total_shards += nsh
        total_mism += len(mism)
        details[name] = {"cases": len(cases), "shards": nsh, "mismatches": len(mism),
                         "first_mismatching_inputs": [repr(inputs[i]) for i in mism[:10]]}
        if err:
            errors.append("%s: %s" % (name, err[-1500:]))
        if count:
            chk.count(("codec", name), nontrivial=True, n=len(cases))
    if r_oracle:
        errors.append("implementation-level round trip fails on %d inputs, e.g. %r" % (len(r_oracle), r_oracle[:5]))
    enc_none = sum(1 for e in r_enc if e is None)
    chk.coverage["codec_correspondence"] = {
        "cases": total_cases, "shards": total_shards, "mismatches": total_mism, "errors": errors,
        "groups": details, "oracle_inputs": len(oracle_inputs), "oracle_failures": len(r_oracle),
        "encode_inputs_raising": enc_none, "impl_seconds": round(t_impl, 1),
        "seconds": round(time.time() - t0, 1),
        "rule": ("decode/quote: every byte string of length <= 2; 3-byte strings with lead E0..F4 x all second bytes x "
                 "boundary third bytes; all 4-byte strings over the 20 boundary bytes; seeded random longer ones. "
                 "encode/quote(str): every code point < U+0900, U+D700..U+E0FF, around U+FFFF and U+10FFFF, pairs over "
                 "boundary code points, random strs incl. every kind of lone surrogate. unquote: every string of length "
                 "<= 4 over %41aFgz/, every %XY with X,Y ASCII, random with/without non-ASCII, raw bytes."),
    }
    return total_mism, errors


def print_assumptions_codec(prop="CODEC"):
    """(closed count, expected count, raw output) for the main codec theorems."""
    outdir = os.path.join(BUILD, prop)
    os.makedirs(outdir, exist_ok=True)
    fn = os.path.join(outdir, "codec_assumptions.v")
    mods = sorted({m for m, _ in MAIN_THEOREMS})
    with open(fn, "w") as f:
        f.write("From PG Require Import %s.\n" % " ".join(mods))
        for _, t in MAIN_THEOREMS:
            f.write("Print Assumptions %s.\n" % t)
    rc, out = run(["timeout", "300", "coqc", "-Q", COQ, "PG", "-w", "none", fn, "-o", fn + "o"], cwd=outdir)
    return out.count("Closed under the global context") if rc == 0 else 0, len(MAIN_THEOREMS), out


def main():
    import argparse
    ap = argparse.ArgumentParser()
    ap.add_argument("--tier", default=os.environ.get("VERIF_TIER", "quick"), choices=["quick", "thorough"])
    ap.add_argument("--no-build", action="store_true", help="use the .vo files as they are")
    a = ap.parse_args()
    os.chdir(os.path.dirname(os.path.dirname(os.path.abspath(__file__))))
    chk = Check("CODEC", a.tier)
    ok = True
    if not a.no_build:
        b = build([f[:-2] + ".vo" for f in CODEC_FILES])
        if not b["ok"]:
            print("BUILD FAILED\n" + b["log"][-3000:])
            ok = False
    forb = [h for h in grep_forbidden() if h.split(":")[0] in CODEC_FILES]
    if forb:
        print("forbidden constructs:", forb)
        ok = False
    closed, expected, out = print_assumptions_codec()
    if closed != expected:
        print("Print Assumptions: %d/%d closed\n%s" % (closed, expected, out[-2000:]))
        ok = False
    mism, errors = run_codec(chk, a.tier)
    cov = chk.coverage["codec_correspondence"]
    for name, d in cov["groups"].items():
        print("  %-18s cases=%-7d shards=%-4d mismatches=%d %s" % (
            name, d["cases"], d["shards"], d["mismatches"],
            d["first_mismatching_inputs"][:3] if d["mismatches"] else ""))
    for e in errors:
        print("ERROR:", e)
    print("codec correspondence: %d cases in %d shards, %d mismatches, %d errors; oracle %d inputs, %d failures; "
          "theorems closed %d/%d; %.1fs" % (cov["cases"], cov["shards"], mism, len(errors), cov["oracle_inputs"],
                                            cov["oracle_failures"], closed, expected, cov["seconds"]))
    if mism or errors:
        ok = False
    chk.finish("proof" if ok else "broken")
    return 0 if ok else 1


if __name__ == "__main__":
    sys.exit(main())
