"""Implementation-side operations for C08: the real getLinkItem / processLinkFile on
generated link files, the real handleeaext on sidecar files, and Gopher menus of
directories with link files, .cap files and the three extstrip modes."""
import os

import pygopherd.handlers.base as hbase
import pygopherd.handlers.UMN as UMN
from pygopherd import gopherentry

import implops_c07 as c07

DRV = None


def op_c08_parse(job):
    """job: dir selector, list of {text (latin-1 = raw bytes), cap: capfilepath or None}.
    Each text is written to <dir>/.lf<i> and read back by the real processLinkFile."""
    dirsel = job["dir"]
    pre = dirsel.strip("/")
    pre = pre + "/" if pre else ""
    tree = [{"path": pre + "keep.txt", "data": "x\n"}]
    for i, it in enumerate(job["items"]):
        tree.append({"path": pre + ".lf%d" % i, "data": it["text"]})
    w = DRV.World({"tree": tree, "config": job.get("config")})
    try:
        base = "" if dirsel == "/" else dirsel
        out = []
        for i, it in enumerate(job["items"]):
            h = c07.make_handler(w.config, dirsel, "umn")
            h.selectorbase = base          # prepare() sets it before anything is parsed
            sel = base + "/.lf%d" % i
            decoded = c07.read_text(c07.fs_path(w.config, sel))
            try:
                les = c07.with_alarm(5, lambda: h.processLinkFile(sel, it["cap"]))
                out.append({"decoded": decoded, "entries": [c07.entry_fields(e) for e in les]})
            except c07.Timeout:
                out.append({"decoded": decoded, "exc": "other:Timeout"})
            except Exception as ex:  # noqa
                out.append({"decoded": decoded, "exc": c07.exc_name(ex)})
        return out
    finally:
        w.close()


def op_c08_sidecar(job):
    """real GopherEntry.handleeaext on a file with the given sidecar contents"""
    tree = []
    for i, it in enumerate(job["items"]):
        tree.append({"path": "f%d.txt" % i, "data": "x\n"})
        tree.append({"path": "f%d.txt.abstract" % i, "data": it})
    w = DRV.World({"tree": tree})
    try:
        vfs = hbase.VFS_Real(w.config)
        out = []
        for i, it in enumerate(job["items"]):
            e = gopherentry.GopherEntry("/f%d.txt" % i, w.config)
            e.handleeaext("/f%d.txt" % i, vfs)
            decoded = c07.read_text(c07.fs_path(w.config, "/f%d.txt.abstract" % i))
            out.append({"decoded": decoded, "abstract": e.getea("ABSTRACT")})
        return out
    finally:
        w.close()


class Reorder:
    """VFS_Real.listdir of one directory returns its names in another order (the real listdir
    still runs; only the order of its result changes)."""

    def __init__(self, dirsel, fn):
        self.dirsel, self.fn, self.orig = dirsel, fn, None

    def __enter__(self):
        self.orig = hbase.VFS_Real.listdir
        me, orig = self, self.orig

        def listdir(vfs, selector):
            r = orig(vfs, selector)
            return me.fn(r) if selector == me.dirsel else r
        hbase.VFS_Real.listdir = listdir
        return self

    def __exit__(self, *a):
        hbase.VFS_Real.listdir = self.orig


ORDERS = {"natural": lambda r: list(r), "reversed": lambda r: list(reversed(sorted(r))),
          "rotated": lambda r: sorted(r)[len(r) // 2:] + sorted(r)[:len(r) // 2]}


def op_c08_menu(job):
    """One scratch tree, UMN handler, for each extstrip mode and each enumeration order: the
    world description, handler.prepare() outcome (entries) and the Gopher menu the real server sends."""
    out = {}
    for mode in job["modes"]:
        cfg = {k: dict(v) for k, v in (job.get("config") or {}).items()}
        cfg.setdefault("handlers.UMN.UMNDirHandler", {})["extstrip"] = mode
        w = DRV.World({"tree": job["tree"], "config": cfg})
        try:
            dirsel = job["dir"]
            world = c07.describe_world(w.config, w.root, dirsel)
            names = [c["name"] for c in world["children"]]
            runs = []
            for oname in job.get("orders", ["natural"]):
                with Reorder(dirsel, ORDERS[oname]):
                    enum = hbase.VFS_Real(w.config).listdir(dirsel)
                    r = c07.run_prepare(w.config, dirsel, "umn", None)
                    reply = c07.with_alarm(5, lambda: DRV.serve_once(
                        w.config, dirsel.encode("utf-8", "surrogateescape") + b"\r\n"))
                # the request leaves the directory cache file behind; it is not part of the content
                cf = c07.fs_path(w.config, ("" if dirsel == "/" else dirsel) + "/" +
                                 w.config.get("handlers.dir.DirHandler", "cachefile"))
                if os.path.exists(cf):
                    os.unlink(cf)
                runs.append({"order": oname, "enum": enum, "result": r, "menu": reply["out"], "exc": reply["exc"],
                             "log": reply["log"][-2:]})
            hist = None
            if job.get("cache_history"):
                # with the directory cache ON: a request that prepares the listing but never fetches it
                # (HTTP HEAD, Gopher+ item information), then the menu, then the menu again (cache hit)
                cfg2 = {k: dict(v) for k, v in cfg.items()}
                cfg2.setdefault("handlers.dir.DirHandler", {})["cachetime"] = "180"
                w.spec["config"] = cfg2
                w.configure()
                sel = dirsel.encode("utf-8", "surrogateescape")
                hist = []
                for data in (b"HEAD " + sel + b" HTTP/1.0\r\n\r\n", sel + b"\t!\r\n", sel + b"\r\n", sel + b"\r\n"):
                    rr = c07.with_alarm(5, lambda: DRV.serve_once(w.config, data))
                    hist.append({"request": DRV.b2s(data), "out": rr["out"], "exc": rr["exc"]})
            out[mode] = {"world": world, "runs": runs, "cache_history": hist,
                         "groups": [{"result": x["result"], "perms": [[names.index(n) for n in x["enum"]]]} for x in runs],
                         "ignorepatt": w.config.get("handlers.dir.DirHandler", "ignorepatt"), "extstrip": mode}
        except c07.Timeout:
            out[mode] = {"exc": "Timeout"}
        finally:
            w.close()
    return out


def op_c08_mimetable(job):
    """The MIME / encoding tables the server works with (stdlib mimetypes after init_mimetypes has read
    conf/mime.types and the configured encodings) and the type mapping of the configuration."""
    import mimetypes
    w = DRV.World({"tree": [], "config": job.get("config")})
    try:
        return {"types": dict(mimetypes.types_map), "common": dict(mimetypes.common_types),
                "encodings": dict(mimetypes.encodings_map), "suffix": dict(mimetypes.suffix_map),
                "mapping": eval(w.config.get("GopherEntry", "mapping")),
                "default": w.config.get("GopherEntry", "defaultmimetype")}
    finally:
        w.close()


def register(OPS, drv):
    global DRV
    DRV = drv
    c07.DRV = drv
    OPS["c08_parse"] = op_c08_parse
    OPS["c08_sidecar"] = op_c08_sidecar
    OPS["c08_menu"] = op_c08_menu
    OPS["c08_mimetable"] = op_c08_mimetable
