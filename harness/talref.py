"""Independent reference evaluator for TAL / TALES / METAL, written from the TAL 1.4
order of operations (define, condition, repeat, content|replace, attributes, omit-tag),
the TALES 1.x expression rules and METAL macro expansion with slot filling.  It walks
the generator's element trees (talgen.Elem/Text/Raw) — it never parses markup and shares
no code with simpleTAL.

Repeat-variable arithmetic follows Zope's ZTUtils Iterator (index, number, even, odd,
start, end, length, letter, Letter, roman, Roman).

`pinned` switches on emulations of defects of the pinned tree so that a disagreement can be
attributed to a known cause (stable tags): {"text_keyword"} = DESIGN D13."""
import html

from talgen import Elem, Text, Raw, split_semi, plain_attrs, source_parts, RefCV, IterLike, RefTpl

DEFAULT = object()


class NotFound(Exception):
    pass


class OutOfScope(Exception):
    """the case leaves the part of TAL the property is about (e.g. repeat over a mapping, DESIGN D20)"""


class MacroRef:
    def __init__(self, elem, owner):
        self.elem = elem
        self.owner = owner      # template name, only informative


class RepeatState:
    def __init__(self, seq):
        self.seq = seq              # None: the source is an iterator, its length is not known
        self.pos = 0

    def lookup(self, name):
        n = self.pos
        if self.seq is None and name in ("end", "length"):
            raise OutOfScope("repeat/x/%s over an iterator" % name)
        if name == "index":
            return n
        if name == "number":
            return n + 1
        if name == "even":          # Zope: true for even *indexes* (0, 2, ...)
            return 1 if n % 2 == 0 else 0
        if name == "odd":
            return 1 if n % 2 == 1 else 0
        if name == "start":
            return 1 if n == 0 else 0
        if name == "end":
            return 1 if n == len(self.seq) - 1 else 0
        if name == "length":
            return len(self.seq)
        if name == "letter":
            return letter(n)
        if name == "Letter":
            return letter(n).upper()
        if name == "roman":
            return roman(n + 1)
        if name == "Roman":
            return roman(n + 1).upper()
        raise NotFound()


def letter(index):
    # ZTUtils.Iterator.letter
    s = ""
    while True:
        index, off = divmod(index, 26)
        s = chr(ord("a") + off) + s
        if not index:
            return s


def roman(num):
    if num > 4000:
        return " "
    table = [(1000, "m"), (900, "cm"), (500, "d"), (400, "cd"), (100, "c"), (90, "xc"), (50, "l"), (40, "xl"),
             (10, "x"), (9, "ix"), (5, "v"), (4, "iv"), (1, "i")]
    out = ""
    for v, r in table:
        while num >= v:
            out += r
            num -= v
    return out


def is_callable(v):
    return hasattr(v, "__call__")


def truth(v):
    """TAL truth: nothing, zero, empty string / sequence are false"""
    if v is None:
        return False
    try:
        if len(v) == 0:
            return False
    except TypeError:
        pass
    return bool(v)


def to_text(v):
    return v if isinstance(v, str) else str(v)


class Ref:
    def __init__(self, templates, ctx_values, options=None, pinned=(), allow_python=False, py_eval=None):
        """templates: {name: nodes}; 'main' is expanded.  ctx_values: {name: python value}."""
        self.templates = templates
        self.globals = {"nothing": None, "default": DEFAULT, "options": options, "repeat": None, "attrs": None}
        self.contexts = {"nothing": None, "default": DEFAULT, "options": options}
        self.globals.update(ctx_values)
        self.locals = [{}]          # chain of frames, innermost last
        self.repeat = [{}]          # chain of repeat maps
        self.pinned = set(pinned)
        self.allow_python = allow_python
        self.py_eval = py_eval
        self.out = []
        self.macros = {}
        for tname, nodes in templates.items():
            self.macros[tname] = {}
            self._collect_macros(nodes, tname)
        self.globals.setdefault("macros", self.macros.get("main", {}))
        if "lib" in self.macros:
            self.globals.setdefault("lib", self.macros["lib"])
        self.steps = 0

    def _collect_macros(self, nodes, tname):
        for n in nodes:
            if isinstance(n, Elem):
                m = n.metal.get("define-macro")
                if m is not None:
                    self.macros[tname][m] = MacroRef(n, tname)
                self._collect_macros(n.children, tname)

    # ------------------------------------------------------------------ TALES
    def lookup_var(self, name):
        for frame in reversed(self.locals):
            if name in frame:
                return frame[name]
        if name == "repeat":
            if "repeat" in self.globals and self.globals["repeat"] is not None:
                return self.globals["repeat"]
            return self.repeat[-1]
        if name == "CONTEXTS":
            return self.contexts
        if name in self.globals:
            return self.globals[name]
        raise NotFound()

    def has_var(self, name):
        try:
            self.lookup_var(name)
            return True
        except NotFound:
            return False

    def deref(self, seg):
        """?name indirection: the segment is replaced by the value of the variable"""
        if seg.startswith("?"):
            name = seg[1:]
            if self.has_var(name):
                v = self.lookup_var(name)
                if isinstance(v, RefCV):
                    v = v.value()
                elif is_callable(v):
                    v = v()
                return v
            return name
        return seg

    def step(self, cur, seg):
        if cur is DEFAULT:
            # TALES does not say what lies below `default`; simpleTAL's marker is a string
            raise OutOfScope("traversal into the default marker")
        if isinstance(cur, RepeatState):
            return cur.lookup(seg)
        if isinstance(cur, RefCV):
            cur = cur.value()
        elif is_callable(cur):
            cur = cur()
        if isinstance(seg, str) and hasattr(cur, seg):
            return getattr(cur, seg)
        try:
            try:
                return cur[seg]
            except TypeError:
                return cur[int(seg)]
        except Exception:
            raise NotFound()

    def traverse(self, path, call=True):
        segs = path.split("/")
        first = self.deref(segs[0])
        try:
            cur = self.lookup_var(first)
        except TypeError:
            raise NotFound()
        for seg in segs[1:]:
            cur = self.step(cur, self.deref(seg))
        if isinstance(cur, RepeatState):
            # the repeat variable itself: a mapping of its attributes
            return {k: cur.lookup(k) for k in ("index", "number", "even", "odd", "start", "end", "length", "letter",
                                               "Letter", "roman", "Roman")}
        if isinstance(cur, RefCV):
            return cur.value() if call else cur.rawValue()
        if call and is_callable(cur):
            cur = cur()
        return cur

    def evaluate(self, expr):
        expr = expr.strip()
        for prefix, fn in (("path:", self.e_path), ("exists:", self.e_exists), ("nocall:", self.e_nocall),
                           ("not:", self.e_not), ("string:", self.e_string), ("python:", self.e_python)):
            if expr.startswith(prefix):
                return fn(expr[len(prefix):].lstrip())
        return self.e_path(expr)

    def e_path(self, expr):
        alts = expr.split("|")
        if len(alts) == 1:
            return self.traverse(alts[0])
        for a in alts:
            try:
                return self.evaluate(a.strip())
            except NotFound:
                continue
        raise NotFound()

    def e_exists(self, expr):
        alts = expr.split("|")
        try:
            self.traverse(alts[0] if "first_alt_unstripped" in self.pinned else alts[0].strip(), call=False)
            return 1
        except NotFound:
            pass
        # `exists:a | b`: the remaining alternatives are expressions of their own
        for a in alts[1:]:
            try:
                v = self.evaluate(a.strip())
            except NotFound:
                continue
            if v is DEFAULT or truth(v):
                return 1
            raise OutOfScope("exists: with a later alternative that is found but false")
        return 0

    def e_nocall(self, expr):
        alts = expr.split("|")
        try:
            return self.traverse(alts[0] if "first_alt_unstripped" in self.pinned else alts[0].strip(), call=False)
        except NotFound:
            pass
        for a in alts[1:]:
            try:
                return self.evaluate(a.strip())
            except NotFound:
                continue
        raise NotFound()

    def e_not(self, expr):
        try:
            v = self.evaluate(expr)
        except NotFound:
            return 1
        if v is DEFAULT:
            return 0
        return 0 if truth(v) else 1

    def e_string(self, expr):
        out = []
        i = 0
        n = len(expr)
        while i < n:
            c = expr[i]
            if c != "$":
                out.append(c)
                i += 1
                continue
            if i + 1 >= n:
                break                       # trailing dollar is dropped
            d = expr[i + 1]
            if d == "$":
                out.append("$")
                i += 2
            elif d == "{":
                end = expr.find("}", i + 1)
                if end < 0:
                    # unterminated: nothing is substituted and the dollar disappears
                    i += 1
                    continue
                out.append(self.subst(expr[i + 2:end], full=True))
                i = end + 1
            else:
                end = expr.find(" ", i + 1)
                if end < 0:
                    end = n
                out.append(self.subst(expr[i + 1:end], full=False))
                i = end
        return "".join(out)

    def subst(self, path, full):
        try:
            v = self.evaluate(path) if full else self.traverse(path)
        except NotFound:
            return ""
        if v is None:
            return ""
        if v is DEFAULT:
            raise OutOfScope("default marker substituted into a string expression")
        return to_text(v)

    def e_python(self, expr):
        if not self.allow_python:
            return 0
        return self.py_eval(expr, self)

    def tales(self, expr, attrs):
        """evaluation from a TAL statement: a missing path is `nothing`"""
        self.globals["attrs"] = attrs
        try:
            return self.evaluate(expr)
        except NotFound:
            return None

    # ------------------------------------------------------------------ TAL
    def run(self):
        self.nodes(self.templates["main"], {})
        return "".join(self.out)

    def nodes(self, nodes, slots):
        for n in nodes:
            if isinstance(n, Text):
                self.out.append(html.escape(n.data, quote=False))
            elif isinstance(n, Raw):
                self.out.append(n.src)
            else:
                self.element(n, slots)

    def start_tag(self, e, attrs):
        return "<" + e.tag + "".join(' %s="%s"' % (k, html.escape(v, quote=True)) for k, v in attrs) + ">"

    def original_attrs(self, e):
        d = {}
        for k, v in source_parts(e):
            if v is None:
                v = "" if k == "tal:omit-tag" else k
            d[k] = v
        return d

    def fill_slots(self, e):
        """fill-slot elements below e that belong to e (not to a nested use-macro)"""
        found = {}

        def walk(nodes):
            for n in nodes:
                if isinstance(n, Elem):
                    s = n.metal.get("fill-slot")
                    if s is not None and s not in found:
                        found[s] = n
                    if "use-macro" in n.metal:
                        continue
                    walk(n.children)
        walk(e.children)
        return found

    def element(self, e, slots):
        self.steps += 1
        if self.steps > 200000:
            raise RuntimeError("reference evaluator: too many steps")
        if not e.has_tal():
            self.out.append(self.start_tag(e, plain_attrs(e)))
            if not e.is_void():
                self.nodes(e.children, slots)
                self.out.append("</" + e.tag + ">")
            return
        attrs = self.original_attrs(e)
        # ---- METAL
        if "use-macro" in e.metal:
            v = self.tales(e.metal["use-macro"], attrs)
            if v is None:
                return
            if isinstance(v, MacroRef):
                self.element(v.elem, self.fill_slots(e))
                return
        if "define-slot" in e.metal and e.metal["define-slot"] in slots:
            self.element(slots[e.metal["define-slot"]], {})
            return
        # ---- TAL
        pushed = False
        try:
            if "define" in e.tal:
                for stmt in split_semi(e.tal["define"]):
                    bits = stmt.split(" ")
                    scope = "local"
                    if len(bits) > 2 and bits[0] in ("local", "global"):
                        scope = bits[0]
                        bits = bits[1:]
                    name, expr = bits[0], " ".join(bits[1:])
                    val = self.tales(expr, attrs)
                    if scope == "local":
                        if not pushed:
                            self.locals.append({})
                            pushed = True
                        self.locals[-1][name] = val
                    else:
                        self.globals[name] = val
            if "condition" in e.tal:
                if not truth(self.tales(e.tal["condition"], attrs)):
                    return
            if "repeat" in e.tal:
                bits = e.tal["repeat"].split(" ")
                var, expr = bits[0], " ".join(bits[1:])
                seq = self.tales(expr, attrs)
                if seq is DEFAULT:
                    self.rest(e, attrs, slots)
                    return
                if isinstance(seq, dict):
                    raise OutOfScope("repeat over a mapping (D20)")
                if isinstance(seq, IterLike):
                    # not a sequence: one instance per value the iterator yields; nothing at all (no scope, no
                    # repeat variable) when it yields none
                    it = seq.__iter__() if hasattr(seq, "__iter__") else seq
                    try:
                        item = next(it)
                    except StopIteration:
                        return
                    st = RepeatState(None)
                    self.repeat.append(dict(self.repeat[-1]))
                    self.repeat[-1][var] = st
                    self.locals.append({})
                    try:
                        while True:
                            self.locals[-1][var] = item
                            self.rest(e, attrs, slots)
                            try:
                                item = next(it)
                            except StopIteration:
                                break
                            st.pos += 1
                    finally:
                        self.locals.pop()
                        self.repeat.pop()
                    return
                try:
                    n = len(seq)
                except TypeError:
                    return                   # not a sequence: the element is removed
                if n == 0:
                    return
                st = RepeatState(seq)
                self.repeat.append(dict(self.repeat[-1]))
                self.repeat[-1][var] = st
                self.locals.append({})
                try:
                    for i in range(n):
                        st.pos = i
                        self.locals[-1][var] = seq[i]
                        self.rest(e, attrs, slots)
                finally:
                    self.locals.pop()
                    self.repeat.pop()
                return
            self.rest(e, attrs, slots)
        finally:
            if pushed:
                self.locals.pop()

    def rest(self, e, attrs, slots):
        """content|replace, attributes, omit-tag, then the output of one instance of e"""
        show_tag = True
        content = DEFAULT           # DEFAULT = the element's own children
        structure = False
        for key in ("content", "replace"):
            if key in e.tal:
                arg = e.tal[key]
                bits = arg.split(" ")
                expr = arg
                if len(bits) > 1 and bits[0] == "structure":
                    structure, expr = True, " ".join(bits[1:])
                elif len(bits) > 1 and bits[0] == "text" and "text_keyword" not in self.pinned:
                    expr = " ".join(bits[1:])
                v = self.tales(expr, attrs)
                if v is not DEFAULT:
                    content = v
                    if key == "replace":
                        show_tag = False
        cur = plain_attrs(e)
        if "attributes" in e.tal:
            new = []
            gone = set()
            for stmt in split_semi(e.tal["attributes"]):
                bits = stmt.split(" ")
                name, expr = bits[0], " ".join(bits[1:])
                v = self.tales(expr, attrs)
                if v is DEFAULT:
                    continue
                gone.add(name)
                if v is not None:
                    new.append((name, to_text(v)))
            cur = new + [(k, v) for k, v in cur if k not in gone]
        if "omit-tag" in e.tal:
            arg = e.tal["omit-tag"]
            v = DEFAULT if arg is None or arg == "" else self.tales(arg, attrs)
            if v is DEFAULT or (v is not None and v):
                show_tag = False
        if show_tag:
            self.out.append(self.start_tag(e, cur))
        if content is DEFAULT:
            if not e.is_void():
                self.nodes(e.children, slots)
        elif content is not None:
            if structure:
                if isinstance(content, MacroRef):
                    self.element(content.elem, {})
                elif isinstance(content, RefTpl):
                    # a template as a value: expanded in place, in the current context
                    self.nodes(content.nodes, {})
                else:
                    self.out.append(to_text(content))
            else:
                if isinstance(content, MacroRef):
                    content = MACRO_TEXT
                self.out.append(html.escape(to_text(content), quote=False))
        if show_tag and not e.is_void():
            self.out.append("</" + e.tag + ">")


DEFAULT_TEXT = "This represents a Default value."
MACRO_TEXT = "<macro>"


# ----------------------------------------------------------------------------
# canonical token streams of HTML text (stock html.parser), used to compare documents
# modulo attribute order / quoting / entity spelling
# ----------------------------------------------------------------------------
from html.parser import HTMLParser   # noqa: E402


class _Canon(HTMLParser):
    def __init__(self, sort_attrs=True):
        HTMLParser.__init__(self, convert_charrefs=True)
        self.toks = []
        self.sort_attrs = sort_attrs

    def _text(self, d):
        if self.toks and self.toks[-1][0] == "T":
            self.toks[-1] = ("T", self.toks[-1][1] + d)
        else:
            self.toks.append(("T", d))

    def handle_starttag(self, tag, attrs):
        a = [(k, (v if v is not None else k)) for k, v in attrs]
        if self.sort_attrs:
            a = sorted(a)
        self.toks.append(("S", tag, tuple(a)))

    def handle_startendtag(self, tag, attrs):
        self.handle_starttag(tag, attrs)
        if tag not in VOIDS:
            self.handle_endtag(tag)

    def handle_endtag(self, tag):
        if tag not in VOIDS:
            self.toks.append(("E", tag))

    def handle_data(self, d):
        self._text(d)

    def handle_comment(self, d):
        self.toks.append(("C", d))

    def handle_decl(self, d):
        self.toks.append(("D", d))

    def handle_pi(self, d):
        self.toks.append(("P", d))


VOIDS = {"area", "base", "basefont", "br", "col", "frame", "hr", "img", "input", "isindex", "link", "meta", "param"}


def canon(text, sort_attrs=True):
    p = _Canon(sort_attrs)
    p.feed(text)
    p.close()
    return p.toks


def skeleton(text):
    """element names + attribute names (+ comments/decls/PIs as markers), no text, no values"""
    sk = []
    for t in canon(text):
        if t[0] == "S":
            sk.append(("S", t[1], tuple(k for k, _ in t[2])))
        elif t[0] == "E":
            sk.append(("E", t[1]))
        elif t[0] in ("C", "D", "P"):
            sk.append((t[0],))
    return sk
