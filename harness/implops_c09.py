"""Implementation-side operations for C09 (gophermap files rendered line for line).
Runs inside the implementation's interpreter; drives the real BuckGophermapHandler."""
import os


def register(OPS, drv):
    from pygopherd.handlers import HandlerMultiplexer
    from pygopherd.handlers.base import VFS_Real
    from pygopherd.handlers.gophermap import BuckGophermapHandler

    def dump_entry(e):
        return {"type": e.type, "name": e.name, "selector": e.selector, "host": e.host, "port": e.port,
                "gplus": bool(e.gopherpsupport)}

    def prepare_entries(config, selector):
        """What a protocol does before rendering: getHandler, getentry, prepare, getdirlist."""
        try:
            h = HandlerMultiplexer.getHandler(selector, "", None, config)
        except Exception as e:  # noqa
            return {"handler": None, "exc": type(e).__name__, "entries": None}
        # a chaining handler (ZIP.ZIPHandler) delegates to the handler it found inside the archive
        out = {"handler": type(getattr(h, "handler", None) or h).__name__, "outer": type(h).__name__, "exc": None, "entries": None}
        try:
            h.getentry()
            h.prepare()
            out["handler"] = type(getattr(h, "handler", None) or h).__name__
            if h.isdir():
                out["entries"] = [dump_entry(e) for e in h.getdirlist()]
        except Exception as e:  # noqa
            out["exc"] = type(e).__name__
            out["handler"] = type(getattr(h, "handler", None) or h).__name__
        return out

    def op_gm_world(job):
        """job: tree, config, maps: [selector], requests: [{data, tls}]"""
        w = drv.World(job)            # job["server_port"]: the port this server advertises (World sets drv.SERVER_PORT)
        fake = drv.FakeServer
        if job.get("server_name"):    # ... and the name it goes by (server.server_name)
            name = job["server_name"]

            class NamedServer(fake):
                def __init__(self, config, name=name, port=70):
                    fake.__init__(self, config, name=name, port=port)

            drv.FakeServer = NamedServer
        try:
            comps = [prepare_entries(w.config, s) for s in job.get("maps", [])]
            res = []
            for r in job.get("requests", []):
                res.append(drv.serve_once(w.config, drv.s2b(r["data"]), tls=r.get("tls", False)))
            return {"components": comps, "results": res}
        finally:
            drv.FakeServer = fake
            w.close()

    def op_gm_select(job):
        """job: tree, selectors: [...].  For each: canhandlerequest() of the real handler built
        with the real stat result, and the selector prepare() opens."""
        w = drv.World(job)
        try:
            vfs = VFS_Real(w.config)
            out = []
            for sel in job["selectors"]:
                try:
                    st = vfs.stat(sel)
                except (OSError, ValueError):
                    st = None
                h = BuckGophermapHandler(sel, "", None, w.config, st, vfs)
                can = bool(h.canhandlerequest())
                src = None
                if can:
                    opened = []
                    real_open = vfs.open

                    def rec_open(selector, *a, **k):
                        opened.append(selector)
                        return real_open(selector, *a, **k)

                    vfs.open = rec_open
                    try:
                        h.prepare()
                    except Exception:  # noqa
                        pass
                    finally:
                        del vfs.open
                    src = opened[0] if opened else None
                out.append({"can": can, "src": src})
            return out
        finally:
            w.close()

    def op_pyint(job):
        out = []
        for s in job["inputs"]:
            try:
                out.append(int(s))
            except ValueError:
                out.append(None)
        return out

    def op_pathfun(job):
        return [[os.path.dirname(p), os.path.basename(p)] for p in job["inputs"]]

    def op_gm_history(job):
        """ONE World in ONE process: a sequence of steps
             {op: list, requests: [{data, tls}]}
             {op: write|remove|symlink, path, data|target, keep_mtime}
           keep_mtime: the directory that holds `path` gets its previous atime/mtime back (os.utime),
           as rsync -t / cp -p / tar do."""
        w = drv.World(job)
        try:
            broot = os.fsencode(w.root)
            out = []
            for st in job["steps"]:
                if st["op"] == "list":
                    res = []
                    for r in st["requests"]:
                        o = drv.serve_once(w.config, drv.s2b(r["data"]), tls=r.get("tls", False), trace=True)
                        o["opened"] = [p[len(w.root):] for cls, p in (o["trace"] or [])
                                       if cls == "open" and p.startswith(w.root + "/")]
                        o["trace"] = None
                        res.append(o)
                    out.append({"results": res})
                    continue
                p = os.path.join(broot, drv.s2b(st["path"]))
                d = os.path.dirname(p)
                before = os.stat(d)
                if st["op"] == "write":
                    with open(p, "wb") as f:
                        f.write(drv.s2b(st.get("data", "")))
                elif st["op"] == "remove":
                    os.unlink(p)
                elif st["op"] == "symlink":
                    os.symlink(drv.s2b(st["target"]), p)
                else:
                    raise ValueError("unknown step " + st["op"])
                if st.get("keep_mtime"):
                    os.utime(d, ns=(before.st_atime_ns, before.st_mtime_ns))
                after = os.stat(d)
                out.append({"dir_mtime_ns_before": before.st_mtime_ns, "dir_mtime_ns_after": after.st_mtime_ns})
            return {"steps": out}
        finally:
            w.close()

    def op_gm_fresh(job):
        """Reference listings: every state is served by a process that has never served anything
        (a fork of this driver, which only runs gm_fresh jobs)."""
        import json
        outs = []
        for stt in job["states"]:
            rfd, wfd = os.pipe()
            pid = os.fork()
            if pid == 0:
                try:
                    os.close(rfd)
                    w = drv.World(stt)
                    try:
                        res = [drv.serve_once(w.config, drv.s2b(q["data"]), tls=q.get("tls", False)) for q in stt["requests"]]
                    finally:
                        w.close()
                    payload = json.dumps({"ok": True, "results": res})
                except BaseException as e:  # noqa
                    payload = json.dumps({"ok": False, "err": repr(e)})
                with os.fdopen(wfd, "w") as f:
                    f.write(payload)
                os._exit(0)
            os.close(wfd)
            with os.fdopen(rfd) as f:
                data = f.read()
            os.waitpid(pid, 0)
            outs.append(json.loads(data))
        return outs

    def op_gm_interleave(job):
        """ONE World, ONE process: for every schedule fresh handler instances (one per slot, through the real
        HandlerMultiplexer) are stepped by hand: [slot, "open" | "prepare" | "list"].  "list" records a copy of
        what getdirlist() returns at that moment."""
        w = drv.World(job)
        try:
            out = []
            for sched in job["schedules"]:
                hs, lists, exc = {}, [], None
                try:
                    for slot, act in sched:
                        if act == "open":
                            hs[slot] = HandlerMultiplexer.getHandler(job["selectors"][slot], "", None, w.config)
                            hs[slot].getentry()
                        elif act == "prepare":
                            hs[slot].prepare()
                        elif act == "list":
                            lists.append([slot, [dump_entry(e) for e in hs[slot].getdirlist()]])
                        else:
                            raise ValueError("unknown action " + act)
                except Exception as e:  # noqa
                    exc = type(e).__name__ + ": " + str(e)
                out.append({"lists": lists, "exc": exc, "classes": {str(k): type(v).__name__ for k, v in hs.items()}})
            return out
        finally:
            w.close()

    def op_gm_live(job):
        """The real ThreadingTCPServer + GopherRequestHandler on an ephemeral port.  First every selector alone, one
        after the other; then `rounds` rounds in which all selectors are requested at the same moment (threads
        released by a barrier).  Plain Gopher requests."""
        import socket
        import threading
        import pygopherd.server as pserver
        spec = dict(job)
        cfg = dict(spec.get("config") or {})
        pg = dict(cfg.get("pygopherd", {}))
        pg.update({"servername": job.get("servername", "gopher.example"), "timeout": "20"})
        if job.get("advertisedport", "70") is not None:      # None: the server advertises the port it listens on
            pg["advertisedport"] = str(job.get("advertisedport", "70"))
        cfg["pygopherd"] = pg
        spec["config"] = cfg
        w = drv.World(spec)
        srv = pserver.ThreadingTCPServer(w.config, ("127.0.0.1", 0), pserver.GopherRequestHandler)
        srv.daemon_threads = True
        th = threading.Thread(target=srv.serve_forever, kwargs={"poll_interval": 0.02}, daemon=True)
        th.start()

        def fetch(sel, barrier=None):
            got, err = [], None
            try:
                s = socket.create_connection(srv.server_address[:2], timeout=20)
                try:
                    if barrier is not None:
                        barrier.wait(timeout=20)
                    s.sendall(drv.s2b(sel) + b"\r\n")
                    while True:
                        d = s.recv(1 << 16)
                        if not d:
                            break
                        got.append(d)
                finally:
                    s.close()
            except Exception as e:  # what a client would see
                err = type(e).__name__ + ": " + str(e)
            return {"out": drv.b2s(b"".join(got)), "exc": err}

        try:
            sels = job["selectors"]
            sequential = [fetch(s) for s in sels]
            rounds = []
            for _ in range(job.get("rounds", 4)):
                barrier = threading.Barrier(len(sels))
                res = [None] * len(sels)

                def run(i):
                    res[i] = fetch(sels[i], barrier)

                ts = [threading.Thread(target=run, args=(i,)) for i in range(len(sels))]
                for t in ts:
                    t.start()
                for t in ts:
                    t.join(timeout=30)
                rounds.append(res)
            return {"sequential": sequential, "rounds": rounds, "listen_port": srv.server_address[1]}
        finally:
            srv.shutdown()
            srv.server_close()
            th.join(timeout=5)
            w.close()

    OPS["gm_interleave"] = op_gm_interleave
    OPS["gm_live"] = op_gm_live
    OPS["gm_history"] = op_gm_history
    OPS["gm_fresh"] = op_gm_fresh
    OPS["gm_world"] = op_gm_world
    OPS["gm_select"] = op_gm_select
    OPS["pyint"] = op_pyint
    OPS["pathfun"] = op_pathfun
