"""Implementation-side operations for C09 (gophermap files rendered line for line).
Runs inside the implementation's interpreter; drives the real BuckGophermapHandler."""
import os


def register(OPS, drv):
    from pygopherd.handlers import HandlerMultiplexer
    from pygopherd.handlers.base import VFS_Real
    from pygopherd.handlers.gophermap import BuckGophermapHandler

    def dump_entry(e):
        return {"type": e.type, "name": e.name, "selector": e.selector, "host": e.host, "port": e.port,
                "gplus": bool(e.gopherpsupport)}

    def prepare_entries(config, selector):
        """What a protocol does before rendering: getHandler, getentry, prepare, getdirlist."""
        try:
            h = HandlerMultiplexer.getHandler(selector, "", None, config)
        except Exception as e:  # noqa
            return {"handler": None, "exc": type(e).__name__, "entries": None}
        out = {"handler": type(h).__name__, "exc": None, "entries": None}
        try:
            h.getentry()
            h.prepare()
            if h.isdir():
                out["entries"] = [dump_entry(e) for e in h.getdirlist()]
        except Exception as e:  # noqa
            out["exc"] = type(e).__name__
        return out

    def op_gm_world(job):
        """job: tree, config, maps: [selector], requests: [{data, tls}]"""
        w = drv.World(job)
        try:
            comps = [prepare_entries(w.config, s) for s in job.get("maps", [])]
            res = []
            for r in job.get("requests", []):
                res.append(drv.serve_once(w.config, drv.s2b(r["data"]), tls=r.get("tls", False)))
            return {"components": comps, "results": res}
        finally:
            w.close()

    def op_gm_select(job):
        """job: tree, selectors: [...].  For each: canhandlerequest() of the real handler built
        with the real stat result, and the selector prepare() opens."""
        w = drv.World(job)
        try:
            vfs = VFS_Real(w.config)
            out = []
            for sel in job["selectors"]:
                try:
                    st = vfs.stat(sel)
                except (OSError, ValueError):
                    st = None
                h = BuckGophermapHandler(sel, "", None, w.config, st, vfs)
                can = bool(h.canhandlerequest())
                src = None
                if can:
                    opened = []
                    real_open = vfs.open

                    def rec_open(selector, *a, **k):
                        opened.append(selector)
                        return real_open(selector, *a, **k)

                    vfs.open = rec_open
                    try:
                        h.prepare()
                    except Exception:  # noqa
                        pass
                    finally:
                        del vfs.open
                    src = opened[0] if opened else None
                out.append({"can": can, "src": src})
            return out
        finally:
            w.close()

    def op_pyint(job):
        out = []
        for s in job["inputs"]:
            try:
                out.append(int(s))
            except ValueError:
                out.append(None)
        return out

    def op_pathfun(job):
        return [[os.path.dirname(p), os.path.basename(p)] for p in job["inputs"]]

    OPS["gm_world"] = op_gm_world
    OPS["gm_select"] = op_gm_select
    OPS["pyint"] = op_pyint
    OPS["pathfun"] = op_pathfun
