(* ClientView.v — reference CLIENT-side readers of the listing formats, written
   from the format definitions (RFC 1436 menu lines, gemtext link lines, the
   HTML tokenisation rules as Python's html.parser applies them, WML decks),
   not from the server code.  They are the formal counterpart of
   harness/pgsite.py view_gopher / view_html / view_gemtext / view_wml and of
   harness/validators.py parse_gopher_menu / html_rows / html_skeleton.
   Definitions only. *)
From Coq Require Import String ZArith.
From PG Require Import Lib.Str Lib.Dec Lib.Crlf Lib.HtmlEsc Lib.Percent Lib.Utf8 Lib.PercentStr
     Model.Entry Model.RenderUrl.
Local Open Scope N_scope.

(* ---------- what a client sees of one listing entry ---------- *)
Inductive vkind := KInfo | KLink | KUrl.
Record vitem := mkVitem { v_kind : vkind; v_name : str; v_target : option str }.

Definition vkind_eqb (a b : vkind) : bool :=
  match a, b with KInfo, KInfo | KLink, KLink | KUrl, KUrl => true | _, _ => false end.
Definition vitem_eqb (a b : vitem) : bool :=
  vkind_eqb (v_kind a) (v_kind b) && str_eqb (v_name a) (v_name b) &&
  opt_eqb str_eqb (v_target a) (v_target b).

(* display names are compared after the normalisation Gemini and Spartan apply
   on the server side: an undecodable byte (a lone surrogate U+DC80..U+DCFF in
   the decoded text) is shown as \xNN *)
Definition name_norm (s : str) : str := bsr_map s.

(* ---------- Gopher menus (RFC 1436) ---------- *)
Record mline := mkMline {
  ml_type : N; ml_name : str; ml_selector : str; ml_host : str; ml_port : Z; ml_plus : bool }.

Definition parse_menu_line (l : str) : option mline :=
  if mem_N 13 l || mem_N 10 l then None else
  match split_on 9 l with
  | (t :: name) :: sel :: host :: port :: more =>
      match parse_Z port with
      | None => None
      | Some p =>
          match more with
          | [] => Some (mkMline t name sel host p false)
          | [flag] => if str_eqb flag [43] || str_eqb flag [63]
                      then Some (mkMline t name sel host p true) else None
          | _ => None
          end
      end
  | _ => None
  end.

Fixpoint all_some {A} (l : list (option A)) : option (list A) :=
  match l with
  | [] => Some []
  | Some x :: r => option_map (cons x) (all_some r)
  | None :: _ => None
  end.

(* every line CRLF-terminated, nothing after the last one *)
Definition parse_menu (body : str) : option (list mline) :=
  match split_crlf body with
  | (ls, []) => all_some (map parse_menu_line ls)
  | _ => None
  end.

(* the text after "URL:" / "/URL:" when it is not empty (re `/?URL:(.+)$` with DOTALL) *)
Definition url_target (sel : str) : option str :=
  match url_tail sel with Some (c :: r) => Some (c :: r) | _ => None end.

(* the gopher:// URL a client builds for an entry on another server *)
Definition client_gopher_url (t : N) (sel host : str) (port : Z) : option str :=
  option_map (gopher_url_text host port) (quote_str [47] (t :: sel)).

Definition view_mline (srvname : str) (srvport : Z) (m : mline) : option vitem :=
  let nm := name_norm (ml_name m) in
  if ml_type m =? T_INFO then Some (mkVitem KInfo nm None)
  else match url_target (ml_selector m) with
       | Some u => Some (mkVitem KUrl nm (Some u))
       | None =>
           if str_eqb (ml_host m) srvname && Z.eqb (ml_port m) srvport
           then Some (mkVitem KLink nm (Some (ml_selector m)))
           else option_map (fun u => mkVitem KUrl nm (Some u))
                           (client_gopher_url (ml_type m) (ml_selector m) (ml_host m) (ml_port m))
       end.

Definition view_gopher (srvname : str) (srvport : Z) (body : str) : option (list vitem) :=
  match parse_menu body with
  | Some ms => all_some (map (view_mline srvname srvport) ms)
  | None => None
  end.

(* ---------- link targets written as URL references (HTML, WML, gemtext) ---------- *)
(* a path on the same server: starts with one slash *)
Definition is_local_href (h : str) : bool := prefixb [47] h && negb (prefixb [47; 47] h).
(* the selector a client asks for when it follows a local link: the path part, percent-decoded *)
Definition href_selector (h : str) : str := unquote_str (fst (split_once 63 h)).
Definition strip_prefix (p h : str) : str :=
  match p with
  | [] => h
  | _ => if prefixb (p ++ [47]) h then skipn (List.length p) h else h
  end.
Definition target_of_href (prefix h : str) : vkind * option str :=
  let h := strip_prefix prefix h in
  if is_local_href h then (KLink, Some (href_selector h)) else (KUrl, Some h).

(* ---------- gemtext ---------- *)
Definition is_ascii_ws (c : N) : bool := ((9 <=? c) && (c <=? 13)) || (c =? 32).
Fixpoint span_nonws (s : str) : str * str :=
  match s with
  | [] => ([], [])
  | c :: r => if is_ascii_ws c then ([], s) else let '(a, b) := span_nonws r in (c :: a, b)
  end.
(* "=> url name" / "=: url name": (url, name) *)
Definition parse_link_line (l : str) : option (str * str) :=
  match l with
  | 61 :: k :: 32 :: r =>
      if (k =? 62) || (k =? 58) then
        match span_nonws r with
        | (c :: u, 32 :: name) => Some (c :: u, name)
        | _ => None
        end
      else None
  | _ => None
  end.

Definition view_gemline (l : str) : vitem :=
  match parse_link_line l with
  | Some (u, name) =>
      let u := if prefixb (QUERY_PREFIX ++ [47]) u then skipn (List.length QUERY_PREFIX) u else u in
      let '(k, t) := target_of_href [] u in mkVitem k name t
  | None => mkVitem KInfo l None
  end.

Definition gem_lines (body : str) : list str :=
  let ls := split_on 10 body in
  match rev ls with
  | [] :: r => rev r
  | _ => ls
  end.
Definition view_gemtext (body : str) : list vitem := map view_gemline (gem_lines body).

(* ---------- HTML / WML tokenizer ---------- *)
Inductive token :=
| TText (s : str)
| TStart (name : str) (attrs : list (str * option str))
| TEnd (name : str).
Inductive event := EStart (name : str) (attrs : list str) | EEnd (name : str).

Definition attrs_t := list (str * option str).

Inductive tstate :=
| SText (acc : str)                                     (* character data so far, reversed *)
| STagOpen                                              (* after "<" *)
| SEndOpen                                              (* after "</" *)
| STagName (nm : str)                                   (* reversed *)
| SEndName (nm : str)                                   (* reversed *)
| SEndRest (nm : str)                                   (* end tag name read, waiting for ">" *)
| SBeforeAttr (nm : str) (attrs : attrs_t)              (* attrs reversed *)
| SAttrName (nm : str) (attrs : attrs_t) (an : str)     (* an reversed *)
| SAfterName (nm : str) (attrs : attrs_t) (an : str)
| SBeforeVal (nm : str) (attrs : attrs_t) (an : str)
| SValDq (nm : str) (attrs : attrs_t) (an : str) (v : str)    (* v reversed *)
| SValSq (nm : str) (attrs : attrs_t) (an : str) (v : str)
| SValUnq (nm : str) (attrs : attrs_t) (an : str) (v : str)
| SSlash (nm : str) (attrs : attrs_t)                   (* "/" inside a tag *)
| SBang                                                 (* after "<!" *)
| SBangDash                                             (* after "<!-" *)
| SComment (d : nat)                                    (* 0/1: dashes seen, 2: "--", 3: "--" and blanks *)
| SBogus.                                               (* "<?...", "<!x...", "</1...": up to ">" *)

Definition is_alpha (c : N) : bool := ((65 <=? c) && (c <=? 90)) || ((97 <=? c) && (c <=? 122)).
Definition lower_ascii (c : N) : N := if (65 <=? c) && (c <=? 90) then c + 32 else c.
(* the characters that end a tag name: TAB LF CR FF SPACE "/" ">" NUL *)
Definition is_name_end (c : N) : bool :=
  (c =? 9) || (c =? 10) || (c =? 13) || (c =? 12) || (c =? 32) || (c =? 47) || (c =? 62) || (c =? 0).

Definition start_tok (nm : str) (attrs : attrs_t) : list token := [TStart nm (rev attrs)].

Definition step_before_attr (nm : str) (attrs : attrs_t) (c : N) : tstate * list token :=
  if is_space c then (SBeforeAttr nm attrs, [])
  else if c =? 47 then (SSlash nm attrs, [])
  else if c =? GT then (SText [], start_tok nm attrs)
  else (SAttrName nm attrs [lower_ascii c], []).

Definition step (st : tstate) (c : N) : tstate * list token :=
  match st with
  | SText acc => if c =? LT then (STagOpen, [TText (rev acc)]) else (SText (c :: acc), [])
  | STagOpen =>
      if is_alpha c then (STagName [lower_ascii c], [])
      else if c =? 47 then (SEndOpen, [])
      else if c =? 33 then (SBang, [])
      else if c =? 63 then (SBogus, [])
      else if c =? LT then (STagOpen, [TText [LT]])
      else (SText [c; LT], [])
  | SEndOpen =>
      if is_alpha c then (SEndName [lower_ascii c], [])
      else if c =? GT then (SText [], [])
      else if is_space c then (SEndOpen, [])
      else (SBogus, [])
  | STagName nm =>
      if is_name_end c then
        (if c =? GT then (SText [], start_tok (rev nm) [])
         else if c =? 47 then (SSlash (rev nm) [], [])
         else (SBeforeAttr (rev nm) [], []))
      else (STagName (lower_ascii c :: nm), [])
  | SEndName nm =>
      if is_name_end c then
        (if c =? GT then (SText [], [TEnd (rev nm)]) else (SEndRest (rev nm), []))
      else (SEndName (lower_ascii c :: nm), [])
  | SEndRest nm => if c =? GT then (SText [], [TEnd nm]) else (SEndRest nm, [])
  | SBeforeAttr nm attrs => step_before_attr nm attrs c
  | SSlash nm attrs =>
      if c =? GT then (SText [], [TStart nm (rev attrs); TEnd nm])
      else step_before_attr nm attrs c
  | SAttrName nm attrs an =>
      if is_space c then (SAfterName nm attrs (rev an), [])
      else if c =? 47 then (SSlash nm ((rev an, None) :: attrs), [])
      else if c =? 61 then (SBeforeVal nm attrs (rev an), [])
      else if c =? GT then (SText [], start_tok nm ((rev an, None) :: attrs))
      else (SAttrName nm attrs (lower_ascii c :: an), [])
  | SAfterName nm attrs an =>
      if is_space c then (SAfterName nm attrs an, [])
      else if c =? 61 then (SBeforeVal nm attrs an, [])
      else step_before_attr nm ((an, None) :: attrs) c
  | SBeforeVal nm attrs an =>
      if is_space c then (SBeforeVal nm attrs an, [])
      else if c =? 61 then (SBeforeVal nm attrs an, [])
      else if c =? DQ then (SValDq nm attrs an [], [])
      else if c =? SQ then (SValSq nm attrs an [], [])
      else if c =? GT then (SText [], start_tok nm ((an, Some []) :: attrs))
      else (SValUnq nm attrs an [c], [])
  | SValDq nm attrs an v =>
      if c =? DQ then (SBeforeAttr nm ((an, Some (rev v)) :: attrs), [])
      else (SValDq nm attrs an (c :: v), [])
  | SValSq nm attrs an v =>
      if c =? SQ then (SBeforeAttr nm ((an, Some (rev v)) :: attrs), [])
      else (SValSq nm attrs an (c :: v), [])
  | SValUnq nm attrs an v =>
      if is_space c then (SBeforeAttr nm ((an, Some (rev v)) :: attrs), [])
      else if c =? GT then (SText [], start_tok nm ((an, Some (rev v)) :: attrs))
      else (SValUnq nm attrs an (c :: v), [])
  | SBang =>
      if c =? 45 then (SBangDash, [])
      else if c =? GT then (SText [], [])
      else (SBogus, [])
  | SBangDash =>
      if c =? 45 then (SComment 0, [])
      else if c =? GT then (SText [], [])
      else (SBogus, [])
  | SComment d =>
      match d with
      | O => if c =? 45 then (SComment 1, []) else (SComment 0, [])
      | S O => if c =? 45 then (SComment 2, []) else (SComment 0, [])
      | S (S O) =>
          if c =? 45 then (SComment 2, [])
          else if c =? GT then (SText [], [])
          else if is_space c then (SComment 3, [])
          else (SComment 0, [])
      | _ =>
          if is_space c then (SComment 3, [])
          else if c =? GT then (SText [], [])
          else if c =? 45 then (SComment 1, [])
          else (SComment 0, [])
      end
  | SBogus => if c =? GT then (SText [], []) else (SBogus, [])
  end.

Fixpoint run (st : tstate) (s : str) : tstate * list token :=
  match s with
  | [] => (st, [])
  | c :: r =>
      let '(st1, t1) := step st c in
      let '(st2, t2) := run st1 r in
      (st2, t1 ++ t2)
  end.

(* end of input: pending character data is delivered; an unfinished tag is not a tag *)
Definition flush (st : tstate) : list token :=
  match st with SText acc => [TText (rev acc)] | _ => [] end.

Definition tokens (s : str) : list token :=
  let '(st, ts) := run (SText []) s in ts ++ flush st.

Definition ev_of (t : token) : list event :=
  match t with
  | TText _ => []
  | TStart n a => [EStart n (map fst a)]
  | TEnd n => [EEnd n]
  end.
Definition events (ts : list token) : list event := flat_map ev_of ts.

(* element names and attribute names, in document order; no values, no text *)
Definition skeleton (s : str) : list event := events (tokens s).

(* dict(attrs).get(name): the last binding wins; a bare attribute has no value *)
Fixpoint attr_has (n : str) (attrs : attrs_t) : bool :=
  match attrs with
  | [] => false
  | (k, _) :: r => str_eqb k n || attr_has n r
  end.
Fixpoint attr_get (n : str) (attrs : attrs_t) : option str :=
  match attrs with
  | [] => None
  | (k, v) :: r =>
      if attr_has n r then attr_get n r
      else if str_eqb k n then option_map unescape v else None
  end.

(* ---------- rows of an HTML listing (TR elements; A, FORM, TT inside) ---------- *)
Record hrow := mkHrow { hr_href : option str; hr_text : str; hr_form : option str }.
Record hrst := mkHrst { hs_cur : option hrow; hs_tt : bool }.
Definition HR0 : hrst := mkHrst None false.

Definition n_tr : str := lit "tr".
Definition n_a : str := lit "a".
Definition n_form : str := lit "form".
Definition n_tt : str := lit "tt".
Definition n_href : str := lit "href".
Definition n_action : str := lit "action".

Definition hrow_step (st : hrst) (t : token) : hrst * list hrow :=
  match t with
  | TStart n attrs =>
      if str_eqb n n_tr then (mkHrst (Some (mkHrow None [] None)) (hs_tt st), [])
      else match hs_cur st with
           | None => (st, [])
           | Some r =>
               if str_eqb n n_a then
                 (match hr_href r with
                  | None => mkHrst (Some (mkHrow (attr_get n_href attrs) (hr_text r) (hr_form r))) (hs_tt st)
                  | Some _ => st
                  end, [])
               else if str_eqb n n_form then
                 (mkHrst (Some (mkHrow (hr_href r) (hr_text r) (attr_get n_action attrs))) (hs_tt st), [])
               else if str_eqb n n_tt then (mkHrst (hs_cur st) true, [])
               else (st, [])
           end
  | TEnd n =>
      let tt := if str_eqb n n_tt then false else hs_tt st in
      if str_eqb n n_tr then
        match hs_cur st with
        | Some r => (mkHrst None tt, [r])
        | None => (mkHrst None tt, [])
        end
      else (mkHrst (hs_cur st) tt, [])
  | TText d =>
      match hs_cur st with
      | Some r => if hs_tt st
                  then (mkHrst (Some (mkHrow (hr_href r) (hr_text r ++ unescape d) (hr_form r))) true, [])
                  else (st, [])
      | None => (st, [])
      end
  end.

Fixpoint hrows_from (st : hrst) (ts : list token) : hrst * list hrow :=
  match ts with
  | [] => (st, [])
  | t :: r =>
      let '(st1, o1) := hrow_step st t in
      let '(st2, o2) := hrows_from st1 r in
      (st2, o1 ++ o2)
  end.
Definition html_rows (page : str) : list hrow := snd (hrows_from HR0 (tokens page)).

(* row["href"] or row["form"] *)
Definition hrow_link (r : hrow) : option str :=
  match hr_href r with
  | Some (c :: h) => Some (c :: h)
  | _ => hr_form r
  end.
Definition view_hrow (r : hrow) : vitem :=
  let nm := name_norm (hr_text r) in
  match hrow_link r with
  | None => mkVitem KInfo nm None
  | Some h => let '(k, t) := target_of_href [] h in mkVitem k nm t
  end.
Definition view_html (page : str) : list vitem := map view_hrow (html_rows page).

(* ---------- items of a WML listing deck ---------- *)
(* After the heading (<b>title</b><br/>) every item ends with <br/>.  A link item
   is an A element; a search item is text followed by a second part that holds an
   INPUT and, inside ANCHOR, a GO element with the target; anything else is text. *)
Inductive wphase := WHead | WHeadB | WItems.
Record wst := mkWst {
  w_phase : wphase;
  w_text : str;                 (* character data of the current item outside A / ANCHOR *)
  w_in_a : bool;
  w_a : option (option str * str);   (* href and text of the A element of the item *)
  w_in_anchor : bool;
  w_pending : option str;       (* a text item whose successor may turn it into a search item *)
  w_search : bool;              (* an INPUT was seen after the pending item *)
  w_go : option str             (* href of the GO element *)
}.
Definition W0 : wst := mkWst WHead [] false None false None false None.

Inductive witem := WLink (href : option str) (text : str) | WSearch (href : option str) (text : str) | WInfo (text : str).

Definition strip1_lf (s : str) : str := match s with 10 :: r => r | _ => s end.
Definition n_b : str := lit "b".
Definition n_br : str := lit "br".
Definition n_p : str := lit "p".
Definition n_input : str := lit "input".
Definition n_anchor : str := lit "anchor".
Definition n_go : str := lit "go".

Definition w_reset (st : wst) (pending : option str) : wst :=
  mkWst WItems [] false None false pending false None.
Definition w_flush_pending (st : wst) : list witem :=
  match w_pending st with Some n => [WInfo n] | None => [] end.

Definition witem_step (st : wst) (t : token) : wst * list witem :=
  match w_phase st with
  | WHead => (match t with
              | TEnd n => if str_eqb n n_b then mkWst WHeadB [] false None false None false None else st
              | _ => st
              end, [])
  | WHeadB => (match t with
               | TStart n _ => if str_eqb n n_br then w_reset st None else st
               | _ => st
               end, [])
  | WItems =>
      match t with
      | TText d =>
          if w_in_anchor st then (st, [])
          else if w_in_a st then
            (match w_a st with
             | Some (h, x) => mkWst WItems (w_text st) true (Some (h, x ++ unescape d)) false
                                    (w_pending st) (w_search st) (w_go st)
             | None => st
             end, [])
          else (mkWst WItems (w_text st ++ unescape d) false (w_a st) false
                      (w_pending st) (w_search st) (w_go st), [])
      | TStart n attrs =>
          if str_eqb n n_a then
            (mkWst WItems (w_text st) true (Some (attr_get n_href attrs, [])) (w_in_anchor st)
                   (w_pending st) (w_search st) (w_go st), [])
          else if str_eqb n n_input then
            (mkWst WItems (w_text st) (w_in_a st) (w_a st) (w_in_anchor st) (w_pending st)
                   (match w_pending st with Some _ => true | None => false end) (w_go st), [])
          else if str_eqb n n_anchor then
            (mkWst WItems (w_text st) (w_in_a st) (w_a st) true (w_pending st) (w_search st) (w_go st), [])
          else if str_eqb n n_go then
            (mkWst WItems (w_text st) (w_in_a st) (w_a st) (w_in_anchor st) (w_pending st) (w_search st)
                   (attr_get n_href attrs), [])
          else if str_eqb n n_br then
            (if w_search st then
               (w_reset st None,
                match w_pending st with Some nm => [WSearch (w_go st) nm] | None => [] end)
             else match w_a st with
                  | Some (h, x) => (w_reset st None, w_flush_pending st ++ [WLink h x])
                  | None => (w_reset st (Some (strip1_lf (w_text st))), w_flush_pending st)
                  end)
          else (st, [])
      | TEnd n =>
          if str_eqb n n_a then
            (mkWst WItems (w_text st) false (w_a st) (w_in_anchor st) (w_pending st) (w_search st) (w_go st), [])
          else if str_eqb n n_anchor then
            (mkWst WItems (w_text st) (w_in_a st) (w_a st) false (w_pending st) (w_search st) (w_go st), [])
          else if str_eqb n n_p then (w_reset st None, w_flush_pending st)
          else (st, [])
      end
  end.

Fixpoint witems_from (st : wst) (ts : list token) : wst * list witem :=
  match ts with
  | [] => (st, [])
  | t :: r =>
      let '(st1, o1) := witem_step st t in
      let '(st2, o2) := witems_from st1 r in
      (st2, o1 ++ o2)
  end.
Definition wml_items (deck : str) : list witem := snd (witems_from W0 (tokens deck)).

Definition view_witem (waptop : str) (i : witem) : vitem :=
  match i with
  | WInfo n => mkVitem KInfo (name_norm n) None
  | WLink (Some h) n | WSearch (Some h) n =>
      let '(k, t) := target_of_href waptop h in mkVitem k (name_norm n) t
  | WLink None n | WSearch None n => mkVitem KInfo (name_norm n) None
  end.
Definition view_wml (waptop deck : str) : list vitem := map (view_witem waptop) (wml_items deck).

(* ---------- one reader per protocol ---------- *)
Definition client_parse (p : lproto) (c : lcfg) (body : str) : option (list vitem) :=
  match p with
  | LGopher | LGopherPlus => view_gopher (c_srvname c) (c_srvport c) body
  | LHttp => Some (view_html body)
  | LWap => Some (view_wml (c_waptop c) body)
  | LGemini | LSpartan => Some (view_gemtext body)
  end.

(* ---------- the same, stated on the entry: what every client should see ---------- *)
Definition eff_host (srvname : str) (e : entry) : str :=
  match e_host e with Some h => h | None => srvname end.
Definition eff_port (srvport : Z) (e : entry) : Z :=
  match e_port e with Some p => p | None => srvport end.
Definition eff_type (e : entry) : str :=
  match e_type e with Some t => t | None => lit "0" end.

Definition view (srvname : str) (srvport : Z) (e : entry) : option vitem :=
  match e_name e with
  | None => None
  | Some n =>
      let nm := name_norm n in
      if type_is e T_INFO then Some (mkVitem KInfo nm None)
      else match url_target (e_selector e) with
           | Some u => Some (mkVitem KUrl nm (Some u))
           | None =>
               if str_eqb (eff_host srvname e) srvname && Z.eqb (eff_port srvport e) srvport
               then Some (mkVitem KLink nm (Some (e_selector e)))
               else option_map (fun u => mkVitem KUrl nm (Some u))
                      (option_map (gopher_url_text (eff_host srvname e) (eff_port srvport e))
                                  (quote_str [47] (eff_type e ++ e_selector e)))
           end
  end.

(* ---------- the entries on which every client sees `view` ---------- *)
(* The conditions are those of the formats themselves: Gopher fields cannot hold
   TAB CR LF, a gemtext line cannot hold LF and its URL cannot hold blanks, an
   information line must not read as a link line, a local selector is an absolute
   path, an entry is either on this server (no host, no port) or visibly on another
   one (an entry with only a host, or only a port, of its own takes the other from this server).  Fields are decoded text (what decoding some bytes gives). *)
Definition no_tcl (s : str) : bool := negb (mem_N 9 s) && negb (mem_N 10 s) && negb (mem_N 13 s).
Definition no_ws (s : str) : bool := forallb (fun c => negb (is_ascii_ws c)) s.
Definition canon (s : str) : bool :=
  match encode_se s with Some b => str_eqb (decode_se b) s | None => false end.
Definition url_ok (u : str) : bool :=
  match u with [] => false | _ => negb (is_local_href u) && no_ws u end.
(* an absolute path that does not collide with Gemini's reserved query prefix *)
Definition local_sel_ok (s : str) : bool :=
  is_local_href s && canon s &&
  match quote_str [47] s with
  | Some q => negb (prefixb (QUERY_PREFIX ++ [47]) q)
  | None => false
  end.
Definition reads_as_text (l : str) : bool :=
  match parse_link_line l with None => true | Some _ => false end.

Definition remote_ok (srvname : str) (srvport : Z) (c : N) (e : entry) : bool :=
  negb (is_local e) &&
  negb (str_eqb (eff_host srvname e) srvname && Z.eqb (eff_port srvport e) srvport) &&
  no_ws (eff_host srvname e) &&
  match encode_se (c :: e_selector e) with Some _ => true | None => false end.

Definition entry_wf (srvname : str) (srvport : Z) (e : entry) : bool :=
  match e_name e, e_type e with
  | Some n, Some [c] =>
      no_tcl n && canon n && negb (mem_N c [9; 10; 13]) &&
      no_tcl (e_selector e) && no_tcl (eff_host srvname e) &&
      (if c =? T_INFO then reads_as_text (bsr_map n) else true) &&
      match url_tail (e_selector e) with
      | Some r => url_ok r
      | None =>
          match e_host e, e_port e with
          | None, None => local_sel_ok (e_selector e)
          | _, _ => remote_ok srvname srvport c e
          end
      end
  | _, _ => false
  end.

(* a directory: the entry of the directory, its entries, and every abstract line *)
Definition dir_wf (srvname : str) (srvport : Z) (d : entry) (es : list entry) : bool :=
  forallb (entry_wf srvname srvport) (expand_dir true true d es).
