(* UMN.v — pygopherd/handlers/UMN.py: link-file parsing (getLinkItem /
   processLinkFile), .cap handling and extension stripping
   (prep_entriesappend), mergeentries, MergeLinkFiles.  Mirrors the code line
   by line, including where it raises.  Definitions only.

   `fixes` selects, per known defect, the pinned or the repaired behaviour:
     fx_skip_child   D7   prep_entries skips a child nobody can serve
     fx_sorted_enum  D11  prep_initfiles iterates the names in sorted order
     fx_dash_hides   D12  Type=- in a link file hides (as it does in .cap)
     fx_num_unset    D17  a LinkEntry starts with num = None (not 0)
     fx_remove_safe  D21  hiding the same file twice does not raise
     fx_dot_safe     D22  a dot entry that is not a readable regular file is
                          left alone instead of being opened as a link file
     fx_hidden_stays D25  a ./ block for a file that is not in the listing is
                          dropped when the file was hidden by its .cap file or
                          when the block itself is a hide block
     fx_skip_unreadable D27 prep_entries also skips a child whose handler fails
                          with OSError while it builds the entry (HTML title of
                          an unreadable file, *.gophermap gone since the stat) *)
From Coq Require Import ZArith String.
From PG Require Import Lib.Str Lib.Cmp Lib.Sort Model.DirEntry.
Local Open Scope N_scope.

Record fixes := mkFixes {
  fx_skip_child : bool; fx_sorted_enum : bool; fx_dash_hides : bool;
  fx_num_unset : bool; fx_remove_safe : bool; fx_dot_safe : bool; fx_hidden_stays : bool;
  fx_skip_unreadable : bool }.
Definition pinned : fixes := mkFixes false false false false false false false false.
Definition repaired : fixes := mkFixes true true true true true true true true.

(* ---------- helpers with Python semantics ---------- *)

(* text mode with universal newlines: "\r\n" and "\r" read as "\n" *)
Fixpoint universal_newlines (s : str) : str :=
  match s with
  | [] => []
  | 13 :: r => 10 :: match r with 10 :: r' => universal_newlines r' | _ => universal_newlines r end
  | c :: r => c :: universal_newlines r
  end.

(* int(s): optional sign, decimal digits of any script (Unicode category Nd, as
   CPython 3.12 / Unicode 15 knows them: 68 runs of ten consecutive code points,
   listed by their zero), single underscores between digits, surrounding
   whitespace.  None = ValueError. *)
Definition nd_zeros : list N :=
  [48; 1632; 1776; 1984; 2406; 2534; 2662; 2790; 2918; 3046; 3174; 3302; 3430; 3558; 3664; 3792; 3872; 4160;
   4240; 6112; 6160; 6470; 6608; 6784; 6800; 6992; 7088; 7232; 7248; 42528; 43216; 43264; 43472; 43504; 43600;
   44016; 65296; 66720; 68912; 69734; 69872; 69942; 70096; 70384; 70736; 70864; 71248; 71360; 71472; 71904;
   72016; 72784; 73040; 73120; 73552; 92768; 92864; 93008; 120782; 120792; 120802; 120812; 120822; 123200;
   123632; 124144; 125264; 130032].
Fixpoint digit_in (zs : list N) (c : N) : option N :=
  match zs with
  | [] => None
  | z :: r => if (z <=? c) && (c <? z + 10) then Some (c - z) else digit_in r c
  end.
Definition digit_value (c : N) : option N := digit_in nd_zeros c.

Fixpoint pyint_aux (acc : N) (last_us : bool) (s : str) : option N :=
  match s with
  | [] => if last_us then None else Some acc
  | c :: r =>
      match digit_value c with
      | Some d => pyint_aux (acc * 10 + d) false r
      | None =>
          if (c =? 95) && negb last_us then
            match r with [] => None | _ => pyint_aux acc true r end
          else None
      end
  end.
Definition py_int (s0 : str) : option Z :=
  let s := strip s0 in
  let '(neg, body) := match s with
                      | 43 :: r => (false, r)
                      | 45 :: r => (true, r)
                      | _ => (false, s)
                      end in
  match body with
  | c :: _ =>
      match digit_value c with
      | Some _ => option_map (fun n => if neg : bool then (- Z.of_N n)%Z else Z.of_N n) (pyint_aux 0 false body)
      | None => None
      end
  | [] => None
  end.

(* posixpath.normpath *)
Definition normpath_step (slashes : nat) (acc : list str) (c : str) : list str :=
  if str_eqb c [] || str_eqb c [46] then acc
  else if negb (str_eqb c [46; 46]) then c :: acc
  else match acc with
       | [] => match slashes with O => c :: acc | _ => acc end
       | top :: rest => if str_eqb top [46; 46] then c :: acc else rest
       end.
Definition normpath (p : str) : str :=
  match p with
  | [] => [46]
  | _ =>
      let slashes := if prefixb [47; 47; 47] p then 1%nat
                     else if prefixb [47; 47] p then 2%nat
                     else if prefixb [47] p then 1%nat else 0%nat in
      let comps := rev (fold_left (normpath_step slashes) (split_on 47 p) []) in
      let path := repeat 47 slashes ++ join [47] comps in
      match path with [] => [46] | _ => path end
  end.

Definition last_is (c : N) (s : str) : bool :=
  match last_char s with Some d => d =? c | None => false end.

(* ---------- LinkEntry and the state of one getLinkItem call ---------- *)
Record lentry := mkLentry { le_entry : entry; le_merge : bool; le_abs : bool }.

Record gstate := mkG { g_entry : entry; g_merge : bool; g_abs : bool; g_path : bool }.

Definition fresh_link (fx : fixes) (sel : str) : entry :=
  set_num (if fx_num_unset fx then None else Some 0%Z) (fresh_entry sel).

(* entry = LinkEntry(self.getentry().selector); with capfilepath the selector
   is preset and done["path"] = 1 *)
Definition gstart (fx : fixes) (dirsel : str) (cap : option str) : gstate :=
  match cap with
  | Some p => mkG (fresh_link fx p) false false true
  | None => mkG (fresh_link fx dirsel) false false false
  end.

Definition with_entry (f : entry -> entry) (g : gstate) : gstate :=
  mkG (f (g_entry g)) (g_merge g) (g_abs g) (g_path g).

Definition K_TYPE := lit "Type="%string.
Definition K_NAME := lit "Name="%string.
Definition K_PATH := lit "Path="%string.
Definition K_HOST := lit "Host="%string.
Definition K_PORT := lit "Port="%string.
Definition K_NUMB := lit "Numb="%string.
Definition K_ABSTRACT := lit "Abstract="%string.
Definition K_ADMIN := lit "Admin="%string.
Definition K_URL := lit "URL="%string.
Definition K_TTL := lit "TTL="%string.
Definition EA_ABSTRACT := lit "ABSTRACT"%string.
Definition PLUS : str := [43].

(* the Path= line *)
Definition do_path (base : str) (line : str) (g : gstate) : gstate :=
  let pathname0 := skipn 5 line in
  let pathname := if last_is 47 pathname0 then drop_last pathname0 else pathname0 in
  let two := slice 5 7 line in
  if (7 <=? List.length line)%nat && (str_eqb two [46; 47] || str_eqb two [126; 47]) then
    mkG (set_selector (base ++ [47] ++ skipn 2 pathname) (g_entry g)) true (g_abs g) true
  else if negb (str_eqb pathname []) && negb (prefixb [47] pathname)
          && negb (str_eqb (firstn 4 pathname) (lit "URL:"%string)) then
    mkG (set_selector pathname (g_entry g)) (g_merge g) true true
  else
    mkG (set_selector pathname (g_entry g)) (g_merge g) (g_abs g) true.

Inductive step :=
| SCont (g : gstate)               (* next line of the same block *)
| SEnd                             (* `break`: the block is over *)
| SAbstract (g : gstate) (a : str) (* Abstract= seen, a = line[9:] *)
| SFail (e : exn).

(* one stripped line of the `while 1` loop *)
Definition do_line (base : str) (line : str) (g : gstate) : step :=
  match line with
  | [] => SEnd
  | c0 :: _ =>
    if c0 =? 35 then (if g_path g then SEnd else SCont g)
    else if prefixb K_TYPE line then
      match index_at 5 line with
      | Some t => SCont (with_entry (set_type t) g)
      | None => SFail IndexError
      end
    else if prefixb K_NAME line then SCont (with_entry (set_name (skipn 5 line)) g)
    else if prefixb K_PATH line then SCont (do_path base line g)
    else if prefixb K_HOST line then
      (if str_eqb (skipn 5 line) PLUS then SCont g else SCont (with_entry (set_host (skipn 5 line)) g))
    else if prefixb K_PORT line then
      (if str_eqb (skipn 5 line) PLUS then SCont g
       else match py_int (skipn 5 line) with
            | Some p => SCont (with_entry (set_port p) g)
            | None => SFail ValueError
            end)
    else if prefixb K_NUMB line then
      match py_int (skipn 5 line) with
      | Some n => SCont (with_entry (set_num (Some n)) g)
      | None => SCont g
      end
    else if prefixb K_ABSTRACT line then SAbstract g (skipn 9 line)
    else if prefixb K_ADMIN line || prefixb K_URL line || prefixb K_TTL line then SCont g
    else SEnd
  end.

(* after the loop: `if done["path"]: ... return nextstep, entry` *)
Definition gfinish (base : str) (g : gstate) : option lentry :=
  if g_path g then
    let e := g_entry g in
    let e' := if g_abs g && isnone (e_host e) && isnone (e_port e)
              then set_selector (normpath (base ++ [47] ++ e_selector e)) e else e in
    Some (mkLentry e' (g_merge g) (g_abs g))
  else None.

Definition emit (base : str) (g : gstate) (out : list lentry) : list lentry :=
  match gfinish base g with Some le => le :: out | None => out end.

Definition set_abstract (a : str) (g : gstate) : gstate :=
  match a with [] => g | _ => with_entry (setea EA_ABSTRACT a) g end.

(* processLinkFile as ONE structural recursion over the lines fd.readline()
   returns.  `ab` = Some acc while inside a backslash-continued abstract.
   `out` is accumulated in reverse. *)
Fixpoint plf_loop (fx : fixes) (base dirsel : str) (cap : option str)
         (lines : list str) (g : gstate) (ab : option str) (out : list lentry)
  : result (list lentry) :=
  match lines with
  | [] =>
      (* readline() = "" : a pending abstract ends, then nextstep = "stop" *)
      let g' := match ab with Some acc => set_abstract acc g | None => g end in
      Ok (rev (emit base g' out))
  | raw :: rest =>
      let line := strip raw in
      let abstract_line (g0 : gstate) (acc a : str) :=
          if negb (str_eqb a []) && last_is 92 a
          then plf_loop fx base dirsel cap rest g0 (Some (acc ++ drop_last a ++ [10])) out
          else plf_loop fx base dirsel cap rest (set_abstract (acc ++ a) g0) None out in
      match ab with
      | Some acc => abstract_line g acc line
      | None =>
          match do_line base line g with
          | SCont g' => plf_loop fx base dirsel cap rest g' None out
          | SEnd => plf_loop fx base dirsel cap rest (gstart fx dirsel cap) None (emit base g out)
          | SAbstract g' a => abstract_line g' [] a
          | SFail e => Raise e
          end
      end
  end.

(* `text` is the decoded content of the file (errors="surrogateescape") *)
Definition process_link_file (fx : fixes) (base dirsel : str) (cap : option str) (text : str)
  : result (list lentry) :=
  plf_loop fx base dirsel cap (lines_keepends (universal_newlines text)) (gstart fx dirsel cap) None [].

(* ---------- mergeentries ---------- *)
Definition merge_entries (old new : entry) : entry :=
  let o1 := set_selector (e_selector new) old in
  let o2 := match e_type new with Some t => set_type t o1 | None => o1 end in
  let o3 := match e_name new with Some n => set_name n o2 | None => o2 end in
  let o4 := match e_host new with Some h => set_host h o3 | None => o3 end in
  let o5 := match e_port new with Some p => set_port p o4 | None => o4 end in
  let o6 := match e_num new with Some n => set_num (Some n) o5 | None => o5 end in
  fold_left (fun o kv => setea (fst kv) (snd kv) o) (e_ea new) o6.

(* ---------- fileext.extstrip ---------- *)
Inductive stripmode := StripNone | StripNonencoded | StripFull.

(* `exts` = fileext.typemap[filetype] ([] when the type is unknown or empty) *)
Fixpoint extstrip (file : str) (exts : list str) : str :=
  match exts with
  | [] => file
  | p :: r => if endswith file p then firstn (List.length file - List.length p) file else extstrip file r
  end.

(* gopherentry.handleeaext: "\n".join([x.rstrip() for x in rfile.readlines(20480)])
   for a sidecar file that fits the readlines hint *)
Definition sidecar_value (text : str) : str :=
  join [10] (map rstrip (lines_keepends (universal_newlines text))).

(* what the directory handler knows about a child it could build an entry for *)
Record child_info := mkChild {
  ci_entry : entry;        (* handler.getentry() *)
  ci_isfile : bool;        (* isinstance(handler, FileHandler) *)
  ci_encoded : bool;       (* bool(fileentry.getencoding()) *)
  ci_exts : list str;      (* typemap.get(getencodedmimetype() or getmimetype(), []) *)
}.

Definition CH_X : N := 88.
Definition CH_DASH : N := 45.
Definition cap_hides (t : option N) : bool :=
  match t with Some c => (c =? CH_X) || (c =? CH_DASH) | None => false end.

(* UMNDirHandler.prep_entriesappend: None = not appended.
   plf = processLinkFile(capfilename, fileentry.getselector()) on the content of
   .cap/<file>; `capfile` = None when open() raises (the except IOError branch). *)
Definition umn_append (plf : option str -> str -> result (list lentry))
           (mode : stripmode) (capfile : option str) (file : str) (ci : child_info)
  : result (option entry) :=
  let fe := ci_entry ci in
  let strip_it := match mode with
                  | StripNone => false
                  | StripFull => ci_isfile ci
                  | StripNonencoded => ci_isfile ci && negb (ci_encoded ci)
                  end in
  let fe1 := if strip_it then set_name (extstrip file (ci_exts ci)) fe else fe in
  match capfile with
  | None => Ok (Some fe1)
  | Some text =>
      match plf (Some (e_selector fe1)) text with
      | Raise IOErr => Ok (Some fe1)
      | Raise e => Raise e
      | Ok [] => Ok (Some fe1)
      | Ok (c :: _) =>
          if cap_hides (e_type (le_entry c)) then Ok None
          else Ok (Some (merge_entries fe1 (le_entry c)))
      end
  end.

(* ---------- MergeLinkFiles ----------
   Entries carry their origin: Some name = built from the directory entry
   `name`, None = added by a link file.  The dictionary selector -> entry is
   built once, before the loop; a later entry with the same selector wins. *)
Definition oentry := (option str * entry)%type.

Definition dict_lookup (fes : list oentry) (sel : str) : option str :=
  fold_left (fun acc oe => if str_eqb (e_selector (snd oe)) sel then fst oe else acc) fes None.

Definition origin_is (n : str) (oe : oentry) : bool :=
  match fst oe with Some m => str_eqb m n | None => false end.

(* list.remove(obj): None = ValueError (the object is no longer in the list) *)
Fixpoint remove_origin (n : str) (l : list oentry) : option (list oentry) :=
  match l with
  | [] => None
  | oe :: r => if origin_is n oe then Some r
               else option_map (cons oe) (remove_origin n r)
  end.

Definition update_origin (n : str) (f : entry -> entry) (l : list oentry) : list oentry :=
  map (fun oe => if origin_is n oe then (fst oe, f (snd oe)) else oe) l.

Definition link_hides (fx : fixes) (t : option N) : bool :=
  match t with
  | Some c => (c =? CH_X) || (fx_dash_hides fx && (c =? CH_DASH))
  | None => false
  end.

Fixpoint merge_loop (fx : fixes) (dict : str -> option str) (ls : list lentry) (fes : list oentry)
  : result (list oentry) :=
  match ls with
  | [] => Ok fes
  | le :: r =>
      let e := le_entry le in
      if negb (le_merge le) then merge_loop fx dict r (fes ++ [(None, e)])
      else match dict (e_selector e) with
           | Some n =>
               if link_hides fx (e_type e) then
                 match remove_origin n fes with
                 | Some fes' => merge_loop fx dict r fes'
                 | None => if fx_remove_safe fx then merge_loop fx dict r fes else Raise ValueError
                 end
               else merge_loop fx dict r (update_origin n (fun old => merge_entries old e) fes)
           | None => merge_loop fx dict r (fes ++ [(None, e)])
           end
  end.

Definition merge_link_files (fx : fixes) (ls : list lentry) (fes : list oentry) : result (list oentry) :=
  merge_loop fx (dict_lookup fes) ls fes.

(* D25.  Whether a link entry falls into the final `else` branch of the loop (the
   selector index has no such file) is decided by the index alone, which never
   changes; the repaired loop `continue`s there when the file was dropped by its
   .cap file (`dropped` = the selectors prep_entriesappend did not append) or when
   the block is itself a hide block.  So the repaired loop is the loop over the
   remaining link entries. *)
Definition prune_drops (fx : fixes) (dropped : list str) (dict : str -> option str) (le : lentry) : bool :=
  le_merge le && isnone (dict (e_selector (le_entry le))) &&
  (mem_str (e_selector (le_entry le)) dropped || link_hides fx (e_type (le_entry le))).
Definition prune (fx : fixes) (dropped : list str) (dict : str -> option str) (ls : list lentry) : list lentry :=
  if fx_hidden_stays fx then filter (fun le => negb (prune_drops fx dropped dict le)) ls else ls.

Definition oentry_leb (a b : oentry) : bool := entry_leb (snd a) (snd b).
