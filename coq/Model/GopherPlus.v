(* GopherPlus.v — protocols/gopherp.py: Gopher+ item information ("!"), Gopher+
   directory listings ("$"), the "+" form, and protocols/base.py writedir with
   its abstract handling.  A reference parser for Gopher+ attribute blocks.
   Definitions only.

   External: the configured admin string, the server's name/port, and the text
   of the Mod-Date value (time.ctime + a timestamp in angle brackets), which is
   a function of mtime given as a Section variable. *)
From Coq Require Import String ZArith.
From PG Require Import Lib.Str Lib.Dec Lib.Crlf Model.Entry Model.Render0.
Local Open Scope N_scope.

Definition SP : N := 32.
Definition COLON : N := 58.
Definition PLUSC : N := 43.

(* str.upper / str.lower on block names (ASCII in every configuration modelled) *)
Definition upper_c (c : N) : N := if (97 <=? c) && (c <=? 122) then c - 32 else c.
Definition lower_ascii_c (c : N) : N := if (65 <=? c) && (c <=? 90) then c + 32 else c.
Definition upper_ascii (s : str) : str := map upper_c s.
Definition lower_ascii (s : str) : str := map lower_ascii_c s.

(* value.endswith("\n") *)
Definition endswith_lf (v : str) : bool :=
  match last_char v with Some c => c =? 10 | None => false end.

Section GopherPlus.
  (* true: the repaired getblock, which keeps the final blank line of an
     attribute text; false: the pinned one (plain splitlines) *)
  Variable keep_final_blank : bool.
  Variable admin : str.            (* [protocols.gopherp.GopherPlusProtocol] admin *)
  Variable srvname : str.
  Variable srvport : Z.
  Variable moddate : N -> str.     (* text after " Mod-Date: " *)

  (* getsupportedblocknames *)
  Definition supported_block_names (e : entry) : list str :=
    [lit "+INFO"; lit "+ADMIN"; lit "+VIEWS"] ++ map (fun kv => PLUSC :: fst kv) (e_ea e).

  (* the text of an attribute is the file's lines joined by "\n"; splitlines()
     alone loses a final blank line *)
  Definition ea_body_lines (value : str) : list str :=
    splitlines value ++ (if keep_final_blank && endswith_lf value then [[]] else []).

  (* the lines of an extended-attribute block, without CRLF *)
  Definition ea_block_lines (name : str) (value : str) : list str :=
    (PLUSC :: name ++ [COLON]) :: map (fun x => SP :: x) (ea_body_lines value).
  Definition ea_block (name : str) (value : str) : str :=
    PLUSC :: name ++ [COLON] ++ crlf ++ concat (map (fun x => SP :: x ++ crlf) (ea_body_lines value)).

  (* getinfoblock: "+INFO: " + GopherProtocol.renderobjinfo(self, entry) *)
  Definition info_block (e : entry) : option str :=
    option_map (fun l => lit "+INFO: " ++ l) (gopher0_line srvname srvport e).

  Definition admin_lines (e : entry) : list str :=
    [lit "+ADMIN:"; lit " Admin: " ++ admin] ++
    (if truthy_N (e_mtime e)
     then [lit " Mod-Date: " ++ moddate (match e_mtime e with Some m => m | None => 0 end)] else []).
  Definition admin_block (e : entry) : str := unlines_crlf (admin_lines e).

  Definition views_line (e : entry) : str :=
    SP :: (match e_mimetype e with Some m => m | None => [] end) ++
    (if truthy_str (e_language e) then SP :: (match e_language e with Some l => l | None => [] end) else []) ++
    [COLON] ++
    (match e_size e with Some n => lit " <" ++ print_dec (n / 1024) ++ lit "k>" | None => [] end).
  Definition views_lines (e : entry) : list str :=
    if truthy_str (e_mimetype e) then [lit "+VIEWS:"; views_line e] else [].
  Definition views_block (e : entry) : str := unlines_crlf (views_lines e).

  (* getblock(block, entry); None = the AttributeError of getattr on an unknown
     block function, or the TypeError of rendering an entry without a name *)
  Definition getblock (block : str) (e : entry) : option str :=
    let blockname := lower_ascii (tl block) in
    let key := upper_ascii blockname in
    match dict_get key (e_ea e) with
    | Some v => Some (ea_block key v)
    | None =>
        if str_eqb blockname (lit "info") then info_block e
        else if str_eqb blockname (lit "admin") then Some (admin_block e)
        else if str_eqb blockname (lit "views") then Some (views_block e)
        else None
    end.

  Fixpoint concat_opt (l : list (option str)) : option str :=
    match l with
    | [] => Some []
    | None :: _ => None
    | Some x :: r => option_map (app x) (concat_opt r)
    end.

  (* getallblocks *)
  Definition getallblocks (e : entry) : option str :=
    concat_opt (map (fun b => getblock b e) (supported_block_names e)).

  (* GopherPlusProtocol.renderobjinfo first rewrites the menu type of entries
     that support Gopher+ *)
  Definition GMENU : str := lit "application/gopher-menu".
  Definition GPMENU : str := lit "application/gopher+-menu".
  Definition menu_adjust (e : entry) : entry :=
    match e_mimetype e with
    | Some m => if str_eqb m GMENU && e_gopherpsupport e then set_mimetype (Some GPMENU) e else e
    | None => e
    end.

  Inductive method := DocumentOnly | InfoOnly | GopherPlusDir.

  Definition renderobjinfo (meth : method) (e : entry) : option str :=
    let e' := menu_adjust e in
    match meth with
    | DocumentOnly => gopher0_line srvname srvport e'
    | _ => getallblocks e'
    end.

  (* the information of one item *)
  Definition render_info (e : entry) : option str := renderobjinfo InfoOnly e.

  (* protocols/base.py renderabstract: one info entry per line of the abstract *)
  Definition abstract_entries (a : option str) : list entry :=
    match a with
    | Some (c :: s) => map getinfoentry (splitlines (c :: s))
    | _ => []
    end.

  (* the entries writedir renders, in order: the directory's own abstract (if
     abstract_headers), then every entry followed by its abstract (if doabstracts) *)
  Definition writedir_items (abstract_headers doabstracts : bool) (dir : entry) (entries : list entry) : list entry :=
    (if abstract_headers
     then abstract_entries (Some (match dict_get (lit "ABSTRACT") (e_ea dir) with Some a => a | None => [] end))
     else []) ++
    flat_map (fun e => e :: (if doabstracts then abstract_entries (dict_get (lit "ABSTRACT") (e_ea e)) else [])) entries.

  Definition writedir (meth : method) (abstract_headers doabstracts : bool) (dir : entry) (entries : list entry)
    : option str :=
    concat_opt (map (renderobjinfo meth) (writedir_items abstract_headers doabstracts dir entries)).

  (* ---------- responses ---------- *)
  Definition size_line (e : entry) : str :=
    PLUSC :: (match e_size e with Some n => print_dec n | None => lit "-2" end) ++ crlf.

  (* "!" : information about one item *)
  Definition gplus_info (e : entry) : option str :=
    option_map (app (lit "+-2" ++ crlf)) (render_info e).

  (* "$" (and "+") on a directory: length line of the directory entry, then the listing *)
  Definition gplus_dir (meth : method) (abstract_headers doabstracts : bool) (dir : entry) (entries : list entry)
    : option str :=
    option_map (app (size_line dir)) (writedir meth abstract_headers doabstracts dir entries).
End GopherPlus.

(* ---------- reference reader of Gopher+ attribute blocks ---------- *)
Record block := mkBlock { b_name : str; b_inline : str; b_lines : list str }.

(* "+NAME:" optionally followed by one space and text on the same line *)
Definition parse_header (l : str) : option (str * str) :=
  match l with
  | c :: r =>
      if c =? PLUSC then
        match split_once COLON r with
        | (name, Some rest) =>
            Some (name, match rest with s :: x => if s =? SP then x else rest | [] => [] end)
        | (_, None) => None
        end
      else None
  | [] => None
  end.

(* right to left: (body lines not yet attached to a header, blocks) *)
Fixpoint parse_lines (ls : list str) : option (list str * list block) :=
  match ls with
  | [] => Some ([], [])
  | l :: r =>
      match parse_lines r with
      | None => None
      | Some (body, blocks) =>
          match l with
          | c :: x =>
              if c =? SP then Some (x :: body, blocks)
              else match parse_header l with
                   | Some (n, i) => Some ([], mkBlock n i body :: blocks)
                   | None => None
                   end
          | [] => None
          end
      end
  end.

Definition parse_blocks (s : str) : option (list block) :=
  let '(ls, rest) := split_crlf s in
  match rest with
  | [] => match parse_lines ls with Some ([], bs) => Some bs | _ => None end
  | _ => None
  end.

(* the +INFO payloads of a listing, in order *)
Definition info_payloads (bs : list block) : list str :=
  map b_inline (filter (fun b => str_eqb (b_name b) (lit "INFO")) bs).

Definition block_eqb (a b : block) : bool :=
  str_eqb (b_name a) (b_name b) && str_eqb (b_inline a) (b_inline b) && list_eqb str_eqb (b_lines a) (b_lines b).
