(* TALVM.v — the control / scope skeleton of simpleTAL.TemplateInterpreter
   (execute, cmdDefine, cmdCondition, cmdRepeat, cmdContent, cmdAttributes, cmdOmitTag,
   cmdStartScope, cmdOutputStartTag, cmdEndTagEndScope, cmdOutput, cmdNoOp, cmdUseMacro,
   cmdDefineSlot, pushProgram/popProgram, cleanState) together with the scope discipline
   of simpleTALES.Context (pushLocals / popLocals / setLocal / addGlobal / addRepeat /
   removeRepeat).

   Data values are abstract: an arbitrary data state `D` is threaded through the run and
   every data-dependent decision (truth of a condition, what a repeat expression yields,
   whether content is nothing / default / a value / a template, what a use-macro expression
   yields) is taken by Section-variable functions of that state.  Any concrete evaluator
   (including the real one) is an instance, so statements proved for all D and all
   decision functions hold for it.  Output is part of D.
   Definitions only. *)
From PG Require Import Lib.Str Model.TALProg.

(* ---- the part of simpleTALES.Context that the scope discipline is about:
        which names are bound where (values live in D) ---- *)
Record scopes : Type := mkSc {
  s_locals : list str;              (* keys of context.locals *)
  s_lstack : list (list str);       (* context.localStack *)
  s_rmap : list str;                (* keys of context.repeatMap *)
  s_rstack : list (list str)        (* context.repeatStack *)
}.
Record ctx : Type := mkCtx {
  c_sc : scopes;
  c_globals : list str              (* keys of context.globals *)
}.

Definition add_name (n : str) (l : list str) : list str := if mem_str n l then l else n :: l.

Definition sc_push (s : scopes) : scopes := mkSc (s_locals s) (s_locals s :: s_lstack s) (s_rmap s) (s_rstack s).
Definition sc_set (n : str) (s : scopes) : scopes := mkSc (add_name n (s_locals s)) (s_lstack s) (s_rmap s) (s_rstack s).
(* popLocals: list.pop() raises IndexError on an empty stack *)
Definition sc_pop (s : scopes) : option scopes :=
  match s_lstack s with
  | [] => None
  | l :: r => Some (mkSc l r (s_rmap s) (s_rstack s))
  end.
(* Context.addRepeat: push the repeat map, bind the name in a copy; then pushLocals, setLocal *)
Definition sc_add_repeat (n : str) (s : scopes) : scopes :=
  sc_set n (sc_push (mkSc (s_locals s) (s_lstack s) (add_name n (s_rmap s)) (s_rmap s :: s_rstack s))).
(* Context.removeRepeat *)
Definition sc_remove_repeat (s : scopes) : option scopes :=
  match s_rstack s with
  | [] => None
  | m :: r => Some (mkSc (s_locals s) (s_lstack s) m r)
  end.

Definition push_locals (c : ctx) : ctx := mkCtx (sc_push (c_sc c)) (c_globals c).
Definition set_local (n : str) (c : ctx) : ctx := mkCtx (sc_set n (c_sc c)) (c_globals c).
Definition pop_locals (c : ctx) : option ctx :=
  match sc_pop (c_sc c) with Some s => Some (mkCtx s (c_globals c)) | None => None end.
Definition add_global (n : str) (c : ctx) : ctx := mkCtx (c_sc c) (add_name n (c_globals c)).

Definition REPEAT : str := [114; 101; 112; 101; 97; 116]%N.   (* "repeat" *)
Definition ATTRS : str := [97; 116; 116; 114; 115]%N.         (* "attrs" *)

(* Context.addRepeat / removeRepeat also store the repeat map under globals['repeat'] *)
Definition add_repeat (n : str) (c : ctx) : ctx :=
  mkCtx (sc_add_repeat n (c_sc c)) (add_name REPEAT (c_globals c)).
Definition remove_repeat (c : ctx) : option ctx :=
  match sc_remove_repeat (c_sc c) with
  | Some s => Some (mkCtx s (add_name REPEAT (c_globals c)))
  | None => None
  end.
(* Context.evaluate(expr, originalAtts) stores originalAtts under globals['attrs'] *)
Definition touch_attrs (c : ctx) : ctx := add_global ATTRS c.

(* ---- interpreter registers ---- *)
(* tagContent: None | (structureFlag, value that is not a Template) | (1, Template) *)
Inductive tcv : Type := TNone | TVal (structure : bool) | TTpl (s : subt).

Record regs : Type := mkRegs {
  r_fwd : option nat;        (* movePCForward *)
  r_back : option nat;       (* movePCBack *)
  r_tc : tcv;                (* tagContent *)
  r_lvd : bool;              (* localVarsDefined *)
  r_rep : option nat         (* repeatVariable: Some k = k further items after the current one *)
}.
Definition regs0 : regs := mkRegs None None TNone false None.

(* scopeStack holds the tuples pushed by cmdStartScope and the repeatAttributesCopy lists pushed by cmdRepeat *)
Inductive sentry : Type := SScope (r : regs) | SRep.

(* what the data decide *)
Inductive rep_dec : Type := RDefault | RSkip | RLoop (more : nat).    (* RLoop k: k+1 items *)
Inductive val_dec : Type := VNothing | VDefault | VValue | VTemplate (i : nat).
Inductive mac_dec : Type := MNothing | MOther | MMacro (i : nat).

Inductive res (A : Type) : Type := Done (a : A) | Stuck | OutOfFuel.
Arguments Done {A} a.
Arguments Stuck {A}.
Arguments OutOfFuel {A}.

Section VM.
  Variable prog : program.
  Variable tab : symtab.
  Variable subs : list subt.           (* templates a value can be: all_subs prog macros *)

  Variable D : Type.
  Variable o_cond : D -> cmd -> bool.
  Variable o_rep : D -> cmd -> rep_dec.
  Variable o_val : D -> cmd -> val_dec.
  Variable o_mac : D -> cmd -> mac_dec.
  Variable o_upd : D -> nat -> cmd -> D.   (* effect of executing the command at pc on the data (values, output) *)

  Record mach : Type := mkMach {
    pc : nat;
    sstack : list sentry;
    rg : regs;
    slotp : slotmap;         (* slotParameters *)
    curs : slotmap;          (* currentSlots *)
    cx : ctx;
    dat : D
  }.

  Definition set_pc (p : nat) (m : mach) : mach := mkMach p (sstack m) (rg m) (slotp m) (curs m) (cx m) (dat m).
  Definition set_rg (r : regs) (m : mach) : mach := mkMach (pc m) (sstack m) r (slotp m) (curs m) (cx m) (dat m).
  Definition set_cx (c : ctx) (m : mach) : mach := mkMach (pc m) (sstack m) (rg m) (slotp m) (curs m) c (dat m).
  Definition set_ss (s : list sentry) (m : mach) : mach := mkMach (pc m) s (rg m) (slotp m) (curs m) (cx m) (dat m).
  Definition next (m : mach) : mach := set_pc (S (pc m)) m.

  Definition with_fwd (f : option nat) (r : regs) := mkRegs f (r_back r) (r_tc r) (r_lvd r) (r_rep r).
  Definition with_back (b : option nat) (r : regs) := mkRegs (r_fwd r) b (r_tc r) (r_lvd r) (r_rep r).
  Definition with_tc (t : tcv) (r : regs) := mkRegs (r_fwd r) (r_back r) t (r_lvd r) (r_rep r).
  Definition with_lvd (b : bool) (r : regs) := mkRegs (r_fwd r) (r_back r) (r_tc r) b (r_rep r).
  Definition with_rep (k : option nat) (r : regs) := mkRegs (r_fwd r) (r_back r) (r_tc r) (r_lvd r) k.

  (* cmdDefine: the first local define pushes the locals; every define evaluates (attrs) *)
  Fixpoint do_defines (args : list (bool * (str * str))) (found : bool) (c : ctx) : bool * ctx :=
    match args with
    | [] => (found, c)
    | (isloc, (name, _)) :: r =>
        let c1 := touch_attrs c in
        if isloc then
          let c2 := if found then c1 else push_locals c1 in
          do_defines r true (set_local name c2)
        else do_defines r found (add_global name c1)
    end.

  (* one command; `call limit m` runs a sub-template (Template.expandInline -> execute) *)
  Definition step (call : nat -> mach -> res mach) (c : cmd) (m0 : mach) : res mach :=
    let d := dat m0 in
    let m := mkMach (pc m0) (sstack m0) (rg m0) (slotp m0) (curs m0) (cx m0) (o_upd d (pc m0) c) in
    let r := rg m in
    match c with
    | CDefine args =>
        let '(found, c1) := do_defines args false (cx m) in
        Done (next (set_rg (with_lvd found r) (set_cx c1 m)))
    | CCondition _ sym =>
        let m1 := set_cx (touch_attrs (cx m)) m in
        if o_cond d c then Done (next m1)
        else match lookup_sym tab sym with
             | Some e => Done (set_pc e (set_rg (with_tc TNone r) m1))
             | None => Stuck
             end
    | CRepeat v _ sym =>
        match r_rep r with
        | Some k =>
            (* part way through a repeat *)
            let r1 := with_fwd None (with_tc TNone r) in
            match k with
            | S k' => Done (next (set_rg (with_rep (Some k') r1) (set_cx (set_local v (cx m)) m)))
            | O =>
                match remove_repeat (cx m) with
                | None => Stuck
                | Some c1 =>
                    match pop_locals c1, lookup_sym tab sym, sstack m with
                    | Some c2, Some e, SRep :: ss =>
                        Done (set_pc e (set_ss ss (set_rg (with_back None (with_rep None r1)) (set_cx c2 m))))
                    | _, _, _ => Stuck
                    end
                end
            end
        | None =>
            let m1 := set_cx (touch_attrs (cx m)) m in
            match o_rep d c with
            | RDefault => Done (next m1)
            | RSkip => match lookup_sym tab sym with
                       | Some e => Done (set_pc e m1)
                       | None => Stuck
                       end
            | RLoop k =>
                let r1 := with_back (Some (pc m)) (with_rep (Some k) r) in
                Done (next (set_ss (SRep :: sstack m) (set_rg r1 (set_cx (add_repeat v (cx m1)) m1))))
            end
        end
    | CContent _ struct _ sym =>
        let m1 := set_cx (touch_attrs (cx m)) m in
        match o_val d c with
        | VDefault => Done (next m1)
        | VNothing => match lookup_sym tab sym with
                      | Some e => Done (next (set_rg (with_fwd (Some e) r) m1))
                      | None => Stuck
                      end
        | VValue => match lookup_sym tab sym with
                    | Some e => Done (next (set_rg (with_fwd (Some e) (with_tc (TVal struct) r)) m1))
                    | None => Stuck
                    end
        | VTemplate i =>
            let t := match nth_error subs i with
                     | Some s => if struct then TTpl s else TVal struct
                     | None => TVal struct
                     end in
            match lookup_sym tab sym with
            | Some e => Done (next (set_rg (with_fwd (Some e) (with_tc t r)) m1))
            | None => Stuck
            end
        end
    | CAttributes _ => Done (next (set_cx (touch_attrs (cx m)) m))
    | COmitTag _ => Done (next (set_cx (touch_attrs (cx m)) m))
    | CStartScope _ _ => Done (next (set_ss (SScope r :: sstack m) (set_rg regs0 m)))
    | COutput _ => Done (next m)
    | CNoOp => Done (next m)
    | CStartTag _ _ =>
        match r_fwd r with
        | Some p => Done (set_pc p m)
        | None => Done (next m)
        end
    | CUseMacro _ slots sym =>
        let m1 := set_cx (touch_attrs (cx m)) m in
        let plain := Done (next m1) in
        match o_mac d c with
        | MNothing => match lookup_sym tab sym with
                      | Some e => Done (next (set_rg (with_fwd (Some e) r) m1))
                      | None => Stuck
                      end
        | MOther => plain
        | MMacro i =>
            match nth_error subs i with
            | Some s =>
                match lookup_sym tab sym with
                | Some e => Done (mkMach e (sstack m1) (with_tc (TTpl s) r) slots (curs m1) (cx m1) (dat m1))
                | None => Stuck
                end
            | None => plain
            end
        end
    | CDefineSlot name sym =>
        match lookup_slot (curs m) name with
        | Some s => match lookup_sym tab sym with
                    | Some e => Done (set_pc e (set_rg (with_tc (TTpl s) r) m))
                    | None => Stuck
                    end
        | None => Done (next m)
        end
    | CEndTagEndScope _ _ _ =>
        (* tagContent that is a Template: pushProgram; expandInline; popProgram; slotParameters = {} *)
        let after :=
          match r_tc r with
          | TTpl s =>
              match lookup_sym tab (snd s) with
              | None => Stuck
              | Some e =>
                  let callee := mkMach (fst s) [] regs0 (slotp m) (slotp m) (cx m) (dat m) in
                  match call (S e) callee with
                  | Done m2 => Done (mkMach (pc m) (sstack m) (rg m) [] (curs m) (cx m2) (dat m2))
                  | Stuck => Stuck
                  | OutOfFuel => OutOfFuel
                  end
              end
          | _ => Done m
          end in
        match after with
        | Done m1 =>
            match r_back r with
            | Some b => Done (set_pc b m1)
            | None =>
                let c1 := if r_lvd r then pop_locals (cx m1) else Some (cx m1) in
                match c1, sstack m1 with
                | Some c2, SScope r0 :: ss => Done (next (set_ss ss (set_rg r0 (set_cx c2 m1))))
                | _, _ => Stuck
                end
            end
        | Stuck => Stuck
        | OutOfFuel => OutOfFuel
        end
    end.

  (* TemplateInterpreter.execute: while programCounter < programLength: handler() *)
  Fixpoint run (fuel : nat) (limit : nat) (m : mach) : res mach :=
    match fuel with
    | O => OutOfFuel
    | S f =>
        if Nat.leb limit (pc m) then Done m
        else match nth_error prog (pc m) with
             | None => Stuck
             | Some c =>
                 match step (run f) c m with
                 | Done m1 => run f limit m1
                 | Stuck => Stuck
                 | OutOfFuel => OutOfFuel
                 end
             end
    end.

  (* Template.expand on the whole program with a fresh interpreter *)
  Definition init (c : ctx) (d : D) : mach := mkMach 0 [] regs0 [] [] c d.
  Definition vm_run (fuel : nat) (c : ctx) (d : D) : res mach := run fuel (length prog) (init c d).
End VM.
