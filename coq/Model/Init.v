(* Init.v — a small imperative IR for pygopherd/initialization.py (initialize,
   get_server, init_security and the other init_* helpers) and its big-step
   semantics.  The IR *instances* are not written by hand: Gen/Init.v is emitted
   from the AST of initialization.py on every run (translate/gen_init.py).

   The semantics produces the trace of external calls ("effects") that were
   carried out, and says how start-up ended: Running, Abort (an exception left
   the entry function; with the index of the failing call when it came from an
   injected failure), Exited (sys.exit).  The injected failure: the k-th external
   call that is *executed* raises an exception of class x — and, for the
   correspondence runs, so do the following n-1 calls or every later call (a
   resource that stays unavailable).
   Definitions only. *)
From Coq Require Import String.
From PG Require Import Lib.Str.
Local Open Scope N_scope.

(* ---------------- syntax ---------------- *)
Inductive expr :=
  | ENone
  | EStr (s : str)                       (* constant *)
  | ESym (s : str)                       (* module-level name / dotted constant: an opaque truthy object *)
  | EVar (v : str)                       (* local variable or parameter *)
  | ECfgGet (sec opt : str)              (* config.get / config.getint *)
  | EHasOpt (sec opt : str)              (* config.has_option *)
  | EGetBool (sec opt : str)             (* config.getboolean *)
  | ECall (f : str) (args : list expr)   (* external call: an effect, and a place where start-up can fail *)
  | ELocal (f : str) (args : list expr)  (* function of initialization.py (arguments in parameter order) *)
  | EIndex (e : expr) (i : N)            (* e[i] *)
  | EOpq (subs : list expr)              (* f-string, tuple, % formatting ...: sub-expressions are evaluated, value opaque *)
  | EIsNone (e : expr)
  | EIsNotNone (e : expr)
  | EEq (a b : expr)
  | ENot (e : expr)
  | EOr (a b : expr)
  | EAnd (a b : expr)
  | EIn (e : expr) (elts : list expr).   (* e in (x, y, ...): e, then every element, then the comparisons *)

Inductive stmt :=
  | SPass
  | SExpr (e : expr)
  | SAssign (v : str) (e : expr)
  | SCfgSet (sec opt : str) (e : expr)   (* config.set(sec, opt, e) *)
  | SLog (args : list expr)              (* logger.log / GopherExceptions.log *)
  | SIf (c : expr) (a b : list stmt)
  | STry (body : list stmt) (handlers : list handler) (orelse : list stmt)
  | SWith (e : expr) (v : str) (body : list stmt)
  | SRaise (cls : str) (args : list expr)
  | SReraise
  | SReturn (e : expr)
  | SExit                                (* sys.exit(...) *)
with handler :=
  | Handler (classes : list str) (v : str) (body : list stmt).

Record fundef := FunDef { fname : str; fparams : list str; fbody : list stmt }.
Definition program := list fundef.

(* ---------------- values, effects, state ---------------- *)
Inductive value := VNone | VBool (b : bool) | VInt (n : N) | VStr (s : str) | VSym (s : str).

(* classes of injected failures: OSError (what os.*, ssl and the server class
   raise), KeyError (pwd.getpwnam / grp.getgrnam), RuntimeError (anything else
   deriving from Exception); XOther = an exception the model raises by itself
   (missing option, unbound variable, explicit raise of an unknown class) *)
Inductive xcls := XOS | XKey | XRuntime | XOther.

Record effect := Eff { ename : str; eargs : list str }.

Definition cfgmap := list ((str * str) * str).

Record state := State {
  vars : list (str * value);
  cfg : cfgmap;
  trace : list effect;                (* most recent first *)
  ncalls : nat;                       (* external calls attempted so far *)
  cur : option (xcls * option nat)    (* exception being handled (for a bare raise) *)
}.

Record world := World {
  w_fail : option (nat * xcls);       (* the k-th external call raises ... *)
  w_results : list (str * value);     (* results of particular calls, e.g. os.fork; default: symbolic *)
  w_span : option nat                 (* ... and so do the n-1 calls after it (None: every later call) *)
}.

Inductive res (A : Type) :=
  | ROk (a : A) (s : state)
  | RRaise (x : xcls) (origin : option nat) (s : state)
  | RReturn (v : value) (s : state)
  | RExit (s : state)
  | RStuck.
Arguments ROk {A}. Arguments RRaise {A}. Arguments RReturn {A}. Arguments RExit {A}. Arguments RStuck {A}.

(* ---------------- helpers ---------------- *)
Definition pair_eqb (a b : str * str) : bool := str_eqb (fst a) (fst b) && str_eqb (snd a) (snd b).

Fixpoint lookup {V} (k : str) (l : list (str * V)) : option V :=
  match l with
  | [] => None
  | (k', v) :: r => if str_eqb k k' then Some v else lookup k r
  end.

Fixpoint cfg_lookup (k : str * str) (l : cfgmap) : option str :=
  match l with
  | [] => None
  | (k', v) :: r => if pair_eqb k k' then Some v else cfg_lookup k r
  end.

Definition cfg_set (k : str * str) (v : str) (l : cfgmap) : cfgmap :=
  (k, v) :: filter (fun kv => negb (pair_eqb k (fst kv))) l.

Definition set_var (v : str) (x : value) (s : state) : state :=
  State ((v, x) :: vars s) (cfg s) (trace s) (ncalls s) (cur s).
Definition with_vars (vs : list (str * value)) (s : state) : state :=
  State vs (cfg s) (trace s) (ncalls s) (cur s).
Definition with_cur (c : option (xcls * option nat)) (s : state) : state :=
  State (vars s) (cfg s) (trace s) (ncalls s) c.

Definition show (v : value) : str :=
  match v with
  | VNone => lit "None"
  | VBool true => lit "True"
  | VBool false => lit "False"
  | VInt n => print_dec n
  | VStr s => s
  | VSym s => s
  end.

Definition truthy (v : value) : bool :=
  match v with
  | VNone => false
  | VBool b => b
  | VInt n => negb (n =? 0)
  | VStr s => match s with [] => false | _ => true end
  | VSym _ => true
  end.

Definition value_eqb (a b : value) : bool :=
  match a, b with
  | VNone, VNone => true
  | VBool x, VBool y => Bool.eqb x y
  | VInt x, VInt y => x =? y
  | VStr x, VStr y => str_eqb x y
  | VSym x, VSym y => str_eqb x y
  | _, _ => false
  end.

(* configparser.getboolean: value.lower() in 1/yes/true/on, 0/no/false/off; anything else: ValueError *)
Definition lower_c (c : N) : N := if (65 <=? c) && (c <=? 90) then c + 32 else c.
Definition parse_bool (s0 : str) : option bool :=
  let s := map lower_c s0 in
  if mem_str s (map lit ["1"; "yes"; "true"; "on"]%string) then Some true
  else if mem_str s (map lit ["0"; "no"; "false"; "off"]%string) then Some false
  else None.

Definition sym_call (f : str) (args : list value) : value :=
  VSym (f ++ lit "(" ++ join (lit ",") (map show args) ++ lit ")").

(* which exceptions an `except <cls>` clause catches *)
Definition catches (cls : str) (x : xcls) : bool :=
  if mem_str cls (map lit ["BaseException"; "Exception"]%string) then true
  else if mem_str cls (map lit ["OSError"; "IOError"; "EnvironmentError"]%string)
       then match x with XOS => true | _ => false end
  else if mem_str cls (map lit ["KeyError"; "LookupError"]%string)
       then match x with XKey => true | _ => false end
  else if str_eqb cls (lit "RuntimeError")
       then match x with XRuntime => true | _ => false end
  else false.    (* AttributeError, ValueError ...: none of the modelled failures *)

Definition raise_cls (cls : str) : xcls :=
  if mem_str cls (map lit ["OSError"; "IOError"]%string) then XOS
  else if str_eqb cls (lit "KeyError") then XKey
  else if str_eqb cls (lit "RuntimeError") then XRuntime
  else XOther.

Fixpoint bind_params (ps : list str) (vs : list value) : list (str * value) :=
  match ps, vs with
  | p :: ps', v :: vs' => (p, v) :: bind_params ps' vs'
  | p :: ps', [] => (p, VNone) :: bind_params ps' []
  | [], _ => []
  end.

Fixpoint find_fun (P : program) (f : str) : option fundef :=
  match P with
  | [] => None
  | d :: r => if str_eqb f (fname d) then Some d else find_fun r f
  end.

(* one external call: position = ncalls; fails when the world says so *)
Definition do_call (W : world) (f : str) (args : list value) (s : state) : res value :=
  let k := ncalls s in
  let s1 := State (vars s) (cfg s) (trace s) (S k) (cur s) in
  match w_fail W with
  | Some (k', x) =>
      if Nat.leb k' k && match w_span W with None => true | Some n => Nat.ltb k (k' + n) end
      then RRaise x (Some k) s1
      else ROk (match lookup f (w_results W) with Some v => v | None => sym_call f args end)
               (State (vars s) (cfg s) (Eff f (map show args) :: trace s) (S k) (cur s))
  | None =>
      ROk (match lookup f (w_results W) with Some v => v | None => sym_call f args end)
          (State (vars s) (cfg s) (Eff f (map show args) :: trace s) (S k) (cur s))
  end.

(* ---------------- semantics (fuel = recursion depth) ---------------- *)
Section Sem.
Variable P : program.
Variable W : world.

Fixpoint eval (fuel : nat) (e : expr) (s : state) {struct fuel} : res value :=
  match fuel with O => RStuck | S f =>
  match e with
  | ENone => ROk VNone s
  | EStr x => ROk (VStr x) s
  | ESym x => ROk (VSym x) s
  | EVar v => match lookup v (vars s) with
              | Some x => ROk x s
              | None => RRaise XOther None s          (* UnboundLocalError *)
              end
  | ECfgGet sec opt => match cfg_lookup (sec, opt) (cfg s) with
                       | Some x => ROk (VStr x) s
                       | None => RRaise XOther None s  (* NoOptionError *)
                       end
  | EHasOpt sec opt => ROk (VBool (match cfg_lookup (sec, opt) (cfg s) with Some _ => true | None => false end)) s
  | EGetBool sec opt => match cfg_lookup (sec, opt) (cfg s) with
                        | Some x => match parse_bool x with
                                    | Some b => ROk (VBool b) s
                                    | None => RRaise XOther None s   (* ValueError *)
                                    end
                        | None => RRaise XOther None s
                        end
  | ECall g args =>
      match evals f args s with
      | ROk vs s1 => do_call W g vs s1
      | RRaise x o s1 => RRaise x o s1
      | RReturn _ _ => RStuck
      | RExit s1 => RExit s1
      | RStuck => RStuck
      end
  | ELocal g args =>
      match evals f args s with
      | ROk vs s1 =>
          match find_fun P g with
          | None => do_call W (lit "local:" ++ g) vs s1
          | Some d =>
              let saved := vars s1 in
              match execs f (fbody d) (with_vars (bind_params (fparams d) vs) s1) with
              | ROk _ s2 => ROk VNone (with_vars saved s2)
              | RReturn v s2 => ROk v (with_vars saved s2)
              | RRaise x o s2 => RRaise x o (with_vars saved s2)
              | RExit s2 => RExit s2
              | RStuck => RStuck
              end
          end
      | RRaise x o s1 => RRaise x o s1
      | RReturn _ _ => RStuck
      | RExit s1 => RExit s1
      | RStuck => RStuck
      end
  | EIndex a i =>
      match eval f a s with
      | ROk (VSym x) s1 =>
          (* a field of a looked-up record may be given by the world (an account whose id is 0) *)
          let key := x ++ lit "[" ++ print_dec i ++ lit "]" in
          ROk (match lookup key (w_results W) with Some v => v | None => VSym key end) s1
      | ROk _ s1 => ROk (VSym (lit "_")) s1
      | r => r
      end
  | EOpq subs =>
      match evals f subs s with
      | ROk _ s1 => ROk (VSym (lit "_")) s1
      | RRaise x o s1 => RRaise x o s1
      | RReturn _ _ => RStuck
      | RExit s1 => RExit s1
      | RStuck => RStuck
      end
  | EIsNone a =>
      match eval f a s with
      | ROk v s1 => ROk (VBool (match v with VNone => true | _ => false end)) s1
      | r => r
      end
  | EIsNotNone a =>
      match eval f a s with
      | ROk v s1 => ROk (VBool (match v with VNone => false | _ => true end)) s1
      | r => r
      end
  | EEq a b =>
      match eval f a s with
      | ROk va s1 => match eval f b s1 with
                     | ROk vb s2 => ROk (VBool (value_eqb va vb)) s2
                     | r => r
                     end
      | r => r
      end
  | ENot a =>
      match eval f a s with
      | ROk v s1 => ROk (VBool (negb (truthy v))) s1
      | r => r
      end
  | EOr a b =>
      match eval f a s with
      | ROk va s1 => if truthy va then ROk va s1 else eval f b s1
      | r => r
      end
  | EAnd a b =>
      match eval f a s with
      | ROk va s1 => if truthy va then eval f b s1 else ROk va s1
      | r => r
      end
  | EIn a elts =>
      match eval f a s with
      | ROk va s1 =>
          match evals f elts s1 with
          | ROk vs s2 => ROk (VBool (existsb (value_eqb va) vs)) s2
          | RRaise x o s2 => RRaise x o s2
          | RReturn _ _ => RStuck
          | RExit s2 => RExit s2
          | RStuck => RStuck
          end
      | r => r
      end
  end end

with evals (fuel : nat) (l : list expr) (s : state) {struct fuel} : res (list value) :=
  match fuel with O => RStuck | S f =>
  match l with
  | [] => ROk [] s
  | e :: r =>
      match eval f e s with
      | ROk v s1 =>
          match evals f r s1 with
          | ROk vs s2 => ROk (v :: vs) s2
          | other => other
          end
      | RRaise x o s1 => RRaise x o s1
      | RReturn _ _ => RStuck
      | RExit s1 => RExit s1
      | RStuck => RStuck
      end
  end end

with exec (fuel : nat) (st : stmt) (s : state) {struct fuel} : res unit :=
  match fuel with O => RStuck | S f =>
  let lift (r : res value) (k : value -> state -> res unit) : res unit :=
      match r with
      | ROk v s1 => k v s1
      | RRaise x o s1 => RRaise x o s1
      | RReturn _ _ => RStuck
      | RExit s1 => RExit s1
      | RStuck => RStuck
      end in
  match st with
  | SPass => ROk tt s
  | SExpr e => lift (eval f e s) (fun _ s1 => ROk tt s1)
  | SAssign v e => lift (eval f e s) (fun x s1 => ROk tt (set_var v x s1))
  | SCfgSet sec opt e =>
      lift (eval f e s) (fun x s1 =>
        ROk tt (State (vars s1) (cfg_set (sec, opt) (show x) (cfg s1))
                      (Eff (lit "config.set") [sec; opt; show x] :: trace s1) (ncalls s1) (cur s1)))
  | SLog args =>
      match evals f args s with
      | ROk _ s1 => ROk tt s1
      | RRaise x o s1 => RRaise x o s1
      | RReturn _ _ => RStuck
      | RExit s1 => RExit s1
      | RStuck => RStuck
      end
  | SIf c a b => lift (eval f c s) (fun v s1 => execs f (if truthy v then a else b) s1)
  | STry body hs orelse =>
      match execs f body s with
      | ROk _ s1 => execs f orelse s1
      | RRaise x o s1 => exech f hs x o s1
      | other => other
      end
  | SWith e v body => lift (eval f e s) (fun x s1 => execs f body (set_var v x s1))
  | SRaise cls args =>
      match evals f args s with
      | ROk _ s1 => RRaise (raise_cls cls) None s1
      | RRaise x o s1 => RRaise x o s1
      | RReturn _ _ => RStuck
      | RExit s1 => RExit s1
      | RStuck => RStuck
      end
  | SReraise => match cur s with
                | Some (x, o) => RRaise x o s
                | None => RRaise XRuntime None s   (* "No active exception to reraise" *)
                end
  | SReturn e => lift (eval f e s) (fun x s1 => RReturn x s1)
  | SExit => RExit s
  end end

with execs (fuel : nat) (l : list stmt) (s : state) {struct fuel} : res unit :=
  match fuel with O => RStuck | S f =>
  match l with
  | [] => ROk tt s
  | st :: r =>
      match exec f st s with
      | ROk _ s1 => execs f r s1
      | other => other
      end
  end end

(* first matching except clause; none: the exception propagates *)
with exech (fuel : nat) (hs : list handler) (x : xcls) (o : option nat) (s : state) {struct fuel} : res unit :=
  match fuel with O => RStuck | S f =>
  match hs with
  | [] => RRaise x o s
  | Handler classes v body :: r =>
      if existsb (fun c => catches c x) classes then
        let saved := cur s in
        let s0 := with_cur (Some (x, o)) (match v with [] => s | _ => set_var v (VSym (lit "exc")) s end) in
        match execs f body s0 with
        | ROk _ s1 => ROk tt (with_cur saved s1)
        | RRaise x' o' s1 => RRaise x' o' (with_cur saved s1)
        | RReturn rv s1 => RReturn rv (with_cur saved s1)
        | RExit s1 => RExit s1
        | RStuck => RStuck
        end
      else exech f r x o s
  end end.
End Sem.

Inductive outcome :=
  | Running (tr : list effect)                      (* entry function returned *)
  | Abort (origin : option nat) (tr : list effect)  (* an exception left the entry function *)
  | Exited (tr : list effect)                       (* sys.exit *)
  | Stuck.

Definition FUEL : nat := 400.

Definition run (P : program) (W : world) (c : cfgmap) (entry : str) (args : list value) : outcome :=
  match find_fun P entry with
  | None => Stuck
  | Some d =>
      match execs P W FUEL (fbody d) (State (bind_params (fparams d) args) c [] O None) with
      | ROk _ s | RReturn _ s => Running (rev (trace s))
      | RRaise _ o s => Abort o (rev (trace s))
      | RExit s => Exited (rev (trace s))
      | RStuck => Stuck
      end
  end.

(* ---------------- the finite domain of configurations ---------------- *)
Inductive tlsmode := TlsAbsent | TlsOff | TlsOn.
Inductive boolopt := BChroot | BDetach | BTls.
Definition boolopt_eqb (a b : boolopt) : bool :=
  match a, b with BChroot, BChroot | BDetach, BDetach | BTls, BTls => true | _, _ => false end.
(* o_uid0 / o_gid0: the configured account is one whose numeric id is 0 (toor / wheel).
   o_alt = Some (b, (s, m)): the boolean option b is spelled s in the file; m is what
   ConfigParser.getboolean makes of s (None: not a boolean, ValueError) and the flag
   of that option (o_chroot / o_detach / o_tls) is set accordingly. *)
Record opts := Opts { o_chroot : bool; o_uid : bool; o_gid : bool; o_tls : tlsmode; o_pid : bool; o_detach : bool;
                      o_uid0 : bool; o_gid0 : bool; o_alt : option (boolopt * (str * option bool)) }.
Definition o_bad (o : opts) : bool := match o_alt o with Some (_, (_, None)) => true | _ => false end.

Definition PG : str := lit "pygopherd".
Definition ROOT : str := lit "/srv/gopher".
Definition UIDNAME : str := lit "alice".
Definition GIDNAME : str := lit "staff".
Definition UID0NAME : str := lit "toor".
Definition GID0NAME : str := lit "wheel".
Definition CERT : str := lit "/etc/pg/cert.pem".
Definition KEY : str := lit "/etc/pg/key.pem".
Definition PIDFILE : str := lit "/run/pg.pid".
Definition ZERO : str := lit "0".
(* symbolic ids handed to setregid / setreuid: element 2 of the pwd / grp record
   of the configured name; "0" for the accounts whose id is 0 *)
Definition UIDV : str := lit "pwd.getpwnam(alice)[2]".
Definition GIDV : str := lit "grp.getgrnam(staff)[2]".
Definition uidname (o : opts) : str := if o_uid0 o then UID0NAME else UIDNAME.
Definition gidname (o : opts) : str := if o_gid0 o then GID0NAME else GIDNAME.
Definition uidv (o : opts) : str := if o_uid0 o then ZERO else UIDV.
Definition gidv (o : opts) : str := if o_gid0 o then ZERO else GIDV.

Definition spell (o : opts) (b : boolopt) (canon : str) : str :=
  match o_alt o with
  | Some (b', (s, _)) => if boolopt_eqb b b' then s else canon
  | None => canon
  end.

Definition mkcfg (o : opts) : cfgmap :=
  [ ((PG, lit "usechroot"), spell o BChroot (if o_chroot o then lit "yes" else lit "no"));
    ((PG, lit "root"), ROOT);
    ((PG, lit "servertype"), lit "ForkingTCPServer");
    ((PG, lit "port"), lit "70");
    ((PG, lit "timeout"), lit "60");
    ((PG, lit "servername"), lit "gopher.example");
    ((PG, lit "detach"), spell o BDetach (if o_detach o then lit "yes" else lit "no")) ]
  ++ (if o_uid o then [((PG, lit "setuid"), uidname o)] else [])
  ++ (if o_gid o then [((PG, lit "setgid"), gidname o)] else [])
  ++ (match o_tls o with
      | TlsAbsent => []
      | TlsOff => [((PG, lit "enable_tls"), spell o BTls (lit "no"))]
      | TlsOn => [((PG, lit "enable_tls"), spell o BTls (lit "yes")); ((PG, lit "tls_certfile"), CERT); ((PG, lit "tls_keyfile"), KEY)]
      end)
  ++ (if o_pid o then [((PG, lit "pidfile"), PIDFILE)] else []).

Definition bools : list bool := [false; true].
Definition base_opts : list opts :=
  flat_map (fun c => flat_map (fun u => flat_map (fun g => flat_map (fun t => flat_map (fun p =>
    map (fun d => Opts c u g t p d false false None) bools) bools) [TlsAbsent; TlsOff; TlsOn]) bools) bools) bools.
(* accounts whose id is 0, for each present/absent combination *)
Definition id0_opts : list opts :=
  flat_map (fun c => map (fun x : (bool * bool) * (bool * bool) =>
              Opts c (fst (fst x)) (snd (fst x)) TlsAbsent false false (fst (snd x)) (snd (snd x)) None)
            [((true, false), (true, false)); ((false, true), (false, true)); ((true, true), (true, false));
             ((true, true), (false, true)); ((true, true), (true, true))]) bools.
(* the spellings ConfigParser.getboolean accepts, in mixed case, and some it rejects *)
Definition spellings : list (str * option bool) :=
  map (fun x : string * option bool => (lit (fst x), snd x))
    [("on", Some true); ("1", Some true); ("True", Some true); ("YES", Some true); ("tRuE", Some true);
     ("off", Some false); ("0", Some false); ("False", Some false); ("nO", Some false);
     ("maybe", None); ("", None); ("2", None); ("yes please", None)]%string.
Definition meaning (m : option bool) : bool := match m with Some b => b | None => false end.
Definition chroot_spelled : list opts :=
  map (fun sm => Opts (meaning (snd sm)) true true TlsAbsent false false false false (Some (BChroot, sm))) spellings.
Definition spelled_opts : list opts :=
  chroot_spelled ++
  map (fun sm => Opts true true true TlsAbsent false (meaning (snd sm)) false false (Some (BDetach, sm))) spellings ++
  map (fun sm => Opts true true true (match snd sm with Some false => TlsOff | _ => TlsOn end) false false false false
                      (Some (BTls, sm))) spellings.
Definition all_opts : list opts := base_opts ++ id0_opts ++ spelled_opts.

(* the configurations of init_security proper *)
Definition sec_opts : list opts :=
  flat_map (fun c => flat_map (fun u => map (fun g => Opts c u g TlsAbsent false false false false None) bools) bools) bools
  ++ id0_opts ++ chroot_spelled.

Definition all_xcls : list xcls := [XOS; XKey; XRuntime].

(* os.fork returns 0: we follow the child (the parent only logs and exits) *)
(* what the id queries return when the process is started as plain root *)
Definition root_id_results : list (str * value) :=
  map (fun n => (lit n, VInt 0)) ["os.getuid"; "os.geteuid"; "os.getgid"; "os.getegid";
                                   "pwd.getpwnam(toor)[2]"; "grp.getgrnam(wheel)[2]"]%string.
Definition child_results : list (str * value) := (lit "os.fork", VInt 0) :: root_id_results.
Definition parent_results : list (str * value) := (lit "os.fork", VInt 4242) :: root_id_results.

Definition run_initialize (P : program) (o : opts) (fail : option (nat * xcls)) : outcome :=
  run P (World fail child_results (Some 1%nat)) (mkcfg o) (lit "initialize") [VStr (lit "pygopherd.conf")].
Definition run_security (P : program) (o : opts) (fail : option (nat * xcls)) : outcome :=
  run P (World fail child_results (Some 1%nat)) (mkcfg o) (lit "init_security") [VSym (lit "config")].

Definition out_trace (o : outcome) : list effect :=
  match o with Running t | Abort _ t | Exited t => t | Stuck => [] end.

(* every single failure that can be injected into a run: positions 0 .. n-1 of
   the unfailed run (a failure at k leaves calls 0..k-1 unchanged, so these are
   all the positions that can be reached) x the three classes *)
Definition failures_of (unfailed : outcome) : list (nat * xcls) :=
  flat_map (fun k => map (fun x => (k, x)) all_xcls) (seq 0 (List.length (filter (fun e => negb (str_eqb (ename e) (lit "config.set"))) (out_trace unfailed)))).

Definition all_failures (P : program) (o : opts) : list (option (nat * xcls)) :=
  None :: map Some (failures_of (run_initialize P o None)).
Definition all_failures_sec (P : program) (o : opts) : list (option (nat * xcls)) :=
  None :: map Some (failures_of (run_security P o None)).

(* ---------------- reading a trace ---------------- *)
Definition is_name (n : string) (e : effect) : bool := str_eqb (ename e) (lit n).
Definition is_bind (e : effect) : bool := is_name "socket.bind" e.
Definition is_listen (e : effect) : bool := is_name "socket.listen" e.
Definition is_loadkeys (e : effect) : bool := is_name "context.load_cert_chain" e.
Definition is_chroot (e : effect) : bool := is_name "os.chroot" e.
Definition is_setgroups (e : effect) : bool := is_name "os.setgroups" e.
Definition is_setregid (e : effect) : bool := is_name "os.setregid" e.
Definition is_setreuid (e : effect) : bool := is_name "os.setreuid" e.
(* calls that change the process identity *)
Definition id_changers : list str :=
  map lit ["os.setgroups"; "os.setregid"; "os.setreuid"; "os.setuid"; "os.setgid"; "os.seteuid"; "os.setegid";
           "os.setresuid"; "os.setresgid"; "os.initgroups"]%string.
Definition is_idchange (e : effect) : bool := mem_str (ename e) id_changers.
(* calls that give up privilege *)
Definition is_priv (e : effect) : bool := is_chroot e || is_idchange e.

Definition eff_eqb (a b : effect) : bool :=
  str_eqb (ename a) (ename b) && list_eqb str_eqb (eargs a) (eargs b).
Definition is_setroot (e : effect) : bool :=
  eff_eqb e (Eff (lit "config.set") [PG; lit "root"; lit "/"]).
Definition is_chdir_root (e : effect) : bool := eff_eqb e (Eff (lit "os.chdir") [lit "/"]).

(* every q-effect is preceded by a p-effect *)
Fixpoint precedes (p q : effect -> bool) (seen : bool) (tr : list effect) : bool :=
  match tr with
  | [] => true
  | e :: r => (negb (q e) || seen) && precedes p q (seen || p e) r
  end.

(* rank of the four privilege steps; the ranks met along a trace must increase *)
Definition rank (e : effect) : option N :=
  if is_chroot e then Some 1 else if is_setgroups e then Some 2
  else if is_setregid e then Some 3 else if is_setreuid e then Some 4 else None.
Fixpoint ranks (tr : list effect) : list N :=
  match tr with
  | [] => []
  | e :: r => match rank e with Some n => n :: ranks r | None => ranks r end
  end.
Fixpoint increasing (l : list N) : bool :=
  match l with
  | a :: ((b :: _) as r) => (a <? b) && increasing r
  | _ => true
  end.

(* after each chroot: before the next identity change (or the end of a run that
   reaches Running) the configured root has been rewritten to "/" and the
   working directory moved to the new root *)
Fixpoint until_idchange (tr : list effect) : list effect :=
  match tr with
  | [] => []
  | e :: r => if is_idchange e then [] else e :: until_idchange r
  end.
Definition reaches_idchange (tr : list effect) : bool := existsb is_idchange tr.
Fixpoint chroot_complete (live : bool) (tr : list effect) : bool :=
  match tr with
  | [] => true
  | e :: r =>
      (if is_chroot e && (live || reaches_idchange r)
       then existsb is_setroot (until_idchange r) && existsb is_chdir_root (until_idchange r)
       else true) && chroot_complete live r
  end.

Definition has (p : effect -> bool) (tr : list effect) : bool := existsb p tr.
Definition count (p : effect -> bool) (tr : list effect) : nat := List.length (filter p tr).

(* failures that start-up is *meant* to survive: process-group set-up is
   best-effort (init_process_group logs and goes on); nothing else *)
Definition best_effort : list str := map lit ["os.setpgrp"; "os.getpgrp"]%string.

Definition is_running (o : outcome) : bool := match o with Running _ => true | _ => false end.
Definition outcome_aborted_at (k : nat) (o : outcome) : bool :=
  match o with Abort (Some k') _ => Nat.eqb k k' | _ => false end.

(* the external calls of a trace (config.set is a write to the configuration
   object, not an external call, and has no failure position) *)
Definition calls_of (tr : list effect) : list effect :=
  filter (fun e => negb (str_eqb (ename e) (lit "config.set"))) tr.


(* ---------------- the credentials of the process ---------------- *)
(* ids are symbolic: "0" is root, UIDV / GIDV the configured account.  The three
   start states: started as root; started through a set-uid-root launcher (real
   ids already those of the account, effective and saved ids 0, root's groups);
   started already as the account. *)
Record cred := Cred { c_ruid : str; c_euid : str; c_suid : str; c_rgid : str; c_egid : str; c_sgid : str; c_groups : str }.
Inductive start := StartRoot | StartLauncher | StartDropped.
Definition all_starts : list start := [StartRoot; StartLauncher; StartDropped].
Definition ROOTGROUPS : str := lit "(0)".
Definition NOGROUPS : str := lit "()".
Definition start_cred (st : start) (o : opts) : cred :=
  match st with
  | StartRoot => Cred ZERO ZERO ZERO ZERO ZERO ZERO ROOTGROUPS
  | StartLauncher => Cred (uidv o) ZERO ZERO (gidv o) ZERO ZERO ROOTGROUPS
  | StartDropped => Cred (uidv o) (uidv o) (uidv o) (gidv o) (gidv o) (gidv o) NOGROUPS
  end.
Definition id_value (s : str) : value := if str_eqb s ZERO then VInt 0 else VSym s.
Definition start_results (st : start) (o : opts) : list (str * value) :=
  let c := start_cred st o in
  [ (lit "os.getuid", id_value (c_ruid c)); (lit "os.geteuid", id_value (c_euid c));
    (lit "os.getgid", id_value (c_rgid c)); (lit "os.getegid", id_value (c_egid c));
    (lit "pwd.getpwnam(toor)[2]", VInt 0); (lit "grp.getgrnam(wheel)[2]", VInt 0) ].

Definition KEEP : str := lit "-1".
Definition pick (new old : str) : str := if str_eqb new KEEP then old else new.
(* the effect of one call on the credentials (Linux semantics for a process that
   is allowed to make the change; a refused call is a failure, i.e. an Abort) *)
Definition cred_step (c : cred) (e : effect) : cred :=
  let n := ename e in
  match eargs e with
  | [a] =>
      if str_eqb n (lit "os.setgroups") then Cred (c_ruid c) (c_euid c) (c_suid c) (c_rgid c) (c_egid c) (c_sgid c) a
      else if str_eqb n (lit "os.setuid") then
        (if str_eqb (c_euid c) ZERO then Cred a a a (c_rgid c) (c_egid c) (c_sgid c) (c_groups c)
         else Cred (c_ruid c) a (c_suid c) (c_rgid c) (c_egid c) (c_sgid c) (c_groups c))
      else if str_eqb n (lit "os.setgid") then
        (if str_eqb (c_euid c) ZERO then Cred (c_ruid c) (c_euid c) (c_suid c) a a a (c_groups c)
         else Cred (c_ruid c) (c_euid c) (c_suid c) (c_rgid c) a (c_sgid c) (c_groups c))
      else if str_eqb n (lit "os.seteuid") then Cred (c_ruid c) a (c_suid c) (c_rgid c) (c_egid c) (c_sgid c) (c_groups c)
      else if str_eqb n (lit "os.setegid") then Cred (c_ruid c) (c_euid c) (c_suid c) (c_rgid c) a (c_sgid c) (c_groups c)
      else c
  | [r; x] =>
      if str_eqb n (lit "os.setreuid") then
        Cred (pick r (c_ruid c)) (pick x (c_euid c))
             (if str_eqb r KEEP && (str_eqb x KEEP || str_eqb x (c_ruid c)) then c_suid c else pick x (c_euid c))
             (c_rgid c) (c_egid c) (c_sgid c) (c_groups c)
      else if str_eqb n (lit "os.setregid") then
        Cred (c_ruid c) (c_euid c) (c_suid c) (pick r (c_rgid c)) (pick x (c_egid c))
             (if str_eqb r KEEP && (str_eqb x KEEP || str_eqb x (c_rgid c)) then c_sgid c else pick x (c_egid c))
             (c_groups c)
      else if str_eqb n (lit "os.initgroups") then
        Cred (c_ruid c) (c_euid c) (c_suid c) (c_rgid c) (c_egid c) (c_sgid c)
             (lit "initgroups(" ++ r ++ lit "," ++ x ++ lit ")")
      else c
  | [r; x; sv] =>
      if str_eqb n (lit "os.setresuid") then
        Cred (pick r (c_ruid c)) (pick x (c_euid c)) (pick sv (c_suid c)) (c_rgid c) (c_egid c) (c_sgid c) (c_groups c)
      else if str_eqb n (lit "os.setresgid") then
        Cred (c_ruid c) (c_euid c) (c_suid c) (pick r (c_rgid c)) (pick x (c_egid c)) (pick sv (c_sgid c)) (c_groups c)
      else c
  | _ => c
  end.
Definition final_cred (c : cred) (tr : list effect) : cred := fold_left cred_step tr c.
Definition cred_list (c : cred) : list str :=
  [c_ruid c; c_euid c; c_suid c; c_rgid c; c_egid c; c_sgid c; c_groups c].

(* what the configuration asks for *)
Definition wanted_cred (o : opts) (c : cred) : cred :=
  Cred (if o_uid o then uidv o else c_ruid c) (if o_uid o then uidv o else c_euid c) (if o_uid o then uidv o else c_suid c)
       (if o_gid o then gidv o else c_rgid c) (if o_gid o then gidv o else c_egid c) (if o_gid o then gidv o else c_sgid c)
       (if o_uid o || o_gid o then NOGROUPS else c_groups c).

Definition run_initialize_from (P : program) (st : start) (o : opts) (fail : option (nat * xcls)) : outcome :=
  run P (World fail ((lit "os.fork", VInt 0) :: start_results st o) (Some 1%nat)) (mkcfg o) (lit "initialize") [VStr (lit "pygopherd.conf")].
Definition run_security_from (P : program) (st : start) (o : opts) (fail : option (nat * xcls)) : outcome :=
  run P (World fail (start_results st o) (Some 1%nat)) (mkcfg o) (lit "init_security") [VSym (lit "config")].
