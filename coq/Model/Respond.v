(* Respond.v — the bytes each protocol's handle() writes, as a function of what the
   handler chain did.  Definitions only.

   Sources: protocols/base.py handle + filenotfound (plain Gopher), gopherp.py handle +
   filenotfound, http.py handle + filenotfound, wap.py adjustmimetype + handlerwrite +
   filenotfound, gemini.py / spartan.py handle + write_status, GopherExceptions.py
   FileNotFound.__str__.  Document framing is shared with Model/Copy.v (C04).

   Outcomes of the handler chain:
     ONotFound msg      FileNotFound was raised; msg = str(e)
     OIOError se text   an IOError was raised; se = e.strerror, text = str(e)
     ODoc mime size d   a document handler: entry mimetype, entry size, the bytes
                        handler.write() produces
     ODir mime l        a directory handler; l = the listing as rendered by writedir
                        (rendering is C07/C13's subject; here it is opaque bytes)
   `None` as a result = an exception leaves handle() (UnicodeEncodeError on a string
   that is not the image of bytes under surrogateescape; IndexError in the pinned
   IOError branch): the connection handler logs it and the reply is whatever had been
   written so far. *)
From Coq Require Import String.
From PG Require Import Lib.Str Lib.Bytes Lib.Utf8 Lib.Bsr Lib.Dec Lib.Crlf Lib.HtmlEsc
  Model.Copy Model.Wml Model.ProtoId Model.Request.
Local Open Scope N_scope.

Inductive outcome :=
  | ONotFound (msg : str)
  | OIOError (strerror : option str) (text : str)
  | ODoc (mime : option str) (size : option N) (body : list N)
  | ODir (mime : option str) (listing : list N).

(* what is known about the request and the server besides the outcome *)
Record env := mk_env {
  e_admin : str;              (* [protocols.gopherp.GopherPlusProtocol] admin *)
  e_get : bool;               (* HTTP/WAP: GET (true) or HEAD *)
  e_lastmod : option str;     (* HTTP/WAP: the formatted mtime of the entry, when it has one *)
  e_info : option (list N)    (* Gopher+ "!" request: the rendered item information *)
}.

(* GopherExceptions.FileNotFound.__str__ *)
Definition notfound_msg (selector comments : str) : str :=
  lit "'" ++ selector ++ lit "' does not exist" ++
  match comments with [] => [] | _ => lit " (" ++ comments ++ lit ")" end.

(* e.strerror or str(e)  (/repo 5391c6f; the pinned code used e.args[1]) *)
Definition ioerror_msg (se : option str) (text : str) : str :=
  match se with Some (c :: r) => c :: r | _ => text end.
(* base.py keeps f"3{e.strerror}": None prints as "None" *)
Definition ioerror_msg_gopher (se : option str) : str :=
  match se with Some m => m | None => lit "None" end.

Definition opt_app (a b : option (list N)) : option (list N) :=
  match a, b with Some x, Some y => Some (x ++ y) | _, _ => None end.
Local Notation "a +++ b" := (opt_app a b) (at level 61, left associativity).
Definition lit_b (s : String.string) : option (list N) := Some (lit s).

Definition http_meth (e : env) : http_method := if e_get e then GET else HEAD.

(* ---------- Gopher ---------- *)
(* f"3{msg}\t\terror.host\t1\r\n".encode(errors="surrogateescape") *)
Definition gopher_error (msg : str) : option (list N) :=
  encode_se (lit "3" ++ msg ++ [9; 9] ++ lit "error.host" ++ [9] ++ lit "1" ++ crlf).

(* ---------- Gopher+ ---------- *)
(* b"--2\r\n" b"1 " admin.encode() f"\r\n{msg}\r\n".encode(errors="surrogateescape") *)
Definition gopherplus_error (admin msg : str) : option (list N) :=
  lit_b "--2" +++ Some crlf +++ lit_b "1 " +++ encode_strict admin +++ encode_se (crlf ++ msg ++ crlf).
Definition gopherplus_pinned_no_status (admin msg : str) : option (list N) :=
  lit_b "1 " +++ encode_strict admin +++ encode_se (crlf ++ msg ++ crlf).

(* ---------- HTTP ---------- *)
Definition NLc : str := [10].
Definition HTTP_404_HEAD : str :=
  lit "HTTP/1.0 404 Not Found" ++ crlf ++ lit "Content-Type: text/html" ++ crlf ++ crlf ++
  lit "<!DOCTYPE HTML PUBLIC ""-//W3C//DTD HTML 4.0 Transitional//EN"" ""http://www.w3.org/TR/REC-html40/loose.dtd"">" ++
  NLc ++ lit "<HTML><HEAD><TITLE>Selector Not Found</TITLE>" ++ NLc ++
  lit "        <H1>Selector Not Found</H1>" ++ NLc ++ lit "        <TT>".
Definition HTTP_404_TAIL : str := lit "</TT><HR>Pygopherd</BODY></HTML>" ++ NLc.
Definition http_error (msg : str) : option (list N) :=
  Some HTTP_404_HEAD +++ encode_se (escape true msg) +++ Some HTTP_404_TAIL.

(* the 200 header block: status line, Last-Modified when there is an mtime, Content-Type;
   every piece goes through str.encode() *)
Definition http_ok (e : env) (ctype : str) (body : list N) : option (list N) :=
  match encode_strict ctype,
        match e_lastmod e with Some t => option_map Some (encode_strict t) | None => Some None end with
  | Some ct, Some lm => Some (http_doc (http_meth e) lm ct body)
  | _, _ => None
  end.

(* ---------- WAP ---------- *)
Definition WAP_ERR_HEAD : str :=
  lit "HTTP/1.0 200 Not Found" ++ crlf ++ lit "Content-Type: text/vnd.wap.wml" ++ crlf ++ crlf ++
  WML_HEADER ++ lit "<card id=""index"" title=""404 Error"" newcontext=""true"">" ++ NLc ++
  lit "<p><b>Gopher Error</b></p><p>" ++ NLc.
Definition WAP_ERR_TAIL : str := NLc ++ lit "</p>" ++ NLc ++ lit "</card>" ++ NLc ++ lit "</wml>" ++ NLc.
Definition wap_error (msg : str) : option (list N) :=
  Some WAP_ERR_HEAD +++ encode_se (escape true msg) +++ Some WAP_ERR_TAIL.
(* handlerwrite: a text/plain (or untyped) document is rewritten as WML, line by line *)
Definition wap_body (mime : option str) (body : list N) : option (list N) :=
  if wap_needs_conversion mime then encode_se (to_wml (decode_se body)) else Some body.

(* ---------- Gemini / Spartan ---------- *)
(* meta.replace("\r", " ").replace("\n", " ") *)
Definition clean_meta (m : str) : str := map (fun c => if (c =? 13) || (c =? 10) then 32 else c) m.
(* f"{code} {meta}\r\n".encode(errors="backslashreplace") *)
Definition status_line (cleaned : bool) (code meta : str) : list N :=
  encode_bsr (code ++ [32] ++ (if cleaned then clean_meta meta else meta) ++ crlf).

(* ---------- every protocol ---------- *)
Definition error_msg_of (p : proto) (o : outcome) : option str :=
  match o with
  | ONotFound m => Some m
  | OIOError se t => Some (match p with PGopher | PSGopher => ioerror_msg_gopher se | _ => ioerror_msg se t end)
  | _ => None
  end.

Definition respond_with (cleaned : bool) (e : env) (p : proto) (o : outcome) : option (list N) :=
  match p with
  | PGopher | PSGopher =>
      match o with
      | ODoc _ _ body => Some body
      | ODir _ l => Some l
      | _ => match error_msg_of p o with Some m => gopher_error m | None => None end
      end
  | PGopherPlus | PSGopherPlus | PUrlGopherPlus =>
      match o with
      | ODoc _ size body =>
          match e_info e with
          | Some blocks => Some (gplus_first_line None ++ crlf ++ blocks)
          | None => Some (gplus_doc size body)
          end
      | ODir _ l =>
          match e_info e with
          | Some blocks => Some (gplus_first_line None ++ crlf ++ blocks)
          | None => Some (gplus_doc None l)
          end
      | _ => match error_msg_of p o with Some m => gopherplus_error (e_admin e) m | None => None end
      end
  | PHttp | PHttps =>
      match o with
      | ODoc m _ body => http_ok e (http_adjust m) body
      | ODir m l => http_ok e (http_adjust m) l
      | _ => match error_msg_of p o with Some m => http_error m | None => None end
      end
  | PWap =>
      match o with
      | ODoc m _ body => match wap_body m body with Some b => http_ok e (wap_adjust m) b | None => None end
      | ODir m l => http_ok e (wap_adjust m) l
      | _ => match error_msg_of p o with Some m => wap_error m | None => None end
      end
  | PGemini =>
      match o with
      | ONotFound m => Some (status_line cleaned (lit "51") m)
      | OIOError se t => Some (status_line cleaned (lit "51") (ioerror_msg se t))
      | ODoc m _ body => Some (status_line cleaned (lit "20") (gemini_adjust m) ++ body)
      | ODir _ l => Some (status_line cleaned (lit "20") (lit "text/gemini") ++ l)
      end
  | PSpartan =>
      match o with
      | ONotFound m => Some (status_line cleaned (lit "4") m)
      | OIOError se t => Some (status_line cleaned (lit "5") (ioerror_msg se t))
      | ODoc m _ body => Some (status_line cleaned (lit "2") (gemini_adjust m) ++ body)
      | ODir _ l => Some (status_line cleaned (lit "2") (lit "text/gemini") ++ l)
      end
  end.

(* the code in /repo HEAD *)
Definition respond : env -> proto -> outcome -> option (list N) := respond_with true.
(* before /repo 92fb050: the meta string went onto the status line as it was *)
Definition respond_pinned : env -> proto -> outcome -> option (list N) := respond_with false.

(* the replies that handle() writes without asking a handler (Model/Request.v `routed`) *)
Definition ICON_HEAD : str :=
  lit "HTTP/1.0 200 OK" ++ crlf ++ lit "Last-Modified: Fri, 14 Dec 2001 21:19:47 GMT" ++ crlf ++
  lit "Content-Type: image/gif" ++ crlf ++ crlf.
Definition respond_direct (e : env) (icon_data : str -> list N) (r : routed) : option (list N) :=
  match r with
  | Icon n => Some (ICON_HEAD ++ (if e_get e then icon_data n else []))
  | GeminiBad => Some (status_line true (lit "59") (lit "Bad request"))
  | GeminiInput => Some (status_line true (lit "10") (lit "Enter input"))
  | GeminiRedirect t => Some (status_line true (lit "30") t)
  | SpartanTooLarge => Some (status_line true (lit "4") (lit "Content length too large"))
  | ToHandler _ _ | Crash => None
  end.

(* ---------- side conditions as boolean predicates ---------- *)
Definition is_some {A} (x : option A) : bool := match x with Some _ => true | None => false end.
(* the string is the image of some byte string under surrogateescape (every decoded request is) *)
Definition encodable (s : str) : bool := is_some (encode_se s).
(* a server-chosen single-line text: str.encode() accepts it and it has no CR or LF *)
Definition line_ok (s : str) : bool := is_some (encode_strict s) && negb (mem_N 13 s) && negb (mem_N 10 s).

Definition env_ok (e : env) : bool :=
  is_some (encode_strict (e_admin e)) &&
  match e_lastmod e with Some t => line_ok t | None => true end.

(* what the theorems ask of an outcome: message strings are arbitrary (attacker-chosen) but
   decoded from bytes; MIME types are server-chosen single lines; the Gopher+ size attribute,
   when present, is the number of bytes the handler writes (C04's subject) *)
Definition outcome_ok (e : env) (p : proto) (o : outcome) : bool :=
  match o with
  | ONotFound m => encodable m
  | OIOError se t => encodable (ioerror_msg se t) && encodable (ioerror_msg_gopher se)
  | ODoc m size body =>
      match p with
      | PHttp | PHttps => line_ok (http_adjust m)
      | PWap => line_ok (wap_adjust m) && is_some (wap_body m body)
      | PGopherPlus | PSGopherPlus | PUrlGopherPlus =>
          match e_info e, size with
          | None, Some n => n =? N.of_nat (List.length body)
          | _, _ => true
          end
      | _ => true
      end
  | ODir m _ =>
      match p with
      | PHttp | PHttps => line_ok (http_adjust m)
      | PWap => line_ok (wap_adjust m)
      | _ => true
      end
  end.

Definition is_error (o : outcome) : bool :=
  match o with ONotFound _ | OIOError _ _ => true | _ => false end.
(* the plain Gopher error line has room for a message without TAB, CR, LF only *)
Definition gopher_msg_ok (m : str) : bool :=
  encodable m && negb (mem_N 9 m) && negb (mem_N 13 m) && negb (mem_N 10 m).
