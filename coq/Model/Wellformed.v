(* Wellformed.v — what a client of each wire format accepts as one complete response.
   Written from the protocol documents (RFC 1436 section 3.8 / appendix; the Gopher+
   document section 2.3; RFC 1945 section 6; the Gemini specification section 3;
   the Spartan specification), NOT from the server code.  Boolean functions on
   response bytes; definitions only.  harness/k03.py runs them inside Coq over real
   traffic and compares with the independent Python readers of harness/validators.py. *)
From Coq Require Import String.
From PG Require Import Lib.Str Lib.Bytes Lib.Crlf Model.ProtoId.
Local Open Scope N_scope.

Inductive kind := KError | KSuccess.
Definition kind_code (k : option kind) : N :=
  match k with None => 0 | Some KError => 1 | Some KSuccess => 2 end.

Definition no_crlf_chars (s : str) : bool := negb (mem_N 13 s) && negb (mem_N 10 s).
Definition all_digits (s : str) : bool :=
  match s with [] => false | _ => forallb is_ascii_digit s end.

(* ---------- Gopher (RFC 1436) ---------- *)
(* one menu line without its CRLF: Type DisplayString TAB Selector TAB Host TAB Port [TAB "+"|"?"];
   no CR or LF inside *)
Definition wf_menu_line (l : str) : bool :=
  no_crlf_chars l &&
  match split_on 9 l with
  | [f0; _; _; port] => negb (str_eqb f0 []) && all_digits port
  | [f0; _; _; port; flag] =>
      negb (str_eqb f0 []) && all_digits port && (str_eqb flag [43] || str_eqb flag [63])
  | _ => false
  end.
(* the error reply: exactly one menu line, of type "3", CRLF-terminated, nothing after it *)
Definition wf_gopher_error (r : list N) : bool :=
  match cut_crlf r with
  | Some (l, []) => wf_menu_line l && match l with c :: _ => c =? 51 | [] => false end
  | _ => false
  end.
(* anything else a plain Gopher server sends is a document or a menu: no framing to check *)
Definition gopher_kind (r : list N) : option kind :=
  if wf_gopher_error r then Some KError else Some KSuccess.

(* ---------- Gopher+ ---------- *)
Definition ends_crlf (r : list N) : bool := endswith r crlf.
(* first line: "+" or "-" followed by a length: digits (exactly that many bytes follow),
   "-1" (the data ends with a line holding a single period) or "-2" (the data runs until the
   connection closes).  An error ("-") starts its data with an error code 1..3 and a space. *)
Definition gopherplus_kind (r : list N) : option kind :=
  match cut_crlf r with
  | Some (sign :: num, rest) =>
      let len_ok :=
        if str_eqb num (lit "-1") || str_eqb num (lit "-2") then true
        else match parse_dec num with
             | Some n => N.of_nat (List.length rest) =? n
             | None => false
             end in
      if sign =? 43 then (if len_ok then Some KSuccess else None)
      else if sign =? 45 then
        if (str_eqb num (lit "-1") || str_eqb num (lit "-2") || all_digits num) && ends_crlf rest &&
           match rest with c :: sp :: _ => (49 <=? c) && (c <=? 51) && (sp =? 32) | _ => false end
        then Some KError else None
      else None
  | _ => None
  end.

(* ---------- HTTP/1.0 (RFC 1945) ---------- *)
Definition is_token_char (c : N) : bool :=
  ((65 <=? c) && (c <=? 90)) || ((97 <=? c) && (c <=? 122)) || is_ascii_digit c || (c =? 45).
Definition lower_ascii (s : str) : str :=
  map (fun c => if (65 <=? c) && (c <=? 90) then c + 32 else c) s.
(* "Name: value" -> lower-cased name *)
Definition header_name (l : str) : option str :=
  match split_once 58 l with
  | (n, Some (sp :: v)) =>
      if negb (str_eqb n []) && forallb is_token_char n && (sp =? 32) && no_crlf_chars v
      then Some (lower_ascii n) else None
  | _ => None
  end.
Fixpoint header_names (ls : list str) : option (list str) :=
  match ls with
  | [] => Some []
  | l :: r => match header_name l, header_names r with
              | Some n, Some ns => Some (n :: ns)
              | _, _ => None
              end
  end.
Fixpoint nodup_str (l : list str) : bool :=
  match l with [] => true | x :: r => negb (mem_str x r) && nodup_str r end.
(* status line "HTTP/1.0 DDD reason" *)
Definition http_status (l : str) : option (N * str) :=
  if prefixb (lit "HTTP/1.0 ") l && no_crlf_chars l then
    match skipn 9 l with
    | a :: b :: c :: sp :: reason =>
        if is_ascii_digit a && is_ascii_digit b && is_ascii_digit c && (sp =? 32)
        then Some ((a - 48) * 100 + (b - 48) * 10 + (c - 48), reason) else None
    | _ => None
    end
  else None.
Definition http_kind (r : list N) : option kind :=
  match cut_crlf r with
  | Some (sl, rest) =>
      match http_status sl, http_split (S (List.length rest)) rest with
      | Some (code, reason), Some (hdrs, _) =>
          match header_names hdrs with
          | Some ns =>
              if mem_str (lit "content-type") ns && nodup_str ns then
                (* 200 is the only success the server uses; WAP sends its not-found deck
                   with "200 Not Found" *)
                Some (if (code =? 200) && negb (contains (lit "Not Found") sl) then KSuccess else KError)
              else None
          | None => None
          end
      | _, _ => None
      end
  | None => None
  end.

(* ---------- Gemini / Spartan ---------- *)
(* <STATUS><SPACE><META><CR><LF>, META without CR/LF; a body only after a success status *)
Definition gemini_kind (r : list N) : option kind :=
  match cut_crlf r with
  | Some (a :: b :: sp :: meta, body) =>
      if is_ascii_digit a && is_ascii_digit b && (sp =? 32) && no_crlf_chars meta &&
         (49 <=? a) && (a <=? 54) &&
         ((a =? 50) || match body with [] => true | _ => false end)
      then Some (if (a =? 49) || (a =? 50) || (a =? 51) then KSuccess else KError)
      else None
  | _ => None
  end.
Definition spartan_kind (r : list N) : option kind :=
  match cut_crlf r with
  | Some (a :: sp :: meta, body) =>
      if (50 <=? a) && (a <=? 53) && (sp =? 32) && no_crlf_chars meta &&
         ((a =? 50) || match body with [] => true | _ => false end)
      then Some (if (a =? 50) || (a =? 51) then KSuccess else KError)
      else None
  | _ => None
  end.

(* ---------- all protocols ---------- *)
Definition reply_kind (p : proto) (r : list N) : option kind :=
  match p with
  | PGopher | PSGopher => gopher_kind r
  | PGopherPlus | PSGopherPlus | PUrlGopherPlus => gopherplus_kind r
  | PHttp | PHttps | PWap => http_kind r
  | PGemini => gemini_kind r
  | PSpartan => spartan_kind r
  end.
Definition wf (p : proto) (r : list N) : bool :=
  match reply_kind p r with Some _ => true | None => false end.
Definition wf_gopherplus (r : list N) : bool := match gopherplus_kind r with Some _ => true | None => false end.
Definition wf_http10 (r : list N) : bool := match http_kind r with Some _ => true | None => false end.
Definition wf_gemini (r : list N) : bool := match gemini_kind r with Some _ => true | None => false end.
Definition wf_spartan (r : list N) : bool := match spartan_kind r with Some _ => true | None => false end.

(* the number of CRLF-terminated lines of an error reply *)
Definition crlf_lines (r : list N) : nat := List.length (fst (split_crlf r)).
