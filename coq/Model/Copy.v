(* Copy.v — how a stored document reaches the wire.
   handlers/base.py VFS_Real.copyto (4096-byte read/write loop), handlers/file.py
   FileHandler / CompressedFileHandler / tal.TALFileHandler entries, and the
   per-protocol framing of a document: rfc1436 (nothing), gopherp.py "+" form,
   http.py GET/HEAD header block, gemini.py / spartan.py status line.
   Definitions only.  `bytes` are lists of numbers below 256. *)
From Coq Require Import String ZArith.
From PG Require Import Lib.Str Lib.Dec Lib.Crlf Model.Entry.
Local Open Scope N_scope.

Definition bytes := list N.

(* ---------- VFS_Real.copyto ---------- *)
(* rfile.read(n) on a regular file returns the next min(n, remaining) bytes;
   the loop stops at the first empty read. *)
Fixpoint chunks_from (n : nat) (fuel : nat) (d : bytes) : list bytes :=
  match fuel with
  | O => []
  | S f =>
      match firstn n d with
      | [] => []                                   (* if not len(data): break *)
      | c => c :: chunks_from n f (skipn n d)      (* fd.write(data) *)
      end
  end.
Definition chunks (n : nat) (d : bytes) : list bytes := chunks_from n (S (List.length d)) d.
Definition BLOCK : nat := 4096.
Definition copyto_with (n : nat) (d : bytes) : bytes := concat (chunks n d).
Definition copyto (d : bytes) : bytes := copyto_with BLOCK d.

(* ---------- what a handler writes ---------- *)
(* Stored: FileHandler (and HTMLFileTitleHandler) copy the file.
   Transformed f: CompressedFileHandler pipes the file through the configured
   decompressor, TALFileHandler expands the template; f is that program. *)
Inductive delivery := Stored | Transformed (f : bytes -> bytes).
Definition handler_write (k : delivery) (d : bytes) : bytes :=
  match k with Stored => copyto d | Transformed f => f d end.

(* The size attribute of the entry each handler hands to the protocol.
   FileHandler.getentry -> populatefromfs: size = st_size.
   Pinned CompressedFileHandler / TALFileHandler keep that stored size although
   they send transformed bytes (DESIGN section 7, D18); the repaired handlers
   drop it (size None), which the Gopher+ protocol renders as the
   unknown-length marker -2. *)
Definition entry_size_pinned (k : delivery) (d : bytes) : option N :=
  Some (N.of_nat (List.length d)).
Definition entry_size (k : delivery) (d : bytes) : option N :=
  match k with Stored => Some (N.of_nat (List.length d)) | Transformed _ => None end.

(* ---------- protocol framing ---------- *)
Definition PLUS : N := 43.
(* gopherp.py handle: f"+{self.entry.getsize(-2)}\r\n" *)
Definition gplus_size_text (size : option N) : str :=
  match size with Some n => print_dec n | None => lit "-2" end.
Definition gplus_first_line (size : option N) : str := PLUS :: gplus_size_text size.
Definition gplus_doc (size : option N) (body : bytes) : bytes :=
  gplus_first_line size ++ crlf ++ body.

(* http.py adjustmimetype / wap.py adjustmimetype / gemini.py, spartan.py adjust_mimetype *)
Definition MENU : str := lit "application/gopher-menu".
Definition http_adjust (m : option str) : str :=
  match m with None => lit "text/plain"
  | Some x => if str_eqb x MENU then lit "text/html" else x end.
Definition gemini_adjust (m : option str) : str :=
  match m with None => lit "text/plain"
  | Some x => if str_eqb x MENU then lit "text/gemini" else x end.
Definition WML_TYPE : str := lit "text/vnd.wap.wml".
Definition wap_needs_conversion (m : option str) : bool :=
  match m with None => true | Some x => str_eqb x (lit "text/plain") end.
Definition wap_adjust (m : option str) : str :=
  match m with None => WML_TYPE
  | Some x => if str_eqb x (lit "text/plain") then WML_TYPE
              else if str_eqb x MENU then WML_TYPE else x end.

(* The header lines (without their CRLF) of a 200 response.  `lastmod` is the
   formatted modification time (time.strftime of time.gmtime; an external
   function, masked in the correspondence run); it is present whenever the
   entry has an mtime (`is not None`). *)
Definition http_header_lines (lastmod : option str) (ctype : str) : list str :=
  [lit "HTTP/1.0 200 OK"] ++
  (match lastmod with Some t => [lit "Last-Modified: " ++ t] | None => [] end) ++
  [lit "Content-Type: " ++ ctype].
Definition http_header_block (lastmod : option str) (ctype : str) : bytes :=
  unlines_crlf (http_header_lines lastmod ctype) ++ crlf.
Inductive http_method := GET | HEAD.
Definition http_doc (meth : http_method) (lastmod : option str) (ctype : str) (body : bytes) : bytes :=
  http_header_block lastmod ctype ++ (match meth with GET => body | HEAD => [] end).

(* gemini.py / spartan.py write_status(code, meta) then handler.write *)
Definition status_doc (code : str) (meta : str) (body : bytes) : bytes :=
  code ++ [32] ++ meta ++ crlf ++ body.
Definition gemini_doc (m : option str) (body : bytes) : bytes := status_doc (lit "20") (gemini_adjust m) body.
Definition spartan_doc (m : option str) (body : bytes) : bytes := status_doc (lit "2") (gemini_adjust m) body.

(* ---------- the byte-exact protocols in one function ---------- *)
Inductive bproto := PGopher | PGopherPlus | PHttp (meth : http_method) | PGemini | PSpartan.

(* response to a request for a regular file with content `d`, served by a
   handler of kind `k`, whose entry carries MIME type `m`, size `size` and a
   formatted modification time `lastmod` *)
Definition serve_doc (p : bproto) (k : delivery) (m : option str) (size : option N)
           (lastmod : option str) (d : bytes) : bytes :=
  let body := handler_write k d in
  match p with
  | PGopher => body
  | PGopherPlus => gplus_doc size body
  | PHttp meth => http_doc meth lastmod (http_adjust m) body
  | PGemini => gemini_doc m body
  | PSpartan => spartan_doc m body
  end.

(* ---------- a reference client ---------- *)
(* what a client of each protocol takes as (metadata lines, body) *)
Definition client_read (p : bproto) (resp : bytes) : option (list str * bytes) :=
  match p with
  | PGopher => Some ([], resp)
  | PGopherPlus | PGemini | PSpartan =>
      match cut_crlf resp with Some (l, b) => Some ([l], b) | None => None end
  | PHttp _ => http_split 16 resp
  end.

(* the length announced by a Gopher+ first line: "+" digits; None for "+-2"/"+-1" *)
Definition gplus_announced (line : str) : option N :=
  match line with
  | c :: r => if c =? PLUS then parse_dec r else None
  | [] => None
  end.

(* ---------- checksum used to compare very large bodies (Adler-32 style) ---------- *)
Definition adler_step (st : N * N) (b : N) : N * N :=
  let a := (fst st + b) mod 65521 in (a, (snd st + a) mod 65521).
Definition adler (d : bytes) : N * N := fold_left adler_step d (1, 0).
