(* DirEntry.v — the part of gopherentry.GopherEntry that directory listings
   read and link files write, Python exceptions as values, and the ordering
   UMNDirHandler sorts by (Gen/Entrycmp.v is regenerated from the source of
   sgn/entrycmp on every run).  Definitions only. *)
From Coq Require Import ZArith.
From PG Require Import Lib.Str Lib.Cmp Lib.Sort Gen.Entrycmp.
Local Open Scope N_scope.

Inductive exn :=
| FileNotFound        (* GopherExceptions.FileNotFound *)
| IOErr               (* OSError / IOError *)
| IndexError | ValueError | TypeError
| Blocked.            (* not an exception: the call never returns (open() of a FIFO nobody writes to) *)

Inductive result (A : Type) := Ok (a : A) | Raise (e : exn).
Arguments Ok {A} a.
Arguments Raise {A} e.

Definition bind {A B} (r : result A) (f : A -> result B) : result B :=
  match r with Ok a => f a | Raise e => Raise e end.

Definition exn_eqb (a b : exn) : bool :=
  match a, b with
  | FileNotFound, FileNotFound | IOErr, IOErr | IndexError, IndexError
  | ValueError, ValueError | TypeError, TypeError | Blocked, Blocked => true
  | _, _ => false
  end.

(* ---- GopherEntry: selector, type, name, host, port, num, ea, gopherpsupport ----
   `None` = the attribute is None.  `e_num` is 0 on a fresh GopherEntry. *)
Record entry := mkEntry {
  e_selector : str;
  e_type : option N;          (* one character *)
  e_name : option str;
  e_host : option str;
  e_port : option Z;
  e_num : option Z;
  e_ea : list (str * str);    (* dict, insertion order *)
  e_gplus : bool;
}.

Definition fresh_entry (sel : str) : entry :=
  mkEntry sel None None None None (Some 0%Z) [] false.

Definition getnum0 (e : entry) : Z := match e_num e with Some n => n | None => 0%Z end.

Definition set_selector (s : str) (e : entry) : entry :=
  mkEntry s (e_type e) (e_name e) (e_host e) (e_port e) (e_num e) (e_ea e) (e_gplus e).
Definition set_type (t : N) (e : entry) : entry :=
  mkEntry (e_selector e) (Some t) (e_name e) (e_host e) (e_port e) (e_num e) (e_ea e) (e_gplus e).
Definition set_name (n : str) (e : entry) : entry :=
  mkEntry (e_selector e) (e_type e) (Some n) (e_host e) (e_port e) (e_num e) (e_ea e) (e_gplus e).
Definition set_host (h : str) (e : entry) : entry :=
  mkEntry (e_selector e) (e_type e) (e_name e) (Some h) (e_port e) (e_num e) (e_ea e) (e_gplus e).
Definition set_port (p : Z) (e : entry) : entry :=
  mkEntry (e_selector e) (e_type e) (e_name e) (e_host e) (Some p) (e_num e) (e_ea e) (e_gplus e).
Definition set_num (n : option Z) (e : entry) : entry :=
  mkEntry (e_selector e) (e_type e) (e_name e) (e_host e) (e_port e) n (e_ea e) (e_gplus e).
Definition set_eas (l : list (str * str)) (e : entry) : entry :=
  mkEntry (e_selector e) (e_type e) (e_name e) (e_host e) (e_port e) (e_num e) l (e_gplus e).

(* dict[k] = v : an existing key keeps its position *)
Fixpoint ea_set (k v : str) (l : list (str * str)) : list (str * str) :=
  match l with
  | [] => [(k, v)]
  | (k', v') :: r => if str_eqb k k' then (k, v) :: r else (k', v') :: ea_set k v r
  end.
Fixpoint ea_get (k : str) (l : list (str * str)) : option str :=
  match l with
  | [] => None
  | (k', v) :: r => if str_eqb k k' then Some v else ea_get k r
  end.
Definition setea (k v : str) (e : entry) : entry := set_eas (ea_set k v (e_ea e)) e.

(* ---- the order of a UMN listing ----
   list.sort(key=cmp_to_key(entrycmp)) only asks `entrycmp a b < 0` *)
Definition entry_cmp (a b : entry) : Z := entrycmp (e_name a) (getnum0 a) (e_name b) (getnum0 b).
Definition entry_ltb (a b : entry) : bool := (entry_cmp a b <? 0)%Z.
Definition entry_leb (a b : entry) : bool := negb (entry_ltb b a).

(* the documented order as a key: numbered (positive) first, ascending; then
   unnumbered by title; then negative numbers; entries without a title last *)
Definition num_class (n : Z) : N := if (0 <? n)%Z then 0 else if (n =? 0)%Z then 1 else 2.
Definition ekey := (N * (Z * str))%type.
Definition entry_key (e : entry) : ekey :=
  match e_name e with
  | Some nm => (num_class (getnum0 e), (getnum0 e, nm))
  | None => (3, (0%Z, []))
  end.
Definition ekey_cmp : ekey -> ekey -> comparison :=
  prod_cmp N.compare (prod_cmp Z.compare str_cmp).

(* equality of entries, for the correspondence checkers *)
Definition optN_eqb := opt_eqb N.eqb.
Definition optZ_eqb := opt_eqb Z.eqb.
Definition ea_eqb (a b : list (str * str)) : bool :=
  list_eqb (fun x y => str_eqb (fst x) (fst y) && str_eqb (snd x) (snd y)) a b.
Definition entry_eqb (a b : entry) : bool :=
  str_eqb (e_selector a) (e_selector b) && optN_eqb (e_type a) (e_type b) &&
  opt_eqb str_eqb (e_name a) (e_name b) && opt_eqb str_eqb (e_host a) (e_host b) &&
  optZ_eqb (e_port a) (e_port b) && optZ_eqb (e_num a) (e_num b) &&
  ea_eqb (e_ea a) (e_ea b) && Bool.eqb (e_gplus a) (e_gplus b).
