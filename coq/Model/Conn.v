(* Conn.v — what happens to a request when the client connection fails while the
   response is being written.

   A response is the sequence of things the request does that matter here:
   writes to the client socket, files opened by `with` blocks (closed when the
   block is left, normally or by an exception), files opened without `with`
   (mailbox objects, the ZIP archive: released by reference counting), and the
   point where handler look-up raises FileNotFound.

   The fault is a pattern `fails : nat -> bool`: the write with index i (counting
   from 0) raises an error of class c exactly when `fails i` — a connection that
   is gone for good (every write from k on), one that fails once and recovers, one
   that fails for n writes, or anything else.  c is EPIPE / ECONNRESET —
   OSError(errno, msg), two arguments — or TIMEOUT — socket.timeout("timed out"),
   ONE argument, strerror None.

   protocol.handle() is modelled from its `hspec`, server.GopherRequestHandler
   .handle from `sspec`; the specs of the current source are Gen/Conn.v
   (translate/gen_conn.py), the specs of the pinned tree are written out below.
   Definitions only. *)
From Coq Require Import List Arith Bool.
Import ListNotations.

Inductive ioclass := EPIPE | ECONNRESET | TIMEOUT.
Inductive exn := XIO (c : ioclass) | XIndex | XAttr | XNotFound.

(* the class name GopherExceptions.log prints: type(exception).__name__ *)
Inductive logcls := LIO (c : ioclass) | LIndexError | LAttributeError | LFileNotFound
  | LOther.   (* any other class name seen in a real log (never produced by the model) *)
Definition cls_of (x : exn) : logcls :=
  match x with XIO c => LIO c | XIndex => LIndexError | XAttr => LAttributeError | XNotFound => LFileNotFound end.

(* one "EXCEPTION" log record: class, whether it carries the client address,
   whether it was written after the connection had failed *)
Record entry := Entry { e_cls : logcls; e_addr : bool; e_after : bool }.

Inductive action :=
  | AWrite        (* wfile.write(...) *)
  | AOpen         (* with vfs.open(...) as f: *)
  | AClose        (* the end of that block *)
  | AOpenRef      (* open without with: mailbox.mbox, VFSZip.zipfd *)
  | ANotFound.    (* raise FileNotFound(selector, comment, protocol): logs itself, with the address *)

Record st := St {
  nw : nat;              (* writes attempted so far *)
  depth : nat;           (* with-files currently open *)
  refs : nat;            (* files opened without with *)
  log : list entry       (* most recent first *)
}.

Inductive res := Ok | Raise (x : exn).

Section Fault.
Variable fails : nat -> bool.   (* which write indices raise *)
Variable c : ioclass.

(* has a write failed so far? *)
Definition faulted (s : st) : bool := existsb fails (seq 0 (nw s)).
Definition add_log (l : logcls) (addr : bool) (s : st) : st :=
  St (nw s) (depth s) (refs s) (Entry l addr (faulted s) :: log s).

(* an exception leaving the with-blocks of the request closes their files *)
Definition unwind (s : st) : st := St (nw s) 0 (refs s) (log s).

Definition do_write (s : st) : res * st :=
  let s1 := St (S (nw s)) (depth s) (refs s) (log s) in
  if fails (nw s) then (Raise (XIO c), s1) else (Ok, s1).

Fixpoint run_actions (acts : list action) (s : st) : res * st :=
  match acts with
  | [] => (Ok, s)
  | a :: r =>
      match a with
      | AWrite => match do_write s with
                  | (Ok, s1) => run_actions r s1
                  | (Raise x, s1) => (Raise x, unwind s1)
                  end
      | AOpen => run_actions r (St (nw s) (S (depth s)) (refs s) (log s))
      | AClose => run_actions r (St (nw s) (pred (depth s)) (refs s) (log s))
      | AOpenRef => run_actions r (St (nw s) (depth s) (S (refs s)) (log s))
      | ANotFound => (Raise XNotFound, unwind (add_log LFileNotFound true s))
      end
  end.

(* ---- protocol.handle() ---- *)
(* the expression handed to filenotfound / write_status in `except IOError as e` *)
Inductive msgexpr :=
  | MStrerror          (* e.strerror               (protocols/base.py) *)
  | MArgs1             (* e.args[1]                (gopherp, http, gemini, spartan as pinned) *)
  | MStrerrorOrStr.    (* e.strerror or str(e)     (proposed repair) *)
Inductive msgval := MsgStr | MsgNone.

Definition eval_msg (m : msgexpr) : res * msgval :=
  match m, c with
  | MStrerror, TIMEOUT => (Ok, MsgNone)           (* one-argument error: strerror is None *)
  | MStrerror, _ => (Ok, MsgStr)
  | MArgs1, TIMEOUT => (Raise XIndex, MsgNone)    (* args == ("timed out",): IndexError *)
  | MArgs1, _ => (Ok, MsgStr)
  | MStrerrorOrStr, _ => (Ok, MsgStr)
  end.

(* the writes of filenotfound(msg) / write_status(code, msg) *)
Inductive nfstep :=
  | NfW           (* a write that does not involve msg, or formats it with an f-string / % (fine with None) *)
  | NfWEscape.    (* wfile.write(html.escape(msg)...): AttributeError when msg is None *)

Record hspec := HSpec {
  body_in_try : bool;      (* are the response writes inside the try block?  (not in gemini/spartan) *)
  io_logs : bool;          (* except IOError: GopherExceptions.log(e, self, None) *)
  io_msg : msgexpr;
  nf_steps : list nfstep
}.

Fixpoint run_nf (steps : list nfstep) (m : msgval) (s : st) : res * st :=
  match steps with
  | [] => (Ok, s)
  | NfW :: r => match do_write s with
                | (Ok, s1) => run_nf r m s1
                | (Raise x, s1) => (Raise x, s1)
                end
  | NfWEscape :: r =>
      match m with
      | MsgNone => (Raise XAttr, s)
      | MsgStr => match do_write s with
                  | (Ok, s1) => run_nf r m s1
                  | (Raise x, s1) => (Raise x, s1)
                  end
      end
  end.

Definition is_write (a : action) : bool := match a with AWrite => true | _ => false end.
(* the part of the request before its first write: handler look-up, getentry, prepare *)
Fixpoint prep_part (acts : list action) : list action :=
  match acts with
  | [] => []
  | a :: r => if is_write a then [] else a :: prep_part r
  end.
Fixpoint send_part (acts : list action) : list action :=
  match acts with
  | [] => []
  | a :: r => if is_write a then acts else send_part r
  end.

Definition proto_handle (h : hspec) (acts : list action) (s : st) : res * st :=
  let tried := if body_in_try h then acts else prep_part acts in
  let after := if body_in_try h then [] else send_part acts in
  match run_actions tried s with
  | (Ok, s1) => run_actions after s1                     (* outside the try: whatever is raised propagates *)
  | (Raise XNotFound, s1) => run_nf (nf_steps h) MsgStr s1     (* except FileNotFound as e: filenotfound(str(e)) *)
  | (Raise (XIO c'), s1) =>                               (* except IOError as e: *)
      let s2 := if io_logs h then add_log (LIO c') true s1 else s1 in
      match eval_msg (io_msg h) with
      | (Raise x, _) => (Raise x, s2)
      | (Ok, m) => run_nf (nf_steps h) m s2
      end
  | (Raise x, s1) => (Raise x, s1)
  end.

(* ---- server.GopherRequestHandler.handle ---- *)
Inductive xfilter := FIOError | FException.
Definition filter_matches (f : xfilter) (x : exn) : bool :=
  match f, x with
  | FIOError, XIO _ => true
  | FIOError, _ => false
  | FException, _ => true
  end.
(* the except clauses in order: (class, logs through GopherExceptions.log(e, protohandler, None)) *)
Definition sspec := list (xfilter * bool).

Inductive outcome := Contained | Escaped (x : exn).

Fixpoint server_catch (sp : sspec) (x : exn) (s : st) : outcome * st :=
  match sp with
  | [] => (Escaped x, s)
  | (f, logs) :: r =>
      if filter_matches f x then (Contained, if logs then add_log (cls_of x) true s else s)
      else server_catch r x s
  end.

Definition init_st : st := St 0 0 0 [].

(* GopherRequestHandler.handle from the moment getProtocol has returned *)
Definition server_handle_from (sp : sspec) (h : hspec) (acts : list action) (s0 : st) : outcome * st :=
  match proto_handle h acts s0 with
  | (Ok, s) => (Contained, s)
  | (Raise x, s) => server_catch sp x s
  end.
Definition server_handle (sp : sspec) (h : hspec) (acts : list action) : outcome * st :=
  server_handle_from sp h acts init_st.

(* The whole connection: `pre` is what the classification phase does —
   ProtocolMultiplexer.getProtocol constructing the protocol objects and calling
   their canhandlerequest(), which may read the header block — BEFORE the try
   statement of GopherRequestHandler.handle.  Whatever is raised there leaves
   the connection handler. *)
Definition connection (sp : sspec) (h : hspec) (pre acts : list action) : outcome * st :=
  match run_actions pre init_st with
  | (Ok, s0) => server_handle_from sp h acts s0
  | (Raise x, s0) => (Escaped x, s0)
  end.

(* the records written after the connection failed, oldest first *)
Definition after_fault (s : st) : list entry := rev (filter e_after (log s)).
End Fault.

(* a classification phase that neither writes to the connection nor raises FileNotFound *)
Definition silent (pre : list action) : bool :=
  forallb (fun a => match a with AWrite | ANotFound => false | _ => true end) pre.

(* every with-block of the response is closed in the response itself *)
Fixpoint final_depth (acts : list action) (d : nat) : option nat :=
  match acts with
  | [] => Some d
  | AOpen :: r => final_depth r (S d)
  | AClose :: r => match d with O => None | S d' => final_depth r d' end
  | _ :: r => final_depth r d
  end.
Definition balanced (acts : list action) : Prop := final_depth acts 0 = Some 0.

(* the fault patterns the harness enumerates: writes k .. k+n-1 fail (n = None:
   every write from k on) *)
Definition window (k : nat) (n : option nat) (i : nat) : bool :=
  (k <=? i) && match n with None => true | Some d => i <? k + d end.

(* ---- the protocol classes (by their handle() method) and the pinned specs ---- *)
Inductive pclass := PCBase | PCGopherPlus | PCHttp | PCWap | PCGemini | PCSpartan.
Definition all_pclass : list pclass := [PCBase; PCGopherPlus; PCHttp; PCWap; PCGemini; PCSpartan].

Definition pinned_spec (p : pclass) : hspec :=
  match p with
  | PCBase => HSpec true true MStrerror [NfW]
  | PCGopherPlus => HSpec true true MArgs1 [NfW; NfW; NfW; NfW]
  | PCHttp => HSpec true true MArgs1 [NfW; NfW; NfW; NfW; NfWEscape; NfW]
  | PCWap => HSpec true true MArgs1 [NfW; NfW; NfW; NfW; NfW; NfWEscape; NfW]
  | PCGemini => HSpec false true MArgs1 [NfW]
  | PCSpartan => HSpec false true MArgs1 [NfW]
  end.
Definition pinned_server : sspec := [(FIOError, true); (FException, true)].

(* what a specification must satisfy for the failure to be logged under its own
   class for EVERY fault pattern (decidable; evaluated on the generated specs):
   a handler whose writes are inside the try must log the error itself (the reply
   it then writes may well succeed on a connection that recovered), must not
   index e.args, and may use e.strerror (None for a one-argument error) only if
   no write of the reply pushes the message through html.escape *)
Definition nf_plain (a : nfstep) : bool := match a with NfW => true | NfWEscape => false end.
Definition spec_ok (h : hspec) : bool :=
  negb (body_in_try h) ||
  (io_logs h &&
   match io_msg h with
   | MArgs1 => false
   | MStrerror => forallb nf_plain (nf_steps h)
   | MStrerrorOrStr => true
   end).
Definition server_ok (sp : sspec) : bool :=
  match sp with
  | (FIOError, true) :: (FException, true) :: _ => true
  | (FException, true) :: _ => true
  | _ => false
  end.

(* ---- resources opened without `with` (released by reference counting when the
        handler / VFS object dies): (file, enclosing definition, callee) ---- *)
From Coq Require Import String.
From PG Require Import Lib.Str.
Definition ref_released_sites : list (str * (str * str)) := [
  (lit "handlers/ZIP.py", (lit "VFSZip.__init__", lit "self.chain.open"));      (* zipfd, closed by VFSZip.__del__ *)
  (lit "handlers/ZIP.py", (lit "VFSZip.__init__", lit "zipfile.ZipFile"));
  (lit "handlers/ZIP.py", (lit "VFSZip.init_cache", lit "shelve.open"));
  (lit "handlers/ZIP.py", (lit "VFSZip.open", lit "self.chain.open"));          (* primitive: a selector outside the archive is opened by the chained VFS and handed to the caller's with block *)
  (lit "handlers/ZIP.py", (lit "VFSZip.open", lit "self.zip.open"));            (* primitive: handed to a with block by the caller *)
  (lit "handlers/base.py", (lit "VFS_Real.open", lit "open"));                  (* primitive: handed to a with block by the caller *)
  (lit "handlers/mbox.py", (lit "MBoxFolderHandler.prepare", lit "mbox"));
  (lit "handlers/mbox.py", (lit "MBoxMessageHandler.openmailbox", lit "mbox"));
  (lit "handlers/mbox.py", (lit "MaildirFolderHandler.prepare", lit "Maildir"));
  (lit "handlers/mbox.py", (lit "MaildirMessageHandler.openmailbox", lit "Maildir"))
].
