(* Request.v — what each protocol class hands to the handler chain.
   For every protocol: the function from the decoded request line
   (server.py: rfile.readline().decode(errors="surrogateescape")), for Spartan also
   the bytes that follow the line, for WAP also the configured `waptop` prefix, to
   what handle() does with it: the (selector, searchrequest) pair given to
   HandlerMultiplexer.getHandler, or one of the replies produced without asking
   any handler.  Also the request a client sends when it follows a link that the
   same protocol rendered (`request_of_link`).  Definitions only.

   Sources: protocols/base.py __init__ + slashnormalize, rfc1436.py / gopherp.py
   canhandlerequest, http.py / wap.py canhandlerequest + handle, gemini.py handle +
   handle_input, spartan.py handle; renderobjinfo of http.py, gemini.py, spartan.py,
   getrenderstr of wap.py, rfc1436.py renderobjinfo for `request_of_link`.

   Not modelled here: header lines (HTTP headerslurp; they only matter for WAP
   detection, Model/Detect.v), urlsplit's two netloc checks (Lib/Urlparse.v header),
   every key of the HTTP query other than "searchrequest", Python's int() on
   something that is not a run of ASCII digits (Spartan's third field is one
   whenever canhandlerequest accepted the line). *)
From Coq Require Import String.
From PG Require Import Lib.Str Lib.Bytes Lib.Percent Lib.Utf8 Lib.PercentStr Lib.Urlparse Lib.Crlf
  Model.ProtoId Model.Selector Model.Detect.
Local Open Scope N_scope.

Inductive routed :=
  | ToHandler (sel : str) (search : option str)  (* getHandler(selector, searchrequest, ...) *)
  | Icon (name : str)            (* HTTP/WAP built-in icon, served without a handler *)
  | GeminiBad                    (* write_status(59, "Bad request") *)
  | GeminiInput                  (* write_status(10, "Enter input") *)
  | GeminiRedirect (target : str)  (* write_status(30, target) *)
  | SpartanTooLarge              (* write_status(4, "Content length too large") *)
  | Crash.                       (* an exception other than FileNotFound / IOError leaves handle() *)

(* server.py: the request is the first line of the input, terminator included *)
Fixpoint readline (b : list N) : list N * list N :=
  match b with
  | [] => ([], [])
  | x :: r => if x =? 10 then ([x], r)
              else let '(l, rest) := readline r in (x :: l, rest)
  end.

(* ---------- Gopher family ---------- *)
(* BaseGopherProtocol.__init__: selector = slashnormalize(requestlist[0]) *)
Definition base_selector (req : str) : str := slashnormalize (hd [] (requestlist req)).

(* GopherProtocol.canhandlerequest: searchrequest = requestlist[1] when there is one *)
Definition gopher_route (req : str) : routed :=
  ToHandler (base_selector req)
            (match requestlist req with _ :: q :: _ => Some q | _ => None end).

(* GopherPlusProtocol.canhandlerequest: with three fields the middle one is the search *)
Definition gopherplus_route (req : str) : routed :=
  ToHandler (base_selector req)
            (match requestlist req with [_; q; _] => Some q | _ => None end).

(* ---------- HTTP / WAP ---------- *)
Definition SEARCHREQUEST : str := lit "searchrequest".
Definition ICON_PREFIX : str := lit "/PYGOPHERD-HTTPPROTO-ICONS/".
Definition icon_names : list str :=
  [lit "binary.gif"; lit "binhex.gif"; lit "folder.gif"; lit "image3.gif"; lit "sound1.gif";
   lit "text.gif"; lit "generic.gif"; lit "blank.gif"].

(* re.match("/PYGOPHERD-HTTPPROTO-ICONS/(.+)$", selector).group(1) in icons:
   "." does not match "\n" and "$" also matches before a final "\n", so the
   selector is the prefix plus an icon name, optionally followed by one "\n". *)
Definition icon_of (sel : str) : option str :=
  if prefixb ICON_PREFIX sel then
    let r := skipn (List.length ICON_PREFIX) sel in
    if mem_str r icon_names then Some r
    else match last_char r with
         | Some 10 => if mem_str (drop_last r) icon_names then Some (drop_last r) else None
         | _ => None
         end
  else None.

(* handle(): splitted = target.split("?"); selector = slashnormalize(unquote(splitted[0]));
   formvals = parse_qs(splitted[1]) when there is a second piece *)
Definition http_of_target (t : str) : routed :=
  let sp := split_on QMARK t in
  let sel := slashnormalize (unquote_py (hd [] sp)) in
  let search := match sp with _ :: q :: _ => qs_first SEARCHREQUEST q | _ => None end in
  match icon_of sel with
  | Some n => Icon n
  | None => ToHandler sel search
  end.

(* requestparts[1] ; IndexError when the line has no second piece *)
Definition http_route (req : str) : routed :=
  match http_parts req with
  | _ :: t :: _ => http_of_target t
  | _ => Crash
  end.

(* WAPProtocol.canhandlerequest (called again by handle): a target that is waptop, or
   starts with waptop + "/" or waptop + "?", loses that prefix before anything is decoded
   (/repo 99beac0; the pinned code cut the prefix off every target that started with it) *)
Definition wap_prefixed (waptop t : str) : bool :=
  str_eqb t waptop || prefixb (waptop ++ [SLASH]) t || prefixb (waptop ++ [QMARK]) t.
Definition wap_strip (waptop t : str) : str :=
  if wap_prefixed waptop t then skipn (List.length waptop) t else t.
Definition wap_strip_pinned (waptop t : str) : str :=
  if prefixb waptop t then skipn (List.length waptop) t else t.
(* when the line does not have the HTTP shape, canhandlerequest returns before touching
   requestparts[1] *)
Definition wap_route_with (strip_fn : str -> str -> str) (waptop req : str) : routed :=
  match http_parts req with
  | _ :: t :: _ => http_of_target (if http_shape req then strip_fn waptop t else t)
  | _ => Crash
  end.
Definition wap_route : str -> str -> routed := wap_route_with wap_strip.
Definition wap_route_pinned : str -> str -> routed := wap_route_with wap_strip_pinned.

(* ---------- Gemini ---------- *)
Definition QUERY_PREFIX : str := lit "/GEMINI-QUERY".

(* the prefix as a whole path segment (/repo 3c20be2; the pinned code tested
   selector.startswith("/GEMINI-QUERY")) *)
Definition gemini_prefixed (sel : str) : bool :=
  str_eqb sel QUERY_PREFIX || prefixb (QUERY_PREFIX ++ [SLASH]) sel.
Definition gemini_prefixed_pinned (sel : str) : bool := prefixb QUERY_PREFIX sel.

(* handle(): urlparse(request.strip()); path and query; the /GEMINI-QUERY dance of handle_input *)
Definition gemini_route_with (prefixed : str -> bool) (req : str) : routed :=
  match urlparse (strip req) with
  | None => GeminiBad
  | Some u =>
      let sel := u_path u in
      let q := u_query u in
      if prefixed sel then
        match q with
        | [] => GeminiInput
        | _ => GeminiRedirect (skipn (List.length QUERY_PREFIX) sel ++ [QMARK] ++ q)
        end
      else ToHandler (slashnormalize (unquote_py sel)) (Some (unquote_py q))
  end.
Definition gemini_route : str -> routed := gemini_route_with gemini_prefixed.
Definition gemini_route_pinned : str -> routed := gemini_route_with gemini_prefixed_pinned.
(* the one place where the model may say ToHandler/... while the code answers 59 *)
Definition gemini_unchecked (req : str) : bool := netloc_unchecked (strip req).

(* ---------- Spartan ---------- *)
(* l[:n] with n a binary number (a content length can be astronomically large) *)
Fixpoint take_N (n : N) (l : list N) : list N :=
  match l with
  | [] => []
  | x :: r => if n =? 0 then [] else x :: take_N (n - 1) r
  end.
(* rfile.read(n) raises OverflowError when n does not fit a C ssize_t *)
Definition SSIZE_MAX : N := 9223372036854775807.

(* handle(): host, path, length = request.strip().split(" "); body = rfile.read(length) *)
Definition spartan_route (req : str) (body : list N) : routed :=
  match split_on SPACE (strip req) with
  | [_; path; len] =>
      match parse_dec len with
      | Some n =>
          let sel := slashnormalize (unquote_py path) in
          if n =? 0 then ToHandler sel None
          else if SSIZE_MAX <? n then SpartanTooLarge
          else ToHandler sel (Some (decode_se (take_N n body)))
      | None => Crash
      end
  | _ => Crash
  end.

(* ---------- all protocols ---------- *)
Definition route (p : proto) (waptop : str) (req : str) (body : list N) : routed :=
  match p with
  | PGopher | PSGopher => gopher_route req
  | PGopherPlus | PSGopherPlus | PUrlGopherPlus => gopherplus_route req
  | PHttp | PHttps => http_route req
  | PWap => wap_route waptop req
  | PGemini => gemini_route req
  | PSpartan => spartan_route req body
  end.

Definition selector_of (r : routed) : option str :=
  match r with ToHandler s _ => Some s | _ => None end.
Definition search_of (r : routed) : option str :=
  match r with ToHandler _ q => q | _ => None end.

(* ---------- following a rendered link ---------- *)
Definition CRLF : str := crlf.
Definition GET_ : str := lit "GET ".
Definition HTTP10 : str := lit " HTTP/1.0".
Definition GEMINI_SCHEME : str := lit "gemini://".

(* http.py renderobjinfo: urllib.parse.quote(selector, errors="surrogateescape");
   gemini.py / spartan.py: quote(selector.encode(errors="surrogateescape")) ;
   None = UnicodeEncodeError *)
Definition link_path (s : str) : option str := quote_str [SLASH] s.
(* gemini.py / spartan.py: url = url or "/" *)
Definition or_slash (u : str) : str := match u with [] => [SLASH] | _ => u end.

(* The request line a client of protocol p sends for the link that p rendered for the
   local selector s.  `host` is the server name the client was told (Gemini, Spartan);
   `waptop` the WAP prefix that wap.py getrenderstr puts in front of a link starting with "/".
   Gopher family: the selector field of the menu line, then CRLF. *)
Definition request_of_link (p : proto) (waptop host : str) (s : str) : option str :=
  match p with
  | PGopher | PSGopher => Some (s ++ CRLF)
  | PGopherPlus | PSGopherPlus | PUrlGopherPlus => Some (s ++ [TAB; 43] ++ CRLF)
  | PHttp | PHttps => option_map (fun u => GET_ ++ u ++ HTTP10 ++ CRLF) (link_path s)
  | PWap => option_map (fun u => GET_ ++ (if starts_with_slash u then waptop ++ u else u) ++ HTTP10 ++ CRLF)
                       (link_path s)
  | PGemini => option_map (fun u => GEMINI_SCHEME ++ host ++ or_slash u ++ CRLF) (link_path s)
  | PSpartan => option_map (fun u => host ++ [SPACE] ++ or_slash u ++ lit " 0" ++ CRLF) (link_path s)
  end.

(* ---------- submitting a search ---------- *)
(* the value a client puts on the wire for the user's text q: quote(q, safe="") *)
Definition query_text (q : str) : option str := quote_str [] q.

(* Gopher: selector TAB query CRLF.  Gopher+: selector TAB query TAB "+" CRLF.
   HTTP/WAP: the form of getrenderstr (METHOD=GET, field "searchrequest").
   Gemini: the URL the client is redirected to after the /GEMINI-QUERY prompt.
   Spartan: the text is the request body; its length is the third field. *)
Definition search_request (p : proto) (waptop host : str) (s q : str) : option (str * list N) :=
  match p with
  | PGopher | PSGopher => Some (s ++ [TAB] ++ q ++ CRLF, [])
  | PGopherPlus | PSGopherPlus | PUrlGopherPlus => Some (s ++ [TAB] ++ q ++ [TAB; 43] ++ CRLF, [])
  | PHttp | PHttps =>
      match link_path s, query_text q with
      | Some u, Some v => Some (GET_ ++ u ++ [QMARK] ++ SEARCHREQUEST ++ [EQUALS] ++ v ++ HTTP10 ++ CRLF, [])
      | _, _ => None
      end
  | PWap =>
      match link_path s, query_text q with
      | Some u, Some v =>
          Some (GET_ ++ (if starts_with_slash u then waptop ++ u else u) ++ [QMARK] ++ SEARCHREQUEST ++ [EQUALS] ++ v
                ++ HTTP10 ++ CRLF, [])
      | _, _ => None
      end
  | PGemini =>
      match link_path s, query_text q with
      | Some u, Some v => Some (GEMINI_SCHEME ++ host ++ or_slash u ++ [QMARK] ++ v ++ CRLF, [])
      | _, _ => None
      end
  | PSpartan =>
      match link_path s, encode_se q with
      | Some u, Some b =>
          Some (host ++ [SPACE] ++ or_slash u ++ [SPACE] ++ print_dec (N.of_nat (List.length b)) ++ CRLF, b)
      | _, _ => None
      end
  end.

(* Gemini search items are rendered as /GEMINI-QUERY + link; the client first gets the
   prompt, then sends the same URL with ?text *)
Definition gemini_prompt_request (host s : str) : option str :=
  option_map (fun u => GEMINI_SCHEME ++ host ++ QUERY_PREFIX ++ or_slash u ++ CRLF) (link_path s).
Definition gemini_answer_request (host s q : str) : option str :=
  match link_path s, query_text q with
  | Some u, Some v => Some (GEMINI_SCHEME ++ host ++ QUERY_PREFIX ++ or_slash u ++ [QMARK] ++ v ++ CRLF)
  | _, _ => None
  end.
(* the client follows "30 target": target is relative to the same authority *)
Definition gemini_follow_redirect (host target : str) : str := GEMINI_SCHEME ++ host ++ target ++ CRLF.

(* ---------- side conditions as boolean predicates ---------- *)
(* a host name as servers are configured with: letters, digits, "-", ".", "_", "~" *)
Definition host_ok (h : str) : bool :=
  negb (str_eqb h []) && forallb is_unreserved h.

(* what the Gopher request syntax can express: the selector is one TAB-free field of one
   line, and str.strip() must leave it alone *)
Definition strip_safe (s : str) : bool :=
  match s with
  | [] => true
  | c :: _ => negb (is_space c) && negb (is_space (last s 0))
  end.
Definition gopher_expressible (s : str) : bool :=
  negb (mem_N TAB s) && negb (mem_N 10 s) && strip_safe s.

Definition nospace (s : str) : bool := forallb (fun c => negb (is_space c)) s.
(* the configured WAP prefix: no white space, no "?" *)
Definition waptop_ok (w : str) : bool := nospace w && negb (mem_N QMARK w).
Definition is_gopher_family (p : proto) : bool :=
  match p with PGopher | PSGopher | PGopherPlus | PSGopherPlus | PUrlGopherPlus => true | _ => false end.
Definition is_http (p : proto) : bool := match p with PHttp | PHttps => true | _ => false end.
(* the selector is empty (the root, rendered as "/") or starts with a slash — every selector
   a protocol hands to a handler does (slashnormalize) *)
Definition rooted (s : str) : bool := match s with [] => true | c :: _ => c =? SLASH end.
Definition nonempty (l : list N) : bool := match l with [] => false | _ => true end.
