(* UMNSpec.v — a reference reading of UMN link files written from
   doc/pygopherd.txt (sections LINKS, OVERRIDING DEFAULTS, ADDING COOL LINKS,
   HIDING AN ENTRY) only: a link file is a list of blocks separated by a blank
   line, a block is a finite map from the seven line kinds to values
   (represented as a list of fields with distinct keys), comments stand
   between blocks, the lines of a block may be indented (the manual prints its
   examples so).  Nothing here looks at how getLinkItem reads a file.
   Definitions only. *)
From Coq Require Import ZArith String.
From PG Require Import Lib.Str Lib.Cmp Model.DirEntry Model.UMN.
Local Open Scope N_scope.

(* ---------- syntax of a well-formed link file ---------- *)
Inductive pathv :=
| PHere (n : str)      (* Path=./n   : the file n of this directory *)
| PTilde (n : str)     (* Path=~/n   : the same *)
| PAbs (s : str)       (* Path=/s    : a selector *)
| PUrl (s : str)       (* Path=URL:s *)
| PRel (s : str).      (* Path=s     : anything else *)
Inductive hostv := HPlus | HName (h : str).
Inductive portv := PtPlus | PtNum (digits : str).
Inductive field :=
| FName (v : str)
| FType (c : N)
| FPath (p : pathv)
| FHost (h : hostv)
| FPort (p : portv)
| FNumb (neg : bool) (digits : str)
| FAbstract (conts : list str) (final : str).   (* conts: the lines that end in a backslash *)

(* sb_indent: blanks in front of every line of the block (the manual prints its
   examples indented; getLinkItem strips each line) *)
(* sb_before: lines that stand between the blank line ending the previous block (or the start of the
   file) and this block: further blank lines (None) and comment lines (Some text) in any arrangement —
   blocks may be separated by more than one blank line and by whole comment paragraphs *)
Record sblock := mkSBlock { sb_comments : list str; sb_fields : list field; sb_indent : str;
                            sb_before : list (option str) }.
Definition linkfile := list sblock.

Definition key_of (f : field) : N :=
  match f with
  | FName _ => 0 | FType _ => 1 | FPath _ => 2 | FHost _ => 3 | FPort _ => 4 | FNumb _ _ => 5 | FAbstract _ _ => 6
  end.

(* ---------- how it is written down ---------- *)
Definition path_str (p : pathv) : str :=
  match p with
  | PHere n => [46; 47] ++ n
  | PTilde n => [126; 47] ++ n
  | PAbs s => 47 :: s
  | PUrl s => lit "URL:"%string ++ s
  | PRel s => s
  end.

Definition field_lines (f : field) : list str :=
  match f with
  | FName v => [K_NAME ++ v]
  | FType c => [K_TYPE ++ [c]]
  | FPath p => [K_PATH ++ path_str p]
  | FHost HPlus => [K_HOST ++ PLUS]
  | FHost (HName h) => [K_HOST ++ h]
  | FPort PtPlus => [K_PORT ++ PLUS]
  | FPort (PtNum d) => [K_PORT ++ d]
  | FNumb neg d => [K_NUMB ++ (if neg then 45 :: d else d)]
  | FAbstract [] final => [K_ABSTRACT ++ final]
  | FAbstract (c :: cs) final => (K_ABSTRACT ++ c ++ [92]) :: map (fun l => l ++ [92]) cs ++ [final]
  end.

Definition block_lines (b : sblock) : list str :=
  map (fun c => 35 :: c) (sb_comments b) ++ concat (map field_lines (sb_fields b)).

Definition indented_lines (b : sblock) : list str := map (app (sb_indent b)) (block_lines b).

Definition noise_lines (ns : list (option str)) : list str :=
  map (fun o => match o with None => [] | Some c => 35 :: c end) ns.
Definition full_lines (b : sblock) : list str := noise_lines (sb_before b) ++ indented_lines b.

(* a blank line ends a block; what follows it up to the next block is that block's sb_before *)
Fixpoint lf_lines (lf : linkfile) : list str :=
  match lf with
  | [] => []
  | [b] => full_lines b
  | b :: r => full_lines b ++ [] :: lf_lines r
  end.

Definition render_linkfile (lf : linkfile) : str := concat (map (fun l => l ++ [10]) (lf_lines lf)).

(* the same file with something after the last block: a blank line, then more blank / comment lines *)
Definition trailer (tr : list (option str)) : list str :=
  match tr with [] => [] | _ => [] :: noise_lines tr end.
Definition render_linkfile_trailing (lf : linkfile) (tr : list (option str)) : str :=
  concat (map (fun l => l ++ [10]) (lf_lines lf ++ trailer tr)).

(* ---------- well-formedness (boolean) ---------- *)
Definition no_eol (s : str) : bool := negb (mem_N 10 s) && negb (mem_N 13 s).
(* a line that str.strip() leaves alone *)
Definition trimmed (s : str) : bool :=
  match s with [] => true | c :: _ => negb (is_space c) && negb (is_space (last s 0)) end.
Definition no_trailing_space (s : str) : bool :=
  match s with [] => true | _ => negb (is_space (last s 0)) end.
Definition all_digits (s : str) : bool :=
  match s with [] => false | _ => forallb is_ascii_digit s end.

Definition wf_path (p : pathv) : bool :=
  let s := path_str p in
  no_eol s && no_trailing_space s && negb (last_is 47 s) &&
  match p with
  | PHere n | PTilde n => negb (str_eqb n [])
  | PAbs _ | PUrl _ => true
  | PRel r =>
      negb (str_eqb r []) && negb (prefixb [47] r) && negb (prefixb [46; 47] r) && negb (prefixb [126; 47] r)
      && negb (str_eqb (firstn 4 r) (lit "URL:"%string))
  end.

Definition wf_field (f : field) : bool :=
  match f with
  | FName v => no_eol v && no_trailing_space v
  | FType c => negb (is_space c) && negb (c =? 10) && negb (c =? 13)
  | FPath p => wf_path p
  | FHost HPlus | FPort PtPlus => true
  | FHost (HName h) => no_eol h && no_trailing_space h && negb (str_eqb h PLUS)
  | FPort (PtNum d) => all_digits d
  | FNumb _ d => all_digits d
  | FAbstract conts final =>
      forallb no_eol conts && no_eol final && no_trailing_space final && negb (last_is 92 final) &&
      (* continuation lines are read stripped *)
      forallb (fun l => match l with [] => true | c :: _ => negb (is_space c) end) (tl (conts ++ [final]))
  end.

Fixpoint distinct (l : list N) : bool :=
  match l with [] => true | x :: r => negb (mem_N x r) && distinct r end.

(* indentation: blanks other than line ends *)
Definition wf_indent (s : str) : bool := forallb is_space s && no_eol s.

Definition wf_noise (ns : list (option str)) : bool :=
  forallb (fun o => match o with None => true | Some c => no_eol c && no_trailing_space c end) ns.

Definition wf_block (b : sblock) : bool :=
  wf_noise (sb_before b) &&
  wf_indent (sb_indent b) &&
  forallb (fun c => no_eol c && no_trailing_space c) (sb_comments b) &&
  forallb wf_field (sb_fields b) &&
  distinct (map key_of (sb_fields b)) &&
  mem_N 2 (map key_of (sb_fields b)).          (* every link has a Path= line *)

Definition wf_linkfile (lf : linkfile) : bool := forallb wf_block lf.

(* ---------- what a block means ---------- *)
Fixpoint first_some {A B} (f : A -> option B) (l : list A) : option B :=
  match l with
  | [] => None
  | x :: r => match f x with Some b => Some b | None => first_some f r end
  end.

Definition dec_value (d : str) : N := fold_left (fun a c => a * 10 + (c - 48)) d 0.

Definition name_of f := match f with FName v => Some v | _ => None end.
Definition type_of f := match f with FType c => Some c | _ => None end.
Definition path_of f := match f with FPath p => Some p | _ => None end.
Definition host_of f := match f with FHost h => Some h | _ => None end.
Definition port_of f := match f with FPort p => Some p | _ => None end.
Definition numb_of f :=
  match f with FNumb neg d => Some (if neg : bool then (- Z.of_N (dec_value d))%Z else Z.of_N (dec_value d)) | _ => None end.
Definition abstract_of f :=
  match f with FAbstract conts final => Some (concat (map (fun c => c ++ [10]) conts) ++ final) | _ => None end.

(* the entry a block describes.  Host=+ / Port=+ (or no such line): this
   server, i.e. the attribute stays unset and the protocol fills in its own.
   le_merge: the block is about a file of this directory (Path=./name).
   A relative Path with neither host nor port is taken relative to the
   directory, as UMN gopherd does. *)
Definition spec_lentry (base dirsel : str) (b : sblock) : lentry :=
  let fs := sb_fields b in
  let host := match first_some host_of fs with Some (HName h) => Some h | _ => None end in
  let port := match first_some port_of fs with Some (PtNum d) => Some (Z.of_N (dec_value d)) | _ => None end in
  let ea := match first_some abstract_of fs with
            | Some [] | None => []
            | Some a => [(EA_ABSTRACT, a)]
            end in
  match first_some path_of fs with
  | None => mkLentry (mkEntry dirsel (first_some type_of fs) (first_some name_of fs) host port
                              (first_some numb_of fs) ea false) false false
  | Some p =>
      let sel := match p with
                 | PHere n | PTilde n => base ++ [47] ++ n
                 | PAbs s => 47 :: s
                 | PUrl s => lit "URL:"%string ++ s
                 | PRel s => if isnone host && isnone port then normpath (base ++ [47] ++ s) else s
                 end in
      mkLentry (mkEntry sel (first_some type_of fs) (first_some name_of fs) host port
                        (first_some numb_of fs) ea false)
               (match p with PHere _ | PTilde _ => true | _ => false end)
               (match p with PRel _ => true | _ => false end)
  end.

(* "overrides only the fields it sets": the number of the entry is touched
   only by a Numb= line.  The pinned code starts every LinkEntry with num = 0. *)
Definition default_num (fx : fixes) (le : lentry) : lentry :=
  match e_num (le_entry le) with
  | Some _ => le
  | None => mkLentry (set_num (if fx_num_unset fx then None else Some 0%Z) (le_entry le)) (le_merge le) (le_abs le)
  end.

(* ---------- what a list of blocks does to a listing ---------- *)
Definition spec_hides (t : option N) : bool := cap_hides t.   (* Type=X or Type=- *)

Definition find_target (fes : list oentry) (sel : str) : option str :=
  first_some (fun oe => match fst oe with
                        | Some n => if str_eqb (e_selector (snd oe)) sel then Some n else None
                        | None => None end) fes.

Definition apply_block (fes : list oentry) (le : lentry) : list oentry :=
  let e := le_entry le in
  if le_merge le then
    match find_target fes (e_selector e) with
    | Some n =>
        if spec_hides (e_type e) then filter (fun oe => negb (origin_is n oe)) fes
        else update_origin n (fun old => merge_entries old e) fes
    | None => if spec_hides (e_type e) then fes else fes ++ [(None, e)]   (* nothing there to hide *)
    end
  else fes ++ [(None, e)].

(* A list of blocks, in order.  Later blocks see what earlier ones did; once a
   block has hidden ./name, every later block for the same path is without
   effect (hidden stays hidden).  The second component is the set of selectors
   hidden so far. *)
Definition apply_block_h (st : list oentry * list str) (le : lentry) : list oentry * list str :=
  let e := le_entry le in
  if le_merge le then
    if mem_str (e_selector e) (snd st) then st
    else match find_target (fst st) (e_selector e) with
         | Some n =>
             if spec_hides (e_type e)
             then (filter (fun oe => negb (origin_is n oe)) (fst st), e_selector e :: snd st)
             else (update_origin n (fun old => merge_entries old e) (fst st), snd st)
         | None => if spec_hides (e_type e) then st             (* nothing there to hide *)
                   else (fst st ++ [(None, e)], snd st)
         end
  else (fst st ++ [(None, e)], snd st).

(* `dropped`: the selectors of the files their .cap file has hidden already *)
Definition apply_entries_from (dropped : list str) (ls : list lentry) (fes : list oentry) : list oentry :=
  fst (fold_left apply_block_h ls (fes, dropped)).
Definition apply_entries (ls : list lentry) (fes : list oentry) : list oentry := apply_entries_from [] ls fes.

Definition apply_blocks (base dirsel : str) (bs : list sblock) (fes : list oentry) : list oentry :=
  apply_entries (map (spec_lentry base dirsel) bs) fes.
