(* ZipChain.v — the handler chain as far as C16's last clause is concerned:
   HandlerMultiplexer.getHandler takes the first handler of the configured list
   whose isrequestforme() is true; ZIPHandler._makehandler re-runs the same chain
   with vfs = VFSZip for selectors into an archive.  Handlers that work on a path
   of the real file system guard canhandlerequest with a test on the class of
   self.vfs; everything else a handler looks at (stat result, selector, first
   line of the file ...) is an arbitrary boolean here.  Definitions only. *)
From PG Require Import Lib.Str.

Inductive vfs_class := VReal | VZip.            (* VFS_Real itself | VFSZip (a SUBCLASS of VFS_Real) *)

(* which test on self.vfs a canhandlerequest contains (read from the source by translate/gen_zip.py) *)
Inductive real_test :=
  | TNone            (* no test at all *)
  | TIsinstance      (* isinstance(self.vfs, VFS_Real) *)
  | TExactType.      (* type(self.vfs) is VFS_Real *)

(* sub: is VFSZip declared as a subclass of VFS_Real?  (pinned code: yes) *)
Definition passes (sub : bool) (tst : real_test) (c : vfs_class) : bool :=
  match tst, c with
  | TExactType, VZip => false
  | TIsinstance, VZip => sub          (* isinstance is true for VFSZip as long as it inherits from VFS_Real *)
  | _, _ => true
  end.

Inductive handler :=
  | HUrl | HGophermap | HMaildirFolder | HMaildirMessage | HUMNDir | HTal | HHtmlTitle
  | HMBoxMessage | HMBoxFolder | HPyg | HExec | HCompressed | HZip | HFile | HDir | HUrlRewriter.

(* handlers that hand self.getfspath() to mailbox / importlib / subprocess *)
Definition real_only (h : handler) : bool :=
  match h with
  | HMaildirFolder | HMaildirMessage | HMBoxMessage | HMBoxFolder | HPyg | HExec => true
  | _ => false
  end.

Record real_tests := mk_tests {
  t_maildirfolder : real_test; t_maildirmessage : real_test;
  t_mboxmessage : real_test; t_mboxfolder : real_test;
  t_pyg : real_test; t_exec : real_test
}.
Definition test_of (ts : real_tests) (h : handler) : real_test :=
  match h with
  | HMaildirFolder => t_maildirfolder ts | HMaildirMessage => t_maildirmessage ts
  | HMBoxMessage => t_mboxmessage ts | HMBoxFolder => t_mboxfolder ts
  | HPyg => t_pyg ts | HExec => t_exec ts
  | _ => TNone
  end.
Definition real_only_handlers : list handler :=
  [HMaildirFolder; HMaildirMessage; HMBoxMessage; HMBoxFolder; HPyg; HExec].
(* every real-file-only handler's test turns VFSZip away *)
Definition guards (sub : bool) (ts : real_tests) : bool :=
  forallb (fun h => negb (passes sub (test_of ts h) VZip)) real_only_handlers.

(* isrequestforme = isrequestsecure and canhandlerequest; canhandlerequest = the vfs test
   (when the handler has one) and whatever else it checks: `other h` *)
Definition for_me (sub : bool) (ts : real_tests) (c : vfs_class) (secure : bool) (other : handler -> bool) (h : handler) : bool :=
  secure && passes sub (test_of ts h) c && other h.

Fixpoint choose (sub : bool) (ts : real_tests) (c : vfs_class) (secure : bool) (other : handler -> bool) (hs : list handler) : option handler :=
  match hs with
  | [] => None                                  (* FileNotFound "no handler found" *)
  | h :: r => if for_me sub ts c secure other h then Some h else choose sub ts c secure other r
  end.

Definition pinned_tests : real_tests := mk_tests TIsinstance TNone TNone TIsinstance TIsinstance TIsinstance.
Definition exact_tests : real_tests := mk_tests TExactType TExactType TExactType TExactType TExactType TExactType.
