(* Zip.v — pygopherd/handlers/ZIP.py: the member index of VFSZip
   (populate_cache, _getcacheinode with its two memo tables), the VFS
   operations on top of it, and the reference it is compared with: the same
   members extracted to a real tree, resolved by the OS rule.
   Definitions only (facts: Proofs/ZipPathFacts.v, Proofs/C16*.v).

   An archive is the list of members in central-directory order, as the real
   `zipfile` module reports them (archive bytes -> member list is trusted and
   done by the real library in the correspondence check):
     m_name  : info.filename after the cp437/UTF-8 -> surrogateescape
               transcoding done at the top of the loop in populate_cache;
     m_oname : info.filename as zipfile decoded it (what the pinned code
               passes to os.path.dirname when it resolves a relative link);
     m_kind  : link (external_attr has S_IFLNK; dest = content decoded with
               surrogateescape) or not a link (content bytes).  Whether a
               member "is a directory" is decided by the code from the NAME
               only (trailing slash); KDir marks explicit directory members
               for the well-formedness predicate. *)
From PG Require Import Lib.Str Lib.ZipPath.
Local Open Scope N_scope.

Inductive kind := KFile (data : list N) | KDir | KLink (dest : str).
Record member := mkm { m_name : str; m_oname : str; m_kind : kind }.

(* ---------- the index ("dircache") ----------
   dircache maps inode numbers "0","1",... to either a dict name -> inode or
   to a file name.  Inodes are handed out consecutively, so the table is a
   list indexed by inode; all directory dicts are kept in ONE association
   list keyed by (directory inode, name) whose order is insertion order
   (Python dict semantics: assignment to an existing key keeps its place). *)
Inductive inode := IDir | IFile (idx : nat).     (* idx: which member *)
Definition ekey := (nat * str)%type.
Record tbl := mkt { t_kinds : list inode; t_edges : list (ekey * nat) }.

Definition ekey_eqb (a b : ekey) : bool := Nat.eqb (fst a) (fst b) && str_eqb (snd a) (snd b).
Fixpoint eget (k : ekey) (E : list (ekey * nat)) : option nat :=
  match E with
  | [] => None
  | (k', v) :: r => if ekey_eqb k k' then Some v else eget k r
  end.
Fixpoint eset (k : ekey) (v : nat) (E : list (ekey * nat)) : list (ekey * nat) :=
  match E with
  | [] => [(k, v)]
  | (k', v') :: r => if ekey_eqb k k' then (k, v) :: r else (k', v') :: eset k v r
  end.

(* symlinkinodes item: dirlevel (the inode of that dict), filename, pathname, dest *)
Record pend := mkp { p_dir : nat; p_fname : str; p_path : str; p_dest : str }.

(* the two memo tables of _getcacheinode *)
Record caches := mkc { c_ec : list (str * nat); c_inv : list str }.
Definition no_caches : caches := mkc [] [].

Inductive exn := TypeError | IndexError | KeyError | OutOfFuel.
Inductive res (A : Type) := Ok (a : A) | Err (e : exn).
Arguments Ok {A} a.
Arguments Err {A} e.

(* Code variants.  `pinned` is the code as found; each flag is one repair:
   v_clear_inv : invalid_paths is emptied whenever a link gets resolved
                 (pinned: failed lookups made while the index is still being
                 built stay recorded for the life of the object);
   v_base_name : a relative link is resolved against dirname of the
                 TRANSCODED member name (pinned: of zipfile's cp437 decoding);
   v_dot_root  : a relative link whose normalised target is "." denotes the
                 archive root (pinned: looked up as a member called ".");
   v_delegate  : a selector that is neither the archive nor below it (the target of a
                 gophermap / link-file entry pointing out of the archive, a URL:
                 selector) is answered by the file system the archive lives in
                 (pinned: len(archive name) characters are cut off ANY selector and
                 the rest is looked up in the archive). *)
Record variant := mkv { v_clear_inv : bool; v_base_name : bool; v_dot_root : bool; v_delegate : bool }.
Definition pinned : variant := mkv false false false false.
Definition repaired : variant := mkv true true true true.

(* ---------- phase 1: directory synthesis, files, links collected ---------- *)
(* for level in dir_.split("/"): skip ""; create if missing; descend *)
Fixpoint mkdirp (t : tbl) (c : nat) (levels : list str) : res (tbl * nat) :=
  match levels with
  | [] => Ok (t, c)
  | l :: r =>
      match nth_error (t_kinds t) c with
      | Some IDir =>
          match eget (c, l) (t_edges t) with
          | Some j => mkdirp t j r
          | None =>
              let n := length (t_kinds t) in
              mkdirp (mkt (t_kinds t ++ [IDir]) (t_edges t ++ [((c, l), n)])) n r
          end
      | _ => Err TypeError            (* `level in <str>` / `<str>[level] = ...` *)
      end
  end.

(* os.path.split(filename) followed by dir_.split("/") with empty levels
   skipped: the levels are the non-empty "/"-fields except the last one, and
   filename_ is the last field. *)
Definition name_levels (name : str) : list str := filter nonempty (removelast (split_on SL name)).
Definition name_base (name : str) : str := last (split_on SL name) [].

Definition step1 (v : variant) (idx : nat) (t : tbl) (ps : list pend) (m : member) : res (tbl * list pend) :=
  match mkdirp t 0 (name_levels (m_name m)) with
  | Err e => Err e
  | Ok (t1, c) =>
      let f := name_base (m_name m) in
      if is_nil f then Ok (t1, ps) else
      match m_kind m with
      | KLink dest =>
          Ok (t1, ps ++ [mkp c f (if v_base_name v then m_name m else m_oname m) dest])
      | _ =>
          match nth_error (t_kinds t1) c with
          | Some IDir =>
              let n := length (t_kinds t1) in
              Ok (mkt (t_kinds t1 ++ [IFile idx]) (eset (c, f) n (t_edges t1)), ps)
          | _ => Err TypeError
          end
      end
  end.

Fixpoint phase1 (v : variant) (idx : nat) (t : tbl) (ps : list pend) (ms : list member) : res (tbl * list pend) :=
  match ms with
  | [] => Ok (t, ps)
  | m :: r =>
      match step1 v idx t ps m with
      | Err e => Err e
      | Ok (t1, ps1) => phase1 v (S idx) t1 ps1 r
      end
  end.

Definition tbl0 : tbl := mkt [IDir] [].

(* ---------- _getcacheinode ---------- *)
(* plain traversal, no memo tables: what the loop in _getcacheinode computes *)
Fixpoint walk (t : tbl) (ino : nat) (items : list str) : option nat :=
  match items with
  | [] => Some ino
  | it :: r =>
      match nth_error (t_kinds t) ino with
      | Some IDir =>
          match eget (ino, it) (t_edges t) with
          | Some j => walk t j r
          | None => None
          end
      | _ => None
      end
  end.
Definition plookup (t : tbl) (p : str) : option nat :=
  match p with [] => Some 0%nat | _ => walk t 0 (split_on SL p) end.

(* the loop with entrycache / invalid_paths maintenance *)
Fixpoint traverse (t : tbl) (ino : nat) (wd : str) (items : list str) (c : caches) : option nat * caches :=
  match items with
  | [] => (Some ino, c)
  | it :: r =>
      match nth_error (t_kinds t) ino with
      | Some IDir =>
          let ec1 := (wd, ino) :: c_ec c in
          let wd' := os_join wd it in
          match eget (ino, it) (t_edges t) with
          | Some j => traverse t j wd' r (mkc ec1 (c_inv c))
          | None => (None, mkc ec1 (wd' :: c_inv c))
          end
      | _ => (None, c)
      end
  end.

Definition clookup (t : tbl) (c : caches) (p : str) : option nat * caches :=
  match p with
  | [] => (Some 0%nat, c)
  | _ =>
      let (d, f) := os_split p in
      match assoc_str d (c_ec c) with
      | Some dino => (eget (dino, f) (t_edges t), c)
      | None =>
          if mem_str d (c_inv c) then (None, c)
          else traverse t 0 [] (split_on SL p) c
      end
  end.

(* ---------- phase 2: the symlink fixpoint ---------- *)
Definition link_target (v : variant) (p : pend) : res str :=
  match p_dest p with
  | [] => Err IndexError                                   (* item["dest"][0] *)
  | ch :: r =>
      if ch =? SL then Ok r
      else
        let d := normpath (os_join (os_dirname (p_path p)) (p_dest p)) in
        Ok (if v_dot_root v && str_eqb d P_DOT then [] else d)
  end.

(* one pass over the pending links; returns the links still pending *)
Fixpoint round (v : variant) (t : tbl) (c : caches) (ps : list pend) : res (tbl * caches * list pend) :=
  match ps with
  | [] => Ok (t, c, [])
  | p :: r =>
      match link_target v p with
      | Err e => Err e
      | Ok d =>
          let '(r1, c1) := clookup t c d in            (* _isentryincache(dest) *)
          match r1 with
          | None =>
              match round v t c1 r with
              | Err e => Err e
              | Ok (t', c', k) => Ok (t', c', p :: k)
              end
          | Some _ =>
              let '(r2, c2) := clookup t c1 d in       (* _getcacheinode(dest) *)
              match r2 with
              | None => Err KeyError
              | Some ino =>
                  match nth_error (t_kinds t) (p_dir p) with
                  | Some IDir =>
                      round v (mkt (t_kinds t) (eset (p_dir p, p_fname p) ino (t_edges t)))
                            (if v_clear_inv v then mkc (c_ec c2) [] else c2) r
                  | _ => Err TypeError
                  end
              end
          end
      end
  end.

(* while len(symlinkinodes) and len(symlinkinodes) != lastsymlinklen *)
Fixpoint loop (fuel : nat) (v : variant) (t : tbl) (c : caches) (ps : list pend) (lastlen : nat) : res (tbl * caches) :=
  match fuel with
  | O => Err OutOfFuel
  | S f =>
      if is_nil ps || Nat.eqb (length ps) lastlen then Ok (t, c)
      else match round v t c ps with
           | Err e => Err e
           | Ok (t', c', ps') => loop f v t' c' ps' (length ps)
           end
  end.

Definition populate (v : variant) (ms : list member) : res (tbl * caches) :=
  match phase1 v 0 tbl0 [] ms with
  | Err e => Err e
  | Ok (t, ps) => loop (S (S (length ps))) v t no_caches ps 0
  end.

(* ---------- VFS operations ---------- *)
(* _getfspathfinal: drop the archive's own selector, one leading and one trailing slash *)
Definition zfspath (zlen : nat) (sel : str) : str :=
  let s := skipn zlen sel in
  let s := match s with c :: r => if c =? SL then r else s | [] => [] end in
  match last_char s with
  | Some c => if c =? SL then drop_last s else s
  | None => s
  end.

Inductive lres := LAbsent | LDir (ino : nat) | LFile (ino : nat) (idx : nat).
Definition classify (t : tbl) (r : option nat) : lres :=
  match r with
  | None => LAbsent
  | Some i => match nth_error (t_kinds t) i with
              | Some IDir => LDir i
              | Some (IFile k) => LFile i k
              | None => LAbsent
              end
  end.
Definition vfs_lookup (t : tbl) (c : caches) (p : str) : lres * caches :=
  let (r, c') := clookup t c p in (classify t r, c').
(* the same without the memo tables *)
Definition vfs_plookup (t : tbl) (p : str) : lres := classify t (plookup t p).

(* list(dict.keys()) of directory inode i *)
Definition dir_names (t : tbl) (i : nat) : list str :=
  map (fun e => snd (fst e)) (filter (fun e => Nat.eqb (fst (fst e)) i) (t_edges t)).
Definition dir_entries (t : tbl) (i : nat) : list (str * nat) :=
  map (fun e => (snd (fst e), snd e)) (filter (fun e => Nat.eqb (fst (fst e)) i) (t_edges t)).

Definition member_data (ms : list member) (idx : nat) : list N :=
  match nth_error ms idx with
  | Some m => match m_kind m with KFile d => d | KDir => [] | KLink d => d end
  | None => []
  end.

(* what a query observes: stat's class (+ size), listdir's names, open's bytes *)
Inductive obs := OAbsent | ODir (names : list str) | OFile (data : list N).
Definition observe (ms : list member) (t : tbl) (l : lres) : obs :=
  match l with
  | LAbsent => OAbsent
  | LDir i => ODir (dir_names t i)
  | LFile _ k => OFile (member_data ms k)
  end.
Definition vfs_query (ms : list member) (t : tbl) (c : caches) (zlen : nat) (sel : str) : obs * caches :=
  let (l, c') := vfs_lookup t c (zfspath zlen sel) in (observe ms t l, c').

(* ---------- the same members extracted to a real tree ---------- *)
Inductive tnode := TFile (data : list N) | TDir | TLink (dest : str).
Definition fs := list (list str * tnode).
Fixpoint fs_get (p : list str) (f : fs) : option tnode :=
  match f with
  | [] => None
  | (q, n) :: r => if path_eqb p q then Some n else fs_get p r
  end.
Fixpoint fs_set (p : list str) (n : tnode) (f : fs) : fs :=
  match f with
  | [] => [(p, n)]
  | (q, n') :: r => if path_eqb p q then (p, n) :: r else (q, n') :: fs_set p n r
  end.

(* os.makedirs(exist_ok=True) of pre ++ levels, one level at a time *)
Fixpoint fs_mkdirs (f : fs) (pre : list str) (levels : list str) : fs :=
  match levels with
  | [] => f
  | l :: r =>
      let p := pre ++ [l] in
      fs_mkdirs (match fs_get p f with None => f ++ [(p, TDir)] | Some _ => f end) p r
  end.

Definition extract_step (f : fs) (m : member) : fs :=
  let levels := name_levels (m_name m) in
  let f1 := fs_mkdirs f [] levels in
  let b := name_base (m_name m) in
  if is_nil b then f1 else
  match m_kind m with
  | KLink d => fs_set (levels ++ [b]) (TLink d) f1
  | KFile d => fs_set (levels ++ [b]) (TFile d) f1
  | KDir => fs_set (levels ++ [b]) (TFile []) f1
  end.
Definition extract (ms : list member) : fs := fold_left extract_step ms [].

(* Path resolution of the operating system inside the extracted tree, the
   tree's root playing the role of "/" for absolute link targets; ".." at the
   root leaves the tree (no result).  `os_res f cur comps r`: starting in the
   real directory `cur`, the remaining components resolve to the real path r
   (every symbolic link followed, the last one included, as stat does). *)
Definition link_comps (cur : list str) (d : str) : list str * list str :=
  match d with
  | ch :: d' => if ch =? SL then ([], filter nonempty (split_on SL d')) else (cur, split_on SL d)
  | [] => (cur, [])
  end.

Inductive os_res (f : fs) : list str -> list str -> list str -> Prop :=
  | OR_nil cur : os_res f cur [] cur
  | OR_skip cur c rest r : is_nil c || str_eqb c P_DOT = true -> os_res f cur rest r -> os_res f cur (c :: rest) r
  | OR_up cur rest r : cur <> [] -> os_res f (removelast cur) rest r -> os_res f cur (P_DOTDOT :: rest) r
  | OR_dir cur c rest r :
      is_nil c || str_eqb c P_DOT || str_eqb c P_DOTDOT = false ->
      fs_get (cur ++ [c]) f = Some TDir -> os_res f (cur ++ [c]) rest r -> os_res f cur (c :: rest) r
  | OR_file cur c d :
      is_nil c || str_eqb c P_DOT || str_eqb c P_DOTDOT = false ->
      fs_get (cur ++ [c]) f = Some (TFile d) -> os_res f cur [c] (cur ++ [c])
  | OR_link cur c d rest r :
      is_nil c || str_eqb c P_DOT || str_eqb c P_DOTDOT = false ->
      fs_get (cur ++ [c]) f = Some (TLink d) -> d <> [] ->
      os_res f (fst (link_comps cur d)) (snd (link_comps cur d) ++ rest) r -> os_res f cur (c :: rest) r.

(* the same as a function with fuel (the kernel gives up after 40 links) *)
Fixpoint os_walk (fuel : nat) (f : fs) (cur comps : list str) : option (list str) :=
  match fuel with
  | O => None
  | S n =>
    match comps with
    | [] => Some cur
    | c :: rest =>
        if is_nil c || str_eqb c P_DOT then os_walk n f cur rest
        else if str_eqb c P_DOTDOT then
          match cur with [] => None | _ => os_walk n f (removelast cur) rest end
        else match fs_get (cur ++ [c]) f with
             | None => None
             | Some TDir => os_walk n f (cur ++ [c]) rest
             | Some (TFile _) => if is_nil rest then Some (cur ++ [c]) else None
             | Some (TLink d) =>
                 if is_nil d then None
                 else os_walk n f (fst (link_comps cur d)) (snd (link_comps cur d) ++ rest)
             end
    end
  end.

(* children of a real directory that stat can reach (a dangling link is listed
   by readdir but no handler can serve it) *)
Definition fs_children (f : fs) (p : list str) : list str :=
  fold_right (fun e acc =>
      let q := fst e in
      if path_eqb (removelast q) p && negb (is_nil q) then last q [] :: acc else acc) [] f.

Inductive tobs := TOAbsent | TODir (p : list str) | TOFile (data : list N).
Definition fs_observe (f : fs) (r : option (list str)) : tobs :=
  match r with
  | None => TOAbsent
  | Some [] => TODir []
  | Some p => match fs_get p f with
              | Some (TFile d) => TOFile d
              | Some TDir => TODir p
              | _ => TOAbsent
              end
  end.

(* ---------- well-formed archives ---------- *)
Definition plain_comp (c : str) : bool :=
  nonempty c && negb (str_eqb c P_DOT) && negb (str_eqb c P_DOTDOT).
Definition raw_levels (name : str) : list str := removelast (split_on SL name).
(* every "/"-field is a proper name, except that the last may be empty (explicit directory) *)
Definition name_ok (m : member) : bool :=
  forallb plain_comp (raw_levels (m_name m)) &&
  (let b := name_base (m_name m) in
   match m_kind m with
   | KDir => is_nil b && negb (is_nil (raw_levels (m_name m)))
   | _ => plain_comp b
   end).
(* the path of the entry a member creates (files and links), None for explicit directories *)
Definition entry_path (m : member) : option (list str) :=
  let b := name_base (m_name m) in
  if is_nil b then None else Some (name_levels (m_name m) ++ [b]).
(* m1 (a file or link) does not collide with m2: not the same entry, and not a directory m2 needs *)
Definition no_clash (m1 m2 : member) : bool :=
  match entry_path m1 with
  | None => true
  | Some p1 =>
      negb (path_prefixb p1 (name_levels (m_name m2))) &&
      match entry_path m2 with Some p2 => negb (path_eqb p1 p2) | None => true end
  end.
Fixpoint all_pairs {A} (f : A -> A -> bool) (l : list A) : bool :=
  match l with
  | [] => true
  | x :: r => forallb (fun y => f x y && f y x) r && all_pairs f r
  end.
Definition wf_zip (ms : list member) : bool :=
  forallb name_ok ms && all_pairs no_clash ms.
Definition is_link (m : member) : bool := match m_kind m with KLink _ => true | _ => false end.
Definition no_links (ms : list member) : bool := forallb (fun m => negb (is_link m)) ms.

(* link targets for which the lexical rule of populate_cache (normpath) and the
   OS rule agree: absolute = "/" followed by proper names (or nothing: the root);
   relative = any number of leading ".." followed by proper names.  Excluded:
   "." and empty components, and ".." after a name (`a/../b` needs `a` to exist
   and not to be a link for the two rules to agree). *)
Fixpoint strip_dotdots (cs : list str) : nat * list str :=
  match cs with
  | c :: r => if str_eqb c P_DOTDOT then let (k, n) := strip_dotdots r in (S k, n) else (0%nat, cs)
  | [] => (0%nat, [])
  end.
Definition nice_dest (d : str) : bool :=
  match d with
  | [] => false
  | ch :: d' =>
      if ch =? SL then is_nil d' || forallb plain_comp (split_on SL d')
      else forallb plain_comp (snd (strip_dotdots (split_on SL d)))
  end.
Definition nice_links (ms : list member) : bool :=
  forallb (fun m => match m_kind m with KLink d => nice_dest d | _ => true end) ms.

(* ---------- what the members say (specification side) ---------- *)
(* p is a directory: the root, or a prefix of the directory part of some member *)
Definition is_dirpath (ms : list member) (p : list str) : Prop :=
  p = [] \/ exists m, In m ms /\ path_prefixb p (name_levels (m_name m)) = true.
(* p is the k-th member, a file *)
Definition is_entry (ms : list member) (k : nat) (p : list str) : Prop :=
  exists m, nth_error ms k = Some m /\ is_link m = false /\ entry_path m = Some p.

(* query strings: "" (the archive root) or proper names joined by "/" *)
Definition canonb (s : str) : bool := is_nil s || forallb plain_comp (split_on SL s).
Definition qcomps (s : str) : list str := match s with [] => [] | _ => split_on SL s end.

(* ---------- the six VFS operations as one function ---------- *)
Inductive vop := VStat | VIsdir | VIsfile | VExists | VListdir | VOpen.
Inductive vres := RExc | RBool (b : bool) | RStatDir | RStatReg (size : N) | RNames (l : list str) | RData (d : list N).
(* VFSZip._inarchive: the selector is the archive itself or lies below it *)
Definition inarchive (zname sel : str) : bool := str_eqb sel zname || prefixb (zname ++ [SL]) sel.

(* `chain` is what the file system the archive lives in (self.chain) answers to the same call *)
Definition vfs_op (v : variant) (ms : list member) (t : tbl) (c : caches) (zname : str) (op : vop) (sel : str)
    (chain : vres) : vres * caches :=
  if v_delegate v && negb (inarchive zname sel) then (chain, c) else
  let (l, c') := vfs_lookup t c (zfspath (length zname) sel) in
  (match op, l with
   | VStat, LAbsent => RExc
   | VStat, LDir _ => RStatDir
   | VStat, LFile _ k => RStatReg (N.of_nat (length (member_data ms k)))
   | VIsdir, LDir _ => RBool true
   | VIsdir, _ => RBool false
   | VIsfile, LFile _ _ => RBool true
   | VIsfile, _ => RBool false
   | VExists, LAbsent => RBool false
   | VExists, _ => RBool true
   | VListdir, LDir i => RNames (dir_names t i)
   | VListdir, _ => RExc
   | VOpen, LFile _ k => RData (member_data ms k)
   | VOpen, _ => RExc
   end, c').
