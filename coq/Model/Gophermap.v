(* Gophermap.v — pygopherd/handlers/gophermap.py BuckGophermapHandler:
   handler selection (canhandlerequest), which file prepare() reads, the line
   classifier of prepare() and the loop that builds self.entries, plus
   protocols/base.py writedir (without and with abstracts).  Definitions only.

   Exceptions are values: `Raise IndexError` / `Raise ValueError` are the two
   exceptions the classifier can raise; they abort the whole prepare().

   The file system enters through two parameters:
     fs_exists sel    = self.vfs.exists(sel)
     populate sel e   = e after e.populatefromvfs(self.vfs, sel)  (sel exists)
   A concrete `populate_core` (the part of GopherEntry.populatefromfs that
   touches type/name/gopherpsupport/populated) is given at the end; mimetype,
   size, times and extended attributes belong to C04/C08/C15. *)
From Coq Require Import String ZArith.
From PG Require Import Lib.Str Lib.PyInt Model.Entry.
Local Open Scope N_scope.

Inductive exn := IndexError | ValueError.
Inductive result (A : Type) : Type :=
| Ok (a : A)
| Raise (x : exn).
Arguments Ok {A} a.
Arguments Raise {A} x.

Definition GM_TAB : N := 9.
Definition GM_SLASH : N := 47.
Definition GM_URL : str := [85; 82; 76; 58].                 (* "URL:" *)
Definition GOPHERMAP_NAME : str := lit "gophermap"%string.
Definition GOPHERMAP_EXT : str := lit ".gophermap"%string.

(* ---------- handler selection ---------- *)
(* what os.stat of the requested selector says (statresult); NMissing = stat failed *)
Inductive nodekind := NDir | NFile | NOther | NMissing.

(* BuckGophermapHandler.canhandlerequest.
   has_map = self.vfs.isfile(selector + "/gophermap") *)
Definition gm_canhandle (kind : nodekind) (has_map : bool) (sel : str) : bool :=
  match kind with
  | NDir => has_map
  | NFile => endswith sel GOPHERMAP_EXT
  | NOther | NMissing => false
  end.

(* prepare(): self.selectorbase *)
Definition gm_selectorbase (sel : str) : str :=
  if str_eqb sel [GM_SLASH] then [] else sel.

Definition gm_is_mapfile (kind : nodekind) (sel : str) : bool :=
  endswith sel GOPHERMAP_EXT && match kind with NFile => true | _ => false end.

(* prepare(): the file that is opened and read *)
Definition gm_source (kind : nodekind) (sel : str) : str :=
  if gm_is_mapfile kind sel then sel else gm_selectorbase sel ++ [GM_SLASH] ++ GOPHERMAP_NAME.

(* os.path.dirname / os.path.basename (posixpath) *)
Fixpoint drop_until_slash (l : str) : str :=
  match l with
  | c :: r => if c =? GM_SLASH then l else drop_until_slash r
  | [] => []
  end.
Fixpoint take_until_slash (l : str) : str :=
  match l with
  | c :: r => if c =? GM_SLASH then [] else c :: take_until_slash r
  | [] => []
  end.
Fixpoint drop_slashes (l : str) : str :=
  match l with
  | c :: r => if c =? GM_SLASH then drop_slashes r else l
  | [] => []
  end.
(* head = p[:p.rfind("/")+1]; if head and head != "/"*len(head): head = head.rstrip("/") *)
Definition py_dirname (p : str) : str :=
  let head := rev (drop_until_slash (rev p)) in
  if forallb (fun c => c =? GM_SLASH) head then head else rev (drop_slashes (rev head)).
(* p[p.rfind("/")+1:] *)
Definition py_basename (p : str) : str := rev (take_until_slash (rev p)).

(* the prefix put in front of relative link selectors.
   PINNED code: always self.selectorbase — for a "*.gophermap" FILE that is
   the file's own selector ("/dir/x.gophermap" ++ "/" ++ rel).
   REPAIRED code (/repo commit 3356e1d, proposed_fixes/C09-mapfile-relative-base.patch):
   os.path.dirname of the file's selector, i.e. the directory the file is in. *)
Definition gm_linkbase_pinned (kind : nodekind) (sel : str) : str := gm_selectorbase sel.
Definition gm_linkbase_fixed (kind : nodekind) (sel : str) : str :=
  if gm_is_mapfile kind sel then gm_selectorbase (py_dirname sel) else gm_selectorbase sel.

(* ---------- the line classifier ---------- *)
Section WithFS.
Variable fs_exists : str -> bool.
Variable populate : str -> entry -> entry.

(* re.search("\t", line) *)
Definition is_link_line (line : str) : bool := mem_N GM_TAB line.

(* [arg.strip() for arg in line.split("\t")] *)
Definition link_args (line : str) : list str := map strip (split_on GM_TAB line).

(* selector[0] != "/" and selector[0:4] != "URL:"  =>  selectorbase + "/" + selector;
   selector[0] raises IndexError on the empty string *)
Definition resolve_selector (base sel : str) : result str :=
  match sel with
  | [] => Raise IndexError
  | c :: _ =>
      if negb (c =? GM_SLASH) && negb (str_eqb (slice 0 4 sel) GM_URL)
      then Ok (base ++ [GM_SLASH] ++ sel)
      else Ok sel
  end.

(* if entry.gethost() is None and entry.getport() is None:
       if self.vfs.exists(selector): entry.populatefromvfs(self.vfs, selector) *)
Definition populate_local (e : entry) : entry :=
  match e_host e, e_port e with
  | None, None => if fs_exists (e_selector e) then populate (e_selector e) e else e
  | _, _ => e
  end.

(* `if len(args) >= n+1 and len(args[n])` *)
Definition nonempty_arg (n : nat) (args : list str) : option str :=
  match nth_error args n with
  | Some (c :: r) => Some (c :: r)
  | _ => None
  end.

Definition classify_link (base : str) (args : list str) : result entry :=
  match args with
  | [] | [_] => Raise IndexError                 (* args[1] = ... on a one-element list (unreachable: a TAB was seen) *)
  | a0 :: a1 :: _ =>
      (* if len(args) < 2 or not len(args[1]): args[1] = args[0][1:] *)
      let sel0 := match a1 with [] => slice_from 1 a0 | _ => a1 end in
      match resolve_selector base sel0 with      (* selector[0] is evaluated first *)
      | Raise x => Raise x
      | Ok selector =>
          match a0 with
          | [] => Raise IndexError               (* args[0][0] *)
          | t :: _ =>
              let e0 := set_name (Some (slice_from 1 a0)) (set_type (Some [t]) (new_entry selector)) in
              let e1 := match nonempty_arg 2 args with Some h => set_host (Some h) e0 | None => e0 end in
              match nonempty_arg 3 args with
              | Some p =>
                  match py_int p with
                  | Some z => Ok (populate_local (set_port (Some z) e1))
                  | None => Raise ValueError     (* int(args[3]) *)
                  end
              | None => Ok (populate_local e1)
              end
          end
      end
  end.

(* one line as returned by rfile.readline().decode(errors="surrogateescape") *)
Definition classify (base : str) (line : str) : result entry :=
  if is_link_line line then classify_link base (link_args line)
  else Ok (getinfoentry (strip line)).

(* the while loop of prepare(): self.entries.append(...), the first exception
   leaves the loop and prepare() *)
Fixpoint gophermap_loop (base : str) (entries : list entry) (lines : list str) : result (list entry) :=
  match lines with
  | [] => Ok entries
  | l :: r =>
      match classify base l with
      | Ok e => gophermap_loop base (entries ++ [e]) r
      | Raise x => Raise x
      end
  end.
Definition gophermap_entries (base : str) (lines : list str) : result (list entry) :=
  gophermap_loop base [] lines.

(* prepare() on the decoded content of the gophermap file.  The code decodes
   line by line; cutting the decoded content at "\n" gives the same lines
   (checked by the correspondence on non-UTF-8 content). *)
Definition gophermap_prepare (base : str) (content : str) : result (list entry) :=
  gophermap_entries base (lines_keepends content).

End WithFS.

(* ---------- protocols/base.py writedir with abstracts switched off ---------- *)
(* wfile.write(start); for e in dirlist: wfile.write(renderobjinfo(e)); wfile.write(end).
   None = the renderer raised. *)
Fixpoint writedir_loop (render : entry -> option str) (out : str) (es : list entry) : option str :=
  match es with
  | [] => Some out
  | e :: r =>
      match render e with
      | Some s => writedir_loop render (out ++ s) r
      | None => None
      end
  end.
Definition writedir (pre post : str) (render : entry -> option str) (es : list entry) : option str :=
  option_map (fun o => o ++ post) (writedir_loop render pre es).

(* ---------- the part of GopherEntry.populatefromfs visible in a menu line ---------- *)
(* statval exists, host and port are None, not populated before:
     populated = gopherpsupport = 1; name = name or basename(selector);
     type = type or <"1" for a directory / guesstype()>   (`fallback_type`) *)
Definition populate_core (fallback_type : str -> str) (sel : str) (e : entry) : entry :=
  if e_populated e then e else
  set_flags true true
    (set_type (or_str (e_type e) (Some (fallback_type sel)))
       (set_name (or_str (e_name e) (Some (py_basename (e_selector e)))) e)).

(* what the classifier needs from populatefromvfs on a fresh entry
   (GopherEntry.populatefromfs: "set only those values that are not already
   set"; gopherpsupport = 1) *)
Definition populate_sound (populate : str -> entry -> entry) : Prop :=
  forall sel e, e_populated e = false ->
    e_selector (populate sel e) = e_selector e /\
    e_host (populate sel e) = e_host e /\
    e_port (populate sel e) = e_port e /\
    (truthy_str (e_type e) = true -> e_type (populate sel e) = e_type e) /\
    (truthy_str (e_name e) = true -> e_name (populate sel e) = e_name e) /\
    (e_name e <> None -> e_name (populate sel e) <> None) /\
    e_gopherpsupport (populate sel e) = true.

(* all-or-nothing collection of rendered items *)
Fixpoint sequence {A : Type} (l : list (option A)) : option (list A) :=
  match l with
  | [] => Some []
  | None :: _ => None
  | Some x :: r => option_map (cons x) (sequence r)
  end.

(* ---------- writedir with abstracts (the shipped abstract_headers = on, abstract_entries = always) ---------- *)
Definition ABSTRACT_KEY : str := lit "ABSTRACT"%string.

(* BaseGopherProtocol.renderabstract: one info entry per line of the abstract *)
Definition renderabstract (render : entry -> option str) (abstract : option str) : option str :=
  match abstract with
  | None | Some [] => Some []
  | Some s => option_map (@concat N) (sequence (map (fun l => render (getinfoentry l)) (splitlines s)))
  end.

Fixpoint writedir_abs_loop (render : entry -> option str) (doabstracts : bool) (out : str) (es : list entry)
  : option str :=
  match es with
  | [] => Some out
  | e :: r =>
      match render e with
      | None => None
      | Some s =>
          if doabstracts then
            match renderabstract render (dict_get ABSTRACT_KEY (e_ea e)) with
            | Some a => writedir_abs_loop render doabstracts (out ++ s ++ a) r
            | None => None
            end
          else writedir_abs_loop render doabstracts (out ++ s) r
      end
  end.

(* headers     = config.getboolean("pygopherd", "abstract_headers")
   doabstracts = abstract_entries == "always" or (== "unsupported" and not groksabstract())
   listed      = handler.getentry(): the entry of the object whose listing is written *)
Definition writedir_abs (headers doabstracts : bool) (pre post : str) (render : entry -> option str)
           (listed : entry) (es : list entry) : option str :=
  let hdr := if headers
             then renderabstract render (Some (match dict_get ABSTRACT_KEY (e_ea listed) with Some a => a | None => [] end))
             else Some [] in
  match hdr with
  | None => None
  | Some h => option_map (fun o => o ++ post) (writedir_abs_loop render doabstracts (pre ++ h) es)
  end.
