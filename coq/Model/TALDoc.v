(* TALDoc.v — a template as a DOCUMENT TREE, the event stream html.parser delivers for it, and the
   tree the TAL specification (Model/TALSpecFull.v) walks.

   dnode     : character data / comment / declaration / processing instruction, or an element with its
               attributes as written (value or none), a "written as <x ... />" flag and its children;
   events    : the parser events of a well-nested document: start tag, children, end tag; one start (or
               start-end) event for elements written <x/> and for HTML's empty elements (no end tag);
   doc_forest: what the specification is applied to: text and markup without TAL statements is literal
               output, an element with tal: statements is a TElem with its original attributes, its
               attributes without the tal: ones, its statements (parsed from the attribute values, in TAL's
               order of operations: define, condition, repeat, content | replace, attributes, omit-tag) and
               the forest of its children.  No program counters, symbols or jumps: every symbol is 0.
   Definitions only. *)
From Coq Require Import String.
From PG Require Import Lib.Str Lib.HtmlEsc Model.TALProg Model.TALCompile Model.TALSpecFull.
Local Open Scope N_scope.

Inductive dnode : Type :=
| DData (d : str) (cdata : bool)
| DComment (d : str)
| DDecl (d : str)
| DPi (d : str)
| DElem (tag : str) (a : hatts) (selfclose : bool) (ch : list dnode).

(* elements that have no content: HTML's empty elements and elements written <x ... /> *)
Definition childless (tag : str) (selfclose : bool) : bool := forbidden_endtag tag || selfclose.

Fixpoint events (n : dnode) : list event :=
  match n with
  | DData d c => [EvData d c]
  | DComment d => [EvComment d]
  | DDecl d => [EvDecl d]
  | DPi d => [EvPi d]
  | DElem tag a sc ch =>
      if childless tag sc then [if sc then EvStartEnd tag a else EvStart tag a]
      else EvStart tag a :: flat_map events ch ++ [EvEnd tag]
  end.
Definition doc_events (doc : list dnode) : list event := flat_map events doc.

(* the attributes of a start tag, classified (tal: statements, metal: statements, the rest) *)
Definition tag_prefix (tag : str) : option str :=
  match find_colon tag with
  | Some (S k) => let p := firstn (S k) tag in
                  if str_eqb p (lit "metal"%string) then Some (lit "metal:"%string)
                  else if str_eqb p (lit "tal"%string) then Some (lit "tal:"%string) else None
  | _ => None
  end.
Definition scan_tag (tag : str) (a : list (str * str)) : cres scan :=
  let ns := tag_prefix tag in
  let talns := match ns with Some _ => true | None => false end in
  let prefix := match ns with Some p => p | None => [] end in
  scan_atts repaired talns prefix a
            (if talns then mkScan [] [OP_OMITTAG] [] [(OP_OMITTAG, [])] [] else mkScan [] [] [] [] []).

(* one tal: statement from its attribute value *)
Definition tal_stmt_of (op : nat) (arg : str) (sym : nat) : option cmd :=
  if Nat.eqb op OP_DEFINE then compile_define arg
  else if Nat.eqb op OP_CONDITION then compile_condition arg sym
  else if Nat.eqb op OP_REPEAT then compile_repeat arg sym
  else if Nat.eqb op OP_CONTENT then compile_content repaired false arg sym
  else if Nat.eqb op OP_REPLACE then compile_content repaired true arg sym
  else if Nat.eqb op OP_ATTRIBUTES then compile_attributes arg
  else if Nat.eqb op OP_OMITTAG then compile_omit_tag arg
  else None.

Fixpoint stmts_of (ops : list nat) (args : list (nat * str)) (sym : nat) : option (list cmd) :=
  match ops with
  | [] => Some []
  | op :: r =>
      match assoc_nat op args with
      | None => None
      | Some arg =>
          match tal_stmt_of op arg sym, stmts_of r args sym with
          | Some c, Some l => Some (c :: l)
          | _, _ => None
          end
      end
  end.

Definition elem_forest (tag : str) (a : hatts) (body : list tnode) : list tnode :=
  match scan_tag tag (norm_atts a) with
  | COk sc =>
      let noend := forbidden_endtag tag in
      match sc_tal sc with
      | [] => TOut (Model.TALCompile.tag_as_text tag (sc_clean sc)) :: body ++
              (if noend then [] else [TOut (Model.TALCompile.end_tag_text tag)])
      | _ => match stmts_of (sort_nat (sc_tal sc)) (sc_args sc) 0 with
             | Some stmts => [TElem (sc_orig sc) (sc_clean sc) stmts tag tag noend body]
             | None => []
             end
      end
  | _ => []
  end.

Fixpoint node_forest (n : dnode) : list tnode :=
  match n with
  | DData d c => [TOut (event_text repaired (EvData d c))]
  | DComment d => [TOut (event_text repaired (EvComment d))]
  | DDecl d => [TOut (event_text repaired (EvDecl d))]
  | DPi d => [TOut (event_text repaired (EvPi d))]
  | DElem tag a sc ch => elem_forest tag a (if childless tag sc then [] else flat_map node_forest ch)
  end.
Definition doc_forest (doc : list dnode) : list tnode := flat_map node_forest doc.

(* no metal: statement anywhere *)
Fixpoint no_metal (n : dnode) : bool :=
  match n with
  | DElem tag a sc ch =>
      match scan_tag tag (norm_atts a) with
      | COk s => match sc_metal s with [] => true | _ => false end
      | _ => true
      end && forallb no_metal ch
  | _ => true
  end.
