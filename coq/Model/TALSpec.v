(* TALSpec.v — (1) the data side of the interpreter as an instance of the abstract VM of
   Model/TALVM.v: output file, outputTag, originalAttributes, currentAttributes, tagContent and
   their save / restore at START_SCOPE / ENDTAG_ENDSCOPE, as cmdStartScope, cmdCondition,
   cmdContent, cmdAttributes, cmdOmitTag, cmdOutputStartTag, cmdOutput, cmdEndTagEndScope
   write them;  (2) a tree-walking specification of TAL's order of operations for the
   statements condition, content | replace, attributes, omit-tag: no program counter, no jumps, no
   scope stack — an element is a tree node, its statements are applied in priority order to a
   small record (alive, show tag, content, attributes), then the node is written.

   Stage 1: templates without tal:define / tal:repeat / METAL, i.e. the context does not change
   during the expansion and Context.evaluate is a function of the expression and the element's
   original attributes (Section variable `eval`; values are abstract).  Definitions only. *)
From Coq Require Import String.
From PG Require Import Lib.Str Lib.HtmlEsc Model.TALProg Model.TALCompile Model.TALVM Model.TALOut.
Local Open Scope N_scope.

Section Data.
  Variable val : Type.
  Variable eval : str -> list (str * str) -> val.   (* Context.evaluate(expr, originalAtts) *)
  Variable v_nothing : val -> bool.                 (* result is None (also: path not found) *)
  Variable v_default : val -> bool.                 (* result == DEFAULTVALUE *)
  Variable v_truth : val -> bool.                   (* Python truth of the result *)
  Variable v_text : val -> str.                     (* the result as text: itself or str(result) *)

  Definition is_true (v : val) : bool := negb (v_nothing v) && v_truth v.
  Definition classify (v : val) : attval :=
    if v_nothing v then ANothing else if v_default v then ADefault else AValue (v_text v).

  (* ---------------- (1) the data registers of TemplateInterpreter ---------------- *)
  Record dregs : Type := mkDR {
    d_show : bool;                      (* outputTag *)
    d_orig : list (str * str);          (* originalAttributes *)
    d_cur : list (str * str);           (* currentAttributes *)
    d_tc : option (bool * val)          (* tagContent = (structure flag, value) *)
  }.
  Record dstate : Type := mkDS {
    d_out : str;                        (* what has been written to the output file *)
    d_regs : dregs;
    d_stack : list dregs                (* the data half of scopeStack *)
  }.
  Definition dregs0 : dregs := mkDR true [] [] None.
  Definition dstate0 : dstate := mkDS [] dregs0 [].

  Definition set_show (b : bool) (r : dregs) : dregs := mkDR b (d_orig r) (d_cur r) (d_tc r).
  Definition set_tc (t : option (bool * val)) (r : dregs) : dregs := mkDR (d_show r) (d_orig r) (d_cur r) t.
  Definition set_cur (a : list (str * str)) (r : dregs) : dregs := mkDR (d_show r) (d_orig r) a (d_tc r).
  Definition with_regs (r : dregs) (d : dstate) : dstate := mkDS (d_out d) r (d_stack d).
  Definition write (s : str) (d : dstate) : dstate := mkDS (d_out d ++ s) (d_regs d) (d_stack d).

  Definition tc_text (t : option (bool * val)) : str :=
    match t with Some (st, v) => content_text st (v_text v) | None => [] end.

  (* effect of one command on the data *)
  Definition data_upd (d : dstate) (pc : nat) (c : cmd) : dstate :=
    let r := d_regs d in
    match c with
    | CStartScope orig cur => mkDS (d_out d) (mkDR true orig cur None) (r :: d_stack d)
    | CCondition e _ => if is_true (eval e (d_orig r)) then d else with_regs (set_tc None (set_show false r)) d
    | CContent repl st e _ =>
        let v := eval e (d_orig r) in
        if v_nothing v then (if repl then with_regs (set_show false r) d else d)
        else if v_default v then d
        else with_regs (set_tc (Some (st, v)) (if repl then set_show false r else r)) d
    | CAttributes args =>
        with_regs (set_cur (apply_attributes (map (fun a => (fst a, classify (eval (snd a) (d_orig r)))) args) (d_cur r)) r) d
    | COmitTag e => if is_true (eval e (d_orig r)) then with_regs (set_show false r) d else d
    | CStartTag tag _ => if d_show r then write (tag_as_text tag (d_cur r)) d else d
    | COutput s => write s d
    | CEndTagEndScope tag omit _ =>
        let d1 := write (tc_text (d_tc r) ++ (if d_show r && negb omit then end_tag_text tag else [])) d in
        match d_stack d with
        | r0 :: rest => mkDS (d_out d1) r0 rest
        | [] => d1
        end
    | _ => d
    end.

  Definition data_cond (d : dstate) (c : cmd) : bool :=
    match c with CCondition e _ => is_true (eval e (d_orig (d_regs d))) | _ => true end.
  Definition data_val (d : dstate) (c : cmd) : val_dec :=
    match c with
    | CContent _ _ e _ => let v := eval e (d_orig (d_regs d)) in
                          if v_nothing v then VNothing else if v_default v then VDefault else VValue
    | _ => VDefault
    end.

  (* Template.expand on a program that has no define / repeat / METAL statements *)
  Definition expand1 (p : program) (t : symtab) (fuel : nat) (c : ctx) : res (mach dstate) :=
    vm_run p t [] dstate data_cond (fun _ _ => RDefault) data_val (fun _ _ => MOther) data_upd fuel c dstate0.

  (* ---------------- (2) the specification ---------------- *)
  (* a template as a tree: text / comments / plain markup are TOut chunks; an element that carries
     statements has its original and clean attributes, its statements, tag name, the
     (of the start tag and of the end tag: the same for compiled programs), the "no end tag" flag of
     HTML's empty elements, and its children *)
  Inductive tnode : Type :=
  | TOut (s : str)
  | TElem (orig cur : list (str * str)) (stmts : list cmd) (tag etag : str) (noend : bool) (body : list tnode).

  Inductive scontent : Type := SBody | SNone | SVal (structure : bool) (v : val).
  Record sstate : Type := mkSS {
    s_alive : bool;                (* false: a condition was false, the element is not rendered *)
    s_show : bool;                 (* the tags are written *)
    s_content : scontent;          (* own children / nothing / a value *)
    s_atts : list (str * str)
  }.

  (* TAL 1.4 order of operations: each statement in turn (the list is in priority order) *)
  Definition apply_stmt (orig : list (str * str)) (st : sstate) (c : cmd) : sstate :=
    if negb (s_alive st) then st else
    match c with
    | CCondition e _ => if is_true (eval e orig) then st else mkSS false (s_show st) (s_content st) (s_atts st)
    | CContent repl structure e _ =>
        let v := eval e orig in
        if v_nothing v then mkSS true (if repl then false else s_show st) SNone (s_atts st)
        else if v_default v then st
        else mkSS true (if repl then false else s_show st) (SVal structure v) (s_atts st)
    | CAttributes args =>
        mkSS true (s_show st) (s_content st)
             (apply_attributes (map (fun a => (fst a, classify (eval (snd a) orig))) args) (s_atts st))
    | COmitTag e => if is_true (eval e orig) then mkSS true false (s_content st) (s_atts st) else st
    | _ => st
    end.

  Fixpoint spec_node (n : tnode) : str :=
    match n with
    | TOut s => s
    | TElem orig cur stmts tag etag noend body =>
        let st := fold_left (apply_stmt orig) stmts (mkSS true true SBody cur) in
        if s_alive st then
          (if s_show st then tag_as_text tag (s_atts st) else []) ++
          (match s_content st with
           | SBody => concat (map spec_node body)
           | SNone => []
           | SVal structure v => content_text structure (v_text v)
           end) ++
          (if s_show st && negb noend then end_tag_text etag else [])
        else []
    end.
  Definition spec_forest (f : list tnode) : str := concat (map spec_node f).

  (* which statements stage 1 covers *)
  Definition stage1_stmt (c : cmd) : bool :=
    match c with CCondition _ _ | CContent _ _ _ _ | CAttributes _ | COmitTag _ => true | _ => false end.

  (* the program segment at index o that represents a forest (what the compiler emits for it):
     symbols of an element's statements point at its ENDTAG_ENDSCOPE, statements in priority order *)
  Inductive rep (t : symtab) : nat -> list cmd -> list tnode -> Prop :=
  | rep_nil : forall o, rep t o [] []
  | rep_out : forall o s rest f, rep t (S o) rest f -> rep t o (COutput s :: rest) (TOut s :: f)
  | rep_elem : forall o orig cur stmts tag sg etag noend sg' body bf rest f,
      forallb stage1_stmt stmts = true -> head_sorted 0 stmts = true ->
      syms_ok t (o + 2 + length stmts + length body) stmts = true ->
      rep t (o + 2 + length stmts) body bf ->
      rep t (o + 3 + length stmts + length body) rest f ->
      rep t o (CStartScope orig cur :: stmts ++ CStartTag tag sg :: body ++ CEndTagEndScope etag noend sg' :: rest)
              (TElem orig cur stmts tag etag noend bf :: f).

  (* reading a program back as a forest (recursive descent, as Model/TALProg.check_items) *)
  Fixpoint parse_forest (fuel : nat) (t : symtab) (o : nat) (l : list cmd) : option (list tnode * list cmd) :=
    match fuel with
    | O => None
    | S f =>
        match l with
        | [] => Some ([], [])
        | COutput s :: r =>
            match parse_forest f t (S o) r with
            | Some (fr, rest) => Some (TOut s :: fr, rest)
            | None => None
            end
        | CEndTagEndScope _ _ _ :: _ => Some ([], l)
        | CStartScope orig cur :: r =>
            let '(h, r1) := span_head r in
            match r1 with
            | CStartTag tag _ :: r2 =>
                if forallb stage1_stmt h && head_sorted 0 h then
                  match parse_forest f t (o + 2 + length h)%nat r2 with
                  | Some (bf, CEndTagEndScope etag noend sg' :: r3) =>
                      let e := (o + 2 + length h + (length r2 - length (CEndTagEndScope etag noend sg' :: r3)))%nat in
                      if syms_ok t e h then
                        match parse_forest f t (S e) r3 with
                        | Some (fr, rest) => Some (TElem orig cur h tag etag noend bf :: fr, rest)
                        | None => None
                        end
                      else None
                  | _ => None
                  end
                else None
            | _ => None
            end
        | _ => None
        end
    end.
End Data.

Arguments SBody {val}.
Arguments SNone {val}.
Arguments SVal {val} structure v.
Arguments mkSS {val}.
Arguments s_alive {val}.
Arguments s_show {val}.
Arguments s_content {val}.
Arguments s_atts {val}.
Arguments mkDR {val}.
Arguments mkDS {val}.
Arguments d_show {val}.
Arguments d_orig {val}.
Arguments d_cur {val}.
Arguments d_tc {val}.
Arguments d_out {val}.
Arguments d_regs {val}.
Arguments d_stack {val}.
Arguments write {val}.
