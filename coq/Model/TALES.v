(* TALES.v — simpleTALES.RepeatVariable arithmetic (index number even odd start end
   length letter Letter roman Roman) as written in simpletal/simpleTALES.py.
   Definitions only. *)
From PG Require Import Lib.Str.
Local Open Scope N_scope.

(* position = RepeatVariable.position, len = len(self.sequence) *)
Definition rv_index (pos : N) : N := pos.
Definition rv_number (pos : N) : N := pos + 1.
(* getEven: if position % 2 != 0: return 0; return 1 *)
Definition rv_even (pos : N) : N := if negb (pos mod 2 =? 0) then 0 else 1.
(* getOdd: if position % 2 == 0: return 0; return 1 *)
Definition rv_odd (pos : N) : N := if pos mod 2 =? 0 then 0 else 1.
Definition rv_start (pos : N) : N := if pos =? 0 then 1 else 0.
(* getEnd: position == len(sequence) - 1  (Python integers: len 0 gives -1, never equal) *)
Definition rv_end (pos len : N) : N := if len =? 0 then 0 else if pos =? len - 1 then 1 else 0.
Definition rv_length (len : N) : N := len.

(* getLowerLetter:
     if nextCol == 0: return 'a'
     while nextCol > 0: nextCol, thisCol = divmod(nextCol, 26); result = chr(ord('a') + thisCol) + result *)
Fixpoint letter_loop (fuel : nat) (n : N) (acc : str) : str :=
  match fuel with
  | O => acc
  | S f => if n =? 0 then acc else letter_loop f (n / 26) ((97 + n mod 26) :: acc)
  end.
Definition rv_letter (pos : N) : str :=
  if pos =? 0 then [97] else letter_loop (S (N.to_nat (N.size pos))) pos [].

(* str.upper() on the ASCII letters these functions produce *)
Definition upper_char (c : N) : N := if (97 <=? c) && (c <=? 122) then c - 32 else c.
Definition upper (s : str) : str := map upper_char s.
Definition rv_Letter (pos : N) : str := upper (rv_letter pos).

(* getLowerRoman: for roman, integer in table: while num >= integer: result += roman; num -= integer.
   The inner while loop appends the numeral num / integer times and leaves num mod integer. *)
Definition roman_table : list (str * N) :=
  [([109], 1000); ([99; 109], 900); ([100], 500); ([99; 100], 400); ([99], 100); ([120; 99], 90);
   ([108], 50); ([120; 108], 40); ([120], 10); ([105; 120], 9); ([118], 5); ([105; 118], 4); ([105], 1)].

Fixpoint repeat_str (s : str) (n : nat) : str :=
  match n with O => [] | S k => s ++ repeat_str s k end.

Fixpoint roman_loop (tbl : list (str * N)) (num : N) : str :=
  match tbl with
  | [] => []
  | (sym, v) :: r => repeat_str sym (N.to_nat (num / v)) ++ roman_loop r (num mod v)
  end.
(* if position > 3999: return ' ' *)
Definition rv_roman (pos : N) : str :=
  if 3999 <? pos then [32] else roman_loop roman_table (pos + 1).
Definition rv_Roman (pos : N) : str := upper (rv_roman pos).

(* ---- readers used to state that the numerals denote the right numbers ---- *)
(* base-26 numeral with digits a..z *)
Fixpoint parse_letter_aux (acc : N) (s : str) : option N :=
  match s with
  | [] => Some acc
  | c :: r => if (97 <=? c) && (c <=? 122) then parse_letter_aux (acc * 26 + (c - 97)) r else None
  end.
Definition parse_letter (s : str) : option N := parse_letter_aux 0 s.

Definition roman_digit (c : N) : option N :=
  if c =? 105 then Some 1 else if c =? 118 then Some 5 else if c =? 120 then Some 10
  else if c =? 108 then Some 50 else if c =? 99 then Some 100 else if c =? 100 then Some 500
  else if c =? 109 then Some 1000 else None.
(* value of a numeral: a digit smaller than its right neighbour is subtracted *)
Fixpoint parse_roman (s : str) : option N :=
  match s with
  | [] => Some 0
  | c :: r =>
      match roman_digit c, parse_roman r with
      | Some v, Some rest =>
          match r with
          | d :: _ => match roman_digit d with
                      | Some w => if v <? w then Some (rest - v) else Some (rest + v)
                      | None => None
                      end
          | [] => Some v
          end
      | _, _ => None
      end
  end.

Fixpoint upto_aux (n : nat) (acc : list N) : list N :=
  match n with O => acc | S k => upto_aux k (N.of_nat k :: acc) end.
Definition upto (n : nat) : list N := upto_aux n [].   (* [0; 1; ...; n-1] *)
