(* Render0.v — protocols/rfc1436.py GopherProtocol.renderobjinfo: the plain
   Gopher menu line of an entry.  Definitions only.
   None = the TypeError Python raises when the name is None (str + None). *)
From Coq Require Import String ZArith.
From PG Require Import Lib.Str Lib.Dec Model.Entry.
Local Open Scope N_scope.

Definition TAB : N := 9.
Definition CRLF : str := [13; 10].

Definition gopher0_fields (srvname : str) (srvport : Z) (e : entry) : option str :=
  match e_name e with
  | None => None
  | Some name =>
      Some ((match e_type e with Some t => t | None => lit "0" end) ++ name ++ [TAB] ++
            e_selector e ++ [TAB] ++
            (match e_host e with Some h => h | None => srvname end) ++ [TAB] ++
            print_Z (match e_port e with Some p => p | None => srvport end))
  end.

(* the line without its CRLF terminator *)
Definition gopher0_payload (srvname : str) (srvport : Z) (e : entry) : option str :=
  option_map (fun f => if e_gopherpsupport e then f ++ [TAB; 43] else f)
             (gopher0_fields srvname srvport e).

Definition gopher0_line (srvname : str) (srvport : Z) (e : entry) : option str :=
  option_map (fun p => p ++ CRLF) (gopher0_payload srvname srvport e).
