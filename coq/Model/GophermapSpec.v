(* GophermapSpec.v — a reading of the DOCUMENTS, not of the code:
     doc/pygopherd.txt, section GOPHERMAP.BUCKGOPHERMAPHANDLER
     doc/standards/gophermap.txt (Bucktooth)
     doc/standards/url.txt and doc/pygopherd.txt URL.HTMLURLHANDLER ("URL:" selectors)
   Definitions only.

   What the documents say, and how it is written down here
   -------------------------------------------------------
   * Two kinds of lines:   "full line of informational text"
                           "gophertypeDESCRIPTION [ \tselector [ \thost [ \tport ] ] ]"
     A line with no tab character is informational text, rendered with type i.
     Info entries carry the customary placeholder selector "fake", host
     "(NULL)" and port 0 (gopherentry.getinfoentry; named by the property).
   * Link line: the first character is the item type, the rest of the first
     field is the description ("no space or other separator between the gopher
     type and the description").
   * selector: "If no selector is specified, the description is also used as
     the selector";  "If it begins with a slash, it is an absolute path;
     otherwise, it is interpreted relative to the directory that the gophermap
     file is in" (Bucktooth: "sticks on the path they're browsing":
     "1Lots of stuff<TAB>stuff" inside /lotsa  =>  /lotsa/stuff).
     The default is applied first, then the relative rule (Bucktooth's "1src<TAB>").
   * "URL:" selectors (url.txt: "Path -- the full URL, preceeded by URL:") are
     links out of Gopherspace, not names of files: they are never relative.
     pygopherd.txt writes them "/URL:..." (already absolute); url.txt writes
     them without the slash.
   * host / port: "If not specified, defaults to the current server" / "the port
     the current server is listening on".  In an entry this is `None`: the
     protocol fills in its own server name and port when it renders
     (Render0.gopher0_fields).
   * The documents are silent on line terminators.  A line ends with LF; a CR
     before it belongs to the terminator (CRLF files), not to the last field.

   What "well-formed" means (wf_gmline) — decisions, all on the strict side
   ------------------------------------------------------------------------
   * the line is one line: no LF except as terminator;
   * info line: no white space at either end ("spaces shown above ... should not
     actually be present");  NOTE the code strips info lines, so an indented
     info line loses its indentation — outside well-formed, recorded in
     Props/C09.v (C09_info_indentation_lost);
   * link line: 2 to 4 tab-separated fields (type+description, selector, host,
     port); no field has white space at either end (the code strips every
     field; the documents do not say so);
   * the first field has at least TWO characters: a type and a NON-EMPTY
     description.  The grammar writes DESCRIPTION without brackets, i.e. it is
     not optional.  (With an empty description the code takes the name from the
     file system or raises IndexError — recorded in Props/C09.v.)
   * the port is empty or consists of ASCII digits only, at most 4300 of them
     (more is a ValueError of CPython's int()).
   White space is Python's str.isspace set (Lib/Str.v is_space). *)
From Coq Require Import String ZArith.
From PG Require Import Lib.Str Model.Entry.
Local Open Scope N_scope.

Definition SP_TAB : N := 9.
Definition SP_LF : N := 10.
Definition SP_CR : N := 13.

(* the line without its terminator: one LF, and one CR before it *)
Definition chomp (line : str) : str :=
  let l1 := match last_char line with
            | Some c => if c =? SP_LF then drop_last line else line
            | None => line
            end in
  match last_char l1 with
  | Some c => if c =? SP_CR then drop_last l1 else l1
  | None => l1
  end.

(* what a gophermap line denotes *)
Inductive gmitem :=
| GInfo (text : str)
| GLink (type : N) (description selector : str) (host : option str) (port : option Z).

Definition starts_with (p s : str) : bool := prefixb p s.

(* a selector relative to the directory `dir` ("/" for the root) *)
Definition join_dir (dir rel : str) : str :=
  if str_eqb dir (lit "/"%string) then lit "/"%string ++ rel
  else dir ++ lit "/"%string ++ rel.

Definition spec_selector (dir : str) (description selfield : str) : str :=
  let sel := match selfield with [] => description | _ => selfield end in
  if starts_with (lit "/"%string) sel || starts_with (lit "URL:"%string) sel then sel
  else join_dir dir sel.

Definition opt_field (f : str) : option str := match f with [] => None | _ => Some f end.

(* fields are cut off one at a time from the left *)
Definition spec_item (dir : str) (line : str) : gmitem :=
  let body := chomp line in
  match split_once SP_TAB body with
  | (text, None) => GInfo text
  | (first, Some rest1) =>
      let type := hd 0 first in
      let description := tl first in
      let '(selfield, rest2) := split_once SP_TAB rest1 in
      let '(hostfield, rest3) := match rest2 with
                                 | Some r => split_once SP_TAB r
                                 | None => ([], None)
                                 end in
      let portfield := match rest3 with Some r => r | None => [] end in
      GLink type description (spec_selector dir description selfield)
            (opt_field hostfield)
            (match portfield with [] => None | _ => option_map Z.of_N (parse_dec portfield) end)
  end.

(* the entry an item stands for, before anything is looked up in the file system *)
Definition info_entry (text : str) : entry :=
  set_port (Some 0%Z) (set_host (Some (lit "(NULL)"%string))
    (set_name (Some text) (set_type (Some (lit "i"%string)) (new_entry (lit "fake"%string))))).

Definition item_entry (it : gmitem) : entry :=
  match it with
  | GInfo text => info_entry text
  | GLink t d sel h p =>
      set_port p (set_host h (set_name (Some d) (set_type (Some [t]) (new_entry sel))))
  end.

Definition spec_entry (dir : str) (line : str) : entry := item_entry (spec_item dir line).

(* ---------- well-formed lines ---------- *)
(* no white space at either end *)
Definition clean (s : str) : bool :=
  match s with
  | [] => true
  | c :: _ => negb (is_space c) && negb (is_space (last s 0))
  end.

Definition wf_port (p : str) : bool :=
  forallb is_ascii_digit p && (N.of_nat (List.length p) <=? 4300).

Definition wf_gmline (line : str) : bool :=
  let body := chomp line in
  negb (mem_N SP_LF body) &&
  match split_on SP_TAB body with
  | [] => false
  | [text] => clean text
  | first :: rest =>
      (2 <=? List.length first)%nat && (List.length rest <=? 3)%nat &&
      forallb clean (first :: rest) && wf_port (nth 2 rest [])
  end.
