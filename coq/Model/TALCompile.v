(* TALCompile.v — simpleTAL.HTMLTemplateCompiler / TemplateCompiler as written: an
   event-driven machine over the event stream of html.parser (handle_starttag,
   handle_startendtag, handle_endtag, handle_data, handle_comment, handle_decl, handle_pi)
   with tagStack, symbolLocationTable, macroMap, the endTagSymbol counter, command ordering by
   opcode, merging of adjacent OUTPUT commands, HTML elements without end tags, the METAL
   commands, and the argument parsers compileCmdDefine / Condition / Repeat / Content /
   Replace / Attributes / OmitTag.

   A `variant` says which repairs are in the code being modelled (all false = the pinned tree):
     - v_text : compileCmdContent tests attProps[0] == "text"   (pinned: attProps[1]),
     - v_cdata: handle_data does not escape inside script/style  (pinned: always escaped),
     - v_eof  : parseTemplate rejects TAL/METAL elements still open at the end of the input
                (pinned: accepted, leaving an undefined end-tag symbol),
     - v_dup  : parseStartTag rejects a statement that occurs twice on one element and tal:content
                together with tal:replace (pinned: both commands are emitted),
     - v_start: a macro / slot starts at the first command of its element
                (pinned: at len(commandList) when the define-macro / fill-slot statement is compiled,
                which is inside the element when a use-macro / define-slot command precedes it).
   Not modelled (result Unsupported): re-declaration of the tal:/metal: namespace prefixes
   through xmlns attributes.  Definitions only. *)
From Coq Require Import String.
From PG Require Import Lib.Str Lib.HtmlEsc Model.TALProg.
Local Open Scope N_scope.

Definition hatts := list (str * option str).   (* html.parser: None for an attribute without value *)

Inductive event : Type :=
| EvStart (tag : str) (a : hatts)
| EvStartEnd (tag : str) (a : hatts)
| EvEnd (tag : str)
| EvData (d : str) (cdata : bool)   (* cdata: delivered while parser.cdata_elem is set (script / style) *)
| EvComment (d : str)
| EvDecl (d : str)
| EvPi (d : str).

Inductive cres (A : Type) : Type := COk (a : A) | CErr | CUnsupported.
Arguments COk {A} a.
Arguments CErr {A}.
Arguments CUnsupported {A}.

Record variant : Type := mkVariant { v_text : bool; v_cdata : bool; v_eof : bool; v_dup : bool; v_start : bool }.
Definition pinned : variant := mkVariant false false false false false.
Definition repaired : variant := mkVariant true true true true true.

(* ---- small string helpers (Python semantics) ---- *)
Definition SP : N := 32.
Definition SEMI : N := 59.
Definition COLON : N := 58.

Definition words (s : str) : list str := split_on SP s.            (* s.split(' ') *)
Definition unwords (l : list str) : str := join [SP] l.           (* ' '.join(l) *)

(* re.compile('(?<!;);(?!;)').split(s): split at semicolons that have no semicolon next to them *)
Fixpoint semi_split_aux (prev_semi : bool) (cur : str) (s : str) : list str :=
  match s with
  | [] => [rev cur]
  | c :: r =>
      if c =? SEMI then
        let next_semi := match r with d :: _ => d =? SEMI | [] => false end in
        if negb prev_semi && negb next_semi then rev cur :: semi_split_aux false [] r
        else semi_split_aux true (c :: cur) r
      else semi_split_aux false (c :: cur) r
  end.
Definition semi_split (s : str) : list str := semi_split_aux false [] s.

(* s.replace(';;', ';') *)
Fixpoint unescape_semi (s : str) : str :=
  match s with
  | a :: ((b :: r) as t) => if (a =? SEMI) && (b =? SEMI) then SEMI :: unescape_semi r else a :: unescape_semi t
  | _ => s
  end.

(* position of the first ':' (str.find) *)
Definition find_colon (s : str) : option nat := find [COLON] s.

(* HTML_FORBIDDEN_ENDTAG, compared on tag.upper(); html.parser delivers lower-case names *)
Definition forbidden_endtag (tag : str) : bool :=
  mem_str (map (fun c => if (97 <=? c) && (c <=? 122) then c - 32 else c) tag)
          (map lit ["AREA"; "BASE"; "BASEFONT"; "BR"; "COL"; "FRAME"; "HR"; "IMG"; "INPUT"; "ISINDEX";
                    "LINK"; "META"; "PARAM"]%string).

(* opcodes used for ordering (simpleTAL.py constants) *)
Definition OP_DEFINE := 1%nat.
Definition OP_CONDITION := 2%nat.
Definition OP_REPEAT := 3%nat.
Definition OP_CONTENT := 4%nat.
Definition OP_REPLACE := 5%nat.
Definition OP_ATTRIBUTES := 6%nat.
Definition OP_OMITTAG := 7%nat.
Definition OP_USE_MACRO := 14%nat.
Definition OP_DEFINE_SLOT := 15%nat.
Definition OP_FILL_SLOT := 16%nat.
Definition OP_DEFINE_MACRO := 17%nat.

Definition tal_attribute_map : list (str * nat) :=
  [(lit "tal:attributes", OP_ATTRIBUTES); (lit "tal:content", OP_CONTENT); (lit "tal:define", OP_DEFINE);
   (lit "tal:replace", OP_REPLACE); (lit "tal:omit-tag", OP_OMITTAG); (lit "tal:condition", OP_CONDITION);
   (lit "tal:repeat", OP_REPEAT)]%string.
Definition metal_attribute_map : list (str * nat) :=
  [(lit "metal:define-macro", OP_DEFINE_MACRO); (lit "metal:use-macro", OP_USE_MACRO);
   (lit "metal:define-slot", OP_DEFINE_SLOT); (lit "metal:fill-slot", OP_FILL_SLOT)]%string.
Definition TAL_OMITTAG_ATT : str := lit "tal:omit-tag"%string.
Definition METAL_URI : str := lit "http://xml.zope.org/namespaces/metal"%string.
Definition TAL_URI : str := lit "http://xml.zope.org/namespaces/tal"%string.

Fixpoint assoc_str {A} (k : str) (l : list (str * A)) : option A :=
  match l with [] => None | (a, b) :: r => if str_eqb a k then Some b else assoc_str k r end.
Fixpoint assoc_nat {A} (k : nat) (l : list (nat * A)) : option A :=
  match l with [] => None | (a, b) :: r => if Nat.eqb a k then Some b else assoc_nat k r end.

(* dict[k] = v : replace in place or append *)
Fixpoint dict_set_str {A} (k : str) (v : A) (l : list (str * A)) : list (str * A) :=
  match l with
  | [] => [(k, v)]
  | (a, b) :: r => if str_eqb a k then (a, v) :: r else (a, b) :: dict_set_str k v r
  end.
Fixpoint dict_set_nat {A} (k : nat) (v : A) (l : list (nat * A)) : list (nat * A) :=
  match l with
  | [] => [(k, v)]
  | (a, b) :: r => if Nat.eqb a k then (a, v) :: r else (a, b) :: dict_set_nat k v r
  end.

(* list.sort() on opcodes *)
Fixpoint insert_nat (x : nat) (l : list nat) : list nat :=
  match l with
  | [] => [x]
  | y :: r => if Nat.leb x y then x :: l else y :: insert_nat x r
  end.
Definition sort_nat (l : list nat) : list nat := fold_right insert_nat [] l.

(* ---- tagAsText of the compiler (minimizeBooleanAtts = 0, never a singleton in HTML) ---- *)
Definition LTc : N := 60.
Definition GTc : N := 62.
Definition att_text (a : str * str) : str :=
  [SP] ++ fst a ++ lit "="""%string ++ escape true (snd a) ++ lit """"%string.
Definition tag_as_text (tag : str) (a : list (str * str)) : str :=
  [LTc] ++ tag ++ concat (map att_text a) ++ [GTc].
Definition end_tag_text (tag : str) : str := lit "</"%string ++ tag ++ [GTc].

(* ---- compiler state ---- *)
Record tagent : Type := mkTag {
  te_tag : str;
  te_sym : option nat;          (* tagProperties['endTagSymbol'] *)
  te_macro : option nat         (* useMacroLocation *)
}.

Record cstate : Type := mkCS {
  cs_rcmds : list cmd;          (* commandList, last command first *)
  cs_stack : list tagent;       (* tagStack, top first *)
  cs_syms : symtab;             (* symbolLocationTable, insertion order *)
  cs_macros : macrotab;         (* macroMap, insertion order *)
  cs_sym : nat;                 (* self.endTagSymbol *)
}.
Definition cs0 : cstate := mkCS [] [] [] [] 1.

Definition ncmds (s : cstate) : nat := List.length (cs_rcmds s).

(* addCommand: adjacent OUTPUT commands are merged *)
Definition add_command (c : cmd) (s : cstate) : cstate :=
  match c, cs_rcmds s with
  | COutput b, COutput a :: r => mkCS (COutput (a ++ b) :: r) (cs_stack s) (cs_syms s) (cs_macros s) (cs_sym s)
  | _, _ => mkCS (c :: cs_rcmds s) (cs_stack s) (cs_syms s) (cs_macros s) (cs_sym s)
  end.
Definition push_tag (t : tagent) (s : cstate) : cstate :=
  mkCS (cs_rcmds s) (t :: cs_stack s) (cs_syms s) (cs_macros s) (cs_sym s).

(* addTag *)
Definition add_tag (tag : str) (clean : list (str * str)) (orig : list (str * str)) (sym : option nat)
                   (command : option cmd) (s : cstate) : cstate :=
  match command with
  | Some c =>
      let loc := match c with CUseMacro _ _ _ => Some (S (ncmds s)) | _ => None end in
      add_command c (add_command (CStartScope orig clean) (push_tag (mkTag tag sym loc) s))
  | None => add_command (COutput (tag_as_text tag clean)) (push_tag (mkTag tag sym None) s)
  end.

(* popTag *)
Fixpoint pop_tag_loop (tag : str) (omit : bool) (stack : list tagent) (s : cstate) : cres cstate :=
  match stack with
  | [] => CErr                         (* close tag with no corresponding open tag *)
  | t :: rest =>
      let s1 := mkCS (cs_rcmds s) rest (cs_syms s) (cs_macros s) (cs_sym s) in
      if str_eqb (te_tag t) tag then
        match te_sym t with
        | Some sy =>
            let s2 := mkCS (cs_rcmds s1) rest (dict_set_nat sy (ncmds s1) (cs_syms s1)) (cs_macros s1) (cs_sym s1) in
            COk (add_command (CEndTagEndScope tag omit false) s2)
        | None => if omit then COk s1 else COk (add_command (COutput (end_tag_text tag)) s1)
        end
      else
        match te_sym t with
        | Some _ => CErr               (* TAL/METAL elements must be balanced *)
        | None => pop_tag_loop tag omit rest s1
        end
  end.
Definition pop_tag (tag : str) (omit : bool) (s : cstate) : cres cstate := pop_tag_loop tag omit (cs_stack s) s.

(* ---- argument parsers ---- *)
Definition STRUCTURE : str := lit "structure"%string.
Definition TEXT : str := lit "text"%string.
Definition GLOBAL : str := lit "global"%string.
Definition LOCAL : str := lit "local"%string.
Definition DEFAULT_PATH : str := lit "default"%string.

(* compileCmdDefine *)
Definition parse_define_stmt (stmt : str) : option (bool * (str * str)) :=
  let bits := words (unescape_semi (lstrip stmt)) in
  match bits with
  | [] | [_] => None
  | [a; b] => Some (true, (a, b))
  | a :: b :: rest =>
      if str_eqb a GLOBAL then Some (false, (b, unwords rest))
      else if str_eqb a LOCAL then Some (true, (b, unwords rest))
      else Some (true, (a, unwords (b :: rest)))
  end.
Fixpoint all_some {A} (l : list (option A)) : option (list A) :=
  match l with
  | [] => Some []
  | Some x :: r => match all_some r with Some t => Some (x :: t) | None => None end
  | None :: _ => None
  end.
Definition compile_define (arg : str) : option cmd :=
  match all_some (map parse_define_stmt (semi_split arg)) with Some l => Some (CDefine l) | None => None end.

Definition compile_condition (arg : str) (sym : nat) : option cmd :=
  match arg with [] => None | _ => Some (CCondition arg sym) end.

Definition compile_repeat (arg : str) (sym : nat) : option cmd :=
  match words arg with
  | v :: (_ :: _) as rest => Some (CRepeat v (unwords rest) sym)
  | _ => None
  end.

(* compileCmdContent / compileCmdReplace *)
Definition compile_content (fixed : variant) (repl : bool) (arg : str) (sym : nat) : option cmd :=
  match arg with
  | [] => None
  | _ =>
      match words arg with
      | a :: (b :: _) as rest =>
          if str_eqb a STRUCTURE then Some (CContent repl true (unwords rest) sym)
          else if str_eqb (if v_text fixed then a else b) TEXT then Some (CContent repl false (unwords rest) sym)
          else Some (CContent repl false arg sym)
      | _ => Some (CContent repl false arg sym)
      end
  end.

Definition parse_attribute_stmt (stmt : str) : option (str * str) :=
  match words (unescape_semi (lstrip stmt)) with
  | a :: (_ :: _) as rest => Some (a, unwords rest)
  | _ => None
  end.
Definition compile_attributes (arg : str) : option cmd :=
  match all_some (map parse_attribute_stmt (semi_split arg)) with Some l => Some (CAttributes l) | None => None end.

Definition compile_omit_tag (arg : str) : option cmd :=
  Some (COmitTag (match arg with [] => DEFAULT_PATH | _ => arg end)).

(* METAL_NAME_REGEX [a-zA-Z_][a-zA-Z0-9_]* must match the whole argument *)
Definition is_name_start (c : N) : bool :=
  ((97 <=? c) && (c <=? 122)) || ((65 <=? c) && (c <=? 90)) || (c =? 95).
Definition is_name_char (c : N) : bool := is_name_start c || ((48 <=? c) && (c <=? 57)).
Definition metal_name_ok (s : str) : bool :=
  match s with c :: r => is_name_start c && forallb is_name_char r | [] => false end.

(* nearest enclosing use-macro (compileMetalFillSlot walks the tag stack backwards) *)
Fixpoint find_macro_loc (stack : list tagent) : option nat :=
  match stack with
  | [] => None
  | t :: r => match te_macro t with Some l => Some l | None => find_macro_loc r end
  end.

Fixpoint update_nth {A} (n : nat) (f : A -> option A) (l : list A) : option (list A) :=
  match n, l with
  | O, x :: r => match f x with Some y => Some (y :: r) | None => None end
  | S k, x :: r => match update_nth k f r with Some t => Some (x :: t) | None => None end
  | _, [] => None
  end.

(* one TAL/METAL statement: Some None = accepted, no command (define-macro, fill-slot) *)
Definition compile_stmt (fixed : variant) (estart : nat) (op : nat) (arg : str) (s : cstate) : cres (option cmd * cstate) :=
  let sym := cs_sym s in
  let start := if v_start fixed then estart else ncmds s in
  let lift (o : option cmd) : cres (option cmd * cstate) :=
    match o with Some c => COk (Some c, s) | None => CErr end in
  if Nat.eqb op OP_DEFINE then lift (compile_define arg)
  else if Nat.eqb op OP_CONDITION then lift (compile_condition arg sym)
  else if Nat.eqb op OP_REPEAT then lift (compile_repeat arg sym)
  else if Nat.eqb op OP_CONTENT then lift (compile_content fixed false arg sym)
  else if Nat.eqb op OP_REPLACE then lift (compile_content fixed true arg sym)
  else if Nat.eqb op OP_ATTRIBUTES then lift (compile_attributes arg)
  else if Nat.eqb op OP_OMITTAG then lift (compile_omit_tag arg)
  else if Nat.eqb op OP_USE_MACRO then
    match arg with [] => CErr | _ => COk (Some (CUseMacro arg [] sym), s) end
  else if Nat.eqb op OP_DEFINE_SLOT then
    if metal_name_ok arg then COk (Some (CDefineSlot arg sym), s) else CErr
  else if Nat.eqb op OP_DEFINE_MACRO then
    if metal_name_ok arg then
      match assoc_str arg (cs_macros s) with
      | Some _ => CErr                   (* macro name already defined *)
      | None => COk (None, mkCS (cs_rcmds s) (cs_stack s) (cs_syms s)
                                (cs_macros s ++ [(arg, (start, sym))]) (cs_sym s))
      end
    else CErr
  else if Nat.eqb op OP_FILL_SLOT then
    if metal_name_ok arg then
      match find_macro_loc (cs_stack s) with
      | None => CErr                     (* fill-slot outside use-macro *)
      | Some loc =>
          (* commandList[loc] is the use-macro command; the list is kept reversed *)
          let n := ncmds s in
          if Nat.ltb loc n then
            match update_nth (n - 1 - loc)
                    (fun c => match c with
                              | CUseMacro e sl sy =>
                                  match assoc_str arg sl with
                                  | Some _ => None         (* slot already filled *)
                                  | None => Some (CUseMacro e (sl ++ [(arg, (start, sym))]) sy)
                                  end
                              | _ => None
                              end) (cs_rcmds s) with
            | Some l => COk (None, mkCS l (cs_stack s) (cs_syms s) (cs_macros s) (cs_sym s))
            | None => CErr
            end
          else CErr
      end
    else CErr
  else CErr.

(* the loop `for talAtt in allCommands` of parseStartTag *)
Fixpoint compile_stmts (fixed : variant) (estart : nat) (ops : list nat) (args : list (nat * str))
                       (tag : str) (clean orig : list (str * str)) (first : bool) (s : cstate)
  : cres (bool * cstate) :=
  match ops with
  | [] => COk (first, s)
  | op :: r =>
      match assoc_nat op args with
      | None => CErr
      | Some arg =>
          match compile_stmt fixed estart op arg s with
          | COk (Some c, s1) =>
              let s2 := if first then add_tag tag clean orig (Some (cs_sym s)) (Some c) s1 else add_command c s1 in
              compile_stmts fixed estart r args tag clean orig false s2
          | COk (None, s1) => compile_stmts fixed estart r args tag clean orig first s1
          | CErr => CErr
          | CUnsupported => CUnsupported
          end
      end
  end.

(* classification of the attributes of a start tag *)
Record scan : Type := mkScan {
  sc_orig : list (str * str);        (* originalAttributes (dict) *)
  sc_tal : list nat;                 (* foundTALAtts *)
  sc_metal : list nat;               (* foundMETALAtts *)
  sc_args : list (nat * str);        (* foundCommandsArgs (dict) *)
  sc_clean : list (str * str)        (* cleanAttributes *)
}.

Definition has_prefix_colon (s : str) : bool :=          (* s.find(':') > 0 *)
  match find_colon s with Some (S _) => true | _ => false end.

Definition has_arg (op : nat) (sc : scan) : bool :=
  match assoc_nat op (sc_args sc) with Some _ => true | None => false end.

Fixpoint scan_atts (fixed : variant) (talns : bool) (prefix : str) (a : list (str * str)) (sc : scan) : cres scan :=
  match a with
  | [] => COk sc
  | (att, value) :: r =>
      let orig := dict_set_str att value (sc_orig sc) in
      let cname := if talns && negb (has_prefix_colon att) then prefix ++ att else att in
      if str_eqb (firstn 5 att) (lit "xmlns"%string) then
        if str_eqb value METAL_URI || str_eqb value TAL_URI then CUnsupported
        else scan_atts fixed talns prefix r (mkScan orig (sc_tal sc) (sc_metal sc) (sc_args sc) (sc_clean sc ++ [(att, value)]))
      else
        match assoc_str cname tal_attribute_map with
        | Some op =>
            if Nat.eqb op OP_OMITTAG && talns then
              scan_atts fixed talns prefix r (mkScan orig (sc_tal sc) (sc_metal sc) (sc_args sc) (sc_clean sc))
            else if v_dup fixed && has_arg op sc then CErr
            else scan_atts fixed talns prefix r
                   (mkScan orig (sc_tal sc ++ [op]) (sc_metal sc) (dict_set_nat op value (sc_args sc)) (sc_clean sc))
        | None =>
            match assoc_str cname metal_attribute_map with
            | Some op => if v_dup fixed && has_arg op sc then CErr
                         else scan_atts fixed talns prefix r
                           (mkScan orig (sc_tal sc) (sc_metal sc ++ [op]) (dict_set_nat op value (sc_args sc)) (sc_clean sc))
            | None => scan_atts fixed talns prefix r
                        (mkScan orig (sc_tal sc) (sc_metal sc) (sc_args sc) (sc_clean sc ++ [(att, value)]))
            end
        end
  end.

(* parseStartTag *)
Definition parse_start_tag (fixed : variant) (tag : str) (a : list (str * str)) (s : cstate) : cres cstate :=
  let ns := match find_colon tag with
            | Some (S k) => let p := firstn (S k) tag in
                            if str_eqb p (lit "metal"%string) then Some (lit "metal:"%string)
                            else if str_eqb p (lit "tal"%string) then Some (lit "tal:"%string) else None
            | _ => None
            end in
  let talns := match ns with Some _ => true | None => false end in
  let prefix := match ns with Some p => p | None => [] end in
  let sc0 := if talns then mkScan [] [OP_OMITTAG] [] [(OP_OMITTAG, [])] [] else mkScan [] [] [] [] [] in
  match scan_atts fixed talns prefix a sc0 with
  | CErr => CErr
  | CUnsupported => CUnsupported
  | COk sc =>
      if v_dup fixed && has_arg OP_CONTENT sc && has_arg OP_REPLACE sc then CErr else
      match sc_tal sc, sc_metal sc with
      | [], [] => COk (add_tag tag (sc_clean sc) [] None None s)
      | _, _ =>
          let s1 := mkCS (cs_rcmds s) (cs_stack s) (cs_syms s) (cs_macros s) (S (cs_sym s)) in
          let ops := sort_nat (sc_metal sc) ++ sort_nat (sc_tal sc) in
          match compile_stmts fixed (ncmds s1) ops (sc_args sc) tag (sc_clean sc) (sc_orig sc) true s1 with
          | COk (first, s2) =>
              if first then COk (add_tag tag (sc_clean sc) (sc_orig sc) (Some (cs_sym s1)) (Some (CStartTag tag false)) s2)
              else COk (add_command (CStartTag tag false) s2)
          | CErr => CErr
          | CUnsupported => CUnsupported
          end
      end
  end.

(* handle_starttag: attributes without a value *)
Definition norm_atts (a : hatts) : list (str * str) :=
  map (fun p => match snd p with
                | Some v => (fst p, v)
                | None => if str_eqb (fst p) TAL_OMITTAG_ATT then (fst p, []) else (fst p, fst p)
                end) a.

Definition handle_starttag (fixed : variant) (tag : str) (a : hatts) (s : cstate) : cres cstate :=
  match parse_start_tag fixed tag (norm_atts a) s with
  | COk s1 => if forbidden_endtag tag then pop_tag tag true s1 else COk s1
  | r => r
  end.

Definition handle_endtag (tag : str) (s : cstate) : cres cstate :=
  if forbidden_endtag tag then COk s else pop_tag tag false s.

Definition handle_event (fixed : variant) (ev : event) (s : cstate) : cres cstate :=
  match ev with
  | EvStart tag a => handle_starttag fixed tag a s
  | EvStartEnd tag a =>
      match handle_starttag fixed tag a s with
      | COk s1 => if forbidden_endtag tag then COk s1 else handle_endtag tag s1
      | r => r
      end
  | EvEnd tag => handle_endtag tag s
  | EvData d cdata => COk (add_command (COutput (if v_cdata fixed && cdata then d else escape false d)) s)
  | EvComment d => COk (add_command (COutput (lit "<!--"%string ++ d ++ lit "-->"%string)) s)
  | EvDecl d => COk (add_command (COutput (lit "<!"%string ++ d ++ [GTc])) s)
  | EvPi d => COk (add_command (COutput (lit "<?"%string ++ d ++ [GTc])) s)
  end.

Fixpoint handle_events (fixed : variant) (evs : list event) (s : cstate) : cres cstate :=
  match evs with
  | [] => COk s
  | ev :: r => match handle_event fixed ev s with
               | COk s1 => handle_events fixed r s1
               | e => e
               end
  end.

(* parseTemplate + getTemplate *)
Definition compile (fixed : variant) (evs : list event) : cres (program * (symtab * macrotab)) :=
  match handle_events fixed evs cs0 with
  | COk s =>
      if v_eof fixed && existsb (fun t => match te_sym t with Some _ => true | None => false end) (cs_stack s)
      then CErr       (* a TAL/METAL element was never closed *)
      else COk (rev (cs_rcmds s), (cs_syms s, cs_macros s))
  | CErr => CErr
  | CUnsupported => CUnsupported
  end.

(* a document without TAL/METAL: what the parser events look like when written back *)
(* ---- documents without TAL / METAL ---- *)
Definition plain_att (a : str * str) : bool :=
  negb (str_eqb (firstn 5 (fst a)) (lit "xmlns"%string) && (str_eqb (snd a) METAL_URI || str_eqb (snd a) TAL_URI)) &&
  (match assoc_str (fst a) tal_attribute_map with None => true | Some _ => false end) &&
  (match assoc_str (fst a) metal_attribute_map with None => true | Some _ => false end).
Definition plain_tag (tag : str) : bool :=
  match find_colon tag with
  | Some (S k) => negb (str_eqb (firstn (S k) tag) (lit "metal"%string) || str_eqb (firstn (S k) tag) (lit "tal"%string))
  | _ => true
  end.
Definition tal_free_event (ev : event) : bool :=
  match ev with
  | EvStart tag a | EvStartEnd tag a => plain_tag tag && forallb plain_att (norm_atts a)
  | _ => true
  end.

(* what each event is written back as *)
Definition event_text (v : variant) (ev : event) : str :=
  match ev with
  | EvStart tag a => tag_as_text tag (norm_atts a)
  | EvStartEnd tag a => tag_as_text tag (norm_atts a) ++ (if forbidden_endtag tag then [] else end_tag_text tag)
  | EvEnd tag => if forbidden_endtag tag then [] else end_tag_text tag
  | EvData d cdata => if v_cdata v && cdata then d else escape false d
  | EvComment d => lit "<!--"%string ++ d ++ lit "-->"%string
  | EvDecl d => lit "<!"%string ++ d ++ [GTc]
  | EvPi d => lit "<?"%string ++ d ++ [GTc]
  end.
Definition passthrough_text (v : variant) (es : list event) : str := concat (map (event_text v) es).

(* "every compiled program is structurally well formed", the full statement for the repaired compiler
   (see Props/C17.v: proved for TAL-free event streams, checked per program otherwise) *)
Definition compile_wf_statement : Prop :=
  forall es p t m, compile repaired es = COk (p, (t, m)) -> wf_program p t m = true.
