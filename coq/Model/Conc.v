(* Conc.v — N requests for the same directory served at once (threading or forking
   server of pygopherd/server.py), as an interleaving of atomic actions at the
   granularity of the system calls made by DirHandler.loadcache / prepare /
   savecache and of the reads/writes of the module-level lazily initialised tables
   (HandlerMultiplexer.handlers/rootpath, handlers.base.rootpath,
   gopherentry.mapping/eaexts, UMN.extstrip).  Definitions only.

   Shared between workers: the cache file (content = offset -> byte, written in
   place, in chunks, each writer at its own file offset: a write beyond the current
   end leaves a hole of zero bytes) and the table of lazies.  Everything else
   (protocol object, handler, entry list, http header cache) is per connection and
   therefore part of the thread's own state here; Gen/Globals.v lists what the
   source really shares.  The directory does not change during the burst and the
   clock is taken as fixed (`fresh` is a function of the file's mtime only). *)
From Coq Require Import ZArith List Bool Arith.
From PG Require Import Lib.Str Model.Cache.
Import ListNotations.

Record fcontent := mkf { flen : nat; fbyte : nat -> N }.
Definition fread (c : fcontent) : bytes := map (fbyte c) (seq 0 (flen c)).
Definition fempty : fcontent := mkf 0 (fun _ => 0%N).
Definition of_bytes (b : bytes) : fcontent := mkf (List.length b) (fun k => nth k b 0%N).
(* pwrite(fd, data, off) on a regular file *)
Definition write_at (off : nat) (data : bytes) (c : fcontent) : fcontent :=
  mkf (Nat.max (flen c) (off + List.length data))
      (fun k => if (off <=? k) && (k <? off + List.length data) then nth (k - off) data 0%N
                else if k <? flen c then fbyte c k else 0%N).

Section Conc.
  Variables L V : Type.              (* entry list; value of a lazily initialised table *)
  Variable target : L.               (* gen dir: what prepare() generates for the (constant) directory *)
  Variable enc : L -> bytes.
  Variable decode : bytes -> option L.
  Variable fresh : Z -> bool.        (* time.time() - mtime < cachetime, clock fixed *)
  Variable wtime : Z.                (* mtime a write during the burst gives the file *)
  Variable compute : nat -> V.       (* value of lazy k: a function of the configuration only *)

  Record shared := mks {
    file : option (Z * fcontent);
    lazies : nat -> option V;
    (* ghost *)
    written : bool;                  (* some request has opened the file for writing *)
    owner : option nat;              (* the request currently between open('wb') and close *)
    clash : bool                     (* a request opened the file for writing while another held it open *)
  }.

  Inductive creply := CServed (l : L) | CCrashed.

  Inductive cont := ToStat | ToList.
  Inductive pc :=
  | PLazies (ks : list nat) (publishing : bool) (c : cont)
      (* InitLazy k = test `if not table_k` (publishing = false), then compute and
         assign the global (publishing = true): compute-then-publish, not atomic *)
  | PStat                            (* vfs.stat(cachename) *)
  | PRead                            (* open(cachename,'rb') + pickle.load: observes the content NOW *)
  | PListDir                         (* listdir + per-entry work: entries = target *)
  | POpen                            (* open(cachename,'wb'): truncates *)
  | PWrite (off : nat) (chunks : list bytes)
  | PClose
  | PRespond (l : L)
  | PDone (r : creply).

  Record thread := mkt { tpc : pc; tmid : list nat; tchunks : list bytes }.

  Definition cont_pc (c : cont) : pc := match c with ToStat => PStat | ToList => PListDir end.
  Definition after_lazies (ks : list nat) (c : cont) : pc :=
    match ks with [] => cont_pc c | _ => PLazies ks false c end.
  Definition after_write (off : nat) (cs : list bytes) : pc :=
    match cs with [] => PClose | _ => PWrite off cs end.

  Definition upd {A} (f : nat -> A) (i : nat) (x : A) : nat -> A := fun j => if j =? i then x else f j.
  Definition setpc (t : thread) (p : pc) : thread := mkt p (tmid t) (tchunks t).
  Definition is_some {A} (o : option A) : bool := match o with Some _ => true | None => false end.

  (* one atomic action of request i; rep = the reader treats an unreadable cache as a miss *)
  Definition tstep (rep : bool) (i : nat) (sh : shared) (t : thread) : shared * thread :=
    match tpc t with
    | PLazies [] _ c => (sh, setpc t (cont_pc c))
    | PLazies (k :: ks) false c =>
        match lazies sh k with
        | Some _ => (sh, setpc t (after_lazies ks c))
        | None => (sh, setpc t (PLazies (k :: ks) true c))
        end
    | PLazies (k :: ks) true c =>
        (mks (file sh) (upd (lazies sh) k (Some (compute k))) (written sh) (owner sh) (clash sh),
         setpc t (after_lazies ks c))
    | PStat =>
        match file sh with
        | Some (m, _) => (sh, setpc t (if fresh m then PRead else after_lazies (tmid t) ToList))
        | None => (sh, setpc t (after_lazies (tmid t) ToList))
        end
    | PRead =>
        match file sh with
        | None => (sh, setpc t (PDone CCrashed))       (* cannot happen: the file is never removed *)
        | Some (_, c) =>
            match decode (fread c) with
            | Some l => (sh, setpc t (PRespond l))
            | None => (sh, setpc t (if rep then after_lazies (tmid t) ToList else PDone CCrashed))
            end
        end
    | PListDir => (sh, setpc t POpen)
    | POpen =>
        (mks (Some (wtime, fempty)) (lazies sh) true (Some i) (clash sh || is_some (owner sh)),
         setpc t (after_write 0 (tchunks t)))
    | PWrite off [] => (sh, setpc t PClose)
    | PWrite off (c :: cs) =>
        let cur := match file sh with Some (_, x) => x | None => fempty end in
        (mks (Some (wtime, write_at off c cur)) (lazies sh) (written sh) (owner sh) (clash sh),
         setpc t (after_write (off + List.length c) cs))
    | PClose =>
        (mks (file sh) (lazies sh) (written sh)
             (match owner sh with Some j => if j =? i then None else Some j | None => None end) (clash sh),
         setpc t (PRespond target))
    | PRespond l => (sh, setpc t (PDone (CServed l)))
    | PDone _ => (sh, t)
    end.

  Record state := mkst { sh : shared; th : nat -> thread }.

  Definition step (rep : bool) (st : state) (i : nat) : state :=
    let '(s', t') := tstep rep i (sh st) (th st i) in mkst s' (upd (th st) i t').

  (* an arbitrary interleaving: the schedule names the request that moves next *)
  Definition run (rep : bool) (sched : list nat) (st : state) : state := fold_left (step rep) sched st.

  Definition response (st : state) (i : nat) : option creply :=
    match tpc (th st i) with PDone r => Some r | _ => None end.

  (* what a request gets when it is served alone against the initial file *)
  Definition warm (s0 : shared) : option L :=
    match file s0 with
    | Some (m, c) => if fresh m then decode (fread c) else None
    | None => None
    end.
  Definition sequential (s0 : shared) : L := match warm s0 with Some l => l | None => target end.

  (* initial conditions *)
  Definition thread_start (t : thread) : Prop :=
    (exists pre, tpc t = after_lazies pre ToStat) /\ concat (tchunks t) = enc target.
  Definition shared_start (s0 : shared) : Prop :=
    written s0 = false /\ owner s0 = None /\ clash s0 = false /\
    forall k, lazies s0 k = None \/ lazies s0 k = Some (compute k).
  Definition start (st : state) : Prop := shared_start (sh st) /\ forall i, thread_start (th st i).

  (* contents a reader can meet once writers are active *)
  Definition is_prefix (c : fcontent) : Prop :=
    flen c <= List.length (enc target) /\ forall k, k < flen c -> fbyte c k = nth k (enc target) 0%N.
  Definition is_damaged (c : fcontent) : Prop :=       (* prefix ++ zero holes ++ bytes *)
    flen c <= List.length (enc target) /\
    forall k, k < flen c -> fbyte c k = nth k (enc target) 0%N \/ fbyte c k = 0%N.
End Conc.

Arguments mks {V}. Arguments file {V}. Arguments lazies {V}. Arguments written {V}. Arguments owner {V}. Arguments clash {V}.
Arguments CServed {L}. Arguments CCrashed {L}.
Arguments PLazies {L}. Arguments PStat {L}. Arguments PRead {L}. Arguments PListDir {L}. Arguments POpen {L}.
Arguments PWrite {L}. Arguments PClose {L}. Arguments PRespond {L}. Arguments PDone {L}.
Arguments mkt {L}. Arguments tpc {L}. Arguments tmid {L}. Arguments tchunks {L}.
Arguments mkst {L V}. Arguments sh {L V}. Arguments th {L V}.
Arguments tstep {L V} target decode fresh wtime compute rep i sh t.
Arguments step {L V} target decode fresh wtime compute rep st i.
Arguments run {L V} target decode fresh wtime compute rep sched st.
Arguments response {L V} st i.
Arguments warm {L V} decode fresh s0.
Arguments sequential {L V} target decode fresh s0.
Arguments thread_start {L} target enc t.
Arguments shared_start {V} compute s0.
Arguments start {L V} target enc compute st.
Arguments is_prefix {L} target enc c.
Arguments is_damaged {L} target enc c.
Arguments after_lazies {L} ks c.
Arguments after_write {L} off cs.
