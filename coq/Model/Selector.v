(* Selector.v — the selector discipline of pygopherd:
   protocols/base.py slashnormalize, handlers/base.py isrequestsecure /
   VFS_Real.getfspath, and the (symlink-free) path resolution of the OS.
   Definitions only. *)
From PG Require Import Lib.Str Gen.Secure.
Local Open Scope N_scope.

Definition SLASH : N := 47.

(* protocols/base.py BaseGopherProtocol.slashnormalize *)
Definition slashnormalize (s : str) : str :=
  let s1 := match last_char s with
            | Some c => if c =? SLASH then drop_last s else s
            | None => s
            end in
  match s1 with
  | [] => [SLASH]
  | c :: _ => if c =? SLASH then s1 else SLASH :: s1
  end.

(* handlers/base.py BaseHandler.isrequestsecure: no forbidden substring.
   The pattern list is regenerated from the source on every run (Gen/Secure.v). *)
Definition is_secure_with (pats : list str) (s : str) : bool :=
  forallb (fun p => negb (contains p s)) pats.
Definition is_secure (s : str) : bool := is_secure_with base_patterns s.

(* handlers/url.py HTMLURLHandler: canhandlerequest = re.search("^(/|)URL:.+://", sel) *)
Definition URLC : str := [85; 82; 76; 58].          (* "URL:" *)
Definition CSS : str := [58; 47; 47].               (* "://" *)
(* ".+://" : at least one character other than "\n" before "://"; `.` does not
   match "\n", so the match must lie within the first line after the prefix. *)
Fixpoint dotplus_css (seen_one : bool) (s : str) : bool :=
  match s with
  | [] => false
  | c :: r =>
      (seen_one && prefixb CSS s) ||
      (if c =? 10 then false else dotplus_css true r)
  end.
Definition url_canhandle (s : str) : bool :=
  let body := match s with
              | c :: r => if (c =? SLASH) && prefixb URLC r then Some (skipn 4 r)
                          else if prefixb URLC s then Some (skipn 4 s) else None
              | [] => None
              end in
  match body with Some b => dotplus_css false b | None => false end.
Definition url_secure (s : str) : bool :=
  (if url_requires_canhandle then url_canhandle s else true) && is_secure_with url_patterns s.

(* handlers/base.py VFS_Real.getfspath: root + selector, one trailing slash stripped.
   None = IndexError on the empty string. *)
Definition getfspath (root sel : str) : option str :=
  let p := root ++ sel in
  match last_char p with
  | None => None
  | Some c => Some (if c =? SLASH then drop_last p else p)
  end.

(* ---- path resolution in a world without symbolic links ---- *)
Definition DOT : str := [46].
Definition DOTDOT : str := [46; 46].
Definition components (p : str) : list str := split_on SLASH p.

(* the directory stack is kept innermost-first *)
Definition resolve_step (stack : list str) (c : str) : list str :=
  if str_eqb c [] || str_eqb c DOT then stack
  else if str_eqb c DOTDOT then tl stack
  else c :: stack.
Definition resolve (p : str) : list str := rev (fold_left resolve_step (components p) []).

Fixpoint list_prefixb (a b : list str) : bool :=
  match a, b with
  | [], _ => true
  | x :: a', y :: b' => str_eqb x y && list_prefixb a' b'
  | _, _ => false
  end.
(* `p` resolves to root itself or something below it; cwd-relative roots are
   covered by resolving cwd ++ "/" ++ root. *)
Definition inside (root p : str) : bool := list_prefixb (resolve root) (resolve p).

Definition has_nul (s : str) : bool := mem_N 0 s.
Definition no_dotdot_component (s : str) : bool := negb (mem_str DOTDOT (components s)).
Definition starts_with_slash (s : str) : bool :=
  match s with c :: _ => c =? SLASH | [] => false end.

(* handlers/virtual.py Virtual.__init__: split at the first "?" if there is one, else at the
   first "|" ; (selectorreal, selectorargs).  Without either, real = selector, args = "". *)
Definition QMARK : N := 63.
Definition PIPE : N := 124.
Definition virtual_split (s : str) : str * str :=
  match find [QMARK] s with
  | Some i => (firstn i s, skipn (S i) s)
  | None => match find [PIPE] s with
            | Some i => (firstn i s, skipn (S i) s)
            | None => (s, [])
            end
  end.
(* handlers/url.py URLTypeRewriter: selector[2:] when len >= 3, s[0] = "/" and s[2] = "/" *)
Definition rewriter_accepts (s : str) : bool :=
  match s with
  | a :: _ :: c :: _ => (a =? SLASH) && (c =? SLASH)
  | _ => false
  end.
Definition rewriter_target (s : str) : str := skipn 2 s.
