(* Entry.v — pygopherd/gopherentry.py: the GopherEntry object, getinfoentry and
   handleeaext (sidecar files -> extended attributes).  Definitions only.

   Python `None` is `None`; an attribute that Python tests with `or` / `if x:`
   is tested here with the same truthiness (empty string and 0 are false). *)
From Coq Require Import String ZArith.
From PG Require Import Lib.Str.
Local Open Scope N_scope.

Record entry := mkEntry {
  e_selector : str;
  e_type : option str;            (* gopher0 type: one character when set by the code paths modelled *)
  e_name : option str;
  e_host : option str;
  e_port : option Z;              (* an int; int("...") may be negative *)
  e_mimetype : option str;
  e_encodedmimetype : option str;
  e_size : option N;
  e_encoding : option str;
  e_language : option str;
  e_ctime : option N;
  e_mtime : option N;
  e_num : Z;
  e_gopherpsupport : bool;
  e_populated : bool;
  e_ea : list (str * str)         (* dict in insertion order: block name -> text *)
}.

(* GopherEntry.__init__ *)
Definition new_entry (sel : str) : entry :=
  mkEntry sel None None None None None None None None None None None 0%Z false false [].

Definition set_type (t : option str) (e : entry) : entry :=
  mkEntry (e_selector e) t (e_name e) (e_host e) (e_port e) (e_mimetype e) (e_encodedmimetype e)
          (e_size e) (e_encoding e) (e_language e) (e_ctime e) (e_mtime e) (e_num e)
          (e_gopherpsupport e) (e_populated e) (e_ea e).
Definition set_name (n : option str) (e : entry) : entry :=
  mkEntry (e_selector e) (e_type e) n (e_host e) (e_port e) (e_mimetype e) (e_encodedmimetype e)
          (e_size e) (e_encoding e) (e_language e) (e_ctime e) (e_mtime e) (e_num e)
          (e_gopherpsupport e) (e_populated e) (e_ea e).
Definition set_host (h : option str) (e : entry) : entry :=
  mkEntry (e_selector e) (e_type e) (e_name e) h (e_port e) (e_mimetype e) (e_encodedmimetype e)
          (e_size e) (e_encoding e) (e_language e) (e_ctime e) (e_mtime e) (e_num e)
          (e_gopherpsupport e) (e_populated e) (e_ea e).
Definition set_port (p : option Z) (e : entry) : entry :=
  mkEntry (e_selector e) (e_type e) (e_name e) (e_host e) p (e_mimetype e) (e_encodedmimetype e)
          (e_size e) (e_encoding e) (e_language e) (e_ctime e) (e_mtime e) (e_num e)
          (e_gopherpsupport e) (e_populated e) (e_ea e).
Definition set_mimetype (m : option str) (e : entry) : entry :=
  mkEntry (e_selector e) (e_type e) (e_name e) (e_host e) (e_port e) m (e_encodedmimetype e)
          (e_size e) (e_encoding e) (e_language e) (e_ctime e) (e_mtime e) (e_num e)
          (e_gopherpsupport e) (e_populated e) (e_ea e).
Definition set_encodedmimetype (m : option str) (e : entry) : entry :=
  mkEntry (e_selector e) (e_type e) (e_name e) (e_host e) (e_port e) (e_mimetype e) m
          (e_size e) (e_encoding e) (e_language e) (e_ctime e) (e_mtime e) (e_num e)
          (e_gopherpsupport e) (e_populated e) (e_ea e).
Definition set_size (s : option N) (e : entry) : entry :=
  mkEntry (e_selector e) (e_type e) (e_name e) (e_host e) (e_port e) (e_mimetype e) (e_encodedmimetype e)
          s (e_encoding e) (e_language e) (e_ctime e) (e_mtime e) (e_num e)
          (e_gopherpsupport e) (e_populated e) (e_ea e).
Definition set_encoding (x : option str) (e : entry) : entry :=
  mkEntry (e_selector e) (e_type e) (e_name e) (e_host e) (e_port e) (e_mimetype e) (e_encodedmimetype e)
          (e_size e) x (e_language e) (e_ctime e) (e_mtime e) (e_num e)
          (e_gopherpsupport e) (e_populated e) (e_ea e).
Definition set_times (c m : option N) (e : entry) : entry :=
  mkEntry (e_selector e) (e_type e) (e_name e) (e_host e) (e_port e) (e_mimetype e) (e_encodedmimetype e)
          (e_size e) (e_encoding e) (e_language e) c m (e_num e)
          (e_gopherpsupport e) (e_populated e) (e_ea e).
Definition set_flags (gplus populated : bool) (e : entry) : entry :=
  mkEntry (e_selector e) (e_type e) (e_name e) (e_host e) (e_port e) (e_mimetype e) (e_encodedmimetype e)
          (e_size e) (e_encoding e) (e_language e) (e_ctime e) (e_mtime e) (e_num e)
          gplus populated (e_ea e).
Definition set_ea (ea : list (str * str)) (e : entry) : entry :=
  mkEntry (e_selector e) (e_type e) (e_name e) (e_host e) (e_port e) (e_mimetype e) (e_encodedmimetype e)
          (e_size e) (e_encoding e) (e_language e) (e_ctime e) (e_mtime e) (e_num e)
          (e_gopherpsupport e) (e_populated e) ea.

(* Python truthiness of Optional[str] / Optional[int] *)
Definition truthy_str (x : option str) : bool :=
  match x with Some (_ :: _) => true | _ => false end.
Definition truthy_N (x : option N) : bool :=
  match x with Some n => negb (n =? 0) | None => false end.
(* `a or b` on Optional[str] where b is a value *)
Definition or_str (a : option str) (b : option str) : option str := if truthy_str a then a else b.
Definition or_N (a : option N) (b : option N) : option N := if truthy_N a then a else b.

(* gopherentry.getinfoentry(text, config) *)
Definition getinfoentry (text : str) : entry :=
  set_type (Some (lit "i")) (set_port (Some 0%Z) (set_host (Some (lit "(NULL)"))
    (set_name (Some text) (new_entry (lit "fake"))))).

(* ---------- dict helpers (insertion-ordered) ---------- *)
Fixpoint dict_get (k : str) (d : list (str * str)) : option str :=
  match d with
  | [] => None
  | (k', v) :: r => if str_eqb k k' then Some v else dict_get k r
  end.
Definition dict_has (k : str) (d : list (str * str)) : bool :=
  match dict_get k d with Some _ => true | None => false end.
(* d[k] = v : keeps the position of an existing key *)
Fixpoint dict_set (k v : str) (d : list (str * str)) : list (str * str) :=
  match d with
  | [] => [(k, v)]
  | (k', v') :: r => if str_eqb k k' then (k, v) :: r else (k', v') :: dict_set k v r
  end.

(* ---------- text-mode file reading as handleeaext does it ---------- *)
(* open(..., "r") has universal newlines: "\r\n" and a lone "\r" become "\n". *)
Fixpoint translate_newlines (s : str) : str :=
  match s with
  | [] => []
  | x :: r =>
      if x =? 13 then
        match r with
        | y :: r' => if y =? 10 then 10 :: translate_newlines r' else 10 :: translate_newlines r
        | [] => [10]
        end
      else x :: translate_newlines r
  end.

(* file.readlines(hint): whole lines until the running total of characters exceeds hint *)
Fixpoint take_hint (hint : N) (total : N) (ls : list str) : list str :=
  match ls with
  | [] => []
  | l :: r =>
      let total' := total + N.of_nat (List.length l) in
      if hint <? total' then [l] else l :: take_hint hint total' r
  end.
Definition readlines_hint (hint : N) (content : str) : list str :=
  take_hint hint 0 (lines_keepends (translate_newlines content)).

Definition EA_HINT : N := 20480.
(* "\n".join([x.rstrip() for x in rfile.readlines(20480)]); content = the decoded file *)
Definition ea_lines (content : str) : list str := map rstrip (readlines_hint EA_HINT content).
Definition ea_value (content : str) : str := join [10] (ea_lines content).

(* handleeaext(selector, vfs): `sidecar ext` is the decoded content of the file
   selector ++ ext, None when it cannot be opened (IOError).  Blocks already
   present are kept. *)
Fixpoint handleeaext_aux (sidecar : str -> option str) (eaexts : list (str * str))
         (ea : list (str * str)) : list (str * str) :=
  match eaexts with
  | [] => ea
  | (ext, blockname) :: r =>
      let ea' := if dict_has blockname ea then ea
                 else match sidecar ext with
                      | Some content => dict_set blockname (ea_value content) ea
                      | None => ea
                      end in
      handleeaext_aux sidecar r ea'
  end.
Definition handleeaext (sidecar : str -> option str) (eaexts : list (str * str)) (e : entry) : entry :=
  set_ea (handleeaext_aux sidecar eaexts (e_ea e)) e.

(* the shipped [GopherEntry] eaexts, in dict order *)
Definition default_eaexts : list (str * str) :=
  [(lit ".abstract", lit "ABSTRACT"); (lit ".keywords", lit "KEYWORDS");
   (lit ".ask", lit "ASK"); (lit ".3d", lit "3D")].

(* ---------- entry equality for correspondence checks ---------- *)
Definition optstr_eqb := opt_eqb str_eqb.
Definition ea_eqb (a b : list (str * str)) : bool :=
  list_eqb (fun x y => str_eqb (fst x) (fst y) && str_eqb (snd x) (snd y)) a b.
