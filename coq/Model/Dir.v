(* Dir.v — pygopherd/handlers/dir.py (DirHandler.prepare: prep_initfiles, sort,
   prep_entries) and the overrides of handlers/UMN.py (UMNDirHandler.prepare:
   dot files diverted to link processing, .cap, MergeLinkFiles, final sort by
   entrycmp), over an abstract directory.  Definitions only.

   The directory is a `world`: what the handler can observe through the VFS
   about the children of the directory it lists.  The enumeration order of
   os.listdir is the explicit argument `enum`. *)
From Coq Require Import ZArith String.
From PG Require Import Lib.Str Lib.Cmp Lib.Sort Lib.Regex Model.Selector Model.DirEntry Model.UMN.
Local Open Scope N_scope.

(* S_ISDIR / S_ISREG / S_ISFIFO / anything else; KUnreadable: a regular file according to stat, but the
   handler that takes it gets an OSError when it builds the entry (HTMLFileTitleHandler opens the file
   for its title, BuckGophermapHandler stats a *.gophermap file a second time) *)
Inductive kind := KDir | KFile | KFifo | KSpecial | KUnreadable.

Record world := mkWorld {
  w_selector : str;                  (* selector of the directory being listed *)
  w_stat : str -> option kind;       (* vfs.stat(base/name); None = OSError (gone, dangling, EACCES) *)
  w_info : str -> child_info;        (* what the accepting handler reports for base/name *)
  w_text : str -> option str;        (* decoded content of base/name; None = open() raises OSError *)
  w_cap : str -> option str;         (* decoded content of base/.cap/name; None = OSError *)
}.

(* selectorbase: "" for the root so that base + "/" + name has one slash *)
Definition base_of (sel : str) : str := if str_eqb sel [SLASH] then [] else sel.
Definition w_base (w : world) : str := base_of (w_selector w).
Definition child_sel (w : world) (n : str) : str := w_base w ++ SLASH :: n.

(* HandlerMultiplexer.getHandler(base/name).getentry() for a handler list in
   which (as in every shipped list) directories and regular files are taken by
   some handler and nothing takes a path that has no stat result or is a
   special file.  Every handler first applies the selector security filter. *)
Definition child_entry (w : world) (n : str) : result child_info :=
  if negb (is_secure (child_sel w n)) then Raise FileNotFound
  else match w_stat w n with
       | Some KDir | Some KFile => Ok (w_info w n)
       | Some KUnreadable => Raise IOErr          (* handler.getentry() *)
       | Some KFifo | Some KSpecial | None => Raise FileNotFound
       end.

Definition servable (w : world) (n : str) : bool :=
  match child_entry w n with Ok _ => true | Raise _ => false end.

(* prep_initfiles_canaddfile of DirHandler: not re.search(ignorepatt, base/name) *)
Definition ignored (alts : list alt) (w : world) (n : str) : bool :=
  re_search alts (child_sel w n).

Definition sort_names (l : list str) : list str := isort str_leb l.

(* prep_entries.  `child` is getHandler + getentry + prep_entriesappend:
   Ok None = the entry is not appended.  The pinned loop stops at the first
   exception; the repaired one skips a child for which getHandler raised
   FileNotFound or building the entry raised OSError (and nothing else). *)
Fixpoint prep_entries {A} (skip : exn -> bool) (child : str -> result (option A)) (names : list str)
  : result (list (str * A)) :=
  match names with
  | [] => Ok []
  | n :: r =>
      match child n with
      | Ok (Some a) => bind (prep_entries skip child r) (fun l => Ok ((n, a) :: l))
      | Ok None => prep_entries skip child r
      | Raise e => if skip e then prep_entries skip child r else Raise e
      end
  end.

(* which failures of a child the loop survives: FileNotFound from getHandler (D7),
   OSError from getHandler / getentry (D27) *)
Definition skip_of (fx : fixes) (e : exn) : bool :=
  match e with
  | FileNotFound => fx_skip_child fx
  | IOErr => fx_skip_unreadable fx
  | _ => false
  end.

Definition enum_order (fx : fixes) (enum : list str) : list str :=
  if fx_sorted_enum fx then sort_names enum else enum.

(* ---------- dir.DirHandler ---------- *)
Definition dir_child (w : world) (n : str) : result (option entry) :=
  bind (child_entry w n) (fun ci => Ok (Some (ci_entry ci))).

Definition dir_files (fx : fixes) (alts : list alt) (w : world) (enum : list str) : list str :=
  sort_names (filter (fun n => negb (ignored alts w n)) (enum_order fx enum)).

Definition dir_listing (fx : fixes) (alts : list alt) (w : world) (enum : list str)
  : result (list (str * entry)) :=
  prep_entries (skip_of fx) (dir_child w) (dir_files fx alts w enum).

(* ---------- UMN.UMNDirHandler ---------- *)
Definition is_dot (n : str) : bool := match n with c :: _ => c =? 46 | [] => false end.
Definition w_isdir (w : world) (n : str) : bool :=
  match w_stat w n with Some KDir => true | _ => false end.

Section UMNListing.
  (* processLinkFile on decoded text; the first argument is capfilepath *)
  Variable plf : option str -> str -> result (list lentry).
  Variable fx : fixes.
  Variable alts : list alt.
  Variable mode : stripmode.
  Variable w : world.

  (* prep_initfiles with UMN's prep_initfiles_canaddfile: returns the files to
     list and the link entries read on the way, in the order of iteration *)
  Fixpoint umn_scan (names : list str) (files : list str) (links : list lentry)
    : result (list str * list lentry) :=
    match names with
    | [] => Ok (files, links)
    | n :: r =>
        if ignored alts w n then umn_scan r files links
        else match n with
             | [] => Raise IndexError                       (* file[0] *)
             | _ =>
               if is_dot n then
                 if fx_dot_safe fx then
                   (* repaired: only a regular file is read, an unreadable one is skipped *)
                   match w_stat w n with
                   | Some KFile =>
                       match w_text w n with
                       | Some text => bind (plf None text) (fun ls => umn_scan r files (links ++ ls))
                       | None => umn_scan r files links
                       end
                   | _ => umn_scan r files links
                   end
                 else if w_isdir w n then umn_scan r files links  (* a "dot dir" *)
                 else match w_stat w n with
                      | Some KFifo => Raise Blocked            (* open() waits for a writer *)
                      | _ =>
                        match w_text w n with
                        | None => Raise IOErr
                        | Some text =>
                            bind (plf None text) (fun ls => umn_scan r files (links ++ ls))
                        end
                      end
               else umn_scan r (files ++ [n]) links
             end
    end.

  Definition umn_child (n : str) : result (option entry) :=
    bind (child_entry w n) (fun ci => umn_append plf mode (w_cap w n) n ci).

  Definition tag_origin (l : list (str * entry)) : list oentry :=
    map (fun ne => (Some (fst ne), snd ne)) l.

  (* selectors of the children prep_entriesappend did not append (Type=X / - in .cap) *)
  Definition cap_dropped (names : list str) : list str :=
    flat_map (fun n => match child_entry w n with
                       | Ok ci => match umn_append plf mode (w_cap w n) n ci with
                                  | Ok None => [e_selector (ci_entry ci)]
                                  | _ => []
                                  end
                       | Raise _ => []
                       end) names.

  Definition umn_listing_gen (enum : list str) : result (list oentry) :=
    bind (umn_scan (enum_order fx enum) [] []) (fun fl =>
    bind (prep_entries (skip_of fx) umn_child (sort_names (fst fl))) (fun fes =>
    bind (merge_link_files fx
            (prune fx (cap_dropped (sort_names (fst fl))) (dict_lookup (tag_origin fes)) (snd fl))
            (tag_origin fes)) (fun merged =>
    Ok (isort oentry_leb merged)))).
End UMNListing.

Definition umn_listing (fx : fixes) (alts : list alt) (mode : stripmode) (w : world) (enum : list str)
  : result (list oentry) :=
  umn_listing_gen (process_link_file fx (w_base w) (w_selector w)) fx alts mode w enum.

(* names of directory entries present in a listing *)
Fixpoint dir_names (l : list oentry) : list str :=
  match l with
  | [] => []
  | (Some n, _) :: r => n :: dir_names r
  | (None, _) :: r => dir_names r
  end.

(* ---------- "visible": the property's own words ---------- *)
(* DirHandler: not matched by the ignore pattern *)
Definition visible_dir (alts : list alt) (w : world) (n : str) : bool := negb (ignored alts w n).
(* UMNDirHandler: additionally not a dot file *)
Definition visible_umn (alts : list alt) (w : world) (n : str) : bool :=
  negb (ignored alts w n) && negb (is_dot n).

(* ---------- rendering of a Gopher menu (protocols/rfc1436.py renderobjinfo,
   base.py writedir/renderabstract with abstract_entries = always) ---------- *)
Definition TAB : N := 9.
Definition CRLF : str := [13; 10].
Definition print_Z (z : Z) : str :=
  match z with
  | Z0 => [48]
  | Zpos p => print_dec (Npos p)
  | Zneg p => 45 :: print_dec (Npos p)
  end.
Definition render_line (host : str) (port : Z) (e : entry) : result str :=
  match e_name e with
  | None => Raise TypeError                       (* str + None *)
  | Some nm =>
      Ok ((match e_type e with Some t => t | None => 48 end) :: nm ++ [TAB] ++ e_selector e ++ [TAB]
          ++ (match e_host e with Some h => h | None => host end) ++ [TAB]
          ++ print_Z (match e_port e with Some p => p | None => port end)
          ++ (if e_gplus e then [TAB; 43] else []) ++ CRLF)
  end.
Definition info_line (text : str) : str :=
  105 :: text ++ [TAB] ++ lit "fake"%string ++ [TAB] ++ lit "(NULL)"%string ++ [TAB; 48] ++ CRLF.
Definition render_abstract (e : entry) : str :=
  match ea_get EA_ABSTRACT (e_ea e) with
  | None => []
  | Some a => concat (map info_line (splitlines a))
  end.
(* writedir writes entry after entry: when an entry cannot be rendered the
   bytes of the earlier ones are already on the wire.  Returns what was
   written and the exception that cut it short, if any. *)
Fixpoint render_menu (host : str) (port : Z) (l : list entry) : str * option exn :=
  match l with
  | [] => ([], None)
  | e :: r =>
      match render_line host port e with
      | Raise x => ([], Some x)
      | Ok ln =>
          let '(rest, x) := render_menu host port r in
          (ln ++ render_abstract e ++ rest, x)
      end
  end.
