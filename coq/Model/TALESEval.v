(* TALESEval.v — simpleTALES.Context.evaluate and the expression types it dispatches to
   (evaluatePath with `|` alternation, evaluateExists, evaluateNoCall, evaluateNot,
   evaluateString with $name / ${path} / $$ interpolation, evaluatePython behind the
   allowPythonPath switch), as written.

   Values are abstract (Section variables): what the model needs from a value is whether it is
   None, whether it equals the default marker, its Python truth value and its text.  Path
   traversal (traversePath, with its canCall flag) and Python's eval are oracles; every use of the
   python oracle is counted, so "never evaluated" is a statement about that count.
   Results: None = PathNotFoundException.  Definitions only. *)
From Coq Require Import String.
From PG Require Import Lib.Str.
Local Open Scope N_scope.

Section Eval.
  Variable val : Type.
  Variable v_false v_true : val.               (* Context.false = 0, Context.true = 1 *)
  Variable v_str : str -> val.                 (* the str built by a string: expression *)
  Variable is_none : val -> bool.
  Variable is_default : val -> bool.           (* value == DEFAULTVALUE *)
  Variable truthy : val -> bool.               (* bool(value) *)
  Variable text_of : val -> str.               (* the value itself if it is a str, else str(value) *)
  Variable traverse : str -> bool -> option val.   (* traversePath(expr, canCall) *)
  Variable py : str -> val.                    (* eval(expr, globals, locals) incl. its exception text *)
  (* repaired code: the first alternative of `exists:a | b` / `nocall:a | b` is stripped like the others
     (true); the pinned code hands "a " with its trailing blank to traversePath (false) *)
  Variable strip1 : bool.

  Definition result := (option val * nat)%type.     (* value or PathNotFound, number of python evaluations *)

  Definition BAR : N := 124.
  Definition DOLLAR : N := 36.
  Definition LBRACE : N := 123.
  Definition RBRACE : N := 125.
  Definition SPACE : N := 32.

  (* evaluatePython *)
  Definition eval_python (allow : bool) (expr : str) : result :=
    if allow then (Some (py expr), 1%nat) else (Some v_false, 0%nat).

  (* `for path in allPaths: try: return self.evaluate(path.strip()) except PathNotFound: pass` *)
  Fixpoint first_found (ev : str -> result) (alts : list str) (n : nat) : result :=
    match alts with
    | [] => (None, n)
    | a :: r => match ev (strip a) with
                | (Some v, k) => (Some v, (n + k)%nat)
                | (None, k) => first_found ev r (n + k)%nat
                end
    end.

  (* evaluateExists: later alternatives count only when their value is true *)
  Fixpoint first_true (ev : str -> result) (alts : list str) (n : nat) : result :=
    match alts with
    | [] => (Some v_false, n)
    | a :: r => match ev (strip a) with
                | (Some v, k) => if truthy v then (Some v_true, (n + k)%nat) else first_true ev r (n + k)%nat
                | (None, k) => first_true ev r (n + k)%nat
                end
    end.

  Definition eval_path (ev : str -> result) (expr : str) : result :=
    match split_on BAR expr with
    | [single] => (traverse single true, 0%nat)
    | alts => first_found ev alts 0
    end.

  Definition first_alt (a : str) : str := if strip1 then strip a else a.

  Definition eval_exists (ev : str -> result) (expr : str) : result :=
    match split_on BAR expr with
    | [] => (Some v_false, 0%nat)
    | a :: r => match traverse (first_alt a) false with
                | Some _ => (Some v_true, 0%nat)
                | None => first_true ev r 0
                end
    end.

  Definition eval_nocall (ev : str -> result) (expr : str) : result :=
    match split_on BAR expr with
    | [] => (None, 0%nat)
    | a :: r => match traverse (first_alt a) false with
                | Some v => (Some v, 0%nat)
                | None => first_found ev r 0
                end
    end.

  Definition eval_not (ev : str -> result) (expr : str) : result :=
    match ev expr with
    | (None, k) => (Some v_true, k)
    | (Some v, k) =>
        if is_none v then (Some v_true, k)
        else if is_default v then (Some v_false, k)
        else if truthy v then (Some v_false, k) else (Some v_true, k)
    end.

  (* what a substituted value contributes: missing -> '', None -> nothing, else its text *)
  Definition subst_text (r : option val) : str :=
    match r with
    | None => []
    | Some v => if is_none v then [] else text_of v
    end.

  Fixpoint take_until (c : N) (s : str) : str * option str :=    (* up to the first c; rest starts AT c *)
    match s with
    | [] => ([], None)
    | x :: r => if x =? c then ([], Some s)
                else let '(a, b) := take_until c r in (x :: a, b)
    end.

  (* evaluateString: one pass over the characters *)
  Fixpoint string_loop (fuel : nat) (ev : str -> result) (s : str) (acc : str) (n : nat) : str * nat :=
    match fuel with
    | O => (rev acc, n)
    | S f =>
        match s with
        | [] => (rev acc, n)
        | c :: r =>
            if negb (c =? DOLLAR) then string_loop f ev r (c :: acc) n
            else
              match r with
              | [] => (rev acc, n)                                   (* trailing $ is dropped *)
              | d :: r' =>
                  if d =? DOLLAR then string_loop f ev r' (DOLLAR :: acc) n
                  else if d =? LBRACE then
                    match take_until RBRACE r' with
                    | (path, Some (_ :: after)) =>
                        let '(v, k) := ev path in
                        string_loop f ev after (rev (subst_text v) ++ acc) (n + k)%nat
                    | _ => string_loop f ev r acc n                  (* no closing brace: the $ disappears *)
                    end
                  else
                    let '(path, rest) := take_until SPACE r in
                    let after := match rest with Some t => t | None => [] end in
                    string_loop f ev after (rev (subst_text (traverse path true)) ++ acc) n
              end
        end
    end.

  Definition eval_string (ev : str -> result) (expr : str) : result :=
    let '(s, n) := string_loop (S (List.length expr)) ev expr [] 0 in (Some (v_str s), n).

  Definition has_prefix (p : String.string) (e : str) : option str :=
    if prefixb (lit p) e then Some (lstrip (skipn (List.length (lit p)) e)) else None.

  (* Context.evaluate *)
  Fixpoint evaluate (fuel : nat) (allow : bool) (expr : str) : result :=
    match fuel with
    | O => (None, 0%nat)
    | S f =>
        let ev := evaluate f allow in
        let e := strip expr in
        match has_prefix "path:" e with
        | Some x => eval_path ev x
        | None =>
        match has_prefix "exists:" e with
        | Some x => eval_exists ev x
        | None =>
        match has_prefix "nocall:" e with
        | Some x => eval_nocall ev x
        | None =>
        match has_prefix "not:" e with
        | Some x => eval_not ev x
        | None =>
        match has_prefix "string:" e with
        | Some x => eval_string ev x
        | None =>
        match has_prefix "python:" e with
        | Some x => eval_python allow x
        | None => eval_path ev e
        end end end end end end
    end.
End Eval.
