(* Protocol classes of pygopherd/protocols, as an enumeration. *)
Inductive proto :=
  | PWap | PGemini | PHttp | PHttps | PSpartan
  | PGopherPlus | PSGopherPlus | PGopher | PSGopher | PUrlGopherPlus.

Definition proto_eqb (a b : proto) : bool :=
  match a, b with
  | PWap, PWap | PGemini, PGemini | PHttp, PHttp | PHttps, PHttps
  | PSpartan, PSpartan | PGopherPlus, PGopherPlus | PSGopherPlus, PSGopherPlus
  | PGopher, PGopher | PSGopher, PSGopher | PUrlGopherPlus, PUrlGopherPlus => true
  | _, _ => false
  end.
