(* TALOut.v — what simpleTAL.TemplateInterpreter writes for dynamic data:
   cmdEndTagEndScope (text / structure content), tagAsText + cmdOutputStartTag (start tags with the
   current attributes), cmdAttributes (how evaluated attribute statements replace, remove or keep
   the attributes of the element).  Values are the strings str(value).  Definitions only. *)
From Coq Require Import String.
From PG Require Import Lib.Str Lib.HtmlEsc Model.TALProg Model.TALCompile Model.TALVM.
Local Open Scope N_scope.

(* cmdEndTagEndScope: contentType = structure flag; text is written as html.escape(v, quote=False) *)
Definition content_text (structure : bool) (v : str) : str := if structure then v else escape false v.

(* TemplateInterpreter.tagAsText is the same function as the compiler's *)
Definition start_tag_text (tag : str) (atts : list (str * str)) : str := tag_as_text tag atts.

(* cmdAttributes: result of each `name expression` statement *)
Inductive attval : Type := ANothing | ADefault | AValue (s : str).

Definition apply_attributes (evald : list (str * attval)) (cur : list (str * str)) : list (str * str) :=
  let new := flat_map (fun p => match snd p with AValue s => [(fst p, s)] | _ => [] end) evald in
  let gone := flat_map (fun p => match snd p with ADefault => [] | _ => [fst p] end) evald in
  new ++ filter (fun a => negb (mem_str (fst a) gone)) cur.

(* the output file as the data state of the abstract VM: cmdOutput appends its argument; the dynamic
   writers (start tags, content, end tags) depend on values and are not part of this instance *)
Definition out_upd (d : str) (pc : nat) (c : cmd) : str :=
  match c with COutput s => d ++ s | _ => d end.
Definition expand_static (p : program) (t : symtab) (m : macrotab) (fuel : nat) (c : ctx) : res (mach str) :=
  vm_run p t (all_subs p m) str (fun _ _ => true) (fun _ _ => RDefault) (fun _ _ => VDefault) (fun _ _ => MOther)
         out_upd fuel c [].
