(* TALProg.v — the byte code of simpletal/simpleTAL.py as the compiler emits it
   (TemplateCompiler.addTag / popTag / parseStartTag / compileCmdXxx), and the
   structural well-formedness of a compiled program:
     - START_SCOPE / ENDTAG_ENDSCOPE balanced and properly nested,
     - the commands of one element between its START_SCOPE and STARTTAG, in
       opcode = TAL priority order (METAL first, as parseStartTag concatenates them),
     - every symbol in a CONDITION / REPEAT / CONTENT / USE_MACRO / DEFINE_SLOT argument
       defined in the symbol table and pointing at the ENDTAG_ENDSCOPE of the element
       that owns the command,
     - every sub-template (macro, slot) range = exactly one element of the program.
   Definitions only. *)
From PG Require Import Lib.Str.

(* SubTemplate (startRange, endRangeSymbol) *)
Definition subt := (nat * nat)%type.
Definition slotmap := list (str * subt).

Inductive cmd : Type :=
| CDefine (args : list (bool * (str * str)))            (* 1: [(isLocal, (name, path))] *)
| CCondition (e : str) (sym : nat)                      (* 2 *)
| CRepeat (v e : str) (sym : nat)                       (* 3 *)
| CContent (repl struct : bool) (e : str) (sym : nat)   (* 4 (tal:content and tal:replace) *)
| CAttributes (args : list (str * str))                 (* 6 *)
| COmitTag (e : str)                                    (* 7 *)
| CStartScope (orig cur : list (str * str))             (* 8 *)
| COutput (s : str)                                     (* 9 *)
| CStartTag (tag : str) (single : bool)                 (* 10 *)
| CEndTagEndScope (tag : str) (omit single : bool)      (* 11 *)
| CNoOp                                                 (* 13 *)
| CUseMacro (e : str) (slots : slotmap) (sym : nat)     (* 14 *)
| CDefineSlot (name : str) (sym : nat).                 (* 15 *)

Definition program := list cmd.
Definition symtab := list (nat * nat).
Definition macrotab := list (str * subt).

Fixpoint lookup_sym (t : symtab) (s : nat) : option nat :=
  match t with
  | [] => None
  | (k, v) :: r => if Nat.eqb k s then Some v else lookup_sym r s
  end.

Fixpoint lookup_slot (t : slotmap) (s : str) : option subt :=
  match t with
  | [] => None
  | (k, v) :: r => if str_eqb k s then Some v else lookup_slot r s
  end.

(* ---- classification ---- *)
Definition is_scope (c : cmd) : bool := match c with CStartScope _ _ => true | _ => false end.
Definition is_stag (c : cmd) : bool := match c with CStartTag _ _ => true | _ => false end.
Definition is_etag (c : cmd) : bool := match c with CEndTagEndScope _ _ _ => true | _ => false end.
Definition is_out (c : cmd) : bool := match c with COutput _ | CNoOp => true | _ => false end.

(* position of a command in the per-element order: METAL (use-macro 14, define-slot 15) first,
   then the TAL commands by opcode (define 1, condition 2, repeat 3, content/replace 4, attributes 6,
   omit-tag 7) *)
Definition head_rank (c : cmd) : option nat :=
  match c with
  | CUseMacro _ _ _ => Some 1
  | CDefineSlot _ _ => Some 2
  | CDefine _ => Some 3
  | CCondition _ _ => Some 4
  | CRepeat _ _ _ => Some 5
  | CContent _ _ _ _ => Some 6
  | CAttributes _ => Some 7
  | COmitTag _ => Some 8
  | _ => None
  end.
Definition is_head (c : cmd) : bool := match head_rank c with Some _ => true | None => false end.

(* all commands are head commands, ranks strictly increasing, all above `lo` *)
Fixpoint head_sorted (lo : nat) (h : list cmd) : bool :=
  match h with
  | [] => true
  | c :: r => match head_rank c with
              | Some k => Nat.ltb lo k && head_sorted k r
              | None => false
              end
  end.

Definition cmd_sym (c : cmd) : option nat :=
  match c with
  | CCondition _ s | CRepeat _ _ s | CContent _ _ _ s | CUseMacro _ _ s | CDefineSlot _ s => Some s
  | _ => None
  end.

Definition opt_nat_eqb (a : option nat) (b : nat) : bool :=
  match a with Some x => Nat.eqb x b | None => false end.

(* every symbol used by a head command points at index e *)
Definition syms_ok (t : symtab) (e : nat) (h : list cmd) : bool :=
  forallb (fun c => match cmd_sym c with Some s => opt_nat_eqb (lookup_sym t s) e | None => true end) h.

(* split off the leading head commands *)
Fixpoint span_head (l : list cmd) : list cmd * list cmd :=
  match l with
  | c :: r => if is_head c then let '(h, rest) := span_head r in (c :: h, rest) else ([], l)
  | [] => ([], [])
  end.

(* ---- recursive-descent check ----
   check_items fuel t o l: l is the program suffix that starts at absolute index o.
   Reads body items (OUTPUT / whole elements) until an ENDTAG_ENDSCOPE or the end of the
   list; returns the unread rest and the (start, end) index pairs of the elements read. *)
Fixpoint check_items (fuel : nat) (t : symtab) (o : nat) (l : list cmd)
  : option (list cmd * list (nat * nat)) :=
  match fuel with
  | O => None
  | S f =>
      match l with
      | [] => Some ([], [])
      | c :: r =>
          if is_out c then check_items f t (S o) r
          else if is_etag c then Some (l, [])
          else if is_scope c then
            let '(h, r1) := span_head r in
            match r1 with
            | st :: r2 =>
                if is_stag st && head_sorted 0 h then
                  match check_items f t (o + 2 + length h) r2 with
                  | Some (en :: r3, spans_body) =>
                      let e := o + 2 + length h + (length r2 - length (en :: r3)) in
                      if is_etag en && syms_ok t e h then
                        match check_items f t (S e) r3 with
                        | Some (rest, spans_rest) => Some (rest, (o, e) :: spans_body ++ spans_rest)
                        | None => None
                        end
                      else None
                  | _ => None
                  end
                else None
            | [] => None
            end
          else None
      end
  end.

Fixpoint span_mem (s e : nat) (l : list (nat * nat)) : bool :=
  match l with
  | [] => false
  | (a, b) :: r => (Nat.eqb a s && Nat.eqb b e) || span_mem s e r
  end.

(* a sub-template (start, endsym) is one element of the program *)
Definition sub_ok (t : symtab) (spans : list (nat * nat)) (s : subt) : bool :=
  match lookup_sym t (snd s) with
  | Some e => span_mem (fst s) e spans
  | None => false
  end.

Definition cmd_slots (c : cmd) : list subt :=
  match c with CUseMacro _ sl _ => map snd sl | _ => [] end.
Definition prog_slots (p : program) : list subt := flat_map cmd_slots p.
(* everything that can be called as a template: the macros and all slot fillers *)
Definition all_subs (p : program) (m : macrotab) : list subt := map snd m ++ prog_slots p.

Definition wf_program (p : program) (t : symtab) (m : macrotab) : bool :=
  match check_items (S (length p)) t 0 p with
  | Some ([], spans) => forallb (sub_ok t spans) (all_subs p m)
  | _ => false
  end.

(* names bound by `global` define statements: the only variables an expansion may leave behind *)
Definition define_globals (c : cmd) : list str :=
  match c with
  | CDefine args => map (fun a => fst (snd a)) (filter (fun a => negb (fst a)) args)
  | _ => []
  end.
Definition prog_globals (p : program) : list str := flat_map define_globals p.
