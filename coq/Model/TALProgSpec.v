(* TALProgSpec.v — declarative statement of "structurally well-formed program":
   what Model/TALProg.wf_program (a boolean recursive-descent check) is shown to imply.
   Definitions only. *)
From PG Require Import Lib.Str Model.TALProg.

(* wfitems t o l : l is a sequence of body items (OUTPUT commands and whole elements) that
                   sits at absolute index o of the program;
   wfelem t o el : el = START_SCOPE, the element's commands in priority order, STARTTAG,
                   body items, ENDTAG_ENDSCOPE — sitting at index o — and every symbol used by
                   one of the element's commands is mapped by the symbol table t to the index of
                   that ENDTAG_ENDSCOPE. *)
Inductive wfitems (t : symtab) : nat -> list cmd -> Prop :=
| wi_nil : forall o, wfitems t o []
| wi_out : forall o c rest, is_out c = true -> wfitems t (S o) rest -> wfitems t o (c :: rest)
| wi_elem : forall o el rest, wfelem t o el -> wfitems t (o + length el) rest -> wfitems t o (el ++ rest)
with wfelem (t : symtab) : nat -> list cmd -> Prop :=
| we_intro : forall o sc head st body en,
    is_scope sc = true -> head_sorted 0 head = true -> is_stag st = true -> is_etag en = true ->
    syms_ok t (o + 2 + length head + length body) head = true ->
    wfitems t (o + 2 + length head) body ->
    wfelem t o (sc :: head ++ st :: body ++ [en]).

Scheme wfitems_ind2 := Induction for wfitems Sort Prop
  with wfelem_ind2 := Induction for wfelem Sort Prop.
Combined Scheme wf_mutind from wfitems_ind2, wfelem_ind2.
Scheme wfitems_min := Minimality for wfitems Sort Prop
  with wfelem_min := Minimality for wfelem Sort Prop.
Combined Scheme wf_min from wfitems_min, wfelem_min.

(* a sub-template (startRange, endRangeSymbol) denotes exactly one element of program p *)
Definition valid_sub (p : program) (t : symtab) (s : subt) : Prop :=
  exists pre el post e,
    p = pre ++ el ++ post /\ fst s = length pre /\ wfelem t (fst s) el /\
    lookup_sym t (snd s) = Some e /\ S e = fst s + length el.

Definition wf_spec (p : program) (t : symtab) (m : macrotab) : Prop :=
  wfitems t 0 p /\ forall s, In s (all_subs p m) -> valid_sub p t s.

(* the element's commands are in strictly increasing priority order *)
Definition rank_lt (a b : cmd) : Prop :=
  match head_rank a, head_rank b with Some x, Some y => x < y | _, _ => False end.

(* ---- the same statement with the element spans made explicit (one inductive, elements inlined):
        wfitemsS t o l spans — as wfitems t o l, and spans lists the (start, end) index pairs of the
        elements of l in the order in which the recursive-descent check meets them ---- *)
Inductive wfitemsS (t : symtab) : nat -> list cmd -> list (nat * nat) -> Prop :=
| wsi_nil : forall o, wfitemsS t o [] []
| wsi_out : forall o c rest sp, is_out c = true -> wfitemsS t (S o) rest sp -> wfitemsS t o (c :: rest) sp
| wsi_elem : forall o sc head st body en rest spb spr,
    is_scope sc = true -> head_sorted 0 head = true -> is_stag st = true -> is_etag en = true ->
    syms_ok t (o + 2 + length head + length body) head = true ->
    wfitemsS t (o + 2 + length head) body spb ->
    wfitemsS t (o + 3 + length head + length body) rest spr ->
    wfitemsS t o (sc :: head ++ st :: body ++ en :: rest) ((o, o + 2 + length head + length body) :: spb ++ spr).

(* the shape of a command: everything the structural check looks at (kind and symbol), no data *)
Definition shape (c : cmd) : cmd :=
  match c with
  | CDefine _ => CDefine []
  | CCondition _ s => CCondition [] s
  | CRepeat _ _ s => CRepeat [] [] s
  | CContent _ _ _ s => CContent false false [] s
  | CAttributes _ => CAttributes []
  | COmitTag _ => COmitTag []
  | CStartScope _ _ => CStartScope [] []
  | COutput _ => COutput []
  | CStartTag _ _ => CStartTag [] false
  | CEndTagEndScope _ _ _ => CEndTagEndScope [] false false
  | CNoOp => CNoOp
  | CUseMacro _ _ s => CUseMacro [] [] s
  | CDefineSlot _ s => CDefineSlot [] s
  end.
