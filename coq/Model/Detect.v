(* Detect.v — protocol autodetection: every protocol class's canhandlerequest
   (protocols/*.py) and ProtocolMultiplexer.getProtocol.  Definitions only. *)
From Coq Require Import String.
From PG Require Import Lib.Str Model.ProtoId Gen.Config.
Local Open Scope N_scope.

Definition TAB : N := 9.
Definition SPACE : N := 32.

(* BaseGopherProtocol.__init__: [arg.strip() for arg in request.split("\t")] *)
Definition requestlist (req : str) : list str := map strip (split_on TAB req).

(* ---- Gopher+ ---- *)
Definition first_is (c : N) (g : str) : bool :=
  match g with x :: _ => x =? c | [] => false end.
(* repaired test: g[0:1] == "+" or g == "!" or g[0:1] == "$" *)
Definition gplus_marker (g : str) : bool :=
  first_is 43 g || str_eqb g [33] || first_is 36 g.
(* pinned test: g[0] == "+" or g == "!" or g[0] == "$"  — IndexError (None) on "" *)
Definition gplus_marker_pinned (g : str) : option bool :=
  match g with [] => None | _ => Some (gplus_marker g) end.
Definition gplus_field (req : str) : option str :=
  match requestlist req with
  | [_; g] => Some g
  | [_; _; g] => Some g
  | _ => None
  end.
Definition gplus_shape (req : str) : bool :=
  match gplus_field req with Some g => gplus_marker g | None => false end.

(* ---- HTTP ---- *)
Definition http_parts (req : str) : list str := map strip (split_on SPACE req).
Definition GET : str := lit "GET".
Definition HEAD : str := lit "HEAD".
Definition HTTPSL : str := lit "HTTP/".
Definition http_shape (req : str) : bool :=
  match http_parts req with
  | [m; _; v] => (str_eqb m GET || str_eqb m HEAD) && str_eqb (slice_to 5 v) HTTPSL
  | _ => false
  end.

(* ---- WAP ---- *)
Definition lower_ascii (s : str) : str :=
  map (fun c => if (65 <=? c) && (c <=? 90) then c + 32 else c) s.
(* HTTPProtocol.headerslurp: lines until EOF / blank; split(":", 1); later duplicates win *)
Fixpoint slurp (lines : list str) (acc : list (str * str)) : list (str * str) :=
  match lines with
  | [] => acc
  | l :: r =>
      match l with
      | [] => acc
      | _ => let s := strip l in
             match s with
             | [] => acc
             | _ => match split_once 58 s with
                    | (k, Some v) => slurp r ((lower_ascii k, v) :: acc)
                    | (_, None) => slurp r acc
                    end
             end
      end
  end.
Fixpoint assoc (k : str) (l : list (str * str)) : option str :=
  match l with
  | [] => None
  | (k', v) :: r => if str_eqb k k' then Some v else assoc k r
  end.
(* re.search("[, ]text/vnd.wap.wml", v): None stands for `.` (any char but "\n") *)
Definition WAPRE : list (option N) :=
  map Some (lit "text/vnd") ++ [None] ++ map Some (lit "wap") ++ [None] ++ map Some (lit "wml").
Fixpoint match_here (pat : list (option N)) (s : str) : bool :=
  match pat, s with
  | [], _ => true
  | _ :: _, [] => false
  | Some c :: p, x :: r => (x =? c) && match_here p r
  | None :: p, x :: r => negb (x =? 10) && match_here p r
  end.
Fixpoint wap_accept_re (s : str) : bool :=
  match s with
  | [] => false
  | x :: r => (((x =? 44) || (x =? 32)) && match_here WAPRE r) || wap_accept_re r
  end.
Definition wap_headers_ok (hdrs : list str) : bool :=
  let h := slurp hdrs [] in
  match assoc (lit "accept") h with
  | None => false
  | Some v => wap_accept_re v &&
              (match assoc (lit "x-wap-profile") h with Some _ => true | None =>
               match assoc (lit "x-up-devcap-max-pdu") h with Some _ => true | None => false end end)
  end.
(* the target is the configured prefix itself or continues with "/" or "?" (whole path segment) *)
Definition wap_prefixed (waptop u : str) : bool :=
  str_eqb u waptop || prefixb (waptop ++ [47]) u || prefixb (waptop ++ [63]) u.
Definition wap_shape (waptop : str) (req : str) (hdrs : list str) : bool :=
  http_shape req &&
  match http_parts req with
  | [_; u; _] => wap_prefixed waptop u || wap_headers_ok hdrs
  | _ => false
  end.

(* ---- Gemini / Spartan ---- *)
Definition GEMINI : str := lit "gemini://".
Definition gemini_shape (req : str) : bool := prefixb GEMINI req.
Definition spartan_shape (req : str) : bool :=
  all_ascii req &&
  match split_on SPACE (strip req) with
  | [a; b; c] => negb (str_eqb a []) && negb (str_eqb b []) && negb (str_eqb c [])
                 && forallb is_ascii_digit c
  | _ => false
  end.

(* the request shape each class tests for, apart from TLS-ness *)
Definition shape (waptop : str) (p : proto) (req : str) (hdrs : list str) : bool :=
  match p with
  | PWap => wap_shape waptop req hdrs
  | PGemini => gemini_shape req
  | PHttp | PHttps => http_shape req
  | PSpartan => spartan_shape req
  | PGopherPlus | PSGopherPlus | PUrlGopherPlus => gplus_shape req
  | PGopher | PSGopher => true
  end.

(* canhandlerequest: `self.secure != self.check_tls()` first (Gemini: check_tls();
   Spartan: not check_tls()); the secure flags come from the source (Gen/Config.v). *)
Definition tls_ok (p : proto) (tls : bool) : bool :=
  match p with
  | PGemini => tls
  | PSpartan => negb tls
  | _ => Bool.eqb (secure_flag p) tls
  end.
Definition accepts (waptop : str) (p : proto) (tls : bool) (req : str) (hdrs : list str) : bool :=
  tls_ok p tls && shape waptop p req hdrs.

(* ProtocolMultiplexer.getProtocol: first acceptor in list order, None when nobody accepts *)
Fixpoint detect (waptop : str) (ps : list proto) (tls : bool) (req : str) (hdrs : list str) : option proto :=
  match ps with
  | [] => None
  | p :: r => if accepts waptop p tls req hdrs then Some p else detect waptop r tls req hdrs
  end.

(* ---- the pinned Gopher+ test, which can raise ---- *)
Inductive outcome := Claimed (p : proto) | Unclaimed | Raised.
Definition accepts_pinned (waptop : str) (p : proto) (tls : bool) (req : str) (hdrs : list str) : option bool :=
  match p with
  | PGopherPlus | PSGopherPlus | PUrlGopherPlus =>
      if tls_ok p tls then
        match gplus_field req with
        | Some g => gplus_marker_pinned g
        | None => Some false
        end
      else Some false
  | _ => Some (accepts waptop p tls req hdrs)
  end.
Fixpoint detect_pinned (waptop : str) (ps : list proto) (tls : bool) (req : str) (hdrs : list str) : outcome :=
  match ps with
  | [] => Unclaimed
  | p :: r => match accepts_pinned waptop p tls req hdrs with
              | None => Raised
              | Some true => Claimed p
              | Some false => detect_pinned waptop r tls req hdrs
              end
  end.

(* catch-all protocols: accept every line of their TLS-ness *)
Definition catch_all (p : proto) : bool :=
  match p with PGopher | PSGopher => true | _ => false end.
(* in `ps`, no catch-all precedes a specific protocol that could claim the same connection kind *)
Fixpoint catchall_last (ps : list proto) : bool :=
  match ps with
  | [] => true
  | p :: r =>
      (if catch_all p
       then forallb (fun q => catch_all q || negb (Bool.eqb (secure_flag q) (secure_flag p))) r
       else true) && catchall_last r
  end.

(* server.py BaseServer.wrap_socket: peek one byte, TLS iff it is 0x16 *)
Definition sniff_tls (first_byte : N) : bool := first_byte =? 22.
(* MSG_PEEK leaves the queue as it was *)
Definition peek (queue : list N) : option N * list N :=
  match queue with [] => (None, queue) | b :: _ => (Some b, queue) end.
