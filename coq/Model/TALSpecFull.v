(* TALSpecFull.v — all six TAL statements (define, condition, repeat, content | replace,
   attributes, omit-tag; no METAL): the data side of the interpreter as an instance of the abstract
   VM, and the tree-walking specification, both over an ABSTRACT environment.

   The environment E stands for simpleTALES.Context (locals, globals, local stack, repeat map and
   the repeat variables with their positions); its operations are Section variables:
     eval E expr originalAtts     Context.evaluate
     e_push / e_pop               pushLocals / popLocals
     e_local / e_global           setLocal / addGlobal
     e_add_repeat E name seq      addRepeat(name, RepeatVariable(seq), seq[0])
     e_next_repeat E name         repeatVariable.increment(); setLocal(name, current value)
     e_remove_repeat E name       removeRepeat(name); popLocals()
   Interpreter and specification apply these operations; the theorem of Proofs/TALSpecFullFacts.v says
   that they apply the SAME operations in the SAME order and write the same text, for every E.
   Definitions only. *)
From Coq Require Import String.
From PG Require Import Lib.Str Lib.HtmlEsc Model.TALProg Model.TALCompile Model.TALVM Model.TALOut.
Local Open Scope N_scope.

Section Full.
  Variable val : Type.
  Variable E : Type.
  Variable eval : E -> str -> list (str * str) -> val.
  Variable e_push e_pop : E -> E.
  Variable e_local e_global : E -> str -> val -> E.
  Variable e_add_repeat : E -> str -> val -> E.
  Variable e_next_repeat e_remove_repeat : E -> str -> E.
  Variable v_nothing v_default v_truth : val -> bool.
  Variable v_text : val -> str.
  Variable v_len : val -> option nat.      (* len(value) for a sequence, None when it has no length *)

  Definition is_true (v : val) : bool := negb (v_nothing v) && v_truth v.
  Definition classify (v : val) : attval :=
    if v_nothing v then ANothing else if v_default v then ADefault else AValue (v_text v).
  (* cmdRepeat, first visit: default -> no repeat; a sequence with items -> loop; anything else -> skip *)
  Definition repeat_dec (v : val) : rep_dec :=
    if v_nothing v then RSkip else if v_default v then RDefault
    else match v_len v with Some (S n) => RLoop n | _ => RSkip end.

  (* cmdDefine: statements one after the other, each evaluated in the environment left by the previous *)
  Fixpoint defines (args : list (bool * (str * str))) (orig : list (str * str)) (found : bool) (env : E) : bool * E :=
    match args with
    | [] => (found, env)
    | (isloc, (name, expr)) :: r =>
        let v := eval env expr orig in
        if isloc then defines r orig true (e_local (if found then env else e_push env) name v)
        else defines r orig found (e_global env name v)
    end.

  (* ---------------- (1) data registers ---------------- *)
  Record dregs : Type := mkDR {
    d_show : bool; d_orig : list (str * str); d_cur : list (str * str); d_tc : option (bool * val);
    d_lvd : bool;                                         (* localVarsDefined *)
    d_rep : option (nat * list (str * str))               (* items still to come, repeatAttributesCopy *)
  }.
  Record dstate : Type := mkDS { d_out : str; d_env : E; d_regs : dregs; d_stack : list dregs }.
  Definition dregs0 : dregs := mkDR true [] [] None false None.
  Definition dstate0 (env : E) : dstate := mkDS [] env dregs0 [].

  Definition upd_regs (f : dregs -> dregs) (d : dstate) : dstate := mkDS (d_out d) (d_env d) (f (d_regs d)) (d_stack d).
  Definition write (s : str) (d : dstate) : dstate := mkDS (d_out d ++ s) (d_env d) (d_regs d) (d_stack d).
  Definition set_env (env : E) (d : dstate) : dstate := mkDS (d_out d) env (d_regs d) (d_stack d).
  Definition tc_text (t : option (bool * val)) : str :=
    match t with Some (st, v) => content_text st (v_text v) | None => [] end.

  Definition data_upd (d : dstate) (pc : nat) (c : cmd) : dstate :=
    let r := d_regs d in
    let env := d_env d in
    match c with
    | CStartScope orig cur => mkDS (d_out d) env (mkDR true orig cur None false None) (r :: d_stack d)
    | CDefine args =>
        let '(found, env') := defines args (d_orig r) false env in
        mkDS (d_out d) env' (mkDR (d_show r) (d_orig r) (d_cur r) (d_tc r) found (d_rep r)) (d_stack d)
    | CCondition e _ =>
        if is_true (eval env e (d_orig r)) then d
        else upd_regs (fun r => mkDR false (d_orig r) (d_cur r) None (d_lvd r) (d_rep r)) d
    | CRepeat v e _ =>
        match d_rep r with
        | Some (k, copy) =>
            match k with
            | S k' => mkDS (d_out d) (e_next_repeat env v)
                           (mkDR true (d_orig r) copy None (d_lvd r) (Some (k', copy))) (d_stack d)
            | O => mkDS (d_out d) (e_remove_repeat env v)
                        (mkDR false (d_orig r) copy None (d_lvd r) None) (d_stack d)
            end
        | None =>
            let sv := eval env e (d_orig r) in
            match repeat_dec sv with
            | RDefault => d
            | RSkip => upd_regs (fun r => mkDR false (d_orig r) (d_cur r) (d_tc r) (d_lvd r) None) d
            | RLoop n => mkDS (d_out d) (e_add_repeat env v sv)
                              (mkDR (d_show r) (d_orig r) (d_cur r) (d_tc r) (d_lvd r) (Some (n, d_cur r))) (d_stack d)
            end
        end
    | CContent repl st e _ =>
        let v := eval env e (d_orig r) in
        if v_nothing v then (if repl then upd_regs (fun r => mkDR false (d_orig r) (d_cur r) (d_tc r) (d_lvd r) (d_rep r)) d else d)
        else if v_default v then d
        else upd_regs (fun r => mkDR (if repl then false else d_show r) (d_orig r) (d_cur r) (Some (st, v)) (d_lvd r) (d_rep r)) d
    | CAttributes args =>
        upd_regs (fun r => mkDR (d_show r) (d_orig r)
                    (apply_attributes (map (fun a => (fst a, classify (eval env (snd a) (d_orig r)))) args) (d_cur r))
                    (d_tc r) (d_lvd r) (d_rep r)) d
    | COmitTag e =>
        if is_true (eval env e (d_orig r)) then upd_regs (fun r => mkDR false (d_orig r) (d_cur r) (d_tc r) (d_lvd r) (d_rep r)) d else d
    | CStartTag tag _ => if d_show r then write (tag_as_text tag (d_cur r)) d else d
    | COutput s => write s d
    | CEndTagEndScope tag omit _ =>
        let d1 := write (tc_text (d_tc r) ++ (if d_show r && negb omit then end_tag_text tag else [])) d in
        match d_rep r with
        | Some _ => d1                                   (* loops back to the REPEAT command *)
        | None =>
            let env' := if d_lvd r then e_pop env else env in
            match d_stack d with
            | r0 :: rest => mkDS (d_out d1) env' r0 rest
            | [] => set_env env' d1
            end
        end
    | _ => d
    end.

  Definition data_cond (d : dstate) (c : cmd) : bool :=
    match c with CCondition e _ => is_true (eval (d_env d) e (d_orig (d_regs d))) | _ => true end.
  Definition data_val (d : dstate) (c : cmd) : val_dec :=
    match c with
    | CContent _ _ e _ => let v := eval (d_env d) e (d_orig (d_regs d)) in
                          if v_nothing v then VNothing else if v_default v then VDefault else VValue
    | _ => VDefault
    end.
  Definition data_rep (d : dstate) (c : cmd) : rep_dec :=
    match c with CRepeat _ e _ => repeat_dec (eval (d_env d) e (d_orig (d_regs d))) | _ => RDefault end.

  Definition expand_tal (p : program) (t : symtab) (fuel : nat) (c : ctx) (env : E) : res (mach dstate) :=
    vm_run p t [] dstate data_cond data_rep data_val (fun _ _ => MOther) data_upd fuel c (dstate0 env).

  (* ---------------- (2) the specification ---------------- *)
  Inductive tnode : Type :=
  | TOut (s : str)
  | TElem (orig cur : list (str * str)) (stmts : list cmd) (tag etag : str) (noend : bool) (body : list tnode).

  Inductive scontent : Type := SBody | SNone | SVal (structure : bool) (v : val).
  Record sstate : Type := mkSS { s_show : bool; s_content : scontent; s_atts : list (str * str) }.

  (* tal:repeat over k + 1 remaining items: `inst` writes one instance of the element *)
  Fixpoint rep_iter (inst : E -> str * E) (v : str) (k : nat) (env : E) (acc : str) : str * E :=
    let '(o, env1) := inst env in
    match k with
    | O => (acc ++ o, e_remove_repeat env1 v)
    | S k' => rep_iter inst v k' (e_next_repeat env1 v) (acc ++ o)
    end.

  (* the statements of one element, in priority order; `render` writes one instance of the element.
     A false condition / an empty or missing repeat sequence ends the walk: nothing is written and no
     later statement is evaluated. *)
  Section Walk.
    Variable orig : list (str * str).
    Variable render : E -> sstate -> str * E.

    Fixpoint walk (stmts : list cmd) (env : E) (st : sstate) : str * E :=
      match stmts with
      | [] => render env st
      | c :: rest =>
          match c with
          | CDefine args => walk rest (snd (defines args orig false env)) st      (* the locals are popped by the caller *)
          | CCondition e _ => if is_true (eval env e orig) then walk rest env st else ([], env)
          | CRepeat v e _ =>
              let sv := eval env e orig in
              match repeat_dec sv with
              | RDefault => walk rest env st
              | RSkip => ([], env)
              | RLoop n =>
                  (* n + 1 items: each instance starts from the element's own attributes *)
                  rep_iter (fun env1 => walk rest env1 (mkSS true SBody (s_atts st))) v n (e_add_repeat env v sv) []
              end
          | CContent repl structure e _ =>
              let v := eval env e orig in
              if v_nothing v then walk rest env (mkSS (if repl then false else s_show st) SNone (s_atts st))
              else if v_default v then walk rest env st
              else walk rest env (mkSS (if repl then false else s_show st) (SVal structure v) (s_atts st))
          | CAttributes args =>
              walk rest env (mkSS (s_show st) (s_content st)
                                  (apply_attributes (map (fun a => (fst a, classify (eval env (snd a) orig))) args) (s_atts st)))
          | COmitTag e => if is_true (eval env e orig) then walk rest env (mkSS false (s_content st) (s_atts st)) else walk rest env st
          | _ => walk rest env st
          end
      end.
  End Walk.

  Definition has_local_define (stmts : list cmd) : bool :=
    existsb (fun c => match c with CDefine args => existsb (fun a => fst a) args | _ => false end) stmts.

  Fixpoint spec_node (env : E) (n : tnode) : str * E :=
    match n with
    | TOut s => (s, env)
    | TElem orig cur stmts tag etag noend body =>
        let render := fun (env : E) (st : sstate) =>
          let '(inner, env1) :=
            match s_content st with
            | SBody => (fix forest (env : E) (l : list tnode) : str * E :=
                          match l with
                          | [] => ([], env)
                          | x :: r => let '(a, e1) := spec_node env x in let '(b, e2) := forest e1 r in (a ++ b, e2)
                          end) env body
            | SNone => ([], env)
            | SVal structure v => (content_text structure (v_text v), env)
            end in
          ((if s_show st then tag_as_text tag (s_atts st) else []) ++ inner ++
           (if s_show st && negb noend then end_tag_text etag else []), env1) in
        let '(out, env1) := walk orig render stmts env (mkSS true SBody cur) in
        (out, if has_local_define stmts then e_pop env1 else env1)
    end.

  Fixpoint spec_forest (env : E) (l : list tnode) : str * E :=
    match l with
    | [] => ([], env)
    | x :: r => let '(a, e1) := spec_node env x in let '(b, e2) := spec_forest e1 r in (a ++ b, e2)
    end.

  Definition tal_stmt (c : cmd) : bool :=
    match c with CDefine _ | CCondition _ _ | CRepeat _ _ _ | CContent _ _ _ _ | CAttributes _ | COmitTag _ => true | _ => false end.

  (* the program segment that represents a forest *)
  Inductive rep (t : symtab) : nat -> list cmd -> list tnode -> Prop :=
  | rep_nil : forall o, rep t o [] []
  | rep_out : forall o s rest f, rep t (S o) rest f -> rep t o (COutput s :: rest) (TOut s :: f)
  | rep_elem : forall o orig cur stmts tag sg etag noend sg' body bf rest f,
      forallb tal_stmt stmts = true -> head_sorted 0 stmts = true ->
      syms_ok t (o + 2 + length stmts + length body) stmts = true ->
      rep t (o + 2 + length stmts) body bf ->
      rep t (o + 3 + length stmts + length body) rest f ->
      rep t o (CStartScope orig cur :: stmts ++ CStartTag tag sg :: body ++ CEndTagEndScope etag noend sg' :: rest)
              (TElem orig cur stmts tag etag noend bf :: f).

  (* reading a program back as a forest (recursive descent, as Model/TALProg.check_items) *)
  Fixpoint parse_forest (fuel : nat) (t : symtab) (o : nat) (l : list cmd) : option (list tnode * list cmd) :=
    match fuel with
    | O => None
    | S f =>
        match l with
        | [] => Some ([], [])
        | COutput s :: r =>
            match parse_forest f t (S o) r with
            | Some (fr, rest) => Some (TOut s :: fr, rest)
            | None => None
            end
        | CEndTagEndScope _ _ _ :: _ => Some ([], l)
        | CStartScope orig cur :: r =>
            let '(h, r1) := span_head r in
            match r1 with
            | CStartTag tag _ :: r2 =>
                if forallb tal_stmt h && head_sorted 0 h then
                  match parse_forest f t (o + 2 + length h)%nat r2 with
                  | Some (bf, CEndTagEndScope etag noend sg' :: r3) =>
                      let e := (o + 2 + length h + (length r2 - length (CEndTagEndScope etag noend sg' :: r3)))%nat in
                      if syms_ok t e h then
                        match parse_forest f t (S e) r3 with
                        | Some (fr, rest) => Some (TElem orig cur h tag etag noend bf :: fr, rest)
                        | None => None
                        end
                      else None
                  | _ => None
                  end
                else None
            | _ => None
            end
        | _ => None
        end
    end.
End Full.

Arguments SBody {val}.
Arguments SNone {val}.
Arguments SVal {val} structure v.
Arguments mkSS {val}.
Arguments s_show {val}.
Arguments s_content {val}.
Arguments s_atts {val}.
Arguments mkDR {val}.
Arguments d_show {val}.
Arguments d_orig {val}.
Arguments d_cur {val}.
Arguments d_tc {val}.
Arguments d_lvd {val}.
Arguments d_rep {val}.
Arguments mkDS {val E}.
Arguments d_out {val E}.
Arguments d_env {val E}.
Arguments d_regs {val E}.
Arguments d_stack {val E}.
