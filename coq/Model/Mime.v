(* Mime.v — the MIME type pygopherd advertises for a file name.
   CPython 3.12 mimetypes.MimeTypes.guess_type(url, strict=False) for a selector
   (a selector always starts with "/", so urllib's scheme splitting never finds a
   scheme), posixpath.splitext, and gopherentry.py populatefromfs / guesstype.
   The tables are Section variables: suffix_map, encodings_map (with whatever the
   [pygopherd] encoding option adds, e.g. .bz2 and .tal), the strict and the
   common types map.  Definitions only. *)
From Coq Require Import String ZArith.
From PG Require Import Lib.Str Model.Entry.
Local Open Scope N_scope.

Definition SLASH : N := 47.
Definition DOT : N := 46.

(* ---------- posixpath.splitext ---------- *)
(* scanning the reversed path: characters of the extension up to the last dot;
   None when a "/" or the start comes first *)
Fixpoint span_ext (acc : str) (rp : str) : option (str * str) :=
  match rp with
  | [] => None
  | c :: r => if c =? SLASH then None
              else if c =? DOT then Some (acc, r)
              else span_ext (c :: acc) r
  end.
(* the file name has a character other than "." before that dot *)
Fixpoint has_nondot (rp : str) : bool :=
  match rp with
  | [] => false
  | c :: r => if c =? SLASH then false else if c =? DOT then has_nondot r else true
  end.
Definition splitext (p : str) : str * str :=
  match span_ext [] (rev p) with
  | Some (ext, rest) => if has_nondot rest then (rev rest, DOT :: ext) else (p, [])
  | None => (p, [])
  end.

(* ---------- str.lower(), exact where it matters ---------- *)
(* ASCII letters; the only two non-ASCII code points whose lower-case form
   contains an ASCII character are U+212A KELVIN SIGN -> "k" and U+0130 ->
   "i" + U+0307.  Every other non-ASCII character lower-cases to non-ASCII
   text, and is left as it is here: the table keys are ASCII, so a lookup fails
   either way. *)
Definition lower_c (c : N) : str :=
  if (65 <=? c) && (c <=? 90) then [c + 32]
  else if c =? 8490 then [107]
  else if c =? 304 then [105; 775]
  else [c].
Definition lower (s : str) : str := flat_map lower_c s.

Fixpoint assoc (k : str) (t : list (str * str)) : option str :=
  match t with
  | [] => None
  | (k', v) :: r => if str_eqb k k' then Some v else assoc k r
  end.

Section Tables.
  Variable suffix_map : list (str * str).
  Variable encodings_map : list (str * str).
  Variable types_strict : list (str * str).
  Variable types_common : list (str * str).

  (* while (ext_lower := ext.lower()) in suffix_map: base, ext = splitext(base + suffix_map[ext_lower]) *)
  Fixpoint suffix_loop (fuel : nat) (base ext : str) : str * str :=
    match fuel with
    | O => (base, ext)
    | S f =>
        match assoc (lower ext) suffix_map with
        | Some repl => let '(b, e) := splitext (base ++ repl) in suffix_loop f b e
        | None => (base, ext)
        end
    end.

  (* (type, encoding) *)
  Definition guess_type (url : str) : option str * option str :=
    let '(base0, ext0) := splitext url in
    let '(base, ext) := suffix_loop 8 base0 ext0 in
    let '(encoding, ext') :=
      match assoc ext encodings_map with        (* case sensitive *)
      | Some enc => (Some enc, snd (splitext base))
      | None => (None, ext)
      end in
    let e := lower ext' in
    match assoc e types_strict with
    | Some t => (Some t, encoding)
    | None => (assoc e types_common, encoding)
    end.

  (* ---------- gopherentry.py: the MIME attributes populatefromfs gives a file ---------- *)
  Variable default_mimetype : str.               (* [GopherEntry] defaultmimetype *)
  Definition OCTET : str := lit "application/octet-stream".

  (* (mimetype, encoding, encodedmimetype) for a fresh entry *)
  Definition file_mime_attrs (sel : str) : str * option str * option str :=
    let '(m, enc) := guess_type sel in
    let '(m1, enc1, em1) :=
      if truthy_str enc then (Some OCTET, enc, m) else (m, None, None) in
    ((if truthy_str m1 then match m1 with Some x => x | None => default_mimetype end
      else default_mimetype), enc1, em1).
  Definition file_mimetype (sel : str) : str := fst (fst (file_mime_attrs sel)).

  (* what the transforming handlers then put into entry.mimetype:
     file.CompressedFileHandler.getentry (when the encoding has a configured
     decompressor and the inner type is known) and tal.TALFileHandler.getentry *)
  Definition compressed_mimetype (decompressors : list str) (sel : str) : option str :=
    let '(m, enc, em) := file_mime_attrs sel in
    match enc with
    | Some e => if mem_str e decompressors && truthy_str em then em else Some m
    | None => Some m
    end.
  Definition tal_mimetype (sel : str) : option str :=
    let '(_, _, em) := file_mime_attrs sel in em.

  (* ---------- GopherEntry.guesstype over the [GopherEntry] mapping ---------- *)
  (* the regular expressions of the shipped mapping are all of three shapes *)
  Inductive mpat := PLit (s : str) | PLitDotPlus (s : str) | PAny.
  Definition mpat_match (p : mpat) (m : str) : bool :=
    match p with
    | PLit s => prefixb s m
    | PLitDotPlus s =>
        prefixb s m && match skipn (List.length s) m with c :: _ => negb (c =? 10) | [] => false end
    | PAny => true
    end.
  Fixpoint guesstype_with (mapping : list (mpat * str)) (m : str) : str :=
    match mapping with
    | [] => lit "0"
    | (p, t) :: r => if mpat_match p m then t else guesstype_with r m
    end.
  Definition default_mapping : list (mpat * str) :=
    [(PLit (lit "text/html"), lit "h"); (PLitDotPlus (lit "text/"), lit "0");
     (PLit (lit "application/mac-binhex40"), lit "4"); (PLitDotPlus (lit "audio/"), lit "s");
     (PLit (lit "image/gif"), lit "g"); (PLitDotPlus (lit "image/"), lit "I");
     (PLit (lit "application/gopher-menu"), lit "1"); (PLit (lit "application/gopher+-menu"), lit "1");
     (PLit (lit "multipart/mixed"), lit "M"); (PLitDotPlus (lit "application/"), lit "9");
     (PAny, lit "0")].
  Definition guesstype (m : str) : str := guesstype_with default_mapping m.

  (* ---------- populatefromfs ---------- *)
  Record statval := mkStat { st_isdir : bool; st_size : N; st_mtime : N; st_ctime : N }.

  (* os.path.basename *)
  Definition basename (p : str) : str := last (split_on SLASH p) [].

  (* `sidecar name` = decoded content of the file `name`, None when it cannot be opened *)
  Definition populatefromfs (eaexts : list (str * str)) (sidecar : str -> option str)
             (fspath : str) (st : option statval) (e : entry) : entry :=
    if e_populated e then e
    else if negb (match e_host e, e_port e with None, None => true | _, _ => false end) then e
    else match st with
    | None => e                                   (* stat failed: nothing is filled in *)
    | Some s =>
        let e1 := set_flags true true e in
        let e2 := set_times (or_N (e_ctime e1) (Some (st_ctime s))) (or_N (e_mtime e1) (Some (st_mtime s))) e1 in
        let e3 := set_name (or_str (e_name e2) (Some (basename (e_selector e2)))) e2 in
        if st_isdir s then
          let e4 := set_type (or_str (e_type e3) (Some (lit "1"))) e3 in
          let e5 := set_mimetype (or_str (e_mimetype e4) (Some (lit "application/gopher-menu"))) e4 in
          handleeaext (fun ext => sidecar (fspath ++ [SLASH] ++ ext)) eaexts e5
        else
          let e4 := handleeaext (fun ext => sidecar (fspath ++ ext)) eaexts e3 in
          let e5 := set_size (or_N (e_size e4) (Some (st_size s))) e4 in
          let '(m, enc) := guess_type (e_selector e5) in
          let e6 :=
            if truthy_str enc then
              set_encodedmimetype (or_str (e_encodedmimetype e5) m)
                (set_encoding (or_str (e_encoding e5) enc)
                  (set_mimetype (or_str (e_mimetype e5) (Some OCTET)) e5))
            else set_mimetype (or_str (e_mimetype e5) m) e5 in
          let e7 := if truthy_str (e_mimetype e6) then e6 else set_mimetype (Some default_mimetype) e6 in
          set_type (or_str (e_type e7)
                           (Some (guesstype (match e_mimetype e7 with Some x => x | None => [] end)))) e7
    end.
End Tables.
