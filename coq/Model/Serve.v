(* Serve.v — one request from the first byte to the decision of the handler chain:
   the composition of the models the other files give piecewise.

     server.py GopherRequestHandler.handle      readline + decode(surrogateescape)
     protocols/ProtocolMultiplexer.getProtocol  Model/Detect.v   `detect`
     <protocol class>.handle                    Model/Request.v  `route`
     handlers/HandlerMultiplexer.getHandler     Model/Handlers.v `get_handler`
     except FileNotFound -> filenotfound(str(e)) Model/Respond.v `respond ... (ONotFound msg)`
     replies written without a handler          Model/Respond.v  `respond_direct`

   Nothing is re-modelled here.  Definitions only; the facts are in
   Proofs/ServeFacts.v, the theorems in Props/C01Serve.v and Props/C03Serve.v, the tie
   to /repo in Corr/KServe.v + harness/kserve.py (real requests served end to end). *)
From Coq Require Import String.
From PG Require Import Lib.Str Lib.Bytes Lib.Utf8 Lib.PercentStr Lib.Urlparse Gen.Config Model.ProtoId
  Model.Selector Model.Detect Model.Request Model.Handlers Model.Respond.
Local Open Scope N_scope.

(* what the configuration file contributes to a decision *)
Record config := mk_config {
  c_handlers : list hid;       (* [handlers.HandlerMultiplexer] handlers, in order *)
  c_zip_enabled : bool;        (* [handlers.ZIP.ZIPHandler] enabled *)
  c_waptop : str;              (* [protocols.wap.WAPProtocol] waptop *)
  c_admin : str;               (* [protocols.gopherp.GopherPlusProtocol] admin *)
  c_protocols : list proto     (* [protocols.ProtocolMultiplexer] protocols, in order *)
}.

(* what handle() ends up doing, as far as the handler chain is concerned *)
Inductive decision :=
  | DNotFound (msg : str)          (* getHandler raised FileNotFound; msg = str(e) *)
  | DChosen (h : hid) (sel : str)  (* getHandler returned an object of class h built on sel *)
  | DDirect (reply : list N)       (* answered without asking a handler: icon, Gemini 59/10/30, Spartan "too large" *)
  | DNoReply.                      (* an exception other than FileNotFound / IOError leaves handle() *)

(* FileNotFound(selector, "no handler found", protocol).__str__ *)
Definition NO_HANDLER : str := lit "no handler found".
Definition fnf_message (selector : str) : str := notfound_msg selector NO_HANDLER.

(* HTTP/WAP: requestparts[0] == "HEAD" suppresses the icon body; nothing else of `env`
   matters for the replies produced here *)
Definition is_head (req : str) : bool := str_eqb (hd [] (http_parts req)) Detect.HEAD.
Definition req_env (cfg : config) (req : str) : env :=
  mk_env (c_admin cfg) (negb (is_head req)) None None.

(* ---- two worlds ---- *)
(* everything that exists: the tree below the document root, and whatever else (the file
   system outside the root, the spelling of the root in the configuration, the working
   directory of the process).  The server's answer is defined from w_tree alone. *)
Record world (O : Type) := mk_world {
  w_tree : tree;
  w_rootpath : str;
  w_cwd : str;
  w_outside : O
}.
Arguments w_tree {O}. Arguments w_rootpath {O}. Arguments w_cwd {O}. Arguments w_outside {O}.


Section Serve.
(* the oracles of Model/Handlers.v (MIME table, decompressor table, ZIP name pattern, the
   code inside PYG files) and the built-in icon table of protocols/http.py *)
Variable mime_html : str -> bool.
Variable compressed_ok : str -> bool.
Variable zip_pattern : str -> bool.
Variable pyg_accepts : str -> bool.
Variable icon_data : str -> list N.

Section Tree.
Variable cfg : config.
Variable root : tree.

Definition for_me : hid -> str -> bool :=
  is_for_me root mime_html compressed_ok (c_zip_enabled cfg) zip_pattern pyg_accepts.
Definition chain_choice (sel : str) : choice :=
  get_handler root mime_html compressed_ok (c_zip_enabled cfg) zip_pattern pyg_accepts (c_handlers cfg) sel.

(* URLTypeRewriter.gethandler: when the rewriter is the first class whose isrequestforme()
   holds, getHandler is entered a second time with selector[2:] (and a FileNotFound raised
   there names THAT selector) *)
Fixpoint reentry_in (hs : list hid) (sel : str) : option str :=
  match hs with
  | [] => None
  | h :: r =>
      if for_me h sel
      then match h with HRewriter => Some (rewriter_target sel) | _ => None end
      else reentry_in r sel
  end.
Definition reentry (sel : str) : option str := reentry_in (c_handlers cfg) sel.
(* the selector the "no handler found" exception carries *)
Definition nf_selector (sel : str) : str :=
  match reentry sel with Some t => t | None => sel end.

(* the routing result of the protocol composed with getHandler on the routed selector *)
Definition decide_routed (req : str) (r : routed) : decision :=
  match r with
  | ToHandler sel _ =>
      match chain_choice sel with
      | Chosen h s => DChosen h s
      | NotFound => DNotFound (fnf_message (nf_selector sel))
      end
  | Crash => DNoReply
  | _ => match respond_direct (req_env cfg req) icon_data r with
         | Some b => DDirect b
         | None => DNoReply
         end
  end.

(* `req` is the decoded first line, `body` the bytes after it (Spartan reads its search
   text from them) *)
Definition serve_decision (p : proto) (req : str) (body : list N) : decision :=
  decide_routed req (route p (c_waptop cfg) req body).

(* except GopherExceptions.FileNotFound as e: self.filenotfound(str(e)) / write_status(51|4, str(e)) *)
Definition serve_error_reply (p : proto) (req : str) (d : decision) : option (list N) :=
  match d with
  | DNotFound msg => respond (req_env cfg req) p (ONotFound msg)
  | _ => None
  end.

(* the complete reply, where this layer determines it (None for DChosen: the handler's
   body is the subject of C04/C07/...; None also when an encoder raises) *)
Definition serve_reply (p : proto) (req : str) (d : decision) : option (list N) :=
  match d with
  | DNotFound _ => serve_error_reply p req d
  | DDirect b => Some b
  | DNoReply => Some []
  | DChosen _ _ => None
  end.

(* every file-system path (as a selector below the root) the two passes through getHandler
   touch before a handler object is returned or FileNotFound is raised *)
Definition serve_accesses_sel (sel : str) : list (cls * str) :=
  chain_accesses (c_handlers cfg) sel ++
  match reentry sel with
  | Some t => chain_accesses (filter (fun x => negb (hid_eqb x HRewriter)) (c_handlers cfg)) t
  | None => []
  end.
Definition serve_accesses (p : proto) (req : str) (body : list N) : list (cls * str) :=
  match route p (c_waptop cfg) req body with
  | ToHandler sel _ => serve_accesses_sel sel
  | _ => []
  end.

(* ---- from the bytes on the wire: server.py reads one line, getProtocol picks the class ---- *)
Fixpoint lines_of (fuel : nat) (b : list N) : list (list N) :=
  match fuel with
  | O => []
  | S f => match b with
           | [] => []
           | _ => let '(l, r) := readline b in l :: lines_of f r
           end
  end.
(* what HTTPProtocol.headerslurp would read: the lines after the first, decoded one by one *)
Definition header_lines (rest : list N) : list str := map decode_se (lines_of (List.length rest) rest).

Definition serve_input (tls : bool) (input : list N) : option (proto * decision) :=
  let '(line, rest) := readline input in
  let req := decode_se line in
  match detect (c_waptop cfg) (c_protocols cfg) tls req (header_lines rest) with
  | None => None        (* getProtocol returns None; handle() dies on None.handle() *)
  | Some p => Some (p, serve_decision p req rest)
  end.
End Tree.

(* ---- the percent-decoded path each protocol normalises into its selector ---- *)
(* Gopher family: requestlist[0] as it is (no decoding at all); HTTP: unquote of the text
   before the first "?" of the target; WAP: the same after the prefix cut; Gemini: unquote of
   urlparse(...).path; Spartan: unquote of the second field.  ONE decoding pass: a second
   layer of percent escapes stays literal text. *)
Definition decoded_path (p : proto) (waptop req : str) : option str :=
  match p with
  | PGopher | PSGopher | PGopherPlus | PSGopherPlus | PUrlGopherPlus => Some (hd [] (requestlist req))
  | PHttp | PHttps =>
      match http_parts req with
      | _ :: t :: _ => Some (unquote_py (hd [] (split_on QMARK t)))
      | _ => None
      end
  | PWap =>
      match http_parts req with
      | _ :: t :: _ => Some (unquote_py (hd [] (split_on QMARK (if http_shape req then wap_strip waptop t else t))))
      | _ => None
      end
  | PGemini => option_map (fun u => unquote_py (u_path u)) (urlparse (strip req))
  | PSpartan =>
      match split_on SPACE (strip req) with
      | [_; path; _] => Some (unquote_py path)
      | _ => None
      end
  end.

(* ---- two worlds (record `world` above) ---- *)
Definition serve_world {O} (cfg : config) (w : world O) (p : proto) (req : str) (body : list N)
  : decision * option (list N) :=
  let d := serve_decision cfg (w_tree w) p req body in (d, serve_reply cfg p req d).
Definition serve_world_input {O} (cfg : config) (w : world O) (tls : bool) (input : list N)
  : option (proto * decision) := serve_input cfg (w_tree w) tls input.
End Serve.

(* the protocol whose reader must accept a direct reply *)
Definition is_http_family (p : proto) : bool := match p with PHttp | PHttps | PWap => true | _ => false end.
