(* Cache.v — the directory cache of pygopherd/handlers/dir.py as a state machine
   (DirHandler.prepare / loadcache / getdirlist / savecache; UMN.UMNDirHandler.prepare
   skips merge+sort when the cache was used, so the cached value is the final
   entry list of the writing request).  Definitions only.

   Time is Z in milliseconds.  The code compares the real clock with the
   *integer* mtime of the cache file:
       time.time() - statval[stat.ST_MTIME] < cachetime
   hence `fresh` floors the birth time to whole seconds.

   The file holds bytes; `enc` stands for pickle.dump(entries, fp, 1) and
   `decode` for pickle.load (None = the unpickler raises).  The entry list that
   is pickled is the one produced by prepare(): getdirlist() calls savecache()
   *before* the protocol renders (and, for Gopher+, mutates) the entries, so the
   stored value is `gen dir`, never a rendered/mutated one.

   `repaired = false` is the pinned loadcache (the unpickling error escapes
   prepare(): nothing is written, the client gets an empty reply — DESIGN §7 D6);
   `repaired = true` treats a failed load as a miss (proposed fix). *)
From Coq Require Import ZArith List Bool.
From PG Require Import Lib.Str.
Import ListNotations.
Local Open Scope Z_scope.

Definition bytes := list N.

Section Cache.
  Variables D L P : Type.          (* directory content, entry list, protocol *)
  Variable gen : D -> L.           (* prep_initfiles + sort + prep_entries (+ UMN merge/sort) *)
  Variable enc : L -> bytes.
  Variable decode : bytes -> option L.
  Variable life : Z.               (* [handlers.dir.DirHandler] cachetime, seconds *)

  (* hist: ghost variable, newest first: (time the content appeared, content) *)
  Record state := mk { dir : D; file : option (Z * bytes); now : Z; hist : list (Z * D) }.

  Definition init (d : D) (t : Z) : state := mk d None t [(t, d)].

  Inductive op :=
  | Mutate (f : D -> D)            (* create / delete / rename / edit metadata *)
  | Tick (dt : Z)                  (* the clock advances *)
  | List (p : P)                   (* a listing request through protocol p *)
  | ListF (p : P) (k : nat)        (* a listing request whose cache write fails after k bytes (disk or quota full,
                                      EFBIG, EIO): savecache swallows the IOError, the k-byte prefix stays on disk *)
  | Probe (p : P)                  (* a request for the directory that never reaches getdirlist():
                                      HTTP HEAD (prepare() runs, nothing is saved), Gopher+ `!` (no prepare()) *)
  | Damage (g : bytes).            (* the cache file is replaced by other bytes (crashed writer ...) *)

  Inductive reply :=
  | Served (p : P) (l : L) (hit : bool)     (* the client receives render p l *)
  | Crashed (p : P).                        (* exception out of prepare(): empty reply *)

  Definition ms (s : Z) : Z := s * 1000.
  Definition floor_s (t : Z) : Z := (t / 1000) * 1000.       (* statval[ST_MTIME] *)
  Definition fresh (now born : Z) : bool := now - floor_s born <? ms life.

  Inductive load := Hit (l : L) | Miss | Broken.

  (* loadcache: stat fails -> False; stale -> False; else open + pickle.load *)
  Definition loadcache (s : state) : load :=
    match file s with
    | None => Miss
    | Some (b, g) =>
        if fresh (now s) b then
          match decode g with Some l => Hit l | None => Broken end
        else Miss
    end.

  (* prep_initfiles / prep_entries, then getdirlist -> savecache (fromcache = False) *)
  Definition regenerate (s : state) (p : P) : state * option reply :=
    let l := gen (dir s) in
    (mk (dir s) (Some (now s, enc l)) (now s) (hist s), Some (Served p l false)).

  Definition do_list (repaired : bool) (s : state) (p : P) : state * option reply :=
    match loadcache s with
    | Hit l => (s, Some (Served p l true))       (* fromcache: savecache returns at once *)
    | Miss => regenerate s p
    | Broken => if repaired then regenerate s p else (s, Some (Crashed p))
    end.

  (* the same request when the write of the cache file fails after k bytes: open('wb') has truncated,
     k bytes are on disk, the error is swallowed ("except IOError: pass"), the reply is unaffected *)
  Definition regenerate_f (s : state) (p : P) (k : nat) : state * option reply :=
    let l := gen (dir s) in
    (mk (dir s) (Some (now s, firstn k (enc l))) (now s) (hist s), Some (Served p l false)).
  Definition do_list_f (repaired : bool) (s : state) (p : P) (k : nat) : state * option reply :=
    match loadcache s with
    | Hit l => (s, Some (Served p l true))
    | Miss => regenerate_f s p k
    | Broken => if repaired then regenerate_f s p k else (s, Some (Crashed p))
    end.

  Definition step (repaired : bool) (s : state) (o : op) : state * option reply :=
    match o with
    | Mutate f => let d := f (dir s) in (mk d (file s) (now s) ((now s, d) :: hist s), None)
    | Tick dt => (mk (dir s) (file s) (now s + dt) (hist s), None)
    | List p => do_list repaired s p
    | ListF p k => do_list_f repaired s p k
    | Probe _ => (s, None)
    | Damage g => (mk (dir s) (Some (now s, g)) (now s) (hist s), None)
    end.

  (* replies are stamped with the time and the directory content at the request *)
  Definition stamped := (Z * D * reply)%type.
  Definition stepacc (repaired : bool) (acc : state * list stamped) (o : op) : state * list stamped :=
    let s := fst acc in
    let '(s', r) := step repaired s o in
    (s', match r with Some x => (now s, dir s, x) :: snd acc | None => snd acc end).
  (* output newest first *)
  Definition run (repaired : bool) (s : state) (ops : list op) : state * list stamped :=
    fold_left (stepacc repaired) ops (s, []).

  (* ghost: content d was the directory at some instant tau, given the history
     (newest first) and the time up to which the newest snapshot is known to last *)
  Fixpoint alive (h : list (Z * D)) (upto tau : Z) (d : D) : Prop :=
    match h with
    | [] => False
    | (t, d') :: r => (d = d' /\ t <= tau <= upto) \/ alive r t tau d
    end.

  (* histories considered by the theorems: clock never runs backwards; damage
     never produces a decodable file (truncations, zero fill) *)
  Definition op_ok (o : op) : Prop :=
    match o with
    | Tick dt => 0 <= dt
    | Damage g => decode g = None
    | ListF _ k => forall l, decode (firstn k (enc l)) = None \/ firstn k (enc l) = enc l
    | _ => True
    end.
End Cache.

Arguments mk {D}. Arguments dir {D}. Arguments file {D}. Arguments now {D}. Arguments hist {D}.
Arguments init {D}.
Arguments Mutate {D P}. Arguments Tick {D P}. Arguments List {D P}. Arguments Probe {D P}. Arguments ListF {D P}. Arguments Damage {D P}.
Arguments Served {L P}. Arguments Crashed {L P}.
Arguments Hit {L}. Arguments Miss {L}. Arguments Broken {L}.
Arguments alive {D}.

(* ---------- a concrete self-delimiting toy codec (length prefix) ---------- *)
Definition toy_enc (l : list N) : bytes := N.of_nat (List.length l) :: l.
Definition toy_decode (g : bytes) : option (list N) :=
  match g with
  | [] => None
  | n :: r => if N.eqb (N.of_nat (List.length r)) n then Some r else None
  end.

Definition strict_prefix {A} (p l : list A) : Prop := exists r, r <> [] /\ l = p ++ r.

Arguments loadcache {D L} decode life s.
Arguments regenerate {D L P} gen enc s p.
Arguments do_list {D L P} gen enc decode life repaired s p.
Arguments step {D L P} gen enc decode life repaired s o.
Arguments stepacc {D L P} gen enc decode life repaired acc o.
Arguments run {D L P} gen enc decode life repaired s ops.
Arguments op_ok {D L P} enc decode o.
Arguments regenerate_f {D L P} gen enc s p k.
Arguments do_list_f {D L P} gen enc decode life repaired s p k.
