(* Wml.v — protocols/wap.py WAPProtocol.handlerwrite: a text/plain (or untyped)
   document is rewritten as WML, one escaped line per source line.
   Works on code points: `text` is the document decoded the way the code decodes
   each line (UTF-8 with surrogateescape); the wire bytes are the encoding of the
   result.  Definitions only. *)
From Coq Require Import String.
From PG Require Import Lib.Str Lib.HtmlEsc Lib.Crlf Model.Copy.
Local Open Scope N_scope.

Definition NL : str := [10].

(* wap.py wmlheader *)
Definition WML_HEADER : str :=
  lit "<?xml version=""1.0""?>" ++ NL ++
  lit "<!DOCTYPE wml PUBLIC ""-//WAPFORUM//DTD WML 1.1//EN""" ++ NL ++
  lit """http://www.wapforum.org/DTD/wml_1.1.xml"">" ++ NL ++
  lit "<wml>" ++ NL.
Definition WML_CARD : str :=
  lit "<card id=""index"" title=""Text File"" newcontext=""true"">" ++ NL ++ lit "<p>" ++ NL.
Definition WML_HEAD : str := WML_HEADER ++ WML_CARD.
Definition WML_PARA : str := lit "</p>" ++ NL ++ lit "<p>".
Definition WML_FOOT : str := lit "</p>" ++ NL ++ lit "</card>" ++ NL ++ lit "</wml>" ++ NL.

(* one source line, already right-stripped *)
Definition wml_piece (l : str) : str :=
  match l with
  | [] => WML_PARA
  | _ => escape true l ++ NL
  end.

(* the lines the loop sees: readline() on "\n", then rstrip() *)
Definition wml_source_lines (text : str) : list str := map rstrip (lines_keepends text).

Definition to_wml_body (text : str) : str := concat (map wml_piece (wml_source_lines text)).
Definition to_wml (text : str) : str := WML_HEAD ++ to_wml_body text ++ WML_FOOT.

(* ---------- decoder (what a WML reader recovers) ---------- *)
Fixpoint of_wml_body (fuel : nat) (s : str) : option (list str) :=
  match fuel with
  | O => None
  | S f =>
      if str_eqb s WML_FOOT then Some []
      else if prefixb WML_PARA s then
        option_map (cons []) (of_wml_body f (skipn (List.length WML_PARA) s))
      else match split_once 10 s with
           | (l, Some rest) => option_map (cons (unescape l)) (of_wml_body f rest)
           | (_, None) => None
           end
  end.
Definition of_wml (s : str) : option (list str) :=
  if prefixb WML_HEAD s then
    let b := skipn (List.length WML_HEAD) s in of_wml_body (S (List.length b)) b
  else None.

(* ---------- the WAP response for a document ---------- *)
(* GET through WAPProtocol: HTTP header block with the adjusted type; the body is
   converted when the type is text/plain or missing, passed through otherwise. *)
Definition wap_doc_text (lastmod : option str) (text : str) : str :=
  http_header_block lastmod WML_TYPE ++ to_wml text.
Definition wap_doc_raw (lastmod : option str) (m : option str) (body : bytes) : bytes :=
  http_header_block lastmod (wap_adjust m) ++ body.
