(* RenderUrl.v — how a directory entry becomes a line / row / item of a listing
   in every protocol other than plain Gopher (that one is Model/Render0.v):
     gopherentry.py  GopherEntry.geturl
     protocols/http.py    renderobjinfo, getrenderstr, getimgtag, renderdirstart,
                          renderdirend, filenotfound
     protocols/wap.py     getrenderstr (accesskey / postfield counters),
                          renderdirstart, renderdirend, filenotfound
     protocols/gemini.py, spartan.py   renderobjinfo, renderdirend
     protocols/base.py    writedir, renderabstract
     handlers/url.py      HTMLURLHandler.write
   (Gopher+ attribute blocks: Model/GopherPlus.v.)
   Text is `str` (code points); the wire bytes are its UTF-8/surrogateescape
   encoding.  `None` results stand for the exception Python raises at that point
   (AttributeError of `None.group`, UnicodeEncodeError of quote/encode, TypeError
   of `str + None`).  Definitions only. *)
From Coq Require Import String ZArith.
From PG Require Import Lib.Str Lib.Dec Lib.HtmlEsc Lib.Percent Lib.Utf8 Lib.PercentStr
     Model.Entry Model.Render0 Model.Wml.
Local Open Scope N_scope.

Definition LFc : N := 10.
Definition SLASHc : N := 47.

(* ---------- the two regular expressions on selectors ---------- *)
(* the maximal prefix without "\n" (what ".*" can cover) and the rest *)
Fixpoint span_line (s : str) : str * str :=
  match s with
  | [] => ([], [])
  | c :: r => if c =? LFc then ([], s) else let '(a, b) := span_line r in (c :: a, b)
  end.

(* `(.+)$` applied at the start of r (no DOTALL, no MULTILINE): the group, or
   None when the pattern does not match.  "$" is the end of the string or the
   position before a final "\n". *)
Definition dot_plus_eol (r : str) : option str :=
  let '(run, rest) := span_line r in
  match run with
  | [] => None
  | _ => match rest with
         | [] => Some run
         | [_] => Some run            (* rest starts with "\n": exactly the final newline *)
         | _ => None
         end
  end.

(* re.match("(/|)URL:", sel): the text after the prefix *)
Definition url_tail (sel : str) : option str :=
  if prefixb (lit "/URL:") sel then Some (skipn 5 sel)
  else if prefixb (lit "URL:") sel then Some (skipn 4 sel)
  else None.

(* re.search("^(/|)URL:.+://", sel) *)
Definition url_scheme_match (sel : str) : bool :=
  match url_tail sel with
  | Some r => match fst (span_line r) with
              | [] => false
              | _ :: t => contains (lit "://") t
              end
  | None => false
  end.

(* "{}".format(entry.gettype()) *)
Definition type_text (e : entry) : str :=
  match e_type e with Some t => t | None => lit "None" end.

(* entry.gettype() == c for a one-character constant *)
Definition type_is (e : entry) (c : N) : bool :=
  match e_type e with Some [x] => x =? c | _ => false end.
Definition T_INFO : N := 105.    (* i *)
Definition T_SEARCH : N := 55.   (* 7 *)

(* ---------- GopherEntry.geturl(defaulthost, defaultport) ---------- *)
Definition gopher_url_text (host : str) (port : Z) (quoted : str) : str :=
  lit "gopher://" ++ host ++ lit ":" ++ print_Z port ++ lit "/" ++ quoted.

Definition geturl (dhost : str) (dport : Z) (e : entry) : option str :=
  let sel := e_selector e in
  if url_scheme_match sel then
    Some (if prefixb [SLASHc] sel then skipn 5 sel else skipn 4 sel)
  else
    option_map (gopher_url_text (match e_host e with Some h => h | None => dhost end)
                                (match e_port e with Some p => p | None => dport end))
               (quote_str [SLASHc] (type_text e ++ sel)).

(* ---------- the link-target decision shared by HTTP, Gemini and Spartan ---------- *)
Definition falsy_port (p : option Z) : bool :=
  match p with None => true | Some z => Z.eqb z 0 end.
(* (not entry.gethost()) and (not entry.getport()) *)
Definition is_local (e : entry) : bool := negb (truthy_str (e_host e)) && falsy_port (e_port e).

Inductive family := FHttp | FGemini | FSpartan.
Definition QUERY_PREFIX : str := lit "/GEMINI-QUERY".

Definition local_url (f : family) (e : entry) : option str :=
  match f with
  | FHttp => quote_str [SLASHc] (e_selector e)
  | FGemini | FSpartan =>
      match encode_se (e_selector e) with
      | None => None
      | Some b =>
          let u := quote_bytes [SLASHc] b in
          let u := match u with [] => [SLASHc] | _ => u end in
          Some (match f with
                | FGemini => if type_is e T_SEARCH then QUERY_PREFIX ++ u else u
                | _ => u
                end)
      end
  end.

(* dport: the port handed to geturl for an entry without a port of its own: the server's port in the
   repaired code (/repo ee294ab), the constant 70 in the pinned code *)
Definition link_url (f : family) (srvname : str) (dport : Z) (e : entry) : option str :=
  match url_tail (e_selector e) with
  | Some r => dot_plus_eol r                      (* None: AttributeError *)
  | None => if is_local e then local_url f e else geturl srvname dport e
  end.

(* ---------- HTTP ---------- *)
Definition GENERIC_ICON : str := lit "generic.gif".
Definition icon_name (icons : list (str * str)) (e : entry) : str :=
  match e_type e with
  | Some t => match dict_get t icons with Some n => n | None => GENERIC_ICON end
  | None => GENERIC_ICON
  end.
Definition img_tag (icons : list (str * str)) (e : entry) : str :=
  lit "<IMG ALT="" * "" SRC=""" ++ (lit "/PYGOPHERD-HTTPPROTO-ICONS/" ++ icon_name icons e) ++
  lit """ WIDTH=""20"" HEIGHT=""22"" BORDER=""0"">".

(* re.search("/.+$", m).group()[1:] *)
Fixpoint subtype_search (s : str) : option str :=
  match s with
  | [] => None
  | c :: r => if c =? SLASHc then match dot_plus_eol r with
                                   | Some g => Some g
                                   | None => subtype_search r
                                   end
              else subtype_search r
  end.
Definition subtype_text (e : entry) : str :=
  if truthy_str (e_mimetype e) then
    match e_mimetype e with
    | Some m => match subtype_search m with Some g => g | None => [] end
    | None => []
    end
  else [].

Definition shown_name (e : entry) : str :=
  match e_name e with Some n => n | None => e_selector e end.

Definition HTTP_SEARCH_INPUTS : str :=
  lit "<INPUT TYPE=""text"" NAME=""searchrequest"" SIZE=""30"">" ++
  lit "<INPUT TYPE=""submit"" NAME=""Submit"" VALUE=""Submit"">" ++ lit "</FORM>".

(* getrenderstr(entry, url); `esc` = the html.escape(url) of the repaired code *)
Definition http_row_gen (esc : bool) (icons : list (str * str)) (e : entry) (url0 : str) : str :=
  let url := if esc then escape true url0 else url0 in
  let linked := negb (type_is e T_INFO) && negb (type_is e T_SEARCH) in
  lit "<TR><TD>" ++ img_tag icons e ++ lit "</TD>" ++ [LFc] ++ lit "<TD>&nbsp;" ++
  (if linked then lit "<A HREF=""" ++ url ++ lit """>" else []) ++
  lit "<TT>" ++ escape true (shown_name e) ++ lit "</TT>" ++
  (if linked then lit "</A>" else []) ++
  (if type_is e T_SEARCH
   then lit "<BR><FORM METHOD=""GET"" ACTION=""" ++ url ++ lit """>" ++ HTTP_SEARCH_INPUTS
   else []) ++
  lit "</TD><TD><FONT SIZE=""-2"">" ++ escape true (subtype_text e) ++ lit "</FONT></TD></TR>" ++ [LFc].
Definition http_row := http_row_gen true.
Definition http_row_pinned := http_row_gen false.

Definition http_renderobjinfo_gen (esc : bool) (icons : list (str * str)) (srvname : str) (dport : Z) (e : entry)
  : option str :=
  option_map (http_row_gen esc icons e) (link_url FHttp srvname dport e).
Definition http_renderobjinfo := http_renderobjinfo_gen true.
Definition http_renderobjinfo_pinned := http_renderobjinfo_gen false.

(* re.sub(pat, rep, s) for a literal pattern and a replacement without backslashes *)
Fixpoint replace_all_aux (fuel : nat) (pat rep s : str) : str :=
  match fuel with
  | O => s
  | S f =>
      match s with
      | [] => []
      | c :: r => if prefixb pat s then rep ++ replace_all_aux f pat rep (skipn (List.length pat) s)
                  else c :: replace_all_aux f pat rep r
      end
  end.
Definition replace_all (pat rep s : str) : str := replace_all_aux (List.length s) pat rep s.

Definition HTML_DOCTYPE : str :=
  lit "<!DOCTYPE HTML PUBLIC ""-//W3C//DTD HTML 4.0 Transitional//EN"" ""http://www.w3.org/TR/REC-html40/loose.dtd"">".

Definition title_suffix (d : entry) : str :=
  if truthy_str (e_name d) then lit ": " ++ escape true (shown_name d) else [].

(* the page topper after the substitution of GOPHERURL *)
Definition topper_text (pagetopper : option str) (dirurl : str) : str :=
  match pagetopper with
  | Some t => replace_all (lit "GOPHERURL") dirurl t
  | None => []
  end.

(* renderdirstart; d = the entry of the directory, dirurl = its geturl(server_name, server_port) *)
Definition http_dirstart_with (topper : str) (d : entry) : str :=
  HTML_DOCTYPE ++ [LFc] ++ lit "<HTML><HEAD><TITLE>Gopher" ++ title_suffix d ++
  lit "</TITLE></HEAD><BODY>" ++ topper ++
  lit "<H1>Gopher" ++ title_suffix d ++
  lit "</H1><TABLE WIDTH=""100%"" CELLSPACING=""1"" CELLPADDING=""0"">".
Definition http_dirstart (pagetopper : option str) (srvname : str) (srvport : Z) (d : entry) : option str :=
  match pagetopper with
  | None => Some (http_dirstart_with [] d)
  | Some _ => option_map (fun u => http_dirstart_with (topper_text pagetopper u) d) (geturl srvname srvport d)
  end.

Definition http_dirend_with (dirurl : str) : str :=
  lit "</TABLE><HR>" ++ [LFc] ++ lit "[<A HREF=""/"">server top</A>]" ++
  lit " [<A HREF=""" ++ dirurl ++ lit """>view with gopher</A>]" ++
  lit "<BR>Generated by <A HREF=""https://www.github.com/michael-lazar/pygopherd"">PyGopherd</A>" ++
  [LFc] ++ lit "</BODY></HTML>" ++ [LFc].
Definition http_dirend (srvname : str) (srvport : Z) (d : entry) : option str :=
  option_map http_dirend_with (geturl srvname srvport d).

(* filenotfound: status line and header, then the page *)
Definition HTTP_404_HEAD_LINES : list str := [lit "HTTP/1.0 404 Not Found"; lit "Content-Type: text/html"].
Definition HTTP_404_INDENT : str := lit "        ".
Definition http_404_page (msg : str) : str :=
  HTML_DOCTYPE ++ [LFc] ++ lit "<HTML><HEAD><TITLE>Selector Not Found</TITLE>" ++ [LFc] ++
  HTTP_404_INDENT ++ lit "<H1>Selector Not Found</H1>" ++ [LFc] ++
  HTTP_404_INDENT ++ lit "<TT>" ++ escape true msg ++ lit "</TT><HR>Pygopherd</BODY></HTML>" ++ [LFc].
Definition http_404 (msg : str) : str :=
  concat (map (fun l => l ++ [13; 10]) HTTP_404_HEAD_LINES) ++ [13; 10] ++ http_404_page msg.

(* the header lines of a successful reply are built from two values only: the
   formatted modification time and the MIME type of the entry (Model/Copy.v
   http_header_lines); stated here as a function of the whole entry so that the
   independence from the other fields is a theorem *)
Definition http_ok_head (adjust : option str -> str) (lastmod : option str) (e : entry) : list str :=
  [lit "HTTP/1.0 200 OK"] ++
  (match lastmod with Some t => [lit "Last-Modified: " ++ t] | None => [] end) ++
  [lit "Content-Type: " ++ adjust (e_mimetype e)].

(* ---------- WAP ---------- *)
Definition ACCESSKEYS : str := lit "1234567890#*".
Record wapst := mkWapst { ws_key : nat; ws_post : nat }.
Definition WAP0 : wapst := mkWapst 0 0.
Definition dec_nat (n : nat) : str := print_dec (N.of_nat n).

Definition wap_search_block (url : str) (post : nat) : str :=
  lit "<br/>" ++ [LFc] ++
  lit "  <input name=""sr" ++ dec_nat post ++ lit """/>" ++ [LFc] ++
  lit "<anchor>Go" ++ [LFc] ++
  lit "  <go method=""get"" href=""" ++ url ++ lit """>" ++ [LFc] ++
  lit "    <postfield name=""searchrequest"" value=""$(sr" ++ dec_nat post ++ lit ")""/>" ++ [LFc] ++
  lit "  </go>" ++ [LFc] ++
  lit "</anchor>" ++ [LFc].

Definition wap_row_gen (esc : bool) (waptop : str) (st : wapst) (e : entry) (url0 : str) : str * wapst :=
  let url1 := if prefixb [SLASHc] url0 then waptop ++ url0 else url0 in
  let url := if esc then escape true url1 else url1 in
  let linked := negb (type_is e T_INFO || type_is e T_SEARCH) in
  let '(open_a, key') :=
    if linked then
      match nth_error ACCESSKEYS (ws_key st) with
      | Some k => ([k] ++ lit " <a accesskey=""" ++ [k] ++ lit """ href=""" ++ url ++ lit """>", S (ws_key st))
      | None => (lit "<a href=""" ++ url ++ lit """>", ws_key st)
      end
    else ([], ws_key st) in
  (open_a ++ escape true (shown_name e) ++
   (if linked then lit "</a>" else []) ++
   (if type_is e T_SEARCH then wap_search_block url (ws_post st) else []) ++
   lit "<br/>" ++ [LFc],
   mkWapst key' (S (ws_post st))).
Definition wap_row := wap_row_gen true.
Definition wap_row_pinned := wap_row_gen false.

Definition wap_renderobjinfo_gen (esc : bool) (waptop srvname : str) (dport : Z) (st : wapst) (e : entry)
  : option (str * wapst) :=
  option_map (wap_row_gen esc waptop st e) (link_url FHttp srvname dport e).
Definition wap_renderobjinfo := wap_renderobjinfo_gen true.

(* renderdirstart: the title is escaped once when it comes from the name and once
   more when it is put into the card *)
Definition wap_title (d : entry) : str :=
  if truthy_str (e_name d) then escape true (shown_name d) else lit "Gopher".
Definition wap_dirstart (d : entry) : str :=
  WML_HEADER ++ lit "<card id=""index"" title=""" ++ escape true (wap_title d) ++ lit """ newcontext=""true"">" ++
  [LFc] ++ lit "<p>" ++ [LFc] ++
  lit "<b>" ++ escape true (wap_title d) ++ lit "</b><br/>" ++ [LFc].
Definition wap_dirend : str := WML_FOOT.

Definition WAP_404_HEAD_LINES : list str := [lit "HTTP/1.0 200 Not Found"; lit "Content-Type: text/vnd.wap.wml"].
Definition wap_404_page (msg : str) : str :=
  WML_HEADER ++ lit "<card id=""index"" title=""404 Error"" newcontext=""true"">" ++ [LFc] ++
  lit "<p><b>Gopher Error</b></p><p>" ++ [LFc] ++ escape true msg ++ [LFc] ++ WML_FOOT.
Definition wap_404 (msg : str) : str :=
  concat (map (fun l => l ++ [13; 10]) WAP_404_HEAD_LINES) ++ [13; 10] ++ wap_404_page msg.

(* ---------- Gemini, Spartan ---------- *)
(* bytes.decode("utf-8", "backslashreplace") after str.encode("utf-8",
   "surrogateescape"): the decoder hands the same undecodable bytes to the error
   handler as it does under surrogateescape; this handler writes them as \xNN
   (lower-case hexadecimal) *)
Definition is_esc_cp (c : N) : bool := (56448 <=? c) && (c <=? 56575).   (* U+DC80 .. U+DCFF *)
Definition hexdig_lower (d : N) : N := if d <? 10 then 48 + d else 87 + d.
Definition bsr_cp (c : N) : str :=
  if is_esc_cp c then let b := c - 56320 in [92; 120; hexdig_lower (b / 16); hexdig_lower (b mod 16)]
  else [c].
Definition bsr_map (s : str) : str := flat_map bsr_cp s.
Definition backslash_name (s : str) : option str :=
  option_map (fun b => bsr_map (decode_se b)) (encode_se s).

Definition gem_description (e : entry) : option str :=
  backslash_name (if truthy_str (e_name e) then shown_name e else []).

Definition gem_line (f : family) (e : entry) (url : str) (descr : str) : str :=
  if type_is e T_INFO then descr ++ [LFc]
  else (match f with
        | FSpartan => if type_is e T_SEARCH then lit "=: " else lit "=> "
        | _ => lit "=> "
        end) ++ url ++ [32] ++ descr ++ [LFc].

(* renderobjinfo: the URL is computed first, then the description *)
Definition gem_renderobjinfo (f : family) (srvname : str) (dport : Z) (e : entry) : option str :=
  match link_url f srvname dport e with
  | None => None
  | Some url => option_map (gem_line f e url) (gem_description e)
  end.

Definition gem_dirend (footer : option str) : str :=
  match footer with Some t => [LFc] ++ t ++ [LFc] | None => [] end.

(* ---------- the shared directory walk (protocols/base.py writedir) ---------- *)
Inductive ae_opt := AeAlways | AeUnsupported | AeNever.
Definition doabstracts (ae : ae_opt) (groks : bool) : bool :=
  match ae with AeAlways => true | AeUnsupported => negb groks | AeNever => false end.

Definition ABSTRACT : str := lit "ABSTRACT".
Definition abstract_of (e : entry) : option str := dict_get ABSTRACT (e_ea e).
(* the lines renderabstract turns into info entries: nothing for None or "" *)
Definition abstract_lines (a : option str) : list str :=
  match a with Some (c :: r) => splitlines (c :: r) | _ => [] end.

(* the sequence of entries handed to renderobjinfo, in order *)
Definition expand_entry (doabs : bool) (e : entry) : list entry :=
  e :: (if doabs then map getinfoentry (abstract_lines (abstract_of e)) else []).
Definition expand_dir (abs_headers doabs : bool) (d : entry) (es : list entry) : list entry :=
  (if abs_headers then map getinfoentry (abstract_lines (abstract_of d)) else []) ++
  flat_map (expand_entry doabs) es.

Section Walk.
  Variable St : Type.
  Variable row : St -> entry -> option (str * St).
  Fixpoint render_rows (st : St) (es : list entry) : option (str * St) :=
    match es with
    | [] => Some ([], st)
    | e :: r =>
        match row st e with
        | None => None
        | Some (s, st1) =>
            match render_rows st1 r with
            | None => None
            | Some (s2, st2) => Some (s ++ s2, st2)
            end
        end
    end.
End Walk.

Definition stateless (f : entry -> option str) (st : unit) (e : entry) : option (str * unit) :=
  option_map (fun s => (s, tt)) (f e).

Inductive lproto := LGopher | LGopherPlus | LHttp | LWap | LGemini | LSpartan.
Definition groksabstract (p : lproto) : bool :=
  match p with LGopherPlus => true | _ => false end.

Record lcfg := mkLcfg {
  c_srvname : str;
  c_srvport : Z;
  c_abs_headers : bool;
  c_abs_entries : ae_opt;
  c_icons : list (str * str);
  c_waptop : str;
  c_pagetopper : option str;
  c_gem_footer : option str;
  c_sp_footer : option str
}.

Definition dir_entries (p : lproto) (c : lcfg) (d : entry) (es : list entry) : list entry :=
  expand_dir (c_abs_headers c) (doabstracts (c_abs_entries c) (groksabstract p)) d es.

Definition opt_app (a : option str) (b : option str) : option str :=
  match a, b with Some x, Some y => Some (x ++ y) | _, _ => None end.

(* what writedir writes for the directory entry d and its entry list es *)
Definition render_dir (p : lproto) (c : lcfg) (d : entry) (es : list entry) : option str :=
  let rows := dir_entries p c d es in
  match p with
  | LGopher | LGopherPlus =>
      option_map fst (render_rows unit (stateless (gopher0_line (c_srvname c) (c_srvport c))) tt rows)
  | LHttp =>
      opt_app (http_dirstart (c_pagetopper c) (c_srvname c) (c_srvport c) d)
        (opt_app (option_map fst (render_rows unit (stateless (http_renderobjinfo (c_icons c) (c_srvname c) (c_srvport c))) tt rows))
                 (http_dirend (c_srvname c) (c_srvport c) d))
  | LWap =>
      opt_app (Some (wap_dirstart d))
        (opt_app (option_map fst (render_rows wapst (wap_renderobjinfo (c_waptop c) (c_srvname c) (c_srvport c)) WAP0 rows))
                 (Some wap_dirend))
  | LGemini =>
      opt_app (option_map fst (render_rows unit (stateless (gem_renderobjinfo FGemini (c_srvname c) (c_srvport c))) tt rows))
              (Some (gem_dirend (c_gem_footer c)))
  | LSpartan =>
      opt_app (option_map fst (render_rows unit (stateless (gem_renderobjinfo FSpartan (c_srvname c) (c_srvport c))) tt rows))
              (Some (gem_dirend (c_sp_footer c)))
  end.

(* ---------- handlers/url.py HTMLURLHandler.write ---------- *)
Definition redirect_url (sel : str) : str := if prefixb [SLASHc] sel then skipn 5 sel else skipn 4 sel.
Definition URLPAGE_IND : str := lit "        ".
Definition url_page_with (url : str) : str :=
  lit "<HTML><HEAD>" ++ [LFc] ++
  lit "<META HTTP-EQUIV=""refresh"" content=""5;URL=" ++ url ++ lit """>" ++
  lit "</HEAD><BODY>" ++ [LFc] ++
  [LFc] ++ URLPAGE_IND ++ lit "You are following a link from gopher to a website.  You will be" ++
  [LFc] ++ URLPAGE_IND ++ lit "automatically taken to the web site shortly.  If you do not get" ++
  [LFc] ++ URLPAGE_IND ++ lit "sent there, please click " ++
  lit "<A HREF=""" ++ url ++ lit """>here</A> " ++
  lit "to go to the web site." ++
  [LFc] ++ URLPAGE_IND ++ lit "<P>" ++
  [LFc] ++ URLPAGE_IND ++ lit "The URL linked is:" ++
  [LFc] ++ URLPAGE_IND ++ lit "<P>" ++
  lit "<A HREF=""" ++ url ++ lit """>" ++ url ++ lit "</A>" ++
  lit "<P>" ++
  [LFc] ++ URLPAGE_IND ++ lit "Thanks for using gopher!" ++
  [LFc] ++ URLPAGE_IND ++ lit "<P>" ++
  [LFc] ++ URLPAGE_IND ++ lit "Document generated by pygopherd handlers.url.HTMLURLHandler" ++
  [LFc] ++ URLPAGE_IND ++ lit "</BODY></HTML>".
Definition url_page (sel : str) : str := url_page_with (escape true (redirect_url sel)).
(* the page of the pinned tree already escaped; kept for symmetry of the slot theorems *)
Definition url_page_raw (sel : str) : str := url_page_with (redirect_url sel).
