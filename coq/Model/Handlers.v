(* Handlers.v — handlers/HandlerMultiplexer.py getHandler and every handler's
   isrequestforme / canhandlerequest, over an abstract file-system tree.
   Also the list of file-system paths (as selectors below the root) each handler
   touches while deciding.  Definitions only. *)
From Coq Require Import String.
From PG Require Import Lib.Str Gen.Secure Model.Selector.
Local Open Scope N_scope.

(* ---------- the served tree ---------- *)
Inductive tree :=
  | TFile (exec mboxline zip : bool)     (* S_IXOTH set; first line is an mbox From line; a valid ZIP *)
  | TDir (children : list (str * tree))
  | TOther.                               (* FIFO, socket, device ... *)

Inductive kind := KAbsent | KFile | KDir | KOther.
Record node := mkNode { nkind : kind; nexec : bool; nmbox : bool; nzip : bool }.
Definition absent : node := mkNode KAbsent false false false.
Definition node_of (t : tree) : node :=
  match t with
  | TFile x m z => mkNode KFile x m z
  | TDir _ => mkNode KDir false false false
  | TOther => mkNode KOther false false false
  end.

Fixpoint lookup_child (c : str) (ch : list (str * tree)) : option tree :=
  match ch with
  | [] => None
  | (n, t) :: r => if str_eqb c n then Some t else lookup_child c r
  end.

(* path resolution as the OS does it for a tree without symbolic links: every
   component but the last must be a directory; "" and "." stay; ".." is not
   needed (selectors carrying it never get as far as using a stat result). *)
Fixpoint walk (t : tree) (comps : list str) : node :=
  match comps with
  | [] => node_of t
  | c :: r =>
      match t with
      | TDir ch =>
          if str_eqb c [] || str_eqb c DOT then walk t r
          else if str_eqb c DOTDOT then absent
          else match lookup_child c ch with
               | Some t' => walk t' r
               | None => absent
               end
      | _ => absent
      end
  end.

(* VFS_Real.stat(selector): root ++ selector with ONE trailing slash stripped;
   ValueError (NUL) and OSError both leave "no stat result". *)
Definition strip1 (s : str) : str :=
  match last_char s with Some c => if c =? SLASH then drop_last s else s | None => s end.
Definition stat (root : tree) (sel : str) : node :=
  if has_nul sel then absent else walk root (components (strip1 sel)).
Definition isfile root sel := match nkind (stat root sel) with KFile => true | _ => false end.
Definition isdir root sel := match nkind (stat root sel) with KDir => true | _ => false end.

(* ---------- handler classes ---------- *)
Inductive hid :=
  | HUrl | HGophermap | HMaildirFolder | HMaildirMessage | HUMNDir | HDir | HHtmlTitle
  | HMboxMessage | HMboxFolder | HFile | HCompressed | HTal | HPyg | HExec | HZip | HRewriter.

Definition hid_eqb (a b : hid) : bool :=
  match a, b with
  | HUrl, HUrl | HGophermap, HGophermap | HMaildirFolder, HMaildirFolder | HMaildirMessage, HMaildirMessage
  | HUMNDir, HUMNDir | HDir, HDir | HHtmlTitle, HHtmlTitle | HMboxMessage, HMboxMessage
  | HMboxFolder, HMboxFolder | HFile, HFile | HCompressed, HCompressed | HTal, HTal | HPyg, HPyg
  | HExec, HExec | HZip, HZip | HRewriter, HRewriter => true
  | _, _ => false
  end.

Section Chain.
Variable root : tree.
Variable mime_html : str -> bool.       (* mimetypes.guess_type(selector)[0] == "text/html" *)
Variable compressed_ok : str -> bool.   (* CompressedFileHandler's encoding/decompressor/pattern test *)
Variable zip_enabled : bool.
Variable zip_pattern : str -> bool.     (* re.search(pattern, basename) *)
Variable pyg_accepts : str -> bool.     (* the loaded PYGMain(...).isrequestforme() — content is code *)

(* message selectors: "^" flag "(\d+)$" with the number >= 1 (ASCII digits) *)
Definition msg_args_ok (flag args : str) : bool :=
  prefixb flag args &&
  (let d := skipn (List.length flag) args in
   match d with
   | [] => false
   | _ => forallb is_ascii_digit d && negb (forallb (fun c => c =? 48) d)
          && (N.of_nat (List.length d) <=? 4300)     (* int() refuses longer digit strings: treated as no such message *)
   end).
Definition MBOXFLAG : str := lit "/MBOX-MESSAGE/".
Definition MAILDIRFLAG : str := lit "/MAILDIR-MESSAGE/".

(* Virtual.__init__: with an argument separator the stat is redone on the real part *)
Definition has_sep (s : str) : bool := mem_N QMARK s || mem_N PIPE s.
Definition vstat (sel : str) : node :=
  if has_sep sel then stat root (fst (virtual_split sel)) else stat root sel.

Definition exists_node (n : node) := match nkind n with KAbsent => false | _ => true end.
Definition is_file (n : node) := match nkind n with KFile => true | _ => false end.
Definition is_dir (n : node) := match nkind n with KDir => true | _ => false end.

(* ZIPHandler.canhandlerequest: walk up with os.path.split until a matching ZIP file is found *)
Definition path_head (s : str) : str :=     (* os.path.split(s)[0] for a secure selector *)
  let cs := components s in
  match rev cs with
  | [] => []
  | _ :: r => match rev r with
              | [] => []
              | [x] => if str_eqb x [] then [SLASH] else x     (* "/a" -> "/" ; "a" -> "" handled below *)
              | l => join [SLASH] l
              end
  end.
Fixpoint zip_walk (fuel : nat) (base : str) : bool :=
  (zip_pattern base && isfile root base && nzip (stat root base)) ||
  match fuel with
  | O => false
  | S f =>
      if str_eqb base [] || str_eqb base [SLASH] || str_eqb base DOT || str_eqb base (lit "./") then false
      else zip_walk f (path_head base)
  end.

(* canhandlerequest of each class; [sel] is the selector the handler object was built with *)
Definition can_handle (h : hid) (sel : str) : bool :=
  let st := stat root sel in
  let re := fst (virtual_split sel) in
  let ar := snd (virtual_split sel) in
  let vs := vstat sel in
  match h with
  | HUrl => url_canhandle sel
  | HGophermap => (is_dir st && isfile root (sel ++ lit "/gophermap")) || (is_file st && endswith sel (lit ".gophermap"))
  | HMaildirFolder => (match ar with [] => true | _ => false end) && is_dir vs
                      && isdir root (re ++ lit "/new") && isdir root (re ++ lit "/cur")
  | HMaildirMessage => exists_node vs && msg_args_ok MAILDIRFLAG ar
  | HMboxMessage => exists_node vs && msg_args_ok MBOXFLAG ar
  | HMboxFolder => (match ar with [] => true | _ => false end) && is_file vs && nmbox vs
  | HUMNDir | HDir => is_dir st
  | HHtmlTitle => is_file st && mime_html sel
  | HFile => is_file st
  | HCompressed => is_file st && compressed_ok sel
  | HTal => is_file st && endswith sel (lit ".tal")
  | HPyg => is_file vs && nexec vs && endswith re (lit ".pyg") && pyg_accepts sel
  | HExec => is_file vs && nexec vs
  | HZip => zip_enabled && zip_walk (List.length sel) sel
  | HRewriter => rewriter_accepts sel
  end.

(* isrequestforme: the security filter AND the handler's own test; only the URL
   handler overrides the filter (Gen/Secure.v lists every override in the source). *)
Definition is_for_me (h : hid) (sel : str) : bool :=
  match h with
  | HUrl => url_secure sel
  | _ => is_secure sel && can_handle h sel
  end.

Inductive choice := Chosen (h : hid) (sel : str) | NotFound.

Fixpoint first_handler (hs : list hid) (sel : str) : choice :=
  match hs with
  | [] => NotFound
  | h :: r => if is_for_me h sel then Chosen h sel else first_handler r sel
  end.

(* getHandler with the configured list [all]; URLTypeRewriter.gethandler re-enters
   with the rewriter removed and selector[2:] *)
Fixpoint get_handler_in (all hs : list hid) (sel : str) : choice :=
  match hs with
  | [] => NotFound
  | h :: r =>
      if is_for_me h sel then
        match h with
        | HRewriter => first_handler (filter (fun x => negb (hid_eqb x HRewriter)) all) (rewriter_target sel)
        | _ => Chosen h sel
        end
      else get_handler_in all r sel
  end.
Definition get_handler (all : list hid) (sel : str) : choice := get_handler_in all all sel.

(* ---------- what each decision touches (selectors below the root) ---------- *)
Inductive cls := AStat | AOpen | AExec.
Definition decide_accesses (h : hid) (sel : str) : list (cls * str) :=
  let re := fst (virtual_split sel) in
  match h with
  | HGophermap => [(AStat, sel ++ lit "/gophermap")]
  | HMaildirFolder => [(AStat, re ++ lit "/new"); (AStat, re ++ lit "/cur")]
  | HMboxFolder => [(AOpen, re)]
  | HPyg => [(AExec, re)]
  | _ => []
  end.
(* everything the chain touches for one request selector, in the order of the code:
   the early stat (always), the Virtual re-stats, then — only behind the filter — the
   per-handler probes *)
Definition chain_accesses (hs : list hid) (sel : str) : list (cls * str) :=
  (AStat, sel) ::
  (if has_sep sel then [(AStat, fst (virtual_split sel))] else []) ++
  flat_map (fun h => match h with
                     | HUrl => []
                     | _ => if is_secure sel then decide_accesses h sel else []
                     end) hs.
End Chain.
