(* Urlparse.v — CPython 3.12's urllib.parse.urlsplit / urlparse on `str`, and the
   part of urllib.parse.parse_qs that pygopherd uses (first value of one key).
   Definitions only; the comparison with the real functions is Corr/K05.v +
   harness/k05.py (ops urlparse / parse_qs).

   Modelled (urlsplit, Lib/urllib/parse.py of 3.12.1):
     url.lstrip(C0 controls and space); TAB, CR, LF removed anywhere;
     scheme = text before the first ":" when it starts with an ASCII letter and
     consists of letters, digits, "+-." (lower-cased); netloc when the rest
     starts with "//" (up to the first of "/?#"); ValueError when the netloc
     contains "[" without "]" or "]" without "["; fragment split at the first
     "#", then query at the first "?"; urlparse's ";params" split of the last
     path segment for the schemes in uses_params.
   NOT modelled: the two further checks that can raise ValueError —
     _check_bracketed_host (a netloc with "[" and "]": the bracketed text must
     be an IPv6 / IPvFuture literal, decided by the ipaddress module) and
     _checknetloc (a non-ASCII netloc whose NFKC form contains one of "/?#@:").
     `netloc_unchecked` says when one of them applies; there the real function
     either raises ValueError or returns what the model returns. *)
From Coq Require Import String.
From PG Require Import Lib.Str Lib.Bytes Lib.Percent Lib.Utf8 Lib.PercentStr.
Local Open Scope N_scope.

Definition COLON : N := 58.
Definition HASH : N := 35.
Definition QM : N := 63.
Definition SL : N := 47.
Definition SEMI : N := 59.
Definition LBR : N := 91.
Definition RBR : N := 93.
Definition AMPER : N := 38.
Definition EQUALS : N := 61.
Definition PLUSC : N := 43.
Definition SP : N := 32.

(* _WHATWG_C0_CONTROL_OR_SPACE = "\x00" .. "\x1f" and " " *)
Definition is_c0_space (c : N) : bool := c <=? 32.
Fixpoint lstrip_c0 (s : str) : str :=
  match s with
  | [] => []
  | x :: r => if is_c0_space x then lstrip_c0 r else s
  end.

(* _UNSAFE_URL_BYTES_TO_REMOVE = ["\t", "\r", "\n"] *)
Definition is_unsafe_url_char (c : N) : bool := (c =? 9) || (c =? 13) || (c =? 10).
Definition remove_unsafe (s : str) : str := filter (fun c => negb (is_unsafe_url_char c)) s.

Definition is_ascii_alpha (c : N) : bool :=
  ((65 <=? c) && (c <=? 90)) || ((97 <=? c) && (c <=? 122)).
(* scheme_chars: ASCII letters, digits, "+-." *)
Definition is_scheme_char (c : N) : bool :=
  is_ascii_alpha c || is_ascii_digit c || (c =? 43) || (c =? 45) || (c =? 46).
Definition ascii_lower (s : str) : str :=
  map (fun c => if (65 <=? c) && (c <=? 90) then c + 32 else c) s.

(* i = url.find(":"); if i > 0 and url[0] is an ASCII letter and url[:i] is made of
   scheme_chars: (url[:i].lower(), url[i+1:]) else ("", url) *)
Definition split_scheme (url : str) : str * str :=
  match find [COLON] url, url with
  | Some (S i), c :: _ =>
      let sch := firstn (S i) url in
      if is_ascii_alpha c && forallb is_scheme_char sch
      then (ascii_lower sch, skipn (S (S i)) url)
      else ([], url)
  | _, _ => ([], url)
  end.

(* (text before the first character satisfying `stop`, the rest from that character on) *)
Fixpoint span_until (stop : N -> bool) (s : str) : str * str :=
  match s with
  | [] => ([], [])
  | c :: r => if stop c then ([], s)
              else let '(a, b) := span_until stop r in (c :: a, b)
  end.

(* _splitnetloc(url, 2) when url[:2] == "//" *)
Definition is_netloc_delim (c : N) : bool := (c =? SL) || (c =? QM) || (c =? HASH).
Definition split_netloc (url : str) : str * str :=
  match url with
  | a :: b :: r => if (a =? SL) && (b =? SL) then span_until is_netloc_delim r else ([], url)
  | _ => ([], url)
  end.

Definition brackets_unbalanced (netloc : str) : bool :=
  xorb (mem_N LBR netloc) (mem_N RBR netloc).
Definition brackets_both (netloc : str) : bool := mem_N LBR netloc && mem_N RBR netloc.

(* x.split(c, 1) when c occurs, else (x, "") *)
Definition split1 (c : N) (s : str) : str * str :=
  match split_once c s with
  | (a, Some b) => (a, b)
  | (a, None) => (a, [])
  end.

Record url_parts := mk_url {
  u_scheme : str; u_netloc : str; u_path : str; u_params : str; u_query : str; u_fragment : str }.

(* what urlsplit works on after its clean-up steps *)
Definition url_clean (s : str) : str := remove_unsafe (lstrip_c0 s).

(* uses_params of 3.12 *)
Definition uses_params : list str :=
  [ []; lit "ftp"; lit "hdl"; lit "prospero"; lit "http"; lit "imap"; lit "https"; lit "shttp";
    lit "rtsp"; lit "rtsps"; lit "rtspu"; lit "sip"; lit "sips"; lit "mms"; lit "sftp"; lit "tel" ].

(* (s[: last c + 1], s[last c + 1 :]) ; None when c does not occur *)
Definition rpartition_keep (c : N) (s : str) : option (str * str) :=
  match split_once c (rev s) with
  | (a, Some b) => Some (rev b ++ [c], rev a)
  | (_, None) => None
  end.

(* urlparse: `if scheme in uses_params and ";" in url: url, params = _splitparams(url)`;
   _splitparams cuts at the first ";" of the last "/"-segment *)
Definition split_params (scheme path : str) : str * str :=
  if mem_str scheme uses_params && mem_N SEMI path then
    match rpartition_keep SL path with
    | Some (dir, seg) =>
        match split_once SEMI seg with
        | (a, Some b) => (dir ++ a, b)
        | (_, None) => (path, [])
        end
    | None => split1 SEMI path
    end
  else (path, []).

(* urllib.parse.urlparse(s) ; None = ValueError("Invalid IPv6 URL") *)
Definition urlparse (s : str) : option url_parts :=
  let '(scheme, r0) := split_scheme (url_clean s) in
  let '(netloc, r1) := split_netloc r0 in
  if brackets_unbalanced netloc then None else
  let '(r2, fragment) := split1 HASH r1 in
  let '(r3, query) := split1 QM r2 in
  let '(path, params) := split_params scheme r3 in
  Some (mk_url scheme netloc path params query fragment).

(* the netloc is subject to a check that is not modelled (see the header) *)
Definition netloc_unchecked (s : str) : bool :=
  let '(_, r0) := split_scheme (url_clean s) in
  let '(netloc, _) := split_netloc r0 in
  brackets_both netloc || negb (all_ascii netloc).

(* ---------- parse_qs ---------- *)
(* s.replace("+", " ") *)
Definition plus_to_space (s : str) : str := map (fun c => if c =? PLUSC then SP else c) s.

(* parse_qsl(qs, keep_blank_values=False, strict_parsing=False,
             errors="surrogateescape", separator="&"):
   fields = qs.split("&"); empty fields and fields without "=" are skipped, so are
   fields whose value is empty; name and value get "+" -> " " and unquote. *)
Definition qsl_field (f : str) : option (str * str) :=
  match split_once EQUALS f with
  | (n, Some v) =>
      match v with
      | [] => None
      | _ => Some (unquote_py (plus_to_space n), unquote_py (plus_to_space v))
      end
  | (_, None) => None
  end.
Fixpoint qsl_fields (fs : list str) : list (str * str) :=
  match fs with
  | [] => []
  | f :: r => match qsl_field f with
              | Some p => p :: qsl_fields r
              | None => qsl_fields r
              end
  end.
Definition parse_qsl (qs : str) : list (str * str) :=
  match qs with [] => [] | _ => qsl_fields (split_on AMPER qs) end.

(* parse_qs(qs, errors="surrogateescape").get(key, [None])[0] : the first value of `key` *)
Fixpoint first_value (key : str) (l : list (str * str)) : option str :=
  match l with
  | [] => None
  | (k, v) :: r => if str_eqb k key then Some v else first_value key r
  end.
Definition qs_first (key qs : str) : option str := first_value key (parse_qsl qs).
