(* Bsr.v — str.encode("utf-8", "backslashreplace") of CPython 3.12: every code point
   that UTF-8 cannot encode (the surrogates U+D800..U+DFFF, which is how
   surrogateescape carries raw bytes) is written as the six ASCII characters
   \udXXX with lower-case hexadecimal digits.  Definitions only; compared with the
   real codec by Corr/K03.v (chk_bsr). *)
From PG Require Import Lib.Str Lib.Bytes Lib.Utf8.
Local Open Scope N_scope.

(* "0123456789abcdef"[d] *)
Definition hexdig_l (d : N) : N := if d <? 10 then 48 + d else 87 + d.

Definition is_surrogate (c : N) : bool := (55296 <=? c) && (c <=? 57343).

Definition enc_cp_bsr (c : N) : list N :=
  if is_surrogate c then
    [92; 117; hexdig_l (c / 4096); hexdig_l ((c / 256) mod 16); hexdig_l ((c / 16) mod 16); hexdig_l (c mod 16)]
  else match enc_cp c with Some b => b | None => [] end.   (* None: not a code point at all *)

Definition encode_bsr (s : str) : list N := flat_map enc_cp_bsr s.

(* str.encode() / str.encode("utf-8") with the default "strict" handler; None = UnicodeEncodeError *)
Definition encode_strict (s : str) : option (list N) :=
  if forallb (fun c => negb (is_surrogate c)) s then encode_se s else None.
