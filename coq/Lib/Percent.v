(* Percent.v — urllib.parse.quote_from_bytes / unquote_to_bytes of CPython 3.12
   on byte strings (`list N`, every element < 256).  Definitions only; the
   facts are in PercentFacts.v, the comparison with the real functions in
   Corr/KCodec.v + harness/codec_check.py. *)
From PG Require Export Lib.Str Lib.Bytes.
Local Open Scope N_scope.

(* urllib.parse._ALWAYS_SAFE: ASCII letters, digits and "_.-~" *)
Definition is_unreserved (c : N) : bool :=
  ((65 <=? c) && (c <=? 90)) || ((97 <=? c) && (c <=? 122)) ||
  ((48 <=? c) && (c <=? 57)) ||
  (c =? 95) || (c =? 46) || (c =? 45) || (c =? 126).

(* "0123456789ABCDEF"[d] *)
Definition hexdig (d : N) : N := if d <? 10 then 48 + d else 55 + d.

(* value of a hexadecimal digit of either case *)
Definition hexval (c : N) : option N :=
  if (48 <=? c) && (c <=? 57) then Some (c - 48)
  else if (65 <=? c) && (c <=? 70) then Some (c - 55)
  else if (97 <=? c) && (c <=? 102) then Some (c - 87)
  else None.

Definition is_hex (c : N) : bool :=
  match hexval c with Some _ => true | None => false end.
Definition is_upper_hex (c : N) : bool :=
  ((48 <=? c) && (c <=? 57)) || ((65 <=? c) && (c <=? 70)).

(* _Quoter.safe = _ALWAYS_SAFE | {c in safe, c < 128}: quote_from_bytes drops the
   non-ASCII members of `safe` before building the table *)
Definition quote_keeps (safe : list N) (c : N) : bool :=
  is_unreserved c || ((c <? 128) && mem_N c safe).

(* _Quoter.__missing__: chr(b) or '%{:02X}'.format(b) *)
Definition quote_byte (safe : list N) (c : N) : list N :=
  if quote_keeps safe c then [c] else [37; hexdig (c / 16); hexdig (c mod 16)].

(* urllib.parse.quote_from_bytes(b, safe) ; the result is an ASCII str *)
Fixpoint quote_bytes (safe : list N) (b : list N) : list N :=
  match b with
  | [] => []
  | c :: r => quote_byte safe c ++ quote_bytes safe r
  end.

Definition quote_path : list N -> list N := quote_bytes [47].

(* urllib.parse.unquote_to_bytes on an ASCII str / on bytes: the input is split
   on "%"; a piece that starts with two hex digits is replaced by that byte plus
   the rest of the piece, every other piece keeps its "%".  Character by
   character: "%" followed by two hex digits is a byte, any other "%" is
   literal (the pieces contain no "%", so the two readings coincide). *)
Fixpoint unquote_bytes (s : list N) : list N :=
  match s with
  | [] => []
  | c :: r =>
      if c =? 37 then
        match r with
        | h :: l :: r' =>
            match hexval h, hexval l with
            | Some a, Some b => (16 * a + b) :: unquote_bytes r'
            | _, _ => 37 :: unquote_bytes r
            end
        | _ => 37 :: unquote_bytes r
        end
      else c :: unquote_bytes r
  end.
