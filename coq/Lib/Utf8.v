(* Utf8.v — CPython 3.12's UTF-8 codec with the "surrogateescape" error handler:
   bytes.decode("utf-8", "surrogateescape") and str.encode("utf-8",
   "surrogateescape").  bytes = `list N` (< 256), str = `list N` (code points).
   Definitions only; facts in Utf8Facts.v, comparison with the real codec in
   Corr/KCodec.v + harness/codec_check.py. *)
From PG Require Export Lib.Str Lib.Bytes.
Local Open Scope N_scope.

Definition is_cont (c : N) : bool := (128 <=? c) && (c <=? 191).

(* C2..DF 80..BF  (C0, C1 would be over-long) *)
Definition dec2_ok (x y : N) : bool := (194 <=? x) && (x <=? 223) && is_cont y.
Definition cp2 (x y : N) : N := (x - 192) * 64 + (y - 128).

(* E0 A0..BF 80..BF | E1..EC,EE,EF 80..BF 80..BF | ED 80..9F 80..BF
   (E0 80..9F is over-long, ED A0..BF would be a surrogate) *)
Definition dec3_ok (x y z : N) : bool :=
  (224 <=? x) && (x <=? 239) && is_cont y && is_cont z &&
  (if x =? 224 then 160 <=? y else true) && (if x =? 237 then y <? 160 else true).
Definition cp3 (x y z : N) : N := (x - 224) * 4096 + (y - 128) * 64 + (z - 128).

(* F0 90..BF | F1..F3 80..BF | F4 80..8F, then two continuation bytes
   (F0 80..8F is over-long, F4 90.. is above U+10FFFF, F5.. is never valid) *)
Definition dec4_ok (x y z w : N) : bool :=
  (240 <=? x) && (x <=? 244) && is_cont y && is_cont z && is_cont w &&
  (if x =? 240 then 144 <=? y else true) && (if x =? 244 then y <? 144 else true).
Definition cp4 (x y z w : N) : N :=
  (x - 240) * 262144 + (y - 128) * 4096 + (z - 128) * 64 + (w - 128).

(* the surrogateescape handler: undecodable byte b -> U+DC00 + b *)
Definition esc (x : N) : N := 56320 + x.

(* bytes.decode("utf-8", "surrogateescape").
   CPython escapes the lead byte together with the continuation bytes that were
   acceptable so far and resumes after them; those continuation bytes are
   themselves invalid start bytes, so escaping one byte and resuming at the next
   gives the same result (checked against the real codec by KCodec). *)
Fixpoint decode_se (b : list N) : list N :=
  match b with
  | [] => []
  | x :: r =>
      if x <? 128 then x :: decode_se r else
      match r with
      | y :: r2 =>
          if dec2_ok x y then cp2 x y :: decode_se r2 else
          match r2 with
          | z :: r3 =>
              if dec3_ok x y z then cp3 x y z :: decode_se r3 else
              match r3 with
              | w :: r4 =>
                  if dec4_ok x y z w then cp4 x y z w :: decode_se r4
                  else esc x :: decode_se r
              | [] => esc x :: decode_se r
              end
          | [] => esc x :: decode_se r
          end
      | [] => esc x :: decode_se r
      end
  end.

(* one code point; None = UnicodeEncodeError (a surrogate other than
   U+DC80..U+DCFF) or not a code point at all (> U+10FFFF) *)
Definition enc_cp (c : N) : option (list N) :=
  if c <? 128 then Some [c]
  else if c <? 2048 then Some [192 + c / 64; 128 + c mod 64]
  else if (55296 <=? c) && (c <=? 57343) then
    (if (56448 <=? c) && (c <=? 56575) then Some [c - 56320] else None)
  else if c <? 65536 then
    Some [224 + c / 4096; 128 + (c / 64) mod 64; 128 + c mod 64]
  else if c <? 1114112 then
    Some [240 + c / 262144; 128 + (c / 4096) mod 64; 128 + (c / 64) mod 64; 128 + c mod 64]
  else None.

(* str.encode("utf-8", "surrogateescape") *)
Fixpoint encode_se (s : list N) : option (list N) :=
  match s with
  | [] => Some []
  | c :: r =>
      match enc_cp c, encode_se r with
      | Some a, Some b => Some (a ++ b)
      | _, _ => None
      end
  end.

(* a Python str: every element is a code point *)
Definition is_cp (c : N) : bool := c <? 1114112.
Definition is_pystr (s : list N) : bool := forallb is_cp s.
