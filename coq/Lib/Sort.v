(* Sort.v — stable insertion sort over a boolean "not greater" test.
   Python's list.sort(key=cmp_to_key(f)) only ever asks `f a b < 0`; with
   ltb a b := f a b <? 0 the model sorts with leb a b := negb (ltb b a).
   Definitions only; facts in Lib/SortFacts.v. *)
From Coq Require Import List Bool.
Import ListNotations.

Section Sort.
  Context {A : Type}.
  Variable leb : A -> A -> bool.

  (* x is placed in front of the first element it is not greater than:
     elements already in the list that are equivalent to x stay behind it
     only if they came later in the input (isort folds from the right). *)
  Fixpoint insert (x : A) (l : list A) : list A :=
    match l with
    | [] => [x]
    | y :: r => if leb x y then x :: l else y :: insert x r
    end.

  Definition isort (l : list A) : list A := fold_right insert [] l.

  Definition eqvb (x y : A) : bool := leb x y && leb y x.

  (* strongly sorted: every element is <= everything after it *)
  Fixpoint ssorted (l : list A) : Prop :=
    match l with
    | [] => True
    | x :: r => (forall y, In y r -> leb x y = true) /\ ssorted r
    end.

  Fixpoint ssortedb (l : list A) : bool :=
    match l with
    | [] => true
    | x :: r => forallb (leb x) r && ssortedb r
    end.
End Sort.
