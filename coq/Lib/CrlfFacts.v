(* CrlfFacts.v — a client that reads CRLF-terminated lines recovers exactly the
   lines that were written, provided no line contains a line feed. *)
From Coq Require Import Lia.
From PG Require Import Lib.Str Lib.StrFacts Lib.Crlf.
Local Open Scope N_scope.

Definition no_lf (l : str) : Prop := mem_N LF l = false.

Lemma no_lf_app a b : no_lf (a ++ b) <-> no_lf a /\ no_lf b.
Proof.
  unfold no_lf. induction a as [|x a IH]; cbn [app mem_N]; [tauto|].
  rewrite !orb_false_iff, IH. tauto.
Qed.

Lemma no_lf_cons x a : no_lf (x :: a) <-> x <> LF /\ no_lf a.
Proof.
  unfold no_lf. cbn [mem_N]. rewrite orb_false_iff, N.eqb_neq. split; intros [H1 H2]; split; auto.
Qed.

Lemma cut_crlf_line l r : no_lf l -> cut_crlf (l ++ crlf ++ r) = Some (l, r).
Proof.
  induction l as [|x l IH]; intros H.
  - reflexivity.
  - apply no_lf_cons in H as [Hx Hl].
    change ((x :: l) ++ crlf ++ r) with (x :: (l ++ crlf ++ r)).
    cbn [cut_crlf]. rewrite (IH Hl).
    assert (E : starts_crlf (x :: l ++ crlf ++ r) = false).
    { unfold starts_crlf. destruct l as [|y l]; simpl.
      - destruct (x =? CR) eqn:E1; [|reflexivity]. (* x = CR, next is CR, not LF *) reflexivity.
      - destruct (x =? CR); [|reflexivity]. simpl.
        apply no_lf_cons in Hl as [Hy _]. now apply N.eqb_neq. }
    rewrite E. reflexivity.
Qed.

Lemma cut_crlf_empty r : cut_crlf (crlf ++ r) = Some ([], r).
Proof. reflexivity. Qed.

(* ---- split_crlf ---- *)
Lemma split_crlf_aux_line cur l r :
  no_lf l -> no_lf cur ->
  split_crlf_aux cur (l ++ crlf ++ r) =
  (let '(ls, rest) := split_crlf_aux [] r in ((rev cur ++ l) :: ls, rest)).
Proof.
  revert cur; induction l as [|x l IH]; intros cur Hl Hc.
  - simpl. now rewrite app_nil_r.
  - apply no_lf_cons in Hl as [Hx Hl].
    change ((x :: l) ++ crlf ++ r) with (x :: (l ++ crlf ++ r)). cbn [split_crlf_aux].
    assert (E : x =? LF = false) by now apply N.eqb_neq.
    rewrite E. simpl andb. rewrite (IH (x :: cur) Hl (proj2 (no_lf_cons x cur) (conj Hx Hc))).
    destruct (split_crlf_aux [] r) as [ls rest]. simpl. now rewrite <- app_assoc.
Qed.

Theorem split_crlf_unlines ls :
  Forall no_lf ls -> split_crlf (unlines_crlf ls) = (ls, []).
Proof.
  unfold split_crlf, unlines_crlf. induction ls as [|l ls IH]; intros H; [reflexivity|].
  inversion H as [|? ? Hl Hls]; subst. simpl concat. rewrite <- app_assoc.
  rewrite split_crlf_aux_line; [|exact Hl|reflexivity]. rewrite (IH Hls). reflexivity.
Qed.

(* ---- http_split ---- *)
Theorem http_split_block hs body :
  Forall (fun l => no_lf l /\ l <> []) hs ->
  http_split (S (List.length hs)) (unlines_crlf hs ++ crlf ++ body) = Some (hs, body).
Proof.
  induction hs as [|l hs IH]; intros H.
  - reflexivity.
  - inversion H as [|? ? [Hl Hne] Hhs]; subst.
    change (List.length (l :: hs)) with (S (List.length hs)).
    remember (S (List.length hs)) as n. cbn [http_split].
    unfold unlines_crlf. simpl concat. rewrite <- !app_assoc.
    rewrite cut_crlf_line by exact Hl.
    destruct l as [|c l]; [congruence|].
    subst n. fold (unlines_crlf hs). rewrite (IH Hhs). reflexivity.
Qed.
