(* StrFacts.v — facts about Lib/Str.v used by several properties. *)
From Coq Require Import Lia.
From PG Require Import Lib.Str.
Local Open Scope N_scope.

Lemma str_eqb_refl s : str_eqb s s = true.
Proof. induction s as [|x s IH]; simpl; [reflexivity|]. now rewrite N.eqb_refl, IH. Qed.

Lemma str_eqb_eq a b : str_eqb a b = true <-> a = b.
Proof.
  revert b; induction a as [|x a IH]; intros [|y b]; simpl; split; intro H;
    try reflexivity; try discriminate.
  - apply andb_true_iff in H as [H1 H2]. apply N.eqb_eq in H1. apply IH in H2. now subst.
  - inversion H; subst. now rewrite N.eqb_refl, str_eqb_refl.
Qed.

Lemma str_eqb_neq a b : str_eqb a b = false <-> a <> b.
Proof.
  split; intro H.
  - intro E. apply str_eqb_eq in E. congruence.
  - destruct (str_eqb a b) eqn:E; [apply str_eqb_eq in E; contradiction | reflexivity].
Qed.

Lemma mem_str_In x l : mem_str x l = true <-> In x l.
Proof.
  induction l as [|y l IH]; simpl; [split; [discriminate|tauto]|].
  rewrite orb_true_iff, IH, str_eqb_eq. split; intros [H|H]; auto.
Qed.

Lemma mem_N_In x l : mem_N x l = true <-> In x l.
Proof.
  induction l as [|y l IH]; simpl; [split; [discriminate|tauto]|].
  rewrite orb_true_iff, IH, N.eqb_eq. split; intros [H|H]; auto.
Qed.

(* ---------- prefixb ---------- *)
Lemma prefixb_spec p s : prefixb p s = true <-> exists t, s = p ++ t.
Proof.
  revert s; induction p as [|x p IH]; intros s; simpl.
  - split; [intros _; now exists s | reflexivity].
  - destruct s as [|y s].
    + split; [discriminate | intros [t H]; discriminate].
    + rewrite andb_true_iff, N.eqb_eq, IH. split.
      * intros [-> [t ->]]. now exists t.
      * intros [t H]. inversion H; subst. split; [reflexivity | now exists t].
Qed.

Lemma prefixb_app p t : prefixb p (p ++ t) = true.
Proof. apply prefixb_spec. now exists t. Qed.

(* ---------- find / contains ---------- *)
Lemma find_some_spec pat s n : find pat s = Some n -> exists a b, s = a ++ pat ++ b /\ length a = n.
Proof.
  revert n; induction s as [|x s IH]; intros n; simpl.
  - destruct (prefixb pat []) eqn:E; [|discriminate].
    intros [= <-]. apply prefixb_spec in E as [t E]. exists [], t. now split.
  - destruct (prefixb pat (x :: s)) eqn:E.
    + intros [= <-]. apply prefixb_spec in E as [t E]. exists [], t. now split.
    + destruct (find pat s) as [m|] eqn:F; simpl; [|discriminate].
      intros [= <-]. destruct (IH m eq_refl) as (a & b & -> & L).
      exists (x :: a), b. simpl. now rewrite L.
Qed.

Lemma find_prefix pat s : prefixb pat s = true -> find pat s = Some O.
Proof. intros H. destruct s; simpl; now rewrite H. Qed.

Lemma contains_spec pat s : contains pat s = true <-> exists a b, s = a ++ pat ++ b.
Proof.
  unfold contains. split.
  - destruct (find pat s) as [n|] eqn:F; [|discriminate]. intros _.
    destruct (find_some_spec _ _ _ F) as (a & b & H & _). now exists a, b.
  - intros (a & b & ->). induction a as [|x a IH]; simpl.
    + rewrite find_prefix; [reflexivity | apply prefixb_app].
    + destruct (prefixb pat (x :: a ++ pat ++ b)); [reflexivity|].
      destruct (find pat (a ++ pat ++ b)); [reflexivity | discriminate].
Qed.

Lemma contains_false_spec pat s :
  contains pat s = false <-> forall a b, s <> a ++ pat ++ b.
Proof.
  split.
  - intros H a b E. assert (contains pat s = true) by (apply contains_spec; eauto). congruence.
  - intros H. destruct (contains pat s) eqn:E; [|reflexivity].
    apply contains_spec in E as (a & b & E). now apply H in E.
Qed.

(* a substring of a string that avoids `pat` avoids `pat` *)
Lemma contains_substring pat a s b :
  contains pat s = true -> contains pat (a ++ s ++ b) = true.
Proof.
  intros H. apply contains_spec in H as (a' & b' & ->). apply contains_spec.
  exists (a ++ a'), (b' ++ b). now rewrite <- !app_assoc.
Qed.

(* ---------- split_on ---------- *)
Lemma split_on_nonempty c s : split_on c s <> [].
Proof.
  induction s as [|x s IH]; simpl; [discriminate|].
  destruct (x =? c); [discriminate|]. destruct (split_on c s); discriminate.
Qed.

Lemma split_on_app c a b :
  split_on c (a ++ c :: b) = split_on c a ++ split_on c b.
Proof.
  induction a as [|x a IH]; simpl.
  - now rewrite N.eqb_refl.
  - destruct (x =? c); [now rewrite IH|].
    rewrite IH. destruct (split_on c a) as [|f r] eqn:E.
    + now apply split_on_nonempty in E.
    + reflexivity.
Qed.

Lemma split_on_no_sep c s : mem_N c s = false -> split_on c s = [s].
Proof.
  induction s as [|x s IH]; simpl; [reflexivity|].
  rewrite N.eqb_sym. intros H. apply orb_false_iff in H as [H1 H2].
  rewrite H1, (IH H2). reflexivity.
Qed.

(* every field is a substring, delimited by separators or the ends *)
Lemma split_on_In_substring c s f :
  In f (split_on c s) -> exists a b, s = a ++ f ++ b.
Proof.
  revert f; induction s as [|x s IH]; intros f; simpl.
  - intros [<-|[]]. now exists [], [].
  - destruct (x =? c) eqn:E.
    + intros [<-|H]; [now exists [], (x :: s)|].
      destruct (IH _ H) as (a & b & ->). now exists (x :: a), b.
    + destruct (split_on c s) as [|g r] eqn:S; [now apply split_on_nonempty in S|].
      intros [<-|H].
      * destruct (IH g (or_introl eq_refl)) as (a & b & Hs).
        (* g is the FIRST field, so it is a prefix: recover that directly *)
        clear IH. revert g r S a b Hs. 
        intros g r S a b Hs.
        assert (P : exists t, s = g ++ t).
        { clear a b Hs E. revert g r S. induction s as [|y s IH2]; intros g r S; simpl in S.
          - inversion S; subst. now exists [].
          - destruct (y =? c).
            + inversion S; subst. now exists (y :: s).
            + destruct (split_on c s) as [|g' r'] eqn:S'; [now apply split_on_nonempty in S'|].
              inversion S; subst. destruct (IH2 _ _ eq_refl) as [t ->]. now exists t. }
        destruct P as [t ->]. now exists [], t.
      * destruct (IH f (or_intror H)) as (a & b & ->). now exists (x :: a), b.
Qed.

Lemma split_on_field_no_sep c s f : In f (split_on c s) -> mem_N c f = false.
Proof.
  revert f; induction s as [|x s IH]; intros f; simpl.
  - intros [<-|[]]. reflexivity.
  - destruct (x =? c) eqn:E.
    + intros [<-|H]; [reflexivity | now apply IH].
    + destruct (split_on c s) as [|g r] eqn:S; [now apply split_on_nonempty in S|].
      intros [<-|H].
      * simpl. rewrite N.eqb_sym, E. simpl. apply IH. now left.
      * apply IH. now right.
Qed.

(* ---------- misc ---------- *)
Lemma last_char_app s x : last_char (s ++ [x]) = Some x.
Proof.
  unfold last_char. destruct (s ++ [x]) eqn:E; [now destruct s|].
  rewrite <- E. now rewrite last_last.
Qed.

Lemma drop_last_app s x : drop_last (s ++ [x]) = s.
Proof. unfold drop_last. apply removelast_last. Qed.

Lemma last_char_some s c : last_char s = Some c -> s = drop_last s ++ [c].
Proof.
  unfold last_char, drop_last. destruct s as [|x s]; [discriminate|].
  assert (NE : x :: s <> []) by discriminate. remember (x :: s) as l.
  intros H. assert (E : last l 0 = c) by congruence. rewrite <- E.
  now apply app_removelast_last.
Qed.
