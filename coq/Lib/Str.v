(* Str.v — Python `str` as lists of code points, with the CPython 3.12
   semantics of the handful of string methods pygopherd uses.
   Definitions only (plus literal helpers); facts live in StrFacts.v so that
   the model still runs when a proof breaks. *)
From Coq Require Export List NArith Bool.
From Coq Require Ascii String.
Export ListNotations.
Local Open Scope N_scope.

Definition str := list N.

(* ---------- literals ---------- *)
Fixpoint lit (s : String.string) : str :=
  match s with
  | String.EmptyString => []
  | String.String a r => Ascii.N_of_ascii a :: lit r
  end.

(* ---------- equality ---------- *)
Fixpoint str_eqb (a b : str) : bool :=
  match a, b with
  | [], [] => true
  | x :: a', y :: b' => N.eqb x y && str_eqb a' b'
  | _, _ => false
  end.

Fixpoint mem_N (x : N) (l : list N) : bool :=
  match l with [] => false | y :: r => N.eqb x y || mem_N x r end.

Fixpoint mem_str (x : str) (l : list str) : bool :=
  match l with [] => false | y :: r => str_eqb x y || mem_str x r end.

(* ---------- prefix / find / contains ---------- *)
Fixpoint prefixb (p s : str) : bool :=
  match p, s with
  | [], _ => true
  | x :: p', y :: s' => N.eqb x y && prefixb p' s'
  | _ :: _, [] => false
  end.

(* str.find(pat): index of the first occurrence, None for -1.
   "".find is 0 on every string (also on the empty one). *)
Fixpoint find (pat s : str) : option nat :=
  if prefixb pat s then Some O else
  match s with
  | [] => None
  | _ :: s' => option_map S (find pat s')
  end.

Definition contains (pat s : str) : bool :=
  match find pat s with Some _ => true | None => false end.

Definition startswith (s p : str) : bool := prefixb p s.
Definition endswith (s p : str) : bool := prefixb (rev p) (rev s).

(* ---------- slices (Python clamping semantics for non-negative bounds) ---------- *)
Definition slice_to (n : nat) (s : str) : str := firstn n s.      (* s[0:n] *)
Definition slice_from (n : nat) (s : str) : str := skipn n s.     (* s[n:]  *)
Definition slice (a b : nat) (s : str) : str := firstn (b - a) (skipn a s). (* s[a:b] *)
(* s[i] : IndexError when out of range *)
Definition index_at (i : nat) (s : str) : option N := nth_error s i.
Definition drop_last (s : str) : str := removelast s.             (* s[0:-1] *)
Definition last_char (s : str) : option N :=
  match s with [] => None | _ => Some (last s 0) end.             (* s[-1] *)

(* ---------- split on a single character (str.split(sep), len(sep)=1) ---------- *)
Fixpoint split_on (c : N) (s : str) : list str :=
  match s with
  | [] => [[]]
  | x :: s' =>
      if N.eqb x c then [] :: split_on c s'
      else match split_on c s' with
           | [] => [[x]]            (* impossible: split_on never returns [] *)
           | f :: r => (x :: f) :: r
           end
  end.

(* str.split(sep, 1) *)
Fixpoint split_once (c : N) (s : str) : str * option str :=
  match s with
  | [] => ([], None)
  | x :: s' =>
      if N.eqb x c then ([], Some s')
      else let '(a, b) := split_once c s' in (x :: a, b)
  end.

Fixpoint join (sep : str) (l : list str) : str :=
  match l with
  | [] => []
  | [x] => x
  | x :: r => x ++ sep ++ join sep r
  end.

(* ---------- whitespace (str.isspace / str.strip() with no argument) ---------- *)
Definition is_space (c : N) : bool :=
  ((9 <=? c) && (c <=? 13)) || ((28 <=? c) && (c <=? 32)) ||
  (c =? 133) || (c =? 160) || (c =? 5760) ||
  ((8192 <=? c) && (c <=? 8202)) || (c =? 8232) || (c =? 8233) ||
  (c =? 8239) || (c =? 8287) || (c =? 12288).

Fixpoint lstrip (s : str) : str :=
  match s with
  | [] => []
  | x :: s' => if is_space x then lstrip s' else s
  end.
Definition rstrip (s : str) : str := rev (lstrip (rev s)).
Definition strip (s : str) : str := rstrip (lstrip s).

(* str.isdigit restricted to ASCII input (the only use follows an ASCII test) *)
Definition is_ascii_digit (c : N) : bool := (48 <=? c) && (c <=? 57).
Definition all_ascii (s : str) : bool := forallb (fun c => c <? 128) s.

(* ---------- str.splitlines() ---------- *)
Definition is_linebreak (c : N) : bool :=
  ((10 <=? c) && (c <=? 13)) || ((28 <=? c) && (c <=? 30)) ||
  (c =? 133) || (c =? 8232) || (c =? 8233).

(* splitlines: "\r\n" counts as one break; no trailing empty line. *)
Fixpoint splitlines_aux (cur : str) (s : str) : list str :=
  match s with
  | [] => match cur with [] => [] | _ => [rev cur] end
  | x :: s' =>
      if is_linebreak x then
        match x, s' with
        | 13, 10 :: s'' => rev cur :: splitlines_aux [] s''
        | _, _ => rev cur :: splitlines_aux [] s'
        end
      else splitlines_aux (x :: cur) s'
  end.
Definition splitlines (s : str) : list str := splitlines_aux [] s.

(* ---------- readline-style line splitting on "\n" (keeps the terminator) ---------- *)
Fixpoint lines_keepends_aux (cur : str) (s : str) : list str :=
  match s with
  | [] => match cur with [] => [] | _ => [rev cur] end
  | x :: s' =>
      if x =? 10 then rev (x :: cur) :: lines_keepends_aux [] s'
      else lines_keepends_aux (x :: cur) s'
  end.
Definition lines_keepends (s : str) : list str := lines_keepends_aux [] s.

(* ---------- decimal ---------- *)
Fixpoint digits_to_N_aux (acc : N) (s : str) : option N :=
  match s with
  | [] => Some acc
  | x :: s' => if is_ascii_digit x then digits_to_N_aux (acc * 10 + (x - 48)) s' else None
  end.
Definition parse_dec (s : str) : option N :=
  match s with [] => None | _ => digits_to_N_aux 0 s end.

(* printing: fuel is the number of binary digits + 1, always enough *)
Fixpoint print_dec_aux (fuel : nat) (n : N) (acc : str) : str :=
  match fuel with
  | O => acc
  | S f =>
      let d := 48 + (n mod 10) in
      let q := n / 10 in
      if q =? 0 then d :: acc else print_dec_aux f q (d :: acc)
  end.
Definition print_dec (n : N) : str := print_dec_aux (S (N.to_nat (N.size n))) n [].

(* mismatching case indices, the only thing a correspondence shard prints *)
Fixpoint mismatches_aux {A} (chk : A -> bool) (i : N) (l : list A) : list N :=
  match l with
  | [] => []
  | x :: r => if chk x then mismatches_aux chk (i + 1) r else i :: mismatches_aux chk (i + 1) r
  end.
Definition mismatches {A} (chk : A -> bool) (l : list A) : list N := mismatches_aux chk 0 l.

Fixpoint list_eqb {A} (eqb : A -> A -> bool) (a b : list A) : bool :=
  match a, b with
  | [], [] => true
  | x :: a', y :: b' => eqb x y && list_eqb eqb a' b'
  | _, _ => false
  end.
Definition opt_eqb {A} (eqb : A -> A -> bool) (a b : option A) : bool :=
  match a, b with
  | None, None => true
  | Some x, Some y => eqb x y
  | _, _ => false
  end.
