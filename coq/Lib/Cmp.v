(* Cmp.v — three-way comparisons: Python's ordering of str (by code point,
   shorter prefix first) and of int, lexicographic products.  Definitions only. *)
From Coq Require Import List NArith ZArith Bool.
Import ListNotations.

Section ListCmp.
  Context {A : Type} (cmp : A -> A -> comparison).
  Fixpoint list_cmp (a b : list A) : comparison :=
    match a, b with
    | [], [] => Eq
    | [], _ :: _ => Lt
    | _ :: _, [] => Gt
    | x :: a', y :: b' => match cmp x y with Eq => list_cmp a' b' | r => r end
    end.
End ListCmp.

Definition prod_cmp {A B} (ca : A -> A -> comparison) (cb : B -> B -> comparison)
  (x y : A * B) : comparison :=
  match ca (fst x) (fst y) with Eq => cb (snd x) (snd y) | r => r end.

(* Python: a < b, a > b, a == b on str *)
Definition str_cmp : list N -> list N -> comparison := list_cmp N.compare.
Definition is_lt (c : comparison) : bool := match c with Lt => true | _ => false end.
Definition is_gt (c : comparison) : bool := match c with Gt => true | _ => false end.
Definition is_eq (c : comparison) : bool := match c with Eq => true | _ => false end.
Definition str_ltb (a b : list N) : bool := is_lt (str_cmp a b).
Definition str_leb (a b : list N) : bool := negb (is_gt (str_cmp a b)).

(* the repo's cmp(a, b) = (a > b) - (a < b) *)
Definition Z_of_cmp (c : comparison) : Z := match c with Lt => (-1)%Z | Eq => 0%Z | Gt => 1%Z end.

(* helpers the generated Gen/Entrycmp.v refers to *)
Definition cmp_int (a b : Z) : Z := Z_of_cmp (Z.compare a b).
(* cmp(entry1.name, entry2.name); comparing with None would be a TypeError in
   Python — the generated code only reaches this after both `is None` tests *)
Definition cmp_name (a b : option (list N)) : Z :=
  match a, b with Some x, Some y => Z_of_cmp (str_cmp x y) | _, _ => 0%Z end.
Definition isnone {A} (o : option A) : bool := match o with None => true | Some _ => false end.
