(* HtmlEsc.v — Python's html.escape(s, quote) and a decoder for exactly the five
   entities it produces.  Definitions only; facts in Lib/HtmlEscFacts.v. *)
From Coq Require Import String.
From PG Require Import Lib.Str.
Local Open Scope N_scope.

Definition AMP : N := 38.   (* & *)
Definition LT : N := 60.    (* < *)
Definition GT : N := 62.    (* > *)
Definition DQ : N := 34.    (* double quote *)
Definition SQ : N := 39.    (* apostrophe *)

Definition E_AMP : str := lit "&amp;".
Definition E_LT : str := lit "&lt;".
Definition E_GT : str := lit "&gt;".
Definition E_DQ : str := lit "&quot;".
Definition E_SQ : str := lit "&#x27;".

(* html.escape replaces the ampersand first, then the two angle brackets, and
   with quote=True also the two quotation marks; no replacement text contains a
   character replaced later, so the sequential replaces are a per-character map. *)
Definition esc_char (quote : bool) (c : N) : str :=
  if c =? AMP then E_AMP
  else if c =? LT then E_LT
  else if c =? GT then E_GT
  else if quote && (c =? DQ) then E_DQ
  else if quote && (c =? SQ) then E_SQ
  else [c].

Fixpoint escape (quote : bool) (s : str) : str :=
  match s with
  | [] => []
  | c :: r => esc_char quote c ++ escape quote r
  end.

(* decoder: the five entities, everything else literally *)
Fixpoint unescape_aux (fuel : nat) (s : str) : str :=
  match fuel with
  | O => s
  | S f =>
      match s with
      | [] => []
      | c :: r =>
          if prefixb E_AMP s then AMP :: unescape_aux f (skipn 5 s)
          else if prefixb E_LT s then LT :: unescape_aux f (skipn 4 s)
          else if prefixb E_GT s then GT :: unescape_aux f (skipn 4 s)
          else if prefixb E_DQ s then DQ :: unescape_aux f (skipn 6 s)
          else if prefixb E_SQ s then SQ :: unescape_aux f (skipn 6 s)
          else c :: unescape_aux f r
      end
  end.
Definition unescape (s : str) : str := unescape_aux (List.length s) s.
