(* ZipPath.v — the three posixpath functions handlers/ZIP.py uses on member
   names and link targets (CPython 3.12 semantics), on `str = list N`.
   Definitions only; facts are in Proofs/ZipPathFacts.v. *)
From PG Require Import Lib.Str.
Local Open Scope N_scope.

Definition SL : N := 47.
Definition P_DOT : str := [46].
Definition P_DOTDOT : str := [46; 46].

Definition is_nil {A} (l : list A) : bool := match l with [] => true | _ => false end.
Definition nonempty (s : str) : bool := negb (is_nil s).

(* s.rstrip("/") *)
Fixpoint lstrip_sl (r : str) : str :=
  match r with
  | c :: r' => if c =? SL then lstrip_sl r' else r
  | [] => []
  end.
Definition rstrip_sl (s : str) : str := rev (lstrip_sl (rev s)).

(* posixpath.split:  i = p.rfind("/") + 1; head, tail = p[:i], p[i:];
   if head and head != "/" * len(head): head = head.rstrip("/") *)
Definition os_split (p : str) : str * str :=
  let tail := last (split_on SL p) [] in
  let head := firstn (length p - length tail) p in
  let head' := if forallb (N.eqb SL) head then head else rstrip_sl head in
  (head', tail).
Definition os_dirname (p : str) : str := fst (os_split p).

(* posixpath.join(a, b) for two arguments *)
Definition os_join (a b : str) : str :=
  match b with
  | c :: _ => if c =? SL then b else
      match last_char a with
      | None => b
      | Some l => if l =? SL then a ++ b else a ++ SL :: b
      end
  | [] =>
      match last_char a with
      | None => []
      | Some l => if l =? SL then a else a ++ [SL]
      end
  end.

(* posixpath.normpath.  The component stack is kept innermost-first. *)
Definition norm_step (init0 : bool) (stack : list str) (c : str) : list str :=
  if is_nil c || str_eqb c P_DOT then stack
  else if negb (str_eqb c P_DOTDOT) then c :: stack
  else match stack with
       | [] => if init0 then [c] else []
       | top :: rest => if str_eqb top P_DOTDOT then c :: stack else rest
       end.

Definition initial_slashes (p : str) : nat :=
  match p with
  | a :: b :: c :: _ => if a =? SL then (if (b =? SL) && negb (c =? SL) then 2%nat else 1%nat) else 0%nat
  | [a; b] => if a =? SL then (if b =? SL then 2%nat else 1%nat) else 0%nat
  | [a] => if a =? SL then 1%nat else 0%nat
  | [] => 0%nat
  end.

Definition normpath (p : str) : str :=
  match p with
  | [] => P_DOT
  | _ =>
    let init := initial_slashes p in
    let comps := rev (fold_left (norm_step (Nat.eqb init 0)) (split_on SL p) []) in
    let path := repeat SL init ++ join [SL] comps in
    match path with [] => P_DOT | _ => path end
  end.

(* association lists keyed by strings *)
Fixpoint assoc_str {A} (k : str) (l : list (str * A)) : option A :=
  match l with
  | [] => None
  | (k', v) :: r => if str_eqb k k' then Some v else assoc_str k r
  end.

(* list prefix on component paths *)
Fixpoint path_prefixb (a b : list str) : bool :=
  match a, b with
  | [], _ => true
  | x :: a', y :: b' => str_eqb x y && path_prefixb a' b'
  | _ :: _, [] => false
  end.
Definition path_eqb (a b : list str) : bool := list_eqb str_eqb a b.
