From Coq Require Import List NArith ZArith Bool Lia.
From PG Require Import Lib.Cmp.
Import ListNotations.

(* a comparison function that is a total order *)
Record cmp_ok {A} (cmp : A -> A -> comparison) : Prop := {
  cmp_opp : forall a b, cmp a b = CompOpp (cmp b a);
  cmp_eq : forall a b, cmp a b = Eq -> a = b;
  cmp_lt_trans : forall a b c, cmp a b = Lt -> cmp b c = Lt -> cmp a c = Lt;
}.

Lemma cmp_refl {A} (cmp : A -> A -> comparison) (H : cmp_ok cmp) a : cmp a a = Eq.
Proof. pose proof (cmp_opp cmp H a a) as E. destruct (cmp a a); trivial; discriminate. Qed.

Lemma cmp_gt_lt {A} (cmp : A -> A -> comparison) (H : cmp_ok cmp) a b : cmp a b = Gt <-> cmp b a = Lt.
Proof. rewrite (cmp_opp cmp H a b). destruct (cmp b a); simpl; split; congruence. Qed.

Lemma N_cmp_ok : cmp_ok N.compare.
Proof.
  split.
  - intros. apply N.compare_antisym.
  - intros a b. apply N.compare_eq.
  - intros a b c. rewrite !N.compare_lt_iff. lia.
Qed.

Lemma Z_cmp_ok : cmp_ok Z.compare.
Proof.
  split.
  - intros. apply Z.compare_antisym.
  - intros a b. apply Z.compare_eq.
  - intros a b c. rewrite !Z.compare_lt_iff. lia.
Qed.

Lemma list_cmp_ok {A} (cmp : A -> A -> comparison) : cmp_ok cmp -> cmp_ok (list_cmp cmp).
Proof.
  intros H. split.
  - induction a as [|x a IH]; destruct b as [|y b]; simpl; trivial.
    rewrite (cmp_opp cmp H x y). destruct (cmp y x); simpl; trivial.
  - induction a as [|x a IH]; destruct b as [|y b]; simpl; trivial; try discriminate.
    destruct (cmp x y) eqn:E; try discriminate.
    intros E2. apply (cmp_eq cmp H) in E. apply IH in E2. congruence.
  - induction a as [|x a IH]; destruct b as [|y b]; destruct c as [|z c]; simpl; trivial; try discriminate.
    destruct (cmp x y) eqn:E1; try discriminate.
    + apply (cmp_eq cmp H) in E1. subst y. destruct (cmp x z); trivial; try discriminate. apply IH.
    + intros _. destruct (cmp y z) eqn:E2; try discriminate.
      * apply (cmp_eq cmp H) in E2. subst z. now rewrite E1.
      * intros _. now rewrite (cmp_lt_trans cmp H x y z E1 E2).
Qed.

Lemma prod_cmp_ok {A B} (ca : A -> A -> comparison) (cb : B -> B -> comparison) :
  cmp_ok ca -> cmp_ok cb -> cmp_ok (prod_cmp ca cb).
Proof.
  intros Ha Hb. split.
  - intros [a1 b1] [a2 b2]. unfold prod_cmp; simpl.
    rewrite (cmp_opp ca Ha a1 a2). destruct (ca a2 a1); simpl; trivial. apply (cmp_opp cb Hb).
  - intros [a1 b1] [a2 b2]. unfold prod_cmp; simpl.
    destruct (ca a1 a2) eqn:E; try discriminate. intros E2.
    apply (cmp_eq ca Ha) in E. apply (cmp_eq cb Hb) in E2. congruence.
  - intros [a1 b1] [a2 b2] [a3 b3]. unfold prod_cmp; simpl.
    destruct (ca a1 a2) eqn:E1; try discriminate.
    + apply (cmp_eq ca Ha) in E1. subst a2. destruct (ca a1 a3); trivial; try discriminate.
      apply (cmp_lt_trans cb Hb).
    + intros _. destruct (ca a2 a3) eqn:E2; try discriminate.
      * apply (cmp_eq ca Ha) in E2. subst a3. now rewrite E1.
      * intros _. now rewrite (cmp_lt_trans ca Ha a1 a2 a3 E1 E2).
Qed.

Lemma str_cmp_ok : cmp_ok str_cmp.
Proof. apply list_cmp_ok, N_cmp_ok. Qed.

(* the "not greater" test of a total order is a total, transitive, antisymmetric leb *)
Section Leb.
  Context {A : Type} (cmp : A -> A -> comparison) (H : cmp_ok cmp).
  Definition leb_of (a b : A) : bool := negb (is_gt (cmp a b)).

  Lemma leb_of_total a b : leb_of a b = true \/ leb_of b a = true.
  Proof.
    unfold leb_of. rewrite (cmp_opp cmp H b a). destruct (cmp a b); simpl; auto.
  Qed.

  Lemma leb_of_trans a b c : leb_of a b = true -> leb_of b c = true -> leb_of a c = true.
  Proof.
    unfold leb_of. destruct (cmp a b) eqn:E1; simpl; try discriminate; intros _.
    - apply (cmp_eq cmp H) in E1. now subst.
    - destruct (cmp b c) eqn:E2; simpl; try discriminate; intros _.
      + apply (cmp_eq cmp H) in E2. subst. now rewrite E1.
      + now rewrite (cmp_lt_trans cmp H a b c E1 E2).
  Qed.

  Lemma leb_of_antisym a b : leb_of a b = true -> leb_of b a = true -> a = b.
  Proof.
    unfold leb_of. rewrite (cmp_opp cmp H b a).
    destruct (cmp a b) eqn:E; simpl; try discriminate; intros _ ?; try discriminate.
    now apply (cmp_eq cmp H).
  Qed.
End Leb.

Lemma str_leb_is_leb_of a b : str_leb a b = leb_of str_cmp a b.
Proof. reflexivity. Qed.
