(* DecFacts.v — decimal printing and parsing are inverse, for every number. *)
From Coq Require Import Lia ZArith.
From PG Require Import Lib.Str Lib.Dec.
Local Open Scope N_scope.

Lemma digits_app acc a b :
  digits_to_N_aux acc (a ++ b) =
  match digits_to_N_aux acc a with Some x => digits_to_N_aux x b | None => None end.
Proof.
  revert acc; induction a as [|x a IH]; intros acc; simpl; [reflexivity|].
  destruct (is_ascii_digit x); [apply IH | reflexivity].
Qed.

Lemma digit_char n : n < 10 -> is_ascii_digit (48 + n) = true /\ 48 + n - 48 = n.
Proof.
  intros H. unfold is_ascii_digit. split; [|lia].
  apply andb_true_iff. split; apply N.leb_le; lia.
Qed.

Lemma print_dec_aux_S f n acc :
  print_dec_aux (S f) n acc =
  if n / 10 =? 0 then (48 + n mod 10) :: acc else print_dec_aux f (n / 10) ((48 + n mod 10) :: acc).
Proof. reflexivity. Qed.

Lemma print_dec_aux_spec fuel :
  forall n acc, (0 < fuel)%nat -> n < 2 ^ N.of_nat fuel ->
  exists s, print_dec_aux fuel n acc = s ++ acc /\ s <> [] /\
            forall a0, digits_to_N_aux a0 s = Some (a0 * 10 ^ N.of_nat (List.length s) + n).
Proof.
  induction fuel as [|f IH]; intros n acc Hf Hn; [lia|].
  rewrite print_dec_aux_S.
  assert (Hm : n mod 10 < 10) by (apply N.mod_lt; lia).
  destruct (digit_char _ Hm) as [Hd Hv].
  remember (48 + n mod 10) as d eqn:Ed. clear Ed.
  destruct (n / 10 =? 0) eqn:Q.
  - apply N.eqb_eq in Q. exists [d]. split; [reflexivity|]. split; [discriminate|].
    intros a0. simpl. rewrite Hd, Hv.
    assert (n = n mod 10) by (pose proof (N.div_mod n 10 ltac:(lia)); lia).
    f_equal. lia.
  - apply N.eqb_neq in Q.
    assert (Hq : n / 10 < 2 ^ N.of_nat f).
    { apply N.div_lt_upper_bound; [lia|].
      replace (N.of_nat (S f)) with (N.succ (N.of_nat f)) in Hn by lia.
      rewrite N.pow_succ_r' in Hn. lia. }
    assert (Hf' : (0 < f)%nat).
    { destruct f; [|lia]. change (2 ^ N.of_nat 0) with 1 in Hq. remember (n / 10) as q. lia. }
    destruct (IH (n / 10) (d :: acc) Hf' Hq) as (s & E & NE & V).
    exists (s ++ [d]). split; [rewrite E, <- app_assoc; reflexivity|].
    split; [destruct s; discriminate|].
    intros a0. rewrite digits_app, V. simpl. rewrite Hd, Hv. f_equal.
    rewrite app_length. simpl List.length.
    replace (N.of_nat (List.length s + 1)) with (N.succ (N.of_nat (List.length s))) by lia.
    rewrite N.pow_succ_r'. pose proof (N.div_mod n 10 ltac:(lia)). lia.
Qed.

Lemma print_dec_spec n :
  exists s, print_dec n = s /\ s <> [] /\
            forall a0, digits_to_N_aux a0 s = Some (a0 * 10 ^ N.of_nat (List.length s) + n).
Proof.
  unfold print_dec.
  destruct (print_dec_aux_spec (S (N.to_nat (N.size n))) n []) as (s & E & NE & V).
  - lia.
  - replace (N.of_nat (S (N.to_nat (N.size n)))) with (N.succ (N.size n)) by lia.
    rewrite N.pow_succ_r'. pose proof (N.size_gt n). lia.
  - exists s. rewrite E, app_nil_r. auto.
Qed.

Theorem parse_print_dec n : parse_dec (print_dec n) = Some n.
Proof.
  destruct (print_dec_spec n) as (s & E & NE & V). rewrite E.
  unfold parse_dec. destruct s as [|x s]; [congruence|]. rewrite V. reflexivity.
Qed.

Lemma print_dec_nonempty n : print_dec n <> [].
Proof. destruct (print_dec_spec n) as (s & E & NE & _). congruence. Qed.

Lemma digits_some_all acc s v : digits_to_N_aux acc s = Some v -> forallb is_ascii_digit s = true.
Proof.
  revert acc; induction s as [|x s IH]; intros acc; simpl; [reflexivity|].
  destruct (is_ascii_digit x); [|discriminate]. intros H. simpl. eapply IH, H.
Qed.

Lemma print_dec_digits n : forallb is_ascii_digit (print_dec n) = true.
Proof.
  destruct (print_dec_spec n) as (s & E & NE & V). rewrite E. eapply digits_some_all, (V 0).
Qed.

(* a decimal numeral contains neither CR, LF nor any other non-digit *)
Lemma print_dec_no c n : is_ascii_digit c = false -> mem_N c (print_dec n) = false.
Proof.
  intros Hc. pose proof (print_dec_digits n) as H. induction (print_dec n) as [|x s IH]; [reflexivity|].
  simpl in *. apply andb_true_iff in H as [H1 H2]. rewrite (IH H2), orb_false_r.
  destruct (c =? x) eqn:E; [|reflexivity]. apply N.eqb_eq in E. subst. congruence.
Qed.

Theorem parse_print_Z z : parse_Z (print_Z z) = Some z.
Proof.
  destruct z as [|p|p]; unfold print_Z, parse_Z.
  - vm_compute. reflexivity.
  - pose proof (parse_print_dec (Npos p)) as H.
    destruct (print_dec (N.pos p)) as [|c r] eqn:E; [now apply print_dec_nonempty in E|].
    assert (Hc : c =? MINUS = false).
    { pose proof (print_dec_no MINUS (Npos p) eq_refl) as M. rewrite E in M. simpl in M.
      apply orb_false_iff in M as [M _]. now rewrite N.eqb_sym. }
    rewrite Hc, H. reflexivity.
  - rewrite N.eqb_refl, parse_print_dec. reflexivity.
Qed.
