(* Utf8Facts.v — facts about Lib/Utf8.v: what bytes.decode("utf-8",
   "surrogateescape") produces is encoded back to the same bytes. *)
From Coq Require Import Lia ZArith.
From PG Require Import Lib.Str Lib.Bytes Lib.Utf8.
Local Open Scope N_scope.
(* lia with division/modulo by constants turned into equations; kept local so that
   importing this file does not change the behaviour of lia elsewhere *)
Local Ltac dlia := zify; Z.to_euclidean_division_equations; lia.

(* boolean hypotheses -> arithmetic *)
Local Ltac b2p :=
  repeat match goal with
  | H : _ && _ = true |- _ => apply andb_true_iff in H; destruct H
  | H : _ && _ = false |- _ => apply andb_false_iff in H; destruct H
  | H : (_ <=? _) = true |- _ => apply N.leb_le in H
  | H : (_ <? _) = true |- _ => apply N.ltb_lt in H
  | H : (_ <? _) = false |- _ => apply N.ltb_ge in H
  | H : (_ <=? _) = false |- _ => apply N.leb_gt in H
  | H : (_ =? _) = true |- _ => apply N.eqb_eq in H
  | H : (_ =? _) = false |- _ => apply N.eqb_neq in H
  | H : true = false |- _ => discriminate H
  | H : false = true |- _ => discriminate H
  end.

(* decide the conditionals of the goal by arithmetic *)
Local Ltac ifs :=
  repeat match goal with
  | |- context [if ?c then _ else _] =>
      let E := fresh "E" in destruct c eqn:E; b2p; try dlia
  end.

Local Ltac list_eq :=
  repeat match goal with
  | |- Some _ = Some _ => f_equal
  | |- _ :: _ = _ :: _ => f_equal
  end.

Local Ltac hyp_ifs :=
  repeat match goal with
  | H : context [if ?c then _ else _] |- _ =>
      let E := fresh "E" in destruct c eqn:E
  end; b2p.

(* ---------- one code point ---------- *)
Lemma enc_cp_ascii x : x <? 128 = true -> enc_cp x = Some [x].
Proof. intros H. unfold enc_cp. now rewrite H. Qed.

Lemma enc_cp_esc x : 128 <= x < 256 -> enc_cp (esc x) = Some [x].
Proof.
  intros H. unfold enc_cp, esc. ifs. list_eq; dlia.
Qed.

Lemma enc_cp_cp2 x y : dec2_ok x y = true -> enc_cp (cp2 x y) = Some [x; y].
Proof.
  unfold dec2_ok, is_cont. intros H. b2p.
  unfold enc_cp, cp2. ifs. list_eq; dlia.
Qed.

Lemma enc_cp_cp3 x y z : dec3_ok x y z = true -> enc_cp (cp3 x y z) = Some [x; y; z].
Proof.
  unfold dec3_ok, is_cont. intros H. b2p. hyp_ifs.
  all: unfold enc_cp, cp3; ifs; list_eq; dlia.
Qed.

Lemma enc_cp_cp4 x y z w :
  dec4_ok x y z w = true -> enc_cp (cp4 x y z w) = Some [x; y; z; w].
Proof.
  unfold dec4_ok, is_cont. intros H. b2p. hyp_ifs.
  all: unfold enc_cp, cp4; ifs; list_eq; dlia.
Qed.

(* ---------- bytes ---------- *)
Lemma is_bytes_cons x b : is_bytes (x :: b) = true <-> x < 256 /\ is_bytes b = true.
Proof.
  unfold is_bytes, is_byte. simpl. rewrite andb_true_iff, N.ltb_lt. reflexivity.
Qed.

Lemma is_bytes_app a b : is_bytes (a ++ b) = is_bytes a && is_bytes b.
Proof. unfold is_bytes. apply forallb_app. Qed.

(* ---------- encode_se ---------- *)
Lemma encode_se_cons c s a b :
  enc_cp c = Some a -> encode_se s = Some b -> encode_se (c :: s) = Some (a ++ b).
Proof. intros H1 H2. simpl. now rewrite H1, H2. Qed.

Lemma encode_se_app s t :
  encode_se (s ++ t) =
  match encode_se s, encode_se t with
  | Some a, Some b => Some (a ++ b)
  | _, _ => None
  end.
Proof.
  induction s as [|c s IH]; simpl.
  - now destruct (encode_se t).
  - rewrite IH. destruct (enc_cp c) as [a|]; [|reflexivity].
    destruct (encode_se s) as [u|]; [|reflexivity].
    destruct (encode_se t) as [v|]; [|reflexivity].
    now rewrite app_assoc.
Qed.

(* ---------- decode_se: the five cases of one step ---------- *)
Inductive dstep : list N -> N -> list N -> Prop :=
| ds_ascii x r : x < 128 -> dstep (x :: r) x r
| ds_two x y r : dec2_ok x y = true -> dstep (x :: y :: r) (cp2 x y) r
| ds_three x y z r : dec3_ok x y z = true -> dstep (x :: y :: z :: r) (cp3 x y z) r
| ds_four x y z w r : dec4_ok x y z w = true -> dstep (x :: y :: z :: w :: r) (cp4 x y z w) r
| ds_esc x r : 128 <= x -> dstep (x :: r) (esc x) r.

(* every non-empty input makes one of the five steps; the rest is a proper suffix *)
Lemma decode_se_step b :
  b <> [] -> exists c r, dstep b c r /\ decode_se b = c :: decode_se r.
Proof.
  destruct b as [|x r]; [congruence|]. intros _. simpl.
  destruct (x <? 128) eqn:A.
  { b2p. exists x, r. split; [now constructor | reflexivity]. }
  b2p.
  assert (ESC : exists c r0, dstep (x :: r) c r0 /\ esc x :: decode_se r = c :: decode_se r0).
  { exists (esc x), r. split; [now constructor | reflexivity]. }
  destruct r as [|y r2]; [exact ESC|].
  destruct (dec2_ok x y) eqn:D2.
  { exists (cp2 x y), r2. split; [now constructor | reflexivity]. }
  destruct r2 as [|z r3]; [exact ESC|].
  destruct (dec3_ok x y z) eqn:D3.
  { exists (cp3 x y z), r3. split; [now constructor | reflexivity]. }
  destruct r3 as [|w r4]; [exact ESC|].
  destruct (dec4_ok x y z w) eqn:D4.
  { exists (cp4 x y z w), r4. split; [now constructor | reflexivity]. }
  exact ESC.
Qed.

Lemma dstep_length b c r : dstep b c r -> (length r < length b)%nat.
Proof. intros H. destruct H; simpl; dlia. Qed.

(* what one step produced is encoded back to the bytes it consumed *)
Lemma dstep_encode b c r :
  is_bytes b = true -> dstep b c r ->
  exists a, enc_cp c = Some a /\ b = a ++ r /\ is_bytes r = true.
Proof.
  intros B H. destruct H as [x r L|x y r D|x y z r D|x y z w r D|x r L].
  - exists [x]. apply is_bytes_cons in B as [_ B].
    split; [apply enc_cp_ascii; now apply N.ltb_lt | now split].
  - exists [x; y]. apply is_bytes_cons in B as [_ B]. apply is_bytes_cons in B as [_ B].
    split; [now apply enc_cp_cp2 | now split].
  - exists [x; y; z]. do 3 (apply is_bytes_cons in B as [_ B]).
    split; [now apply enc_cp_cp3 | now split].
  - exists [x; y; z; w]. do 4 (apply is_bytes_cons in B as [_ B]).
    split; [now apply enc_cp_cp4 | now split].
  - exists [x]. apply is_bytes_cons in B as [X B].
    split; [apply enc_cp_esc; dlia | now split].
Qed.

(* induction along the steps of decode_se *)
Lemma decode_se_ind (P : list N -> Prop) :
  P [] ->
  (forall b c r, dstep b c r -> decode_se b = c :: decode_se r -> P r -> P b) ->
  forall b, P b.
Proof.
  intros P0 PS b.
  assert (G : forall n b, (length b <= n)%nat -> P b).
  { induction n as [|n IH]; intros b0 L.
    - destruct b0; [exact P0 | simpl in L; dlia].
    - destruct b0 as [|x r0]; [exact P0|].
      destruct (decode_se_step (x :: r0)) as (c & r & S & E); [discriminate|].
      apply (PS _ c r S E). apply IH. apply dstep_length in S. dlia. }
  apply (G (length b)). dlia.
Qed.

(* ---------- the round trip ---------- *)
Theorem encode_decode_se b : is_bytes b = true -> encode_se (decode_se b) = Some b.
Proof.
  induction b as [|b c r S E IH] using decode_se_ind; intros B; [reflexivity|].
  destruct (dstep_encode _ _ _ B S) as (a & EA & -> & BR).
  rewrite E. apply encode_se_cons; [exact EA | now apply IH].
Qed.

Theorem decode_se_ascii b : forallb (fun c => c <? 128) b = true -> decode_se b = b.
Proof.
  induction b as [|x b IH]; [reflexivity|]. simpl. intros H.
  apply andb_true_iff in H as [H1 H2]. rewrite H1. now rewrite IH.
Qed.

Lemma decode_se_app_ascii a b :
  forallb (fun c => c <? 128) a = true -> decode_se (a ++ b) = a ++ decode_se b.
Proof.
  induction a as [|x a IH]; [reflexivity|]. simpl. intros H.
  apply andb_true_iff in H as [H1 H2]. rewrite H1. now rewrite IH.
Qed.

Lemma encode_se_ascii s : forallb (fun c => c <? 128) s = true -> encode_se s = Some s.
Proof.
  induction s as [|x s IH]; [reflexivity|]. simpl. intros H.
  apply andb_true_iff in H as [H1 H2]. rewrite (enc_cp_ascii _ H1), (IH H2). reflexivity.
Qed.

Theorem decode_se_length_le b : (length (decode_se b) <= length b)%nat.
Proof.
  induction b as [|b c r S E IH] using decode_se_ind; [simpl; dlia|].
  rewrite E. simpl. apply dstep_length in S. dlia.
Qed.

(* the decoder only produces code points; lone surrogates only in U+DC80..U+DCFF *)
Definition is_scalar_or_esc (c : N) : bool :=
  (c <? 55296) || ((56448 <=? c) && (c <=? 56575)) || ((57344 <=? c) && (c <? 1114112)).

Lemma dstep_cp b c r : is_bytes b = true -> dstep b c r -> is_scalar_or_esc c = true.
Proof.
  intros B H. unfold is_scalar_or_esc.
  destruct H as [x r L|x y r D|x y z r D|x y z w r D|x r L].
  - assert (c0 : x <? 55296 = true) by (apply N.ltb_lt; dlia). now rewrite c0.
  - unfold dec2_ok, is_cont in D. b2p. unfold cp2.
    assert (c0 : (x - 192) * 64 + (y - 128) <? 55296 = true) by (apply N.ltb_lt; dlia).
    now rewrite c0.
  - unfold dec3_ok, is_cont in D. b2p. hyp_ifs. all: unfold cp3.
    all: apply orb_true_iff;
      destruct (N.ltb_spec ((x - 224) * 4096 + (y - 128) * 64 + (z - 128)) 55296) as [c0|c0];
      [left; now rewrite orb_true_l | right; apply andb_true_iff; split;
        [apply N.leb_le | apply N.ltb_lt]; dlia].
  - unfold dec4_ok, is_cont in D. b2p. hyp_ifs. all: unfold cp4.
    all: apply orb_true_iff; right; apply andb_true_iff; split;
        [apply N.leb_le | apply N.ltb_lt]; dlia.
  - apply is_bytes_cons in B as [X _]. unfold esc.
    apply orb_true_iff; left; apply orb_true_iff; right.
    apply andb_true_iff; split; apply N.leb_le; dlia.
Qed.

Theorem decode_se_codepoints b :
  is_bytes b = true -> forallb is_scalar_or_esc (decode_se b) = true.
Proof.
  induction b as [|b c r S E IH] using decode_se_ind; intros B; [reflexivity|].
  rewrite E. simpl. rewrite (dstep_cp _ _ _ B S).
  destruct (dstep_encode _ _ _ B S) as (a & _ & _ & BR). now apply IH.
Qed.

(* decoding is injective on byte strings (a consequence of the round trip) *)
Corollary decode_se_injective a b :
  is_bytes a = true -> is_bytes b = true -> decode_se a = decode_se b -> a = b.
Proof.
  intros A B E. apply encode_decode_se in A. apply encode_decode_se in B.
  rewrite E in A. congruence.
Qed.

Print Assumptions encode_decode_se.
Print Assumptions decode_se_ascii.
Print Assumptions decode_se_length_le.
Print Assumptions decode_se_codepoints.
