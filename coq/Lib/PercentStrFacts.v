(* PercentStrFacts.v — quote then unquote at the str level gives the string
   back, for every string that bytes.decode(errors="surrogateescape") can
   produce. *)
From Coq Require Import Lia.
From PG Require Import Lib.Str Lib.StrFacts Lib.Bytes Lib.Percent Lib.PercentFacts
  Lib.Utf8 Lib.Utf8Facts Lib.PercentStr.
Local Open Scope N_scope.

Theorem unquote_quote_str safe b :
  mem_N 37 safe = false -> is_bytes b = true ->
  exists q, quote_str safe (decode_se b) = Some q /\ unquote_str q = decode_se b.
Proof.
  intros S B. exists (quote_bytes safe b). unfold quote_str, unquote_str.
  rewrite (encode_decode_se b B). simpl. split; [reflexivity|].
  now rewrite (unquote_quote safe b S B).
Qed.

(* on ASCII input the general unquote is the simple one *)
Lemma unquote_py_aux_ascii cur s :
  all_ascii s = true -> unquote_py_aux cur s = unquote_str (rev cur ++ s).
Proof.
  revert cur. induction s as [|c r IH]; intros cur A; simpl.
  - now rewrite app_nil_r.
  - unfold all_ascii in A. simpl in A. apply andb_true_iff in A as [A1 A2].
    rewrite A1. rewrite (IH (c :: cur) A2). simpl. now rewrite <- app_assoc.
Qed.

Theorem unquote_py_ascii s : all_ascii s = true -> unquote_py s = unquote_str s.
Proof. intros A. unfold unquote_py. now rewrite unquote_py_aux_ascii. Qed.

Theorem unquote_py_quote_str safe b :
  mem_N 37 safe = false -> is_bytes b = true ->
  exists q, quote_str safe (decode_se b) = Some q /\ unquote_py q = decode_se b.
Proof.
  intros S B. destruct (unquote_quote_str safe b S B) as (q & Q & U).
  exists q. split; [exact Q|]. rewrite unquote_py_ascii; [exact U|].
  unfold quote_str in Q. rewrite (encode_decode_se b B) in Q. simpl in Q.
  inversion Q; subst q. now apply quote_all_ascii.
Qed.

(* a string without "%" and without non-ASCII characters is left alone *)
Theorem unquote_str_plain s :
  all_ascii s = true -> mem_N 37 s = false -> unquote_str s = s.
Proof.
  intros A P. unfold unquote_str. rewrite (unquote_idempotent_on_plain s P).
  now apply decode_se_ascii.
Qed.

Print Assumptions unquote_quote_str.
Print Assumptions unquote_py_quote_str.
