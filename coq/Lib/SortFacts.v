From Coq Require Import List Bool Permutation.
From PG Require Import Lib.Sort.
Import ListNotations.

Section Facts.
  Context {A : Type}.
  Variable leb : A -> A -> bool.

  Definition total := forall x y, leb x y = true \/ leb y x = true.
  Definition transitive := forall x y z, leb x y = true -> leb y z = true -> leb x z = true.
  Definition antisym := forall x y, leb x y = true -> leb y x = true -> x = y.

  (* what "a stable sort of l" means: a sorted rearrangement in which the
     members of every equivalence class keep their original relative order *)
  Definition is_stable_sort (l l' : list A) : Prop :=
    Permutation l l' /\ ssorted leb l' /\
    forall x, filter (eqvb leb x) l' = filter (eqvb leb x) l.

  Hypothesis Htot : total.
  Hypothesis Htrans : transitive.

  Lemma leb_refl x : leb x x = true.
  Proof. destruct (Htot x x); assumption. Qed.

  Lemma eqvb_refl x : eqvb leb x x = true.
  Proof. unfold eqvb. now rewrite leb_refl. Qed.

  Lemma eqvb_sym x y : eqvb leb x y = eqvb leb y x.
  Proof. unfold eqvb. apply andb_comm. Qed.

  Lemma eqvb_trans x y z : eqvb leb x y = true -> eqvb leb y z = true -> eqvb leb x z = true.
  Proof.
    unfold eqvb. intros H1 H2. apply andb_true_iff in H1 as [a b]. apply andb_true_iff in H2 as [c d].
    apply andb_true_iff. split; eapply Htrans; eauto.
  Qed.

  Lemma eqvb_cong x y z : eqvb leb x y = true -> eqvb leb z x = eqvb leb z y.
  Proof.
    intros H. destruct (eqvb leb z x) eqn:E1, (eqvb leb z y) eqn:E2; trivial.
    - rewrite (eqvb_trans z x y E1 H) in E2. discriminate.
    - rewrite eqvb_sym in H. rewrite (eqvb_trans z y x E2 H) in E1. discriminate.
  Qed.

  (* ---------- insertion sort is a stable sort ---------- *)
  Lemma insert_perm x l : Permutation (x :: l) (insert leb x l).
  Proof.
    induction l as [|y r IH]; simpl; [reflexivity|].
    destruct (leb x y); [reflexivity|].
    etransitivity; [apply perm_swap|]. now constructor.
  Qed.

  Lemma isort_perm l : Permutation l (isort leb l).
  Proof.
    induction l as [|x r IH]; simpl; [constructor|].
    etransitivity; [|apply insert_perm]. now constructor.
  Qed.

  Lemma insert_In x y l : In y (insert leb x l) -> y = x \/ In y l.
  Proof.
    intros H. apply (Permutation_in _ (Permutation_sym (insert_perm x l))) in H.
    destruct H; [left; congruence | now right].
  Qed.

  Lemma insert_sorted x l : ssorted leb l -> ssorted leb (insert leb x l).
  Proof.
    induction l as [|y r IH]; simpl; intros H.
    - split; [intros ? []| exact I].
    - destruct H as [Hy Hr]. destruct (leb x y) eqn:E; simpl.
      + split; [|split; assumption].
        intros z [<-|Hz]; [exact E|]. eapply Htrans; [exact E | now apply Hy].
      + split; [|now apply IH].
        intros z Hz. apply insert_In in Hz as [->|Hz]; [|now apply Hy].
        destruct (Htot x y) as [H|H]; [congruence | exact H].
  Qed.

  Lemma isort_sorted l : ssorted leb (isort leb l).
  Proof. induction l; simpl; [exact I | now apply insert_sorted]. Qed.

  Lemma insert_filter_eqv z x l :
    filter (eqvb leb z) (insert leb x l) = filter (eqvb leb z) (x :: l).
  Proof.
    induction l as [|y r IH]; [reflexivity|]. simpl insert.
    destruct (leb x y) eqn:E; [reflexivity|].
    simpl. simpl in IH. rewrite IH.
    destruct (eqvb leb z x) eqn:Ex, (eqvb leb z y) eqn:Ey; trivial.
    (* x ~ z ~ y would give leb x y *)
    exfalso. rewrite eqvb_sym in Ex. pose proof (eqvb_trans x z y Ex Ey) as H.
    unfold eqvb in H. apply andb_true_iff in H as [H _]. congruence.
  Qed.

  Lemma isort_filter_eqv z l : filter (eqvb leb z) (isort leb l) = filter (eqvb leb z) l.
  Proof.
    induction l as [|x r IH]; [reflexivity|]. simpl isort.
    rewrite insert_filter_eqv. simpl. now rewrite IH.
  Qed.

  Theorem isort_is_stable_sort l : is_stable_sort l (isort leb l).
  Proof.
    split; [apply isort_perm|]. split; [apply isort_sorted|].
    intros x. apply isort_filter_eqv.
  Qed.

  (* ---------- any two stable sorts agree ---------- *)
  Lemma ssorted_head_min x r y : ssorted leb (x :: r) -> In y (x :: r) -> leb x y = true.
  Proof. intros [H _] [<-|Hy]; [apply leb_refl | now apply H]. Qed.

  Lemma stable_unique_aux l1 : forall l2,
    Permutation l1 l2 -> ssorted leb l1 -> ssorted leb l2 ->
    (forall x, filter (eqvb leb x) l1 = filter (eqvb leb x) l2) -> l1 = l2.
  Proof.
    induction l1 as [|a t1 IH]; intros l2 P S1 S2 F.
    - apply Permutation_nil in P. now subst.
    - destruct l2 as [|b t2]; [apply Permutation_sym, Permutation_nil in P; discriminate|].
      assert (Hab : leb a b = true).
      { apply (ssorted_head_min a t1 b S1). apply (Permutation_in _ (Permutation_sym P)). now left. }
      assert (Hba : leb b a = true).
      { apply (ssorted_head_min b t2 a S2). apply (Permutation_in _ P). now left. }
      assert (E : eqvb leb a b = true) by (unfold eqvb; now rewrite Hab, Hba).
      pose proof (F a) as Fa. simpl in Fa. rewrite eqvb_refl, E in Fa.
      injection Fa as -> Ft. f_equal.
      apply IH.
      + eapply Permutation_cons_inv; exact P.
      + apply S1.
      + apply S2.
      + intros x. pose proof (F x) as Fx. simpl in Fx.
        destruct (eqvb leb x b); [now injection Fx | exact Fx].
  Qed.

  Theorem stable_sort_unique l l1 l2 :
    is_stable_sort l l1 -> is_stable_sort l l2 -> l1 = l2.
  Proof.
    intros (P1 & S1 & F1) (P2 & S2 & F2). apply stable_unique_aux; trivial.
    - etransitivity; [apply Permutation_sym; exact P1 | exact P2].
    - intros x. now rewrite F1, F2.
  Qed.

  (* the model's sort predicts the result of ANY stable sort *)
  Corollary any_stable_sort_is_isort l l' : is_stable_sort l l' -> l' = isort leb l.
  Proof. intros H. eapply stable_sort_unique; [exact H | apply isort_is_stable_sort]. Qed.

  (* ---------- antisymmetric case: the sorted rearrangement is unique ---------- *)
  Hypothesis Hanti : antisym.

  Lemma sorted_perm_unique l1 : forall l2,
    Permutation l1 l2 -> ssorted leb l1 -> ssorted leb l2 -> l1 = l2.
  Proof.
    induction l1 as [|a t1 IH]; intros l2 P S1 S2.
    - apply Permutation_nil in P. now subst.
    - destruct l2 as [|b t2]; [apply Permutation_sym, Permutation_nil in P; discriminate|].
      assert (Hab : leb a b = true).
      { apply (ssorted_head_min a t1 b S1). apply (Permutation_in _ (Permutation_sym P)). now left. }
      assert (Hba : leb b a = true).
      { apply (ssorted_head_min b t2 a S2). apply (Permutation_in _ P). now left. }
      assert (a = b) by now apply Hanti. subst b. f_equal.
      apply IH; [eapply Permutation_cons_inv; exact P | apply S1 | apply S2].
  Qed.

  Theorem isort_perm_invariant l1 l2 : Permutation l1 l2 -> isort leb l1 = isort leb l2.
  Proof.
    intros P. apply sorted_perm_unique; try apply isort_sorted.
    etransitivity; [apply Permutation_sym, isort_perm|].
    etransitivity; [exact P | apply isort_perm].
  Qed.
End Facts.

Lemma ssortedb_spec {A} (leb : A -> A -> bool) l : ssortedb leb l = true <-> ssorted leb l.
Proof.
  induction l as [|x r IH]; simpl; [tauto|].
  rewrite andb_true_iff, forallb_forall, IH. tauto.
Qed.
