(* Regex.v — the regular-expression subset pygopherd's shipped ignore pattern
   uses, as an explicit matcher: alternatives of atoms (literal character,
   `.` = any character but "\n"), each optionally anchored with `$`
   (Python: end of string, or just before a final "\n"), searched unanchored
   (re.search).  The conf translator (translate/gen_umn.py, unit Ignore)
   compiles the configured pattern into `list alt`, refusing anything else.
   Definitions only. *)
From PG Require Import Lib.Str.
Local Open Scope N_scope.

Inductive atom := ALit (c : N) | AAny.
Definition alt := (list atom * bool)%type.

Definition atom_match (a : atom) (c : N) : bool :=
  match a with ALit x => N.eqb x c | AAny => negb (c =? 10) end.

Fixpoint match_here (p : list atom) (anchored : bool) (s : str) : bool :=
  match p with
  | [] => if anchored then match s with [] => true | [c] => c =? 10 | _ => false end else true
  | a :: p' => match s with
               | [] => false
               | c :: s' => atom_match a c && match_here p' anchored s'
               end
  end.

Definition match_any_here (alts : list alt) (s : str) : bool :=
  existsb (fun al => match_here (fst al) (snd al) s) alts.

(* re.search(pattern, s) is not None *)
Fixpoint re_search (alts : list alt) (s : str) : bool :=
  match_any_here alts s ||
  match s with [] => false | _ :: s' => re_search alts s' end.
