(* Bytes.v — `bytes` objects are `list N` with every element < 256. *)
From PG Require Export Lib.Str.
Local Open Scope N_scope.

Definition is_byte (c : N) : bool := c <? 256.
Definition is_bytes (b : list N) : bool := forallb is_byte b.
