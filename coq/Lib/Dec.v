(* Dec.v — str(int) for signed integers (Python's decimal printing) and a
   reference parser.  Definitions only; facts in Lib/DecFacts.v. *)
From Coq Require Import ZArith.
From PG Require Import Lib.Str.
Local Open Scope N_scope.

Definition MINUS : N := 45.

(* str(z) *)
Definition print_Z (z : Z) : str :=
  match z with
  | Z0 => print_dec 0
  | Zpos p => print_dec (Npos p)
  | Zneg p => MINUS :: print_dec (Npos p)
  end.

(* reference reading of an optionally signed decimal numeral *)
Definition parse_Z (s : str) : option Z :=
  match s with
  | c :: r => if c =? MINUS then option_map (fun n => Z.opp (Z.of_N n)) (parse_dec r)
              else option_map Z.of_N (parse_dec s)
  | [] => None
  end.
