(* PercentFacts.v — facts about Lib/Percent.v (urllib.parse quoting). *)
From Coq Require Import Lia ZArith.
From PG Require Import Lib.Str Lib.StrFacts Lib.Bytes Lib.Percent.
Local Open Scope N_scope.
(* lia with division/modulo by constants turned into equations; kept local so that
   importing this file does not change the behaviour of lia elsewhere *)
Local Ltac dlia := zify; Z.to_euclidean_division_equations; lia.

Local Ltac b2p :=
  repeat match goal with
  | H : _ && _ = true |- _ => apply andb_true_iff in H; destruct H
  | H : _ && _ = false |- _ => apply andb_false_iff in H; destruct H
  | H : _ || _ = false |- _ => apply orb_false_iff in H; destruct H
  | H : (_ <=? _) = true |- _ => apply N.leb_le in H
  | H : (_ <? _) = true |- _ => apply N.ltb_lt in H
  | H : (_ <? _) = false |- _ => apply N.ltb_ge in H
  | H : (_ <=? _) = false |- _ => apply N.leb_gt in H
  | H : (_ =? _) = true |- _ => apply N.eqb_eq in H
  | H : (_ =? _) = false |- _ => apply N.eqb_neq in H
  | H : true = false |- _ => discriminate H
  | H : false = true |- _ => discriminate H
  end.

Local Ltac ifs :=
  repeat match goal with
  | |- context [if ?c then _ else _] =>
      let E := fresh "E" in destruct c eqn:E; b2p; try dlia
  end.

(* ---------- hex digits ---------- *)
Lemma hexval_hexdig d : d < 16 -> hexval (hexdig d) = Some d.
Proof.
  intros H. unfold hexval, hexdig. destruct (d <? 10) eqn:D; b2p; ifs; f_equal; dlia.
Qed.

Lemma hexdig_ascii d : d < 16 -> hexdig d <? 128 = true.
Proof.
  intros H. unfold hexdig. destruct (d <? 10); apply N.ltb_lt; dlia.
Qed.

Lemma hexdig_upper d : d < 16 -> is_upper_hex (hexdig d) = true.
Proof.
  intros H. unfold is_upper_hex, hexdig.
  destruct (d <? 10) eqn:E; b2p.
  - apply orb_true_iff; left. apply andb_true_iff; split; apply N.leb_le; dlia.
  - apply orb_true_iff; right. apply andb_true_iff; split; apply N.leb_le; dlia.
Qed.

Lemma upper_hex_unreserved c : is_upper_hex c = true -> is_unreserved c = true.
Proof.
  unfold is_upper_hex, is_unreserved. intros H.
  apply orb_true_iff in H as [H|H]; b2p.
  - assert (A : (48 <=? c) && (c <=? 57) = true)
      by (apply andb_true_iff; split; apply N.leb_le; dlia).
    rewrite A. now rewrite !orb_true_r.
  - assert (A : (65 <=? c) && (c <=? 90) = true)
      by (apply andb_true_iff; split; apply N.leb_le; dlia).
    now rewrite A.
Qed.

Lemma hexval_lt c v : hexval c = Some v -> v < 16.
Proof.
  unfold hexval. intros H.
  repeat match type of H with
  | context [if ?c then _ else _] => destruct c eqn:?; b2p
  end; inversion H; subst; dlia.
Qed.

Lemma percent_not_unreserved : is_unreserved 37 = false.
Proof. reflexivity. Qed.

Lemma keeps_not_percent safe c :
  mem_N 37 safe = false -> quote_keeps safe c = true -> c =? 37 = false.
Proof.
  intros S K. destruct (c =? 37) eqn:E; [|reflexivity]. b2p. subst c.
  unfold quote_keeps in K. rewrite S in K. discriminate K.
Qed.

(* ---------- is_bytes ---------- *)
Lemma is_bytes_cons x b : is_bytes (x :: b) = true <-> x < 256 /\ is_bytes b = true.
Proof.
  unfold is_bytes, is_byte. simpl. rewrite andb_true_iff, N.ltb_lt. reflexivity.
Qed.

(* ---------- unquote after quote ---------- *)
Lemma unquote_bytes_eq c r :
  unquote_bytes (c :: r) =
  if c =? 37 then
    match r with
    | h :: l :: r' =>
        match hexval h, hexval l with
        | Some a, Some b => (16 * a + b) :: unquote_bytes r'
        | _, _ => 37 :: unquote_bytes r
        end
    | _ => 37 :: unquote_bytes r
    end
  else c :: unquote_bytes r.
Proof. reflexivity. Qed.

Lemma unquote_escape h l a v r :
  hexval h = Some a -> hexval l = Some v ->
  unquote_bytes (37 :: h :: l :: r) = (16 * a + v) :: unquote_bytes r.
Proof. intros H1 H2. rewrite unquote_bytes_eq, N.eqb_refl, H1, H2. reflexivity. Qed.

Lemma unquote_plain c r : c =? 37 = false -> unquote_bytes (c :: r) = c :: unquote_bytes r.
Proof. intros H. rewrite unquote_bytes_eq, H. reflexivity. Qed.

Lemma unquote_quote_byte safe c t :
  mem_N 37 safe = false -> c < 256 ->
  unquote_bytes (quote_byte safe c ++ t) = c :: unquote_bytes t.
Proof.
  intros S C. unfold quote_byte. destruct (quote_keeps safe c) eqn:K.
  - apply unquote_plain. exact (keeps_not_percent _ _ S K).
  - change ([37; hexdig (c / 16); hexdig (c mod 16)] ++ t)
      with (37 :: hexdig (c / 16) :: hexdig (c mod 16) :: t).
    rewrite (unquote_escape _ _ (c / 16) (c mod 16)) by (apply hexval_hexdig; dlia).
    f_equal. dlia.
Qed.

(* the hypothesis on `safe` is necessary: quote("%41", safe="%") = "%41",
   which unquotes to "A" *)
Theorem unquote_quote safe b :
  mem_N 37 safe = false -> is_bytes b = true ->
  unquote_bytes (quote_bytes safe b) = b.
Proof.
  intros S. induction b as [|c r IH]; intros B; [reflexivity|].
  apply is_bytes_cons in B as [C B]. simpl.
  rewrite (unquote_quote_byte _ _ _ S C). now rewrite IH.
Qed.

Corollary unquote_quote_path b : is_bytes b = true -> unquote_bytes (quote_path b) = b.
Proof. apply unquote_quote. reflexivity. Qed.

Theorem quote_injective safe a b :
  mem_N 37 safe = false -> is_bytes a = true -> is_bytes b = true ->
  quote_bytes safe a = quote_bytes safe b -> a = b.
Proof.
  intros S A B E. rewrite <- (unquote_quote safe a S A), <- (unquote_quote safe b S B).
  now rewrite E.
Qed.

(* ---------- the characters of a quoted string ---------- *)
Definition quote_out_ok (safe : list N) (c : N) : bool :=
  is_unreserved c || mem_N c safe || (c =? 37) || is_upper_hex c.

Lemma quote_byte_charset safe c :
  c < 256 -> forallb (quote_out_ok safe) (quote_byte safe c) = true.
Proof.
  intros C. unfold quote_byte. destruct (quote_keeps safe c) eqn:K.
  - simpl. unfold quote_out_ok. unfold quote_keeps in K.
    apply orb_true_iff in K as [K|K].
    + now rewrite K.
    + apply andb_true_iff in K as [_ K]. rewrite K. now rewrite orb_true_r.
  - simpl. unfold quote_out_ok at 1. simpl.
    unfold quote_out_ok. rewrite !hexdig_upper by dlia. now rewrite !orb_true_r.
Qed.

Theorem quote_charset safe b :
  is_bytes b = true -> forallb (quote_out_ok safe) (quote_bytes safe b) = true.
Proof.
  induction b as [|c r IH]; intros B; [reflexivity|].
  apply is_bytes_cons in B as [C B]. simpl. rewrite forallb_app.
  now rewrite (quote_byte_charset _ _ C), IH.
Qed.

(* the result is an ASCII string when `safe` is *)
Theorem quote_all_ascii safe b :
  is_bytes b = true -> all_ascii (quote_bytes safe b) = true.
Proof.
  induction b as [|c r IH]; intros B; [reflexivity|].
  apply is_bytes_cons in B as [C B]. unfold all_ascii in *. simpl. rewrite forallb_app.
  rewrite (IH B), andb_true_r. unfold quote_byte.
  destruct (quote_keeps safe c) eqn:K; simpl.
  - unfold quote_keeps, is_unreserved in K. rewrite andb_true_r. apply N.ltb_lt.
    repeat (apply orb_true_iff in K as [K|K]); b2p; dlia.
  - rewrite !hexdig_ascii by dlia. reflexivity.
Qed.

(* a byte that is not unreserved, not in `safe` and not "%" never occurs in the
   output (hex digits are unreserved, so nothing more has to be excluded) *)
Theorem quote_no_space_ctl safe b c :
  is_bytes b = true ->
  is_unreserved c = false -> mem_N c safe = false -> c <> 37 ->
  mem_N c (quote_bytes safe b) = false.
Proof.
  intros B U S P.
  destruct (mem_N c (quote_bytes safe b)) eqn:M; [|reflexivity].
  apply mem_N_In in M.
  pose proof (quote_charset safe b B) as Q.
  rewrite forallb_forall in Q. specialize (Q c M). unfold quote_out_ok in Q.
  rewrite U, S in Q. simpl in Q. apply orb_true_iff in Q as [Q|Q].
  - b2p. contradiction.
  - apply upper_hex_unreserved in Q. congruence.
Qed.

(* the form asked for by the users of this file: with the redundant hex clause *)
Corollary quote_no_space_ctl' safe b c :
  is_bytes b = true ->
  is_unreserved c = false -> mem_N c safe = false -> c <> 37 -> is_hex c = false ->
  mem_N c (quote_bytes safe b) = false.
Proof. intros B U S P _. now apply quote_no_space_ctl. Qed.

(* default safe="/": no control character, no space, no question mark, double or
   single quote, angle bracket, ampersand or hash *)
Corollary quote_path_no_space_ctl b c :
  is_bytes b = true -> c <= 32 -> mem_N c (quote_path b) = false.
Proof.
  intros B C. apply quote_no_space_ctl; [exact B| | |dlia].
  - unfold is_unreserved.
    repeat (apply orb_false_iff; split);
      try (apply andb_false_iff; left; apply N.leb_gt; dlia); apply N.eqb_neq; dlia.
  - simpl. rewrite orb_false_r. apply N.eqb_neq. dlia.
Qed.

Corollary quote_path_no_delims b c :
  is_bytes b = true -> In c [63; 34; 60; 62; 38; 39; 35; 9; 10; 13; 32; 127] ->
  mem_N c (quote_path b) = false.
Proof.
  intros B C. simpl in C.
  repeat (destruct C as [<-|C]; [apply quote_no_space_ctl; [exact B|reflexivity|reflexivity|discriminate]|]).
  contradiction.
Qed.

(* ---------- unquote ---------- *)
Theorem unquote_idempotent_on_plain s : mem_N 37 s = false -> unquote_bytes s = s.
Proof.
  induction s as [|c r IH]; [reflexivity|]. intros H.
  change (mem_N 37 (c :: r)) with ((37 =? c) || mem_N 37 r) in H.
  apply orb_false_iff in H as [H1 H2]. rewrite N.eqb_sym in H1.
  rewrite (unquote_plain _ _ H1). now rewrite IH.
Qed.

(* one step of unquote_bytes, and induction along the steps *)
Inductive ustep : list N -> N -> list N -> Prop :=
| us_plain c r : c <> 37 -> ustep (c :: r) c r
| us_escape h l a v r :
    hexval h = Some a -> hexval l = Some v -> ustep (37 :: h :: l :: r) (16 * a + v) r
| us_literal r : ustep (37 :: r) 37 r.

Lemma unquote_bytes_step s :
  s <> [] -> exists c r, ustep s c r /\ unquote_bytes s = c :: unquote_bytes r.
Proof.
  destruct s as [|c r]; [congruence|]. intros _.
  destruct (c =? 37) eqn:E.
  - b2p. subst c.
    assert (LIT : exists c0 r0, ustep (37 :: r) c0 r0 /\
                                37 :: unquote_bytes r = c0 :: unquote_bytes r0).
    { exists 37, r. split; [apply us_literal | reflexivity]. }
    destruct r as [|h [|l r']]; try exact LIT.
    destruct (hexval h) as [a|] eqn:HA.
    + destruct (hexval l) as [v|] eqn:HV.
      * exists (16 * a + v), r'. split; [now apply us_escape | now apply unquote_escape].
      * rewrite unquote_bytes_eq, N.eqb_refl, HA, HV. exact LIT.
    + rewrite unquote_bytes_eq, N.eqb_refl, HA. exact LIT.
  - exists c, r. split; [apply us_plain; now b2p | now apply unquote_plain].
Qed.

Lemma ustep_length s c r : ustep s c r -> (length r < length s)%nat.
Proof. intros H. destruct H; simpl; dlia. Qed.

Lemma unquote_bytes_ind (P : list N -> Prop) :
  P [] ->
  (forall s c r, ustep s c r -> unquote_bytes s = c :: unquote_bytes r -> P r -> P s) ->
  forall s, P s.
Proof.
  intros P0 PS s.
  assert (G : forall n s, (length s <= n)%nat -> P s).
  { induction n as [|n IH]; intros s0 L.
    - destruct s0; [exact P0 | simpl in L; dlia].
    - destruct s0 as [|x r0]; [exact P0|].
      destruct (unquote_bytes_step (x :: r0)) as (c & r & S & E); [discriminate|].
      apply (PS _ c r S E). apply IH. apply ustep_length in S. dlia. }
  apply (G (length s)). dlia.
Qed.

Lemma unquote_bytes_is_bytes s : is_bytes s = true -> is_bytes (unquote_bytes s) = true.
Proof.
  induction s as [|s c r S E IH] using unquote_bytes_ind; intros B; [reflexivity|].
  rewrite E. destruct S as [c r NE|h l a v r HA HV|r].
  - apply is_bytes_cons in B as [C B]. apply is_bytes_cons. split; [exact C | now apply IH].
  - do 3 (apply is_bytes_cons in B as [_ B]).
    apply hexval_lt in HA. apply hexval_lt in HV.
    apply is_bytes_cons. split; [dlia | now apply IH].
  - apply is_bytes_cons in B as [_ B]. apply is_bytes_cons. split; [dlia | now apply IH].
Qed.

Lemma unquote_bytes_length_le s : (length (unquote_bytes s) <= length s)%nat.
Proof.
  induction s as [|s c r S E IH] using unquote_bytes_ind; [simpl; dlia|].
  rewrite E. apply ustep_length in S. simpl. dlia.
Qed.

Print Assumptions unquote_quote.
Print Assumptions quote_charset.
Print Assumptions quote_no_space_ctl.
Print Assumptions quote_injective.
Print Assumptions unquote_idempotent_on_plain.
