(* HtmlEscFacts.v — html.escape is injective: the entity decoder inverts it;
   escaped text contains no markup character. *)
From Coq Require Import Lia String.
From PG Require Import Lib.Str Lib.StrFacts Lib.HtmlEsc.
Local Open Scope N_scope.

Lemma esc_char_cases q c :
  (c = AMP /\ esc_char q c = E_AMP) \/ (c = LT /\ esc_char q c = E_LT) \/
  (c = GT /\ esc_char q c = E_GT) \/ (q = true /\ c = DQ /\ esc_char q c = E_DQ) \/
  (q = true /\ c = SQ /\ esc_char q c = E_SQ) \/
  (c <> AMP /\ c <> LT /\ c <> GT /\ esc_char q c = [c]).
Proof.
  unfold esc_char.
  destruct (c =? AMP) eqn:E1; [apply N.eqb_eq in E1; auto|].
  destruct (c =? LT) eqn:E2; [apply N.eqb_eq in E2; auto|].
  destruct (c =? GT) eqn:E3; [apply N.eqb_eq in E3; auto 6|].
  apply N.eqb_neq in E1, E2, E3.
  destruct q; simpl.
  - destruct (c =? DQ) eqn:E4; [apply N.eqb_eq in E4; auto 8|].
    destruct (c =? SQ) eqn:E5; [apply N.eqb_eq in E5; auto 10|].
    auto 12.
  - auto 12.
Qed.

Ltac esc_cases q c :=
  destruct (esc_char_cases q c) as
    [[? ?]|[[? ?]|[[? ?]|[[? [? ?]]|[[? [? ?]]|[? [? [? ?]]]]]]]].

Lemma esc_char_length q c : (1 <= List.length (esc_char q c))%nat.
Proof. esc_cases q c; match goal with H : esc_char _ _ = _ |- _ => rewrite H end; simpl; lia. Qed.

Lemma escape_length q s : (List.length s <= List.length (escape q s))%nat.
Proof.
  induction s as [|c s IH]; simpl; [lia|]. rewrite app_length.
  pose proof (esc_char_length q c). lia.
Qed.

Lemma mem_N_app x a b : mem_N x (a ++ b) = mem_N x a || mem_N x b.
Proof. induction a as [|y a IHa]; simpl; [reflexivity|]. now rewrite IHa, orb_assoc. Qed.

(* one decoding step undoes one encoded character *)
Lemma unescape_step q c rest f :
  unescape_aux (S f) (esc_char q c ++ rest) = c :: unescape_aux f rest.
Proof.
  esc_cases q c; match goal with H : esc_char _ _ = _ |- _ => rewrite H end; subst; try reflexivity.
  (* ordinary character: it is not an ampersand, so no entity starts here *)
  change ([c] ++ rest) with (c :: rest). cbn [unescape_aux].
  assert (P : forall e, prefixb (AMP :: e) (c :: rest) = false).
  { intros e. cbn [prefixb]. rewrite N.eqb_sym.
    match goal with H : c <> AMP |- _ => apply N.eqb_neq in H; now rewrite H end. }
  change E_AMP with (AMP :: lit "amp;"). change E_LT with (AMP :: lit "lt;").
  change E_GT with (AMP :: lit "gt;"). change E_DQ with (AMP :: lit "quot;").
  change E_SQ with (AMP :: lit "#x27;").
  now rewrite !P.
Qed.

Lemma unescape_aux_escape q s : forall f, (List.length s <= f)%nat ->
  unescape_aux f (escape q s) = s.
Proof.
  induction s as [|c s IH]; intros f Hf.
  - destruct f; reflexivity.
  - destruct f as [|f]; [simpl in Hf; lia|]. simpl escape.
    rewrite unescape_step. f_equal. apply IH. simpl in Hf. lia.
Qed.

Theorem unescape_escape q s : unescape (escape q s) = s.
Proof. unfold unescape. apply unescape_aux_escape, escape_length. Qed.

(* escaped text contains neither angle bracket *)
Lemma escape_no_markup q s : mem_N LT (escape q s) = false /\ mem_N GT (escape q s) = false.
Proof.
  induction s as [|c s [IH1 IH2]]; [split; reflexivity|]. simpl escape.
  rewrite !mem_N_app, IH1, IH2, !orb_false_r.
  esc_cases q c; match goal with H : esc_char _ _ = _ |- _ => rewrite H end; try (split; reflexivity).
  cbn [mem_N]. rewrite !orb_false_r. split; apply N.eqb_neq; congruence.
Qed.

(* a line feed is never introduced *)
Lemma escape_no_lf q s : mem_N 10 s = false -> mem_N 10 (escape q s) = false.
Proof.
  induction s as [|c s IH]; [reflexivity|]. cbn [mem_N]. intros H.
  apply orb_false_iff in H as [Hc Hs]. simpl escape.
  rewrite mem_N_app, (IH Hs), orb_false_r.
  esc_cases q c; match goal with H : esc_char _ _ = _ |- _ => rewrite H end; try reflexivity.
  cbn [mem_N]. now rewrite Hc.
Qed.

Lemma escape_nil_iff q s : escape q s = [] <-> s = [].
Proof.
  split; [|intros ->; reflexivity]. destruct s as [|c s]; [reflexivity|]. simpl.
  pose proof (esc_char_length q c). destruct (esc_char q c); simpl in *; [lia|discriminate].
Qed.

Lemma escape_first_not_lt q s c r : escape q s = c :: r -> c <> LT.
Proof.
  intros H E. subst c. pose proof (proj1 (escape_no_markup q s)) as M. rewrite H in M.
  cbn [mem_N] in M. now rewrite N.eqb_refl in M.
Qed.
