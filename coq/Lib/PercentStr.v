(* PercentStr.v — urllib.parse.quote / unquote at the `str` level with
   errors="surrogateescape" (the way pygopherd calls them), built from the byte
   level functions of Percent.v and the codec of Utf8.v.  Definitions only. *)
From PG Require Export Lib.Str Lib.Bytes Lib.Percent Lib.Utf8.
Local Open Scope N_scope.

(* urllib.parse.unquote(s, errors="surrogateescape") for an ASCII str s *)
Definition unquote_str (s : str) : str := decode_se (unquote_bytes s).

(* urllib.parse.quote(s, safe=safe, errors="surrogateescape");
   None = UnicodeEncodeError *)
Definition quote_str (safe : list N) (s : str) : option str :=
  option_map (quote_bytes safe) (encode_se s).

(* urllib.parse.unquote(s, errors="surrogateescape") for any str: only the
   maximal ASCII runs ([\x00-\x7f]+) are unquoted and decoded, the non-ASCII
   characters between them are copied.  `cur` is the current run, reversed. *)
Fixpoint unquote_py_aux (cur : str) (s : str) : str :=
  match s with
  | [] => unquote_str (rev cur)
  | c :: r =>
      if c <? 128 then unquote_py_aux (c :: cur) r
      else unquote_str (rev cur) ++ c :: unquote_py_aux [] r
  end.
Definition unquote_py (s : str) : str := unquote_py_aux [] s.
