(* Crlf.v — reading CRLF-terminated lines off a response, the way a client does.
   Definitions only; facts in Lib/CrlfFacts.v. *)
From PG Require Import Lib.Str.
Local Open Scope N_scope.

Definition CR : N := 13.
Definition LF : N := 10.
Definition crlf : str := [CR; LF].

Definition starts_crlf (s : str) : bool :=
  match s with x :: y :: _ => (x =? CR) && (y =? LF) | _ => false end.

(* (text before the first CRLF, text after it); None when there is no CRLF *)
Fixpoint cut_crlf (s : str) : option (str * str) :=
  match s with
  | [] => None
  | x :: r =>
      if starts_crlf s then Some ([], tl r)
      else match cut_crlf r with
           | Some (a, b) => Some (x :: a, b)
           | None => None
           end
  end.

(* all CRLF-terminated lines; the second component is an unterminated rest *)
Fixpoint split_crlf_aux (cur : str) (s : str) : list str * str :=
  match s with
  | [] => ([], rev cur)
  | x :: r =>
      if (x =? LF) && (match cur with c :: _ => c =? CR | [] => false end)
      then let '(ls, rest) := split_crlf_aux [] r in (rev (tl cur) :: ls, rest)
      else split_crlf_aux (x :: cur) r
  end.
Definition split_crlf (s : str) : list str * str := split_crlf_aux [] s.

Definition unlines_crlf (ls : list str) : str := concat (map (fun l => l ++ crlf) ls).

(* header block of an HTTP/1.0 response: lines up to the first empty line, then the body *)
Fixpoint http_split (fuel : nat) (s : str) : option (list str * str) :=
  match fuel with
  | O => None
  | S f =>
      match cut_crlf s with
      | None => None
      | Some ([], body) => Some ([], body)
      | Some (l, rest) =>
          match http_split f rest with
          | Some (ls, body) => Some (l :: ls, body)
          | None => None
          end
      end
  end.
