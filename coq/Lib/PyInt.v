(* PyInt.v — CPython 3.12 `int(s)` (base 10) for a `str` argument, on ASCII input.
   Definitions only; facts in Proofs/C09Facts.v.

   int(s), s an ASCII str:
     * leading and trailing C whitespace (Py_ISSPACE: 0x09..0x0D and 0x20) is
       skipped; 0x1C..0x1F are NOT skipped here (str.strip() does strip them);
     * one optional sign "+" / "-";
     * then decimal digits, single underscores allowed BETWEEN digits
       ("7_0" ok; "_7", "7_", "7__0" are errors); leading zeros are fine;
     * more than 4300 digits (sys.get_int_max_str_digits(), underscores not
       counted, leading zeros counted) is a ValueError as well;
     * anything else: ValueError  (None here).

   OUTSIDE THE MODEL: non-ASCII input.  CPython first maps every Unicode
   decimal digit (e.g. ARABIC-INDIC DIGIT SEVEN) to its ASCII digit and every
   Unicode space >= 0x7F to " "; this function answers None (ValueError) on any
   code point >= 128, which is right except for those two classes. *)
From Coq Require Import ZArith.
From PG Require Import Lib.Str.
Local Open Scope N_scope.

Definition is_c_space (c : N) : bool := ((9 <=? c) && (c <=? 13)) || (c =? 32).

Fixpoint lstrip_c (s : str) : str :=
  match s with
  | [] => []
  | x :: s' => if is_c_space x then lstrip_c s' else s
  end.
Definition strip_c (s : str) : str := rev (lstrip_c (rev (lstrip_c s))).

Definition UNDERSCORE : N := 95.
Definition PLUS : N := 43.
Definition MINUS_SIGN : N := 45.
Definition INT_MAX_STR_DIGITS : N := 4300.

(* digits with single underscores between them; returns (value, number of digits).
   `after_us` = the previous character was an underscore. *)
Fixpoint digits_us (acc cnt : N) (after_us : bool) (s : str) : option (N * N) :=
  match s with
  | [] => if after_us then None else Some (acc, cnt)
  | c :: r =>
      if is_ascii_digit c then digits_us (acc * 10 + (c - 48)) (cnt + 1) false r
      else if (c =? UNDERSCORE) && negb after_us then digits_us acc cnt true r
      else None
  end.

(* magnitude: must start with a digit *)
Definition int_magnitude (body : str) : option N :=
  match body with
  | c :: _ =>
      if is_ascii_digit c then
        match digits_us 0 0 false body with
        | Some (n, cnt) => if INT_MAX_STR_DIGITS <? cnt then None else Some n
        | None => None
        end
      else None
  | [] => None
  end.

(* int(s): None = ValueError *)
Definition py_int (s : str) : option Z :=
  match strip_c s with
  | [] => None
  | c :: r =>
      if c =? MINUS_SIGN then option_map (fun n => Z.opp (Z.of_N n)) (int_magnitude r)
      else if c =? PLUS then option_map Z.of_N (int_magnitude r)
      else option_map Z.of_N (int_magnitude (c :: r))
  end.
