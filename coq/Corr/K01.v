(* Correspondence checkers for C01: each takes one case (input paired with what
   the implementation returned) and says whether the model agrees. *)
From Coq Require Import String.
From PG Require Import Lib.Str Gen.Secure Model.Selector Model.Handlers.
Local Open Scope N_scope.

(* (selector, (isrequestsecure, (url isrequestsecure, slashnormalize))) *)
Definition chk_sel (c : str * (bool * (bool * str))) : bool :=
  let '(s, (sec, (usec, norm))) := c in
  Bool.eqb (is_secure s) sec && Bool.eqb (url_secure s) usec && str_eqb (slashnormalize s) norm.

(* ((root, selector), (getfspath, os-level "root + selector stays inside root")) *)
Definition chk_path (c : (str * str) * (option str * bool)) : bool :=
  let '((root, s), (fsp, ins)) := c in
  opt_eqb str_eqb (getfspath root s) fsp && Bool.eqb (inside root (root ++ s)) ins.

(* (selector, ((selectorreal, selectorargs), (rewriter accepts, selector[2:]))) *)
Definition chk_virtual (c : str * ((str * str) * (bool * str))) : bool :=
  let '(s, ((re, ar), (racc, rtgt))) := c in
  let '(mre, mar) := virtual_split s in
  str_eqb mre re && str_eqb mar ar && Bool.eqb (rewriter_accepts s) racc && str_eqb (rewriter_target s) rtgt.

(* handler choice: ((tree, handler list, zip enabled), (selector, mime-is-html, compressed-ok, real choice)) *)
Definition zip_pat (s : str) : bool := endswith s (lit ".zip") || endswith s (lit ".zip" ++ [10]).
Definition choice_eqb (a : choice) (b : option (hid * str)) : bool :=
  match a, b with
  | NotFound, None => true
  | Chosen h s, Some (h', s') => hid_eqb h h' && str_eqb s s'
  | _, _ => false
  end.
Definition chk_choose (c : (tree * (list hid * bool)) * (str * (bool * (bool * option (hid * str))))) : bool :=
  let '((root, (hs, ze)), (sel, (mh, (co, r)))) := c in
  choice_eqb (get_handler root (fun _ => mh) (fun _ => co) ze zip_pat (fun _ => true) hs sel) r.
