(* Correspondence checkers for C16: model of handlers/ZIP.py vs the real VFSZip,
   and the reference (extract + OS resolution) vs the real extracted tree. *)
From PG Require Import Lib.Str Lib.ZipPath Model.Zip.
Local Open Scope N_scope.

(* what the harness reads out of VFSZip.dircache, inode by inode *)
Inductive xnode := XD (ents : list (str * nat)) | XF (oname : str).

Definition ent_eqb (a b : str * nat) : bool := str_eqb (fst a) (fst b) && Nat.eqb (snd a) (snd b).
Definition incl_str (a b : list str) : bool := forallb (fun x => mem_str x b) a.
Definition set_eq_str (a b : list str) : bool := incl_str a b && incl_str b a.

Definition oname_of (ms : list member) (k : nat) : str :=
  match nth_error ms k with Some m => m_oname m | None => [] end.

Fixpoint chk_nodes (ms : list member) (t : tbl) (i : nat) (ks : list inode) (xs : list xnode) : bool :=
  match ks, xs with
  | [], [] => true
  | IDir :: ks', XD e :: xs' => list_eqb ent_eqb (dir_entries t i) e && chk_nodes ms t (S i) ks' xs'
  | IFile k :: ks', XF o :: xs' => str_eqb (oname_of ms k) o && chk_nodes ms t (S i) ks' xs'
  | _, _ => false
  end.

Definition exn_code (e : exn) : N :=
  match e with TypeError => 0 | IndexError => 1 | KeyError => 2 | OutOfFuel => 3 end.

(* ((variant, members), exception | nodes, invalid_paths, entrycache keys) *)
Inductive xout := XExc (code : N) | XOk (nodes : list xnode) (inval eckeys : list str).
Definition chk_index (c : (variant * list member) * xout) : bool :=
  let '((v, ms), out) := c in
  match populate v ms, out with
  | Err e, XExc code => exn_code e =? code
  | Ok (t, cc), XOk xs inval eckeys =>
      chk_nodes ms t 0 (t_kinds t) xs &&
      set_eq_str (c_inv cc) inval && set_eq_str (map fst (c_ec cc)) eckeys
  | _, _ => false
  end.

Definition vres_eqb (a b : vres) : bool :=
  match a, b with
  | RExc, RExc => true
  | RBool x, RBool y => Bool.eqb x y
  | RStatDir, RStatDir => true
  | RStatReg x, RStatReg y => x =? y
  | RNames x, RNames y => list_eqb str_eqb x y
  | RData x, RData y => str_eqb x y
  | _, _ => false
  end.

Fixpoint run_ops (v : variant) (ms : list member) (t : tbl) (c : caches) (zname : str)
    (calls : list (vop * str * vres)) : list vres :=
  match calls with
  | [] => []
  | (op, sel, chain) :: r => let (x, c') := vfs_op v ms t c zname op sel chain in x :: run_ops v ms t c' zname r
  end.

(* (((variant, members), (archive selector, calls each with the chain file system's own answer)),
   results of the same calls on one real VFSZip) *)
Inductive vout := VRaised | VRes (rs : list vres).
Definition chk_vfs (c : ((variant * list member) * (str * list (vop * str * vres))) * vout) : bool :=
  let '(((v, ms), (zname, calls)), out) := c in
  match populate v ms, out with
  | Err _, VRaised => true
  | Ok (t, cc), VRes rs => list_eqb vres_eqb (run_ops v ms t cc zname calls) rs
  | _, _ => false
  end.

(* reference side: extract + OS walk vs the real extracted tree through VFS_Real.
   impl observation: 0 = absent, 1 = directory with these names (as a set), 2 = file with these bytes *)
Inductive robs := RAbsent | RDirSet (names : list str) | RFileData (d : list N).
Definition resolvable (f : fs) (p : list str) : bool :=
  match os_walk 400 f [] p with Some _ => true | None => false end.
Definition chk_tree (c : (list member * list str) * robs) : bool :=
  let '((ms, q), o) := c in
  let f := extract ms in
  match fs_observe f (os_walk 400 f [] q), o with
  | TOAbsent, RAbsent => true
  | TODir p, RDirSet names => set_eq_str (filter (fun n => resolvable f (p ++ [n])) (fs_children f p)) names
  | TOFile d, RFileData d' => str_eqb d d'
  | _, _ => false
  end.

(* normpath / os.path.split / os.path.join against the real functions *)
Definition chk_path (c : str * (str * (str * str))) : bool :=
  let '(p, (np, (h, t))) := c in
  str_eqb (normpath p) np && str_eqb (fst (os_split p)) h && str_eqb (snd (os_split p)) t.
Definition chk_join (c : (str * str) * str) : bool :=
  let '((a, b), j) := c in str_eqb (os_join a b) j.
