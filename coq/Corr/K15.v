(* Correspondence checkers for C15. *)
From Coq Require Import String ZArith.
From PG Require Import Lib.Str Lib.Dec Lib.Crlf Model.Entry Model.Render0 Model.Mime Model.GopherPlus.
Local Open Scope N_scope.

Definition MASKED_DATE : N -> str := fun _ => lit "<T>".

Definition optN_eqb := opt_eqb N.eqb.
Definition optZ_eqb := opt_eqb Z.eqb.

(* all fields except ctime (never rendered, not controlled by the harness) *)
Definition entry_eqb (a b : entry) : bool :=
  str_eqb (e_selector a) (e_selector b) && optstr_eqb (e_type a) (e_type b) &&
  optstr_eqb (e_name a) (e_name b) && optstr_eqb (e_host a) (e_host b) && optZ_eqb (e_port a) (e_port b) &&
  optstr_eqb (e_mimetype a) (e_mimetype b) && optstr_eqb (e_encodedmimetype a) (e_encodedmimetype b) &&
  optN_eqb (e_size a) (e_size b) && optstr_eqb (e_encoding a) (e_encoding b) &&
  optstr_eqb (e_language a) (e_language b) && optN_eqb (e_mtime a) (e_mtime b) &&
  Bool.eqb (e_gopherpsupport a) (e_gopherpsupport b) && Bool.eqb (e_populated a) (e_populated b) &&
  ea_eqb (e_ea a) (e_ea b).

(* (sidecar content, the attribute text handleeaext stored) *)
Definition chk_ea_value (c : str * str) : bool := let '(content, v) := c in str_eqb (ea_value content) v.

(* (text, text.splitlines()) *)
Definition chk_splitlines (c : str * list str) : bool :=
  let '(s, ls) := c in list_eqb str_eqb (splitlines s) ls.

Section WithConfig.
  Variable keep : bool.            (* which getblock: repaired (true) or pinned (false) *)
  Variables t_suffix t_enc t_strict t_common : list (str * str).
  Variable default_mime : str.
  Variable eaexts : list (str * str).       (* the configured [GopherEntry] eaexts, in dictionary order *)
  Variable admin : str.
  Variable srvname : str.
  Variable srvport : Z.

  (* populatefromfs on a fresh entry:
     (((selector, stat), sidecars as (full name, content)), entry dumped from the implementation) *)
  Definition sidecar_of (l : list (str * str)) (name : str) : option str := dict_get name l.
  Definition chk_populate (c : ((str * (bool * (N * N))) * list (str * str)) * entry) : bool :=
    let '(((sel, (isdir, (size, mtime))), sc), impl) := c in
    entry_eqb
      (populatefromfs t_suffix t_enc t_strict t_common default_mime eaexts (sidecar_of sc)
                      sel (Some (mkStat isdir size mtime 0)) (new_entry sel))
      impl.

  (* "!" : (entry the protocol rendered, response with dates masked) *)
  Definition chk_info (c : entry * str) : bool :=
    let '(e, resp) := c in
    optstr_eqb (gplus_info keep admin srvname srvport MASKED_DATE e) (Some resp).

  (* "$" / "+" on a directory:
     ((method is "$", (directory entry, entries in rendering order)), response) — the entries
     are the ones the protocol rendered, abstracts already interleaved by writedir *)
  Definition chk_dir_rendered (c : (bool * (entry * list entry)) * str) : bool :=
    let '((dollar, (dir, rendered)), resp) := c in
    let meth := if dollar then GopherPlusDir else DocumentOnly in
    optstr_eqb
      (option_map (app (size_line dir))
         (concat_opt (map (renderobjinfo keep admin srvname srvport MASKED_DATE meth) rendered)))
      (Some resp).

  (* writedir's choice of what to render: ((abstract_headers, doabstracts), (dir, entries)) vs rendered selectors/names *)
  Definition chk_writedir_items (c : ((bool * bool) * (entry * list entry)) * list entry) : bool :=
    let '(((ah, da), (dir, entries)), rendered) := c in
    list_eqb entry_eqb (writedir_items ah da dir entries) rendered.

  (* reference parser against the implementation's "!" text: (response body after the first line, blocks found by the Python twin) *)
  Definition block_tuple (b : block) : str * (str * list str) := (b_name b, (b_inline b, b_lines b)).
  Definition tuple_eqb (a b : str * (str * list str)) : bool :=
    str_eqb (fst a) (fst b) && str_eqb (fst (snd a)) (fst (snd b)) && list_eqb str_eqb (snd (snd a)) (snd (snd b)).
  Definition chk_parse (c : str * option (list (str * (str * list str)))) : bool :=
    let '(text, bs) := c in
    opt_eqb (list_eqb tuple_eqb) (option_map (map block_tuple) (parse_blocks text)) bs.
End WithConfig.
