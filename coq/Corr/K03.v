(* Correspondence checkers for C03 (response side): Model/Respond.v against the bytes
   the real protocol classes write, and Model/Wellformed.v against the independent
   Python readers of harness/validators.py on real traffic.  Driven by harness/k03.py. *)
From Coq Require Import String.
From PG Require Import Lib.Str Lib.Bytes Lib.Utf8 Lib.Bsr Lib.Crlf Model.ProtoId Model.Detect
  Model.Request Model.Respond Model.Wellformed Corr.K05.
Local Open Scope N_scope.

Definition bytes_eqb : list N -> list N -> bool := str_eqb.

(* (s, s.encode("utf-8", "backslashreplace")) *)
Definition chk_bsr (c : str * list N) : bool :=
  let '(s, b) := c in bytes_eqb (encode_bsr s) b.

(* (s, s.encode() or None for UnicodeEncodeError) *)
Definition chk_strict (c : str * option (list N)) : bool :=
  let '(s, b) := c in opt_eqb bytes_eqb (encode_strict s) b.

(* ((env, protocol, outcome), bytes written by the real handle()/filenotfound()/write_status(),
   None when an exception left the method) *)
Definition chk_respond (c : (env * proto * outcome) * option (list N)) : bool :=
  let '((e, p, o), impl) := c in opt_eqb bytes_eqb (respond e p o) impl.

(* the direct replies: (routed, bytes); the icon body is not compared (GET sends the GIF) *)
Definition chk_direct (c : routed * list N) : bool :=
  let '(r, impl) := c in
  match r with
  | Icon _ => prefixb ICON_HEAD impl
  | _ => opt_eqb bytes_eqb (respond_direct (mk_env [] false None None) (fun _ => []) r) (Some impl)
  end.

(* end to end, nothing patched: ((protocol, waptop, admin, input), response).  The model:
   route the input (Model/Request.v); a selector that no handler accepts makes
   HandlerMultiplexer raise FileNotFound(selector, "no handler found"); the protocol answers
   with its error reply. *)
Definition NO_HANDLER : str := lit "no handler found".
Definition e2e_model (p : proto) (waptop admin : str) (input : list N) : option (list N) :=
  match route_input p waptop input with
  | ToHandler sel _ => respond (mk_env admin true None None) p (ONotFound (notfound_msg sel NO_HANDLER))
  | Icon _ | Crash => None
  | r => respond_direct (mk_env admin true None None) (fun _ => []) r
  end.
Definition chk_e2e (c : (proto * str * str * list N) * list N) : bool :=
  let '((p, waptop, admin, input), impl) := c in
  opt_eqb bytes_eqb (e2e_model p waptop admin input) (Some impl).

(* ((protocol, response bytes), kind code of validators.validate: 0 Malformed, 1 error, 2 success) *)
Definition chk_kind (c : (proto * list N) * N) : bool :=
  let '((p, r), k) := c in kind_code (reply_kind p r) =? k.
