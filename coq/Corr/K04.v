(* Correspondence checkers for C04: each takes one case (input paired with what
   the implementation returned) and says whether the model agrees. *)
From Coq Require Import String ZArith.
From PG Require Import Lib.Str Lib.Dec Lib.Crlf Lib.HtmlEsc Model.Entry Model.Copy Model.Wml Model.Mime.
Local Open Scope N_scope.

(* ((quote, s), (html.escape(s, quote), html.unescape(that))) *)
Definition chk_escape (c : (bool * str) * (str * str)) : bool :=
  let '((q, s), (esc, unesc)) := c in
  str_eqb (escape q s) esc && str_eqb (unescape esc) unesc && str_eqb unesc s.

(* (n, str(n)) *)
Definition chk_dec (c : N * str) : bool :=
  let '(n, s) := c in str_eqb (print_dec n) s && opt_eqb N.eqb (parse_dec s) (Some n).

(* (path, posixpath.splitext(path)) *)
Definition chk_splitext (c : str * (str * str)) : bool :=
  let '(p, (b, e)) := c in let '(b', e') := splitext p in str_eqb b b' && str_eqb e e'.

Section WithTables.
  Variables t_suffix t_enc t_strict t_common : list (str * str).
  Variable default_mime : str.

  (* (selector, mimetypes.guess_type(selector, strict=False)) *)
  Definition chk_guess (c : str * (option str * option str)) : bool :=
    let '(sel, (ty, enc)) := c in
    let '(ty', enc') := guess_type t_suffix t_enc t_strict t_common sel in
    optstr_eqb ty ty' && optstr_eqb enc enc'.

  (* (selector, (mimetype, encoding, encodedmimetype, type)) of a populated fresh file entry *)
  Definition chk_filemime (c : str * (option str * (option str * (option str * option str)))) : bool :=
    let '(sel, (m, (enc, (em, ty)))) := c in
    let '(m', enc', em') := file_mime_attrs t_suffix t_enc t_strict t_common default_mime sel in
    optstr_eqb m (Some m') && optstr_eqb enc enc' && optstr_eqb em em' &&
    optstr_eqb ty (Some (guesstype m')).

  (* how the model obtains the type advertised for a document *)
  Inductive hkind := HFile | HCompressed (decompressors : list str) (plain : bytes) | HTal (expanded : bytes).
  Definition model_mime (h : hkind) (sel : str) : option str :=
    match h with
    | HFile => Some (file_mimetype t_suffix t_enc t_strict t_common default_mime sel)
    | HCompressed dec _ => compressed_mimetype t_suffix t_enc t_strict t_common default_mime dec sel
    | HTal _ => tal_mimetype t_suffix t_enc t_strict t_common default_mime sel
    end.
  Definition model_delivery (h : hkind) : delivery :=
    match h with
    | HFile => Stored
    | HCompressed _ plain => Transformed (fun _ => plain)
    | HTal out => Transformed (fun _ => out)
    end.

  Definition MASKED : option str := Some (lit "<T>").

  (* end to end, byte-exact protocols.  `pinned` selects the size attribute of the
     pinned transforming handlers (stored size) instead of the repaired one. *)
  Definition model_doc (pinned : bool) (p : bproto) (h : hkind) (sel : str) (d : bytes) : bytes :=
    let k := model_delivery h in
    let size := if pinned then entry_size_pinned k d else entry_size k d in
    serve_doc p k (model_mime h sel) size MASKED d.

  (* (((protocol, handler kind), selector), (file bytes, response bytes with the date masked)) *)
  Definition chk_doc (pinned : bool) (c : ((bproto * hkind) * str) * (bytes * bytes)) : bool :=
    let '(((p, h), sel), (d, resp)) := c in
    list_eqb N.eqb (model_doc pinned p h sel d) resp.

  (* the same through a digest, for very large files: (length, Adler-32 pair) of the response *)
  Definition chk_doc_digest (c : ((bproto * hkind) * str) * (bytes * (N * (N * N)))) : bool :=
    let '(((p, h), sel), (d, (len, (a, b)))) := c in
    let r := model_doc false p h sel d in
    (N.of_nat (List.length r) =? len) && (let '(a', b') := adler r in (a' =? a) && (b' =? b)).

  (* WAP.  text documents: (.., (decoded handler output, decoded response));
     everything else is passed through behind the HTTP header *)
  Definition chk_wap_text (c : ((http_method * hkind) * str) * (str * str)) : bool :=
    let '(((meth, h), sel), (text, resp)) := c in
    wap_needs_conversion (model_mime h sel) &&
    str_eqb (match meth with
             | GET => wap_doc_text MASKED text
             | HEAD => http_header_block MASKED WML_TYPE
             end) resp.
  Definition chk_wap_raw (c : ((http_method * hkind) * str) * (bytes * bytes)) : bool :=
    let '(((meth, h), sel), (d, resp)) := c in
    let m := model_mime h sel in
    negb (wap_needs_conversion m) &&
    list_eqb N.eqb (wap_doc_raw MASKED m (match meth with GET => handler_write (model_delivery h) d | HEAD => [] end)) resp.
End WithTables.

(* large test documents are described, not spelled out: `reps` copies of a block, then a prefix of it *)
Definition big_doc (blk : bytes) (reps : nat) (tail : nat) : bytes :=
  concat (repeat blk reps) ++ firstn tail blk.
