(* Correspondence checkers for C08: link-file parsing, sidecar abstracts, menus. *)
From Coq Require Import ZArith.
From PG Require Import Lib.Str Lib.Cmp Lib.Sort Lib.Regex
  Model.Selector Model.DirEntry Model.UMN Model.Dir Corr.K07.
Local Open Scope N_scope.

Definition lentry_eqb (a b : lentry) : bool :=
  entry_eqb (le_entry a) (le_entry b) && Bool.eqb (le_merge a) (le_merge b) && Bool.eqb (le_abs a) (le_abs b).

(* ((dir selector, capfilepath), decoded text, (code, link entries)) — code as in K07.exn_code, 0 = Ok *)
Definition chk_parse (fx : fixes) (c : (str * option str) * str * (N * list lentry)) : bool :=
  let '((dirsel, cap), text, (code, les)) := c in
  match process_link_file fx (base_of dirsel) dirsel cap text with
  | Ok l => (code =? 0) && list_eqb lentry_eqb l les
  | Raise e => (code =? exn_code e)
  end.

(* (decoded sidecar text, abstract the real handleeaext stored) *)
Definition chk_sidecar (c : str * option str) : bool :=
  opt_eqb str_eqb (Some (sidecar_value (fst c))) (snd c).

(* the Gopher menu: ((selector, children), (alts, mode), enumeration, (host, port), bytes the
   real server wrote, as code points).  A listing that fails with FileNotFound /
   IOError is answered with a "3..." error line, any other exception leaves
   whatever had been written (nothing, for a failing prepare). *)
Definition chk_menu (fx : fixes)
  (c : (str * list cchild) * (list alt * stripmode) * list nat * (str * Z) * str) : bool :=
  let '((sel, cs), (alts, mode), idx, (host, port), menu) := c in
  let w := world_of sel cs in
  match umn_listing fx alts mode w (names_of cs idx) with
  | Ok l => str_eqb (fst (render_menu host port (map snd l))) menu
  | Raise FileNotFound | Raise IOErr => match menu with 51 :: _ => true | _ => false end
  | Raise _ => str_eqb menu []
  end.
