From PG Require Import Lib.Str Model.ProtoId Gen.Config Model.Detect.
Local Open Scope N_scope.
Definition opt_proto_eqb (a b : option proto) : bool :=
  match a, b with Some x, Some y => proto_eqb x y | None, None => true | _, _ => false end.
(* ((waptop, protocol list), ((tls, request line), header lines)) paired with what getProtocol returned *)
Definition chk_detect (c : ((str * list proto) * ((bool * str) * list str)) * option proto) : bool :=
  let '(((waptop, ps), ((tls, req), hdrs)), r) := c in
  opt_proto_eqb (detect waptop ps tls req hdrs) r.
