(* Translator tie for C16's last clause: the tests on self.vfs read from the
   CURRENT source of mbox.py / pyg.py / scriptexec.py (Gen/ZipReal.v) turn VFSZip
   away.  `repo_guards` is evaluated by the harness on every run; it is `false`
   on the pinned code (isinstance tests, no test in MessageHandler). *)
From PG Require Import Lib.Str Model.ZipChain Gen.ZipReal Proofs.C16Chain.

Definition repo_guards : bool := guards vfszip_subclasses_vfs_real repo_tests.

Theorem C16_real_only_repo :
  repo_guards = true ->
  forall secure other hs h,
    choose vfszip_subclasses_vfs_real repo_tests VZip secure other hs = Some h -> real_only h = false.
Proof. intros G. apply real_only_never_chosen. exact G. Qed.
