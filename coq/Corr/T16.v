(* Translator tie for C16's last clause: the tests on self.vfs read from the
   CURRENT source of mbox.py / pyg.py / scriptexec.py (Gen/ZipReal.v) turn VFSZip
   away.  `repo_guards` is evaluated by the harness on every run; it is `false`
   on the pinned code (isinstance tests, no test in MessageHandler). *)
From PG Require Import Lib.Str Model.ZipChain Gen.ZipReal Proofs.C16Chain.

Definition repo_guards : bool := guards vfszip_subclasses_vfs_real repo_tests.

(* `if not vfs:` (handlers/base.py) is modelled as `vfs is None`: true as long as no VFS class gives its
   instances a length or a truth value (an archive without members would count as "no vfs given") *)
Definition repo_vfs_truthiness_ok : bool :=
  negb vfs_defines_len_or_bool || Nat.eqb vfs_truthiness_sites 0.

Theorem C16_real_only_repo :
  repo_guards = true ->
  forall secure other hs h,
    choose vfszip_subclasses_vfs_real repo_tests VZip secure other hs = Some h -> real_only h = false.
Proof. intros G. apply real_only_never_chosen. exact G. Qed.
