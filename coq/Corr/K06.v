(* Correspondence checkers for C06: the renderers of Model/RenderUrl.v against the
   real renderobjinfo / getrenderstr / writedir of every protocol class, the
   client-side readers of Model/ClientView.v against harness/pgsite.py, and the
   MIME adjusters.  Each checker takes one case (input paired with what the
   implementation returned) and says whether the model agrees. *)
From Coq Require Import String ZArith.
From PG Require Import Lib.Str Lib.Dec Lib.HtmlEsc Lib.Percent Lib.Utf8 Lib.PercentStr
     Model.Entry Model.Render0 Model.Copy Model.RenderUrl Model.ClientView.
Local Open Scope N_scope.

(* the fields the harness sets on a GopherEntry *)
Definition mk_e (sel : str) (ty name host : option str) (port : option Z) (mime : option str)
           (gplus : bool) (ea : list (str * str)) : entry :=
  mkEntry sel ty name host port mime None None None None None None 0%Z gplus false ea.

Definition ostr_eqb := opt_eqb str_eqb.

(* ((defaulthost, defaultport), entry), geturl result (None = an exception) *)
Definition chk_geturl (c : ((str * Z) * entry) * option str) : bool :=
  let '(((dh, dp), e), out) := c in ostr_eqb (geturl dh dp e) out.

(* plain Gopher / Gopher+ "+" form line *)
Definition chk_gopher_row (c : ((str * Z) * entry) * option str) : bool :=
  let '(((sn, sp), e), out) := c in ostr_eqb (gopher0_line sn sp e) out.

(* ((pinned, (iconmapping, (server_name, default port handed to geturl))), entry), HTTPProtocol.renderobjinfo *)
Definition chk_http_row (c : ((bool * (list (str * str) * (str * Z))) * entry) * option str) : bool :=
  let '(((pinned, (icons, (sn, dp))), e), out) := c in
  ostr_eqb (http_renderobjinfo_gen (negb pinned) icons sn dp e) out.

(* (((pinned, (waptop, server_name)), (accesskeyidx, postfieldidx)), entry),
   (WAPProtocol.renderobjinfo, counters afterwards) *)
Definition chk_wap_row (c : (((bool * (str * (str * Z))) * (nat * nat)) * entry) * option (str * (nat * nat))) : bool :=
  let '((((pinned, (wt, (sn, dp))), (k, p)), e), out) := c in
  match wap_renderobjinfo_gen (negb pinned) wt sn dp (mkWapst k p) e, out with
  | Some (s, st), Some (s', (k', p')) => str_eqb s s' && Nat.eqb (ws_key st) k' && Nat.eqb (ws_post st) p'
  | None, None => true
  | _, _ => false
  end.

(* ((spartan?, server_name), entry), renderobjinfo of GeminiProtocol / SpartanProtocol *)
Definition chk_gem_row (c : ((bool * (str * Z)) * entry) * option str) : bool :=
  let '(((sp, (sn, dp)), e), out) := c in
  ostr_eqb (gem_renderobjinfo (if sp then FSpartan else FGemini) sn dp e) out.

(* whole directories: ((protocol, config), (directory entry, entries)), the bytes writedir wrote *)
Definition chk_dir (c : ((lproto * lcfg) * (entry * list entry)) * option (list N)) : bool :=
  let '(((p, cf), (d, es)), out) := c in
  match render_dir p cf d es, out with
  | Some s, Some b => opt_eqb (list_eqb N.eqb) (encode_se s) (Some b)
  | None, None => true
  | _, _ => false
  end.

(* the client-side readers against harness/pgsite.py: ((protocol, config), body text), view *)
Definition chk_view (c : ((lproto * lcfg) * str) * option (list vitem)) : bool :=
  let '(((p, cf), body), out) := c in
  opt_eqb (list_eqb vitem_eqb) (client_parse p cf body) out.

(* what the model says every client should see, against the view of the real Gopher menu:
   ((server_name, server_port), entry), view of the one-line menu *)
Definition chk_entry_view (c : ((str * Z) * entry) * option vitem) : bool :=
  let '(((sn, sp), e), out) := c in opt_eqb vitem_eqb (view sn sp e) out.

(* (mimetype, (http adjustmimetype, wap adjustmimetype, gemini adjust_mimetype, spartan adjust_mimetype)) *)
Definition chk_mime (c : option str * (str * (str * (str * str)))) : bool :=
  let '(m, (h, (w, (g, s)))) := c in
  str_eqb (http_adjust m) h && str_eqb (wap_adjust m) w && str_eqb (gemini_adjust m) g &&
  str_eqb (gemini_adjust m) s.

(* the conclusion of the C06 view theorems on the real code: ((server_name, server_port), entry),
   what harness/pgsite.py reads off the real one-entry listing in Gopher, Gopher+, HTTP, WAP,
   Gemini, Spartan (None: not exactly one item, or the page could not be read).  Whenever the
   hypothesis entry_wf holds, all six must be `view` of the entry. *)
Definition chk_wf_views (c : ((str * Z) * entry) * list (option vitem)) : bool :=
  let '(((sn, sp), e), vs) := c in
  if entry_wf sn sp e then forallb (fun v => opt_eqb vitem_eqb v (view sn sp e)) vs
  else true.
(* how many of the cases satisfy the hypothesis (reported as coverage) *)
Definition is_wf_case (c : ((str * Z) * entry) * list (option vitem)) : bool :=
  let '(((sn, sp), e), _) := c in negb (entry_wf sn sp e).
