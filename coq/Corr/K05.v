(* Correspondence checkers for C05 (request side): each takes one case (input paired
   with what the implementation did) and says whether Model/Request.v and
   Lib/Urlparse.v agree.  Driven by harness/k05.py. *)
From PG Require Import Lib.Str Lib.Bytes Lib.Utf8 Lib.PercentStr Lib.Urlparse Model.ProtoId Model.Detect Model.Request.
Local Open Scope N_scope.

Definition routed_eqb (m i : routed) : bool :=
  match m, i with
  | ToHandler s q, ToHandler s' q' => str_eqb s s' && opt_eqb str_eqb q q'
  | Icon n, Icon n' => str_eqb n' [] || str_eqb n n'     (* HEAD: the reply does not show which icon *)
  | GeminiBad, GeminiBad => true
  | GeminiInput, GeminiInput => true
  | GeminiRedirect t, GeminiRedirect t' => str_eqb t t'
  | SpartanTooLarge, SpartanTooLarge => true
  | Crash, Crash => true
  | _, _ => false
  end.

(* the model applied to the raw client input: first line decoded the way server.py does *)
Definition route_input (p : proto) (waptop : str) (input : list N) : routed :=
  let '(line, rest) := readline input in route p waptop (decode_se line) rest.
Definition unchecked_input (p : proto) (input : list N) : bool :=
  match p with
  | PGemini => gemini_unchecked (decode_se (fst (readline input)))
  | _ => false
  end.

(* Spartan's third field goes through Python's int(); the model reads a run of ASCII digits,
   which is what it is whenever canhandlerequest accepted the line (only direct calls of
   handle() on other lines fall outside) *)
Definition in_scope (p : proto) (input : list N) : bool :=
  match p with
  | PSpartan => spartan_shape (decode_se (fst (readline input)))
  | _ => true
  end.

(* ((protocol, waptop, input bytes), what the real handle() did) *)
Definition chk_route (c : (proto * str * list N) * routed) : bool :=
  let '((p, waptop, input), impl) := c in
  let m := route_input p waptop input in
  negb (in_scope p input) || routed_eqb m impl ||
  (unchecked_input p input && match impl with GeminiBad => true | _ => false end).

(* branch tag of a case, for the coverage report: 0 handler without search, 1 handler with
   search, 2 icon, 3 gemini bad, 4 input, 5 redirect, 6 too large, 7 crash, 8 out of scope *)
Definition tag_route (c : (proto * str * list N) * routed) : N :=
  let '((p, waptop, input), _) := c in
  if negb (in_scope p input) then 8 else
  match route_input p waptop input with
  | ToHandler _ None => 0 | ToHandler _ (Some _) => 1 | Icon _ => 2 | GeminiBad => 3
  | GeminiInput => 4 | GeminiRedirect _ => 5 | SpartanTooLarge => 6 | Crash => 7
  end.

(* (s, urllib.parse.urlparse(s) as ((scheme, netloc), (path, params), (query, fragment)) or None for ValueError) *)
Definition parts_eqb (u : url_parts) (t : (str * str) * (str * str) * (str * str)) : bool :=
  let '((sc, nl), (pa, pr), (qu, fr)) := t in
  str_eqb (u_scheme u) sc && str_eqb (u_netloc u) nl && str_eqb (u_path u) pa &&
  str_eqb (u_params u) pr && str_eqb (u_query u) qu && str_eqb (u_fragment u) fr.
Definition chk_urlparse (c : str * option ((str * str) * (str * str) * (str * str))) : bool :=
  let '(s, impl) := c in
  match urlparse s, impl with
  | Some u, Some t => parts_eqb u t
  | None, None => true
  | Some _, None => netloc_unchecked s
  | None, Some _ => false
  end.

(* (qs, parse_qs(qs, errors="surrogateescape").get("searchrequest", [None])[0]) *)
Definition chk_qs (c : str * option str) : bool :=
  let '(qs, impl) := c in opt_eqb str_eqb (qs_first SEARCHREQUEST qs) impl.

(* (qs, parse_qsl(qs, errors="surrogateescape")) *)
Definition chk_qsl (c : str * list (str * str)) : bool :=
  let '(qs, impl) := c in
  list_eqb (fun a b => str_eqb (fst a) (fst b) && str_eqb (snd a) (snd b)) (parse_qsl qs) impl.

(* ((protocol, waptop, host), selector s as bytes): the request the model's client sends
   for the link, paired with the request the harness' own client (gen.request_bytes)
   builds: ((p, waptop, host, selector bytes), request bytes) *)
Definition chk_link (c : (proto * str * str * list N) * list N) : bool :=
  let '((p, waptop, host, b), req) := c in
  opt_eqb str_eqb (request_of_link p waptop host (decode_se b)) (Some (decode_se req)).
