(* Correspondence checkers for C10 / C11: a history run on the real code
   (directory snapshots named by small integers, responses mapped back to the
   set of snapshots whose cacheless rendering they equal) against the cache
   machine of Model/Cache.v evaluated on the same history. *)
From Coq Require Export ZArith.
From PG Require Import Lib.Str Model.Cache.
Local Open Scope N_scope.

Inductive kop :=
| KMut (id : N)        (* the directory becomes snapshot id *)
| KTick (dt : Z)       (* milliseconds *)
| KList (p : N)
| KListF (p : N)       (* a listing whose cache write fails before the entry is complete *)
| KProbe (p : N)       (* HTTP HEAD / Gopher+ ! on the directory *)
| KDamage.             (* cache file replaced by undecodable bytes, mtime = now *)

(* snapshots stand for directory contents: D = L = N, gen = identity;
   a one-element file is a complete entry, anything else does not decode *)
Definition k_enc (l : N) : bytes := [l].
Definition k_decode (g : bytes) : option N := match g with [x] => Some x | _ => None end.

Definition to_op (o : kop) : op N N :=
  match o with
  | KMut i => Mutate (fun _ => i)
  | KTick d => Tick d
  | KList p => List p
  | KListF p => ListF p 0
  | KProbe p => Probe p
  | KDamage => Damage []
  end.

(* what the harness observed for one listing request:
   the snapshots whose cacheless rendering equals the response, and
   0 = answered without rewriting the cache file, 1 = answered and rewrote it, 2 = empty reply *)
Definition obs := (list N * N)%type.

Definition reply_matches (r : reply N N) (o : obs) : bool :=
  let '(cands, cls) := o in
  match r with
  | Served _ l true => mem_N l cands && (cls =? 0)
  | Served _ l false => mem_N l cands && (cls =? 1)
  | Crashed _ => cls =? 2
  end.

Fixpoint all_match (rs : list (reply N N)) (os : list obs) : bool :=
  match rs, os with
  | [], [] => true
  | r :: rs', o :: os' => reply_matches r o && all_match rs' os'
  | _, _ => false
  end.

Definition model_replies (life t0 : Z) (d0 : N) (rep : bool) (ops : list kop) : list (reply N N) :=
  rev (map (fun e => snd e)
           (snd (run (fun d => d) k_enc k_decode life rep (init d0 t0) (map to_op ops)))).

(* (((life seconds, start time ms), first snapshot), repaired?), history, observations in request order *)
Definition chk_hist (c : (Z * Z * N * bool) * list kop * list obs) : bool :=
  let '((life, t0, d0, rep), ops, os) := c in
  all_match (model_replies life t0 d0 rep ops) os.

(* branch tags of the model for the coverage record: 0 hit, 1 miss, 2 crash *)
Definition tag_of (r : reply N N) : N :=
  match r with Served _ _ true => 0 | Served _ _ false => 1 | Crashed _ => 2 end.
Definition chk_tags (c : (Z * Z * N * bool) * list kop * list N) : bool :=
  let '((life, t0, d0, rep), ops, tags) := c in
  list_eqb N.eqb (map tag_of (model_replies life t0 d0 rep ops)) tags.
