(* Correspondence checkers for the codec libraries (Lib/Percent.v, Lib/Utf8.v,
   Lib/PercentStr.v): each takes one case (input paired with what CPython
   returned) and says whether the model agrees.  Driven by harness/codec_check.py. *)
From PG Require Import Lib.Str Lib.Bytes Lib.Percent Lib.Utf8 Lib.PercentStr.
Local Open Scope N_scope.

(* (b, (b.decode("utf-8","surrogateescape"), urllib.parse.quote_from_bytes(b))) *)
Definition chk_bytes (c : list N * (list N * list N)) : bool :=
  let '(b, (dec, q)) := c in
  str_eqb (decode_se b) dec && str_eqb (quote_path b) q.

(* (b, b.decode("utf-8","surrogateescape")) *)
Definition chk_decode (c : list N * list N) : bool :=
  let '(b, dec) := c in str_eqb (decode_se b) dec.

(* ((safe, b), urllib.parse.quote_from_bytes(b, safe=safe)) ; safe is a bytes object *)
Definition chk_quote (c : (list N * list N) * list N) : bool :=
  let '((safe, b), q) := c in str_eqb (quote_bytes safe b) q.

(* (s, s.encode("utf-8","surrogateescape") or None for UnicodeEncodeError) *)
Definition chk_encode (c : list N * option (list N)) : bool :=
  let '(s, e) := c in opt_eqb str_eqb (encode_se s) e.

(* ((safe, s), urllib.parse.quote(s, safe=safe, errors="surrogateescape") or None) *)
Definition chk_quote_str (c : (list N * list N) * option (list N)) : bool :=
  let '((safe, s), q) := c in opt_eqb str_eqb (quote_str safe s) q.

(* ASCII str s: (s, (unquote_to_bytes(s), unquote(s, errors="surrogateescape"))) *)
Definition chk_unquote_ascii (c : list N * (list N * list N)) : bool :=
  let '(s, (unpack_b, us)) := c in
  str_eqb (unquote_bytes s) unpack_b && str_eqb (unquote_str s) us && str_eqb (unquote_py s) us.

(* any str s: (s, unquote(s, errors="surrogateescape")) *)
Definition chk_unquote_any (c : list N * list N) : bool :=
  let '(s, us) := c in str_eqb (unquote_py s) us.

(* bytes b: (b, unquote_to_bytes(b)) *)
Definition chk_unquote_bytes (c : list N * list N) : bool :=
  let '(b, unpack_b) := c in str_eqb (unquote_bytes b) unpack_b.

(* ---------- packed transport ----------
   Parsing a shard costs time per syntax node, so the harness packs every
   string into primitive 63-bit integers: a chunk holds up to `per` elements of
   `bits` bits each, least significant first, with a marker bit 1 above the last
   element (bytes and ASCII: 7 x 8 bits, code points: 2 x 21 bits).  The
   unpacking below is part of the harness, not of the model. *)
From Coq Require Export Uint63.
From Coq Require Import ZArith.

Definition n_of_int (i : int) : N := Z.to_N (Uint63.to_Z i).

Fixpoint unpack_chunk (fuel : nat) (base : N) (n : N) : list N :=
  match fuel with
  | O => []
  | S f => if n <=? 1 then [] else (n mod base) :: unpack_chunk f base (n / base)
  end.

Definition unpack (base : N) (l : list int) : list N :=
  flat_map (fun i => unpack_chunk 8 base (n_of_int i)) l.
Definition unpack_b (l : list int) : list N := unpack 256 l.        (* bytes / ASCII *)
Definition unpack_c (l : list int) : list N := unpack 2097152 l.    (* code points *)

Definition pk_bytes (c : list int * (list int * list int)) : bool :=
  let '(b, (dec, q)) := c in chk_bytes (unpack_b b, (unpack_c dec, unpack_b q)).
Definition pk_decode (c : list int * list int) : bool :=
  let '(b, dec) := c in chk_decode (unpack_b b, unpack_c dec).
Definition pk_quote (c : (list int * list int) * list int) : bool :=
  let '((safe, b), q) := c in chk_quote ((unpack_b safe, unpack_b b), unpack_b q).
Definition pk_encode (c : list int * option (list int)) : bool :=
  let '(s, e) := c in chk_encode (unpack_c s, option_map unpack_b e).
Definition pk_quote_str (c : (list int * list int) * option (list int)) : bool :=
  let '((safe, s), q) := c in chk_quote_str ((unpack_c safe, unpack_c s), option_map unpack_b q).
Definition pk_unquote_ascii (c : list int * (list int * list int)) : bool :=
  let '(s, (b, us)) := c in chk_unquote_ascii (unpack_b s, (unpack_b b, unpack_c us)).
Definition pk_unquote_any (c : list int * list int) : bool :=
  let '(s, us) := c in chk_unquote_any (unpack_c s, unpack_c us).
Definition pk_unquote_bytes (c : list int * list int) : bool :=
  let '(b, u) := c in chk_unquote_bytes (unpack_b b, unpack_b u).
