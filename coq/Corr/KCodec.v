(* Correspondence checkers for the codec libraries (Lib/Percent.v, Lib/Utf8.v,
   Lib/PercentStr.v): each takes one case (input paired with what CPython
   returned) and says whether the model agrees.  Driven by harness/codec_check.py. *)
From PG Require Import Lib.Str Lib.Bytes Lib.Percent Lib.Utf8 Lib.PercentStr.
Local Open Scope N_scope.

(* (b, (b.decode("utf-8","surrogateescape"), urllib.parse.quote_from_bytes(b))) *)
Definition chk_bytes (c : list N * (list N * list N)) : bool :=
  let '(b, (dec, q)) := c in
  str_eqb (decode_se b) dec && str_eqb (quote_path b) q.

(* (b, b.decode("utf-8","surrogateescape")) *)
Definition chk_decode (c : list N * list N) : bool :=
  let '(b, dec) := c in str_eqb (decode_se b) dec.

(* ((safe, b), urllib.parse.quote_from_bytes(b, safe=safe)) ; safe is a bytes object *)
Definition chk_quote (c : (list N * list N) * list N) : bool :=
  let '((safe, b), q) := c in str_eqb (quote_bytes safe b) q.

(* (s, s.encode("utf-8","surrogateescape") or None for UnicodeEncodeError) *)
Definition chk_encode (c : list N * option (list N)) : bool :=
  let '(s, e) := c in opt_eqb str_eqb (encode_se s) e.

(* ((safe, s), urllib.parse.quote(s, safe=safe, errors="surrogateescape") or None) *)
Definition chk_quote_str (c : (list N * list N) * option (list N)) : bool :=
  let '((safe, s), q) := c in opt_eqb str_eqb (quote_str safe s) q.

(* ASCII str s: (s, (unquote_to_bytes(s), unquote(s, errors="surrogateescape"))) *)
Definition chk_unquote_ascii (c : list N * (list N * list N)) : bool :=
  let '(s, (ub, us)) := c in
  str_eqb (unquote_bytes s) ub && str_eqb (unquote_str s) us && str_eqb (unquote_py s) us.

(* any str s: (s, unquote(s, errors="surrogateescape")) *)
Definition chk_unquote_any (c : list N * list N) : bool :=
  let '(s, us) := c in str_eqb (unquote_py s) us.

(* bytes b: (b, unquote_to_bytes(b)) *)
Definition chk_unquote_bytes (c : list N * list N) : bool :=
  let '(b, ub) := c in str_eqb (unquote_bytes b) ub.
