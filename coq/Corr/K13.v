(* Correspondence checkers for C13: the page builders of Model/RenderUrl.v against
   the real renderdirstart / renderdirend / filenotfound / HTMLURLHandler.write /
   getblock, and the tokenizer of Model/ClientView.v against Python's html.parser
   on pages the real server produced. *)
From Coq Require Import String ZArith.
From PG Require Import Lib.Str Lib.Dec Lib.HtmlEsc Lib.Utf8 Model.Entry Model.Wml Model.GopherPlus Model.RenderUrl Model.ClientView Corr.K06.
Local Open Scope N_scope.

(* (((pagetopper, server_name), server_port), directory entry), renderdirstart *)
Definition chk_http_dirstart (c : (((option str * str) * Z) * entry) * option str) : bool :=
  let '((((pt, sn), sp), d), out) := c in ostr_eqb (http_dirstart pt sn sp d) out.
Definition chk_http_dirend (c : ((str * Z) * entry) * option str) : bool :=
  let '(((sn, sp), d), out) := c in ostr_eqb (http_dirend sn sp d) out.
(* (message, everything filenotfound wrote) *)
Definition chk_http_404 (c : str * str) : bool := let '(msg, out) := c in str_eqb (http_404 msg) out.
Definition chk_wap_dirstart (c : entry * str) : bool := let '(d, out) := c in str_eqb (wap_dirstart d) out.
Definition chk_wap_dirend (c : unit * str) : bool := str_eqb wap_dirend (snd c).
Definition chk_wap_404 (c : str * str) : bool := let '(msg, out) := c in str_eqb (wap_404 msg) out.
(* (decoded document, handlerwrite output) *)
Definition chk_wap_deck (c : str * str) : bool := let '(text, out) := c in str_eqb (to_wml text) out.
(* (selector, HTMLURLHandler.write output) *)
Definition chk_url_page (c : str * str) : bool := let '(sel, out) := c in str_eqb (url_page sel) out.
(* ((keeps a final blank line?, (block name, value)), getblock output): the block builder is the
   one of Model/GopherPlus.v (C15) *)
Definition chk_gplus_block (c : (bool * (str * str)) * str) : bool :=
  let '((keep, (n, v)), out) := c in str_eqb (GopherPlus.ea_block keep n v) out.

Definition event_eqb (a b : event) : bool :=
  match a, b with
  | EStart n x, EStart m y => str_eqb n m && list_eqb str_eqb x y
  | EEnd n, EEnd m => str_eqb n m
  | _, _ => false
  end.
(* (page text, the start/end events html.parser reported) *)
Definition chk_skeleton (c : str * list event) : bool :=
  let '(page, evs) := c in list_eqb event_eqb (skeleton page) evs.

(* rows of an HTML listing: (page, [(href, text, form)]) as validators.html_rows reads them *)
Definition hrow_eqb (a : hrow) (b : option str * (str * option str)) : bool :=
  let '(h, (t, f)) := b in ostr_eqb (hr_href a) h && str_eqb (hr_text a) t && ostr_eqb (hr_form a) f.
Fixpoint list_eqb2 {A B} (f : A -> B -> bool) (a : list A) (b : list B) : bool :=
  match a, b with
  | [], [] => true
  | x :: a', y :: b' => f x y && list_eqb2 f a' b'
  | _, _ => false
  end.
Definition chk_html_rows (c : str * list (option str * (str * option str))) : bool :=
  let '(page, rows) := c in list_eqb2 hrow_eqb (html_rows page) rows.
