(* Correspondence checker for C19: the outcome of the REAL initialize /
   init_security under substituted entry points against the semantics of the IR
   translated from the same source (Gen/Init.v). *)
From Coq Require Import String.
From PG Require Import Lib.Str Model.Init Gen.Init.
Local Open Scope N_scope.

Definition WILD : str := lit "_".
(* the harness writes "_" for an argument it has no name for (config object,
   address tuple, formatted text); the model writes "_" for opaque expressions *)
Definition arg_ok (m i : str) : bool := str_eqb i WILD || str_eqb m WILD || str_eqb m i.
Fixpoint all2 {A B} (r : A -> B -> bool) (a : list A) (b : list B) : bool :=
  match a, b with
  | [], [] => true
  | x :: a', y :: b' => r x y && all2 r a' b'
  | _, _ => false
  end.
Definition eff_ok (m : effect) (i : str * list str) : bool :=
  str_eqb (ename m) (fst i) && list_eqb arg_ok (eargs m) (snd i).

(* impl outcome: kind 0 = returned, 1 = an exception left the entry point,
   2 = SystemExit; origin = Some k when the escaping exception is the injected one *)
Definition impl_out := (N * (option nat * (list (str * list str) * list str)))%type.

Definition opt_nat_eqb (a b : option nat) : bool :=
  match a, b with
  | None, None => true
  | Some x, Some y => Nat.eqb x y
  | _, _ => false
  end.

(* ... and the simulated credentials the real run ended with (real, effective,
   saved uid; real, effective, saved gid; supplementary groups) against the
   credential semantics applied to the model's trace *)
Definition out_ok (st : start) (o : opts) (m : outcome) (i : impl_out) : bool :=
  let '(kind, (origin, (tr, creds))) := i in
  list_eqb str_eqb (cred_list (final_cred (start_cred st o) (out_trace m))) creds &&
  match m with
  | Running t => (kind =? 0) && all2 eff_ok t tr
  | Abort o t => (kind =? 1) && opt_nat_eqb o origin && all2 eff_ok t tr
  | Exited t => (kind =? 2) && all2 eff_ok t tr
  | Stuck => false
  end.

(* ((whole initialize?, (options, ((failure, how many consecutive calls fail — None: all later ones),
      (parent side of fork?, starting credentials)))), implementation outcome) *)
Definition chk_run (c : (bool * (opts * ((option (nat * xcls) * option nat) * (bool * start)))) * impl_out) : bool :=
  let '((whole, (o, ((f, span), (parent, st)))), i) := c in
  let W := World f ((lit "os.fork", if parent then VInt 4242 else VInt 0) :: start_results st o) span in
  let m := if whole then run prog W (mkcfg o) (lit "initialize") [VStr (lit "pygopherd.conf")]
           else run prog W (mkcfg o) (lit "init_security") [VSym (lit "config")] in
  out_ok st o m i.

(* ---- the `servertype` dimension and the end state of the RETURNED server ----
   The IR has one configuration (the state's cfg): `self.config = config` in the
   server constructor makes the server read the very object init_security writes
   to.  The implementation reports the root option it finds in the configuration
   of the server object that initialize() returned; it must be what the model's
   configuration holds when the run ends — the value of the last
   config.set("pygopherd", "root", v) of the run, else the configured root. *)
Fixpoint last_root (acc : str) (tr : list effect) : str :=
  match tr with
  | [] => acc
  | e :: r =>
      last_root (match eargs e with
                 | [s; o; v] => if str_eqb (ename e) (lit "config.set") && str_eqb s PG && str_eqb o (lit "root")
                                then v else acc
                 | _ => acc
                 end) r
  end.

Definition served_ok (whole : bool) (m : outcome) (served : option str) : bool :=
  match m, served with
  | Running t, Some r => whole && str_eqb r (last_root ROOT t)
  | Running _, None => negb whole
  | _, None => true
  | _, Some _ => false
  end.

(* ((servertype in the file, root in the configuration of the returned server), case of chk_run) *)
Definition chk_run2 (c : (str * option str) *
                         ((bool * (opts * ((option (nat * xcls) * option nat) * (bool * start)))) * impl_out)) : bool :=
  let '((stype, served), ((whole, (o, ((f, span), (parent, st)))), i)) := c in
  let W := World f ((lit "os.fork", if parent then VInt 4242 else VInt 0) :: start_results st o) span in
  let c0 := cfg_set (PG, lit "servertype") stype (mkcfg o) in
  let m := if whole then run prog W c0 (lit "initialize") [VStr (lit "pygopherd.conf")]
           else run prog W c0 (lit "init_security") [VSym (lit "config")] in
  out_ok st o m i && served_ok whole m served.
