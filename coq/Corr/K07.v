(* Correspondence checkers for C07 / C12: concrete worlds, the outcome of the
   real handler, and the comparison with the model. *)
From Coq Require Import ZArith.
From PG Require Import Lib.Str Lib.Cmp Lib.Sort Lib.Regex Gen.Entrycmp Gen.Ignore
  Model.Selector Model.DirEntry Model.UMN Model.Dir.
Local Open Scope N_scope.

(* ---- a concrete directory ---- *)
Record cchild := mkCChild {
  cc_name : str;
  cc_kind : option kind;
  cc_info : option child_info;     (* what the real handler chain reported, None = it raised *)
  cc_text : option str;
  cc_cap : option str;
}.
Definition dummy_info : child_info := mkChild (fresh_entry []) false false [].

Fixpoint lookup (l : list cchild) (n : str) : option cchild :=
  match l with
  | [] => None
  | c :: r => if str_eqb (cc_name c) n then Some c else lookup r n
  end.

Definition world_of (sel : str) (cs : list cchild) : world :=
  mkWorld sel
    (fun n => match lookup cs n with Some c => cc_kind c | None => None end)
    (fun n => match lookup cs n with
              | Some c => match cc_info c with Some i => i | None => dummy_info end
              | None => dummy_info end)
    (fun n => match lookup cs n with Some c => cc_text c | None => None end)
    (fun n => match lookup cs n with Some c => cc_cap c | None => None end).

Definition names_of (cs : list cchild) (idx : list nat) : list str :=
  map (fun i => match nth_error cs i with Some c => cc_name c | None => [] end) idx.

(* ---- outcome of the real handler: code 0 = entries, otherwise the exception ---- *)
Definition exn_code (e : exn) : N :=
  match e with FileNotFound => 1 | IOErr => 2 | IndexError => 3 | ValueError => 4 | TypeError => 5 | Blocked => 6 end.
Definition outcome := (N * list entry)%type.
Definition outcome_of {A} (f : A -> entry) (r : result (list A)) : outcome :=
  match r with Ok l => (0, map f l) | Raise e => (exn_code e, []) end.
Definition outcome_eqb (a b : outcome) : bool :=
  N.eqb (fst a) (fst b) && list_eqb entry_eqb (snd a) (snd b).

Inductive hkind := HDir | HUmn.

Definition model_outcome (fx : fixes) (alts : list alt) (h : hkind) (mode : stripmode)
           (w : world) (enum : list str) : outcome :=
  match h with
  | HDir => outcome_of snd (dir_listing fx alts w enum)
  | HUmn => outcome_of snd (umn_listing fx alts mode w enum)
  end.

(* the model's prediction of whether the real handler chain finds a handler for
   each child agrees with what it did *)
Definition chk_children (w : world) (cs : list cchild) : bool :=
  forallb (fun c => Bool.eqb (servable w (cc_name c)) (negb (isnone (cc_info c)))) cs.

(* ((selector, children), (alts, (handler, mode)), [(outcome, [enumeration orders])]) *)
Definition chk_listing (fx : fixes)
  (c : (str * list cchild) * (list alt * (hkind * stripmode)) * list (outcome * list (list nat))) : bool :=
  let '((sel, cs), (alts, (h, mode)), groups) := c in
  let w := world_of sel cs in
  chk_children w cs &&
  forallb (fun g =>
    forallb (fun idx => outcome_eqb (model_outcome fx alts h mode w (names_of cs idx)) (fst g)) (snd g))
    groups.

(* ---- entrycmp on a pair; list.sort on an arrangement ---- *)
Definition chk_entrycmp (c : (option str * Z) * (option str * Z) * Z) : bool :=
  let '((n1, k1), (n2, k2), r) := c in Z.eqb (entrycmp n1 k1 n2 k2) r.

Definition pool_entry (i : nat) (p : option str * Z) : entry :=
  mkEntry [N.of_nat i] None (fst p) None None (Some (snd p)) [] false.
Definition entry_index (e : entry) : N := match e_selector e with [i] => i | _ => 9999 end.

(* (pool, [(arrangement, order list.sort produced)]) *)
Definition chk_sort (c : list (option str * Z) * list (list nat * list N)) : bool :=
  let '(pool, runs) := c in
  forallb (fun run =>
    let l := map (fun i => pool_entry i (nth i pool (None, 0%Z))) (fst run) in
    list_eqb N.eqb (map entry_index (isort entry_leb l)) (snd run)) runs.

(* str.sort() on file names *)
Definition chk_namesort (c : list str * list str) : bool :=
  list_eqb str_eqb (sort_names (fst c)) (snd c).

(* re.search(ignorepatt, s): (alts, [(s, matched)]) *)
Definition chk_search (c : list alt * list (str * bool)) : bool :=
  forallb (fun sb => Bool.eqb (re_search (fst c) (fst sb)) (snd sb)) (snd c).

Definition alts_eqb (a b : list alt) : bool :=
  list_eqb (fun x y =>
    list_eqb (fun p q => match p, q with
                         | ALit c, ALit d => N.eqb c d
                         | AAny, AAny => true
                         | _, _ => false end) (fst x) (fst y) && Bool.eqb (snd x) (snd y)) a b.
(* the pattern the harness compiled from the live configuration is the generated one *)
Definition chk_shipped (a : list alt) : bool := alts_eqb a shipped_ignore.
