(* Correspondence checkers for C09: each takes one case (input paired with what
   the implementation — or the harness's spec twin — returned) and says whether
   the model agrees. *)
From Coq Require Import String ZArith.
From PG Require Import Lib.Str Lib.PyInt Model.Selector Model.Entry Model.Render0 Model.Gophermap Model.GophermapSpec.
Local Open Scope N_scope.

(* type, name, selector, host, port, gopherpsupport *)
Definition core := (option str * (option str * (str * (option str * (option Z * bool)))))%type.

Definition core_of (e : entry) : core :=
  (e_type e, (e_name e, (e_selector e, (e_host e, (e_port e, e_gopherpsupport e))))).

Definition optZ_eqb := opt_eqb Z.eqb.

Definition core_eqb (a b : core) : bool :=
  let '(t1, (n1, (s1, (h1, (p1, g1))))) := a in
  let '(t2, (n2, (s2, (h2, (p2, g2))))) := b in
  optstr_eqb t1 t2 && optstr_eqb n1 n2 && str_eqb s1 s2 && optstr_eqb h1 h2 &&
  optZ_eqb p1 p2 && Bool.eqb g1 g2.

(* VFS_Real.exists on a symlink-free scratch tree: root + selector with ONE
   trailing slash removed must be a node of the tree.  `existing` lists the
   selectors of all nodes ("" is the root). *)
Definition k_exists_raw (existing : list str) (sel : str) : bool :=
  mem_str (match last_char sel with
           | Some c => if c =? GM_SLASH then drop_last sel else sel
           | None => sel
           end) existing.
(* /repo (gophermap.py, repaired): the VFS is consulted only for a link selector that passes the
   request filter (BaseHandler.isrequestsecure, pattern list regenerated in Gen/Secure.v): the lookup
   `self.vfs.exists(selector)` of prepare() is `isrequestsecure() and self.vfs.exists(selector)`. *)
Definition k_exists (existing : list str) (sel : str) : bool :=
  is_secure sel && k_exists_raw existing sel.

Definition k_populate : str -> entry -> entry := populate_core (fun _ => lit "0"%string).

Definition k_kind (is_file : bool) : nodekind := if is_file then NFile else NDir.

Definition k_entries (fixed : bool) (sel : str) (is_file : bool) (content : str) (existing : list str)
  : result (list entry) :=
  gophermap_prepare (k_exists existing) k_populate
    ((if fixed then gm_linkbase_fixed else gm_linkbase_pinned) (k_kind is_file) sel) content.

(* ((selector, is "*.gophermap" file), (decoded file content, (existing selectors,
    inl entries | inr exception code 0 = IndexError, 1 = ValueError))) *)
Definition chk_entries (fixed : bool)
  (c : (str * bool) * (str * (list str * (list core + N)))) : bool :=
  let '((sel, is_file), (content, (existing, impl))) := c in
  match k_entries fixed sel is_file content existing, impl with
  | Ok es, inl cores => list_eqb core_eqb (map core_of es) cores
  | Raise IndexError, inr 0 => true
  | Raise ValueError, inr 1 => true
  | _, _ => false
  end.
Definition chk_entries_fixed := chk_entries true.
Definition chk_entries_pinned := chk_entries false.

(* the whole Gopher0 menu: response decoded with surrogateescape *)
Definition SRV_NAME : str := lit "gopher.example"%string.
Definition SRV_PORT : Z := 70%Z.
(* the server's own identity (server_name, server_port: what a missing host / port of a link means) is a
   parameter of the case *)
Definition chk_menu_id (srv_name : str) (srv_port : Z) (fixed : bool)
  (c : (str * bool) * (str * (list str * str))) : bool :=
  let '((sel, is_file), (content, (existing, response))) := c in
  match k_entries fixed sel is_file content existing with
  | Ok es => opt_eqb str_eqb (writedir [] [] (gopher0_line srv_name srv_port) es) (Some response)
  | Raise _ => false
  end.
Definition chk_menu := chk_menu_id SRV_NAME SRV_PORT.
Definition chk_menu_fixed := chk_menu true.
Definition chk_menu_pinned := chk_menu false.

(* handler selection: ((kind 0 dir / 1 regular file / 2 other / 3 missing, has_map), selector),
   (canhandlerequest, selector opened by prepare()) *)
Definition k_nodekind (k : N) : nodekind :=
  match k with 0 => NDir | 1 => NFile | 2 => NOther | _ => NMissing end.
Definition chk_select (c : ((N * bool) * str) * (bool * option str)) : bool :=
  let '(((k, has_map), sel), (can, src)) := c in
  Bool.eqb (gm_canhandle (k_nodekind k) has_map sel) can &&
  (if can then optstr_eqb (Some (gm_source (k_nodekind k) sel)) src else true).

(* int() on ASCII strings: None = ValueError *)
Definition chk_int (c : str * option Z) : bool :=
  let '(s, r) := c in optZ_eqb (py_int s) r.

(* os.path.dirname / basename *)
Definition chk_path (c : str * (str * str)) : bool :=
  let '(p, (d, b)) := c in str_eqb (py_dirname p) d && str_eqb (py_basename p) b.

(* the harness's Python twin of GophermapSpec against the Coq one:
   ((dir, line), (twin says well-formed, twin's entry)) *)
Definition chk_twin (c : (str * str) * (bool * core)) : bool :=
  let '((dir, line), (wf, tw)) := c in
  Bool.eqb (wf_gmline line) wf &&
  (if wf then core_eqb (core_of (spec_entry dir line)) tw else true).

(* one world per shard: shared data is defined once in the shard's preamble;
   a case names the model variant (true = repaired), the gophermap and what was observed *)
Definition observation := ((list core + N) + str)%type.
Definition obs_entries (l : list core) : observation := inl (inl l).
Definition obs_raise (n : N) : observation := inl (inr n).
Definition obs_menu (s : str) : observation := inr s.
Definition chk_world (c : bool * (((str * bool) * (str * list str)) * observation)) : bool :=
  let '(fixed, (((sel, is_file), (content, existing)), obs)) := c in
  match obs with
  | inl impl => chk_entries fixed ((sel, is_file), (content, (existing, impl)))
  | inr response => chk_menu fixed ((sel, is_file), (content, (existing, response)))
  end.

(* ((this server's name, this server's port), a chk_world case): the Gopher0 / Gopher+ menu is rendered by the
   model for THAT server; the entry list does not depend on it *)
Definition chk_world_id (c : (str * Z) * (bool * (((str * bool) * (str * list str)) * observation))) : bool :=
  let '((srv_name, srv_port), (fixed, (((sel, is_file), (content, existing)), obs))) := c in
  match obs with
  | inl impl => chk_entries fixed ((sel, is_file), (content, (existing, impl)))
  | inr response => chk_menu_id srv_name srv_port fixed ((sel, is_file), (content, (existing, response)))
  end.

(* ---- gophermaps inside a ZIP archive (handlers/ZIP.py VFSZip) ----
   VFSZip.exists(selector), /repo 91cede6: a selector that is the archive or lies below it
   (_inarchive) is looked up in the archive's index after the archive's own selector, one
   leading and one trailing slash are removed; every other selector (a link that points out
   of the archive, a URL: selector) is answered by the file system the archive lives in.
   `members` lists the archive paths of all directories and files ("" is the archive root),
   `outside` the selectors of the surrounding scratch tree as for k_exists. *)
Definition zip_inner (zipname sel : str) : str :=
  let s := skipn (List.length zipname) sel in
  let s := match s with c :: r => if c =? GM_SLASH then r else s | [] => [] end in
  match last_char s with
  | Some c => if c =? GM_SLASH then drop_last s else s
  | None => s
  end.
Definition in_archive (zipname sel : str) : bool :=
  str_eqb sel zipname || prefixb (zipname ++ [GM_SLASH]) sel.
Definition k_exists_zip (zipname : str) (members outside : list str) (sel : str) : bool :=
  is_secure sel &&
  (if in_archive zipname sel then mem_str (zip_inner zipname sel) members
   else k_exists_raw outside sel).
(* PINNED rule (before 91cede6): len(zipname) characters were cut off ANY selector, so a link
   out of the archive was looked up inside it ("/a.txt" -> "" = the archive root). *)
Definition k_exists_zip_pinned (zipname : str) (members : list str) (sel : str) : bool :=
  mem_str (zip_inner zipname sel) members.

Definition k_entries_with (ex : str -> bool) (fixed : bool) (sel : str) (is_file : bool) (content : str)
  : result (list entry) :=
  gophermap_prepare ex k_populate
    ((if fixed then gm_linkbase_fixed else gm_linkbase_pinned) (k_kind is_file) sel) content.

(* (model variant, ((zip selector, ((selector, is map file), (content, (archive members, surrounding selectors)))), observation)) *)
Definition chk_zworld (c : bool * ((str * ((str * bool) * (str * (list str * list str)))) * observation)) : bool :=
  let '(fixed, ((zipname, ((sel, is_file), (content, (members, outside)))), obs)) := c in
  let model := k_entries_with (k_exists_zip zipname members outside) fixed sel is_file content in
  match obs, model with
  | inl (inl cores), Ok es => list_eqb core_eqb (map core_of es) cores
  | inl (inr 0), Raise IndexError => true
  | inl (inr 1), Raise ValueError => true
  | inr response, Ok es => opt_eqb str_eqb (writedir [] [] (gopher0_line SRV_NAME SRV_PORT) es) (Some response)
  | _, _ => false
  end.

(* ---- abstracts (shipped settings): sidecar files enter as (selector of the sidecar, decoded content) ---- *)
Definition strip_slash (s : str) : str :=
  match last_char s with
  | Some c => if c =? GM_SLASH then drop_last s else s
  | None => s
  end.
(* populatefromfs: a directory reads fspath + "/" + ".abstract", anything else fspath + ".abstract" *)
Definition k_abstract_of (dirs : list str) (abstracts : list (str * str)) (sel : str) : option str :=
  let key := if mem_str (strip_slash sel) dirs then strip_slash sel ++ lit "/.abstract"%string
             else sel ++ lit ".abstract"%string in
  option_map ea_value (dict_get key abstracts).
Definition with_abstract (a : option str) (e : entry) : entry :=
  match a with
  | Some v => set_ea (dict_set ABSTRACT_KEY v (e_ea e)) e
  | None => e
  end.
Definition k_populate_abs (dirs : list str) (abstracts : list (str * str)) (sel : str) (e : entry) : entry :=
  with_abstract (k_abstract_of dirs abstracts sel) (k_populate sel e).
(* handler.getentry(): a directory with a gophermap is described from the directory, a map file from the file itself *)
Definition k_listed (abstracts : list (str * str)) (sel : str) (is_file : bool) : entry :=
  let key := if is_file then sel ++ lit ".abstract"%string else gm_selectorbase sel ++ lit "/.abstract"%string in
  with_abstract (option_map ea_value (dict_get key abstracts)) (new_entry sel).

(* (variant, ((((selector, is map file), (content, existing)), (directories, abstracts)),
              ((abstract_headers, doabstracts), Gopher0 menu))) *)
Definition chk_aworld
  (c : bool * ((((str * bool) * (str * list str)) * (list str * list (str * str))) * ((bool * bool) * str))) : bool :=
  let '(fixed, ((((sel, is_file), (content, existing)), (dirs, abstracts)), ((headers, doabs), response))) := c in
  match k_entries_with (k_exists existing) fixed sel is_file content with
  | Raise _ => false
  | Ok _ =>
      match gophermap_prepare (k_exists existing) (k_populate_abs dirs abstracts)
              ((if fixed then gm_linkbase_fixed else gm_linkbase_pinned) (k_kind is_file) sel) content with
      | Ok es => opt_eqb str_eqb
                   (writedir_abs headers doabs [] [] (gopher0_line SRV_NAME SRV_PORT) (k_listed abstracts sel is_file) es)
                   (Some response)
      | Raise _ => false
      end
  end.

(* ---- large gophermaps (sizes around and beyond 4 KiB .. 1 MiB) ----
   A large map enters as a COMPACT description `parts` = [(block, repetitions); ...] which is expanded here
   (big Gallina literals elaborate slowly); what the implementation returned enters as the number of
   entries plus its first and last entries (resp. the length, head and tail of the Gopher0 menu). *)
Fixpoint rep_app (b : str) (n : nat) (tail : str) : str :=
  match n with O => tail | S k => b ++ rep_app b k tail end.
Fixpoint expand_parts (parts : list (str * N)) : str :=
  match parts with
  | [] => []
  | (b, n) :: r => rep_app b (N.to_nat n) (expand_parts r)
  end.
Definition lastn {A} (k : nat) (l : list A) : list A := skipn (List.length l - k) l.

(* (variant, (((selector, is map file), (parts, existing)), (number of entries, (first entries, last entries)))) *)
Definition chk_bigworld
  (c : bool * (((str * bool) * (list (str * N) * list str)) * (N * (list core * list core)))) : bool :=
  let '(fixed, (((sel, is_file), (parts, existing)), (count, (first, last)))) := c in
  match k_entries fixed sel is_file (expand_parts parts) existing with
  | Ok es =>
      let cs := map core_of es in
      (N.of_nat (List.length cs) =? count) &&
      list_eqb core_eqb (firstn (List.length first) cs) first &&
      list_eqb core_eqb (lastn (List.length last) cs) last
  | Raise _ => false
  end.

(* (variant, (((selector, is map file), (parts, existing)), (length of the menu, (its head, its tail)))) *)
Definition chk_bigmenu
  (c : bool * (((str * bool) * (list (str * N) * list str)) * (N * (str * str)))) : bool :=
  let '(fixed, (((sel, is_file), (parts, existing)), (len, (head, tail)))) := c in
  match k_entries fixed sel is_file (expand_parts parts) existing with
  | Ok es =>
      match writedir [] [] (gopher0_line SRV_NAME SRV_PORT) es with
      | Some s => (N.of_nat (List.length s) =? len) && str_eqb (firstn (List.length head) s) head &&
                  str_eqb (lastn (List.length tail) s) tail
      | None => false
      end
  | Raise _ => false
  end.
