(* Correspondence checker for the end-to-end layer Model/Serve.v: one case is one request
   (raw bytes + TLS flag) that the REAL server (GopherRequestHandler.handle, nothing patched
   but recorders) served against a scratch tree, paired with what it did.  The same tree
   is given to the model as a `tree` literal.  Driven by harness/kserve.py. *)
From Coq Require Import String.
From PG Require Import Lib.Str Lib.Bytes Lib.Utf8 Gen.Config Model.ProtoId Model.Selector Model.Detect Model.Request
  Model.Handlers Model.Respond Model.Serve Corr.K01 Corr.K05.
Local Open Scope N_scope.

(* what the implementation did, as the harness reads it off the log line "[Proto/Handler]: "
   (class of the object getHandler returned; its .selector from a recorder around
   getHandler), off "[Proto/None] EXCEPTION FileNotFound: ... (no handler found)", or
   neither (a reply written without a handler, or an exception) *)
Inductive idec := INotFound | IChosen (h : hid) (sel : str) | IOther.

(* mimetypes.guess_type(selector)[0] == "text/html" for the selectors getHandler was
   entered with (the routed selector and, for the type rewriter, selector[2:]) *)
Fixpoint mime_of (tbl : list (str * bool)) (s : str) : bool :=
  match tbl with
  | [] => false
  | (k, v) :: r => if str_eqb k s then v else mime_of r s
  end.

Definition cfg_of (hs : list hid) (ze : bool) (admin : str) : config :=
  mk_config hs ze shipped_waptop admin shipped_protocols.

Definition BAD_REQUEST : list N := status_line true (lit "59") (lit "Bad request").

(* ((tls, input), (mime table, (protocol class picked, (decision, complete reply)))) *)
Definition chk_serve (root : tree) (hs : list hid) (ze : bool) (admin : str)
           (c : (bool * list N) * (list (str * bool) * (option proto * (idec * list N)))) : bool :=
  let '((tls, input), (mt, (ip, (idc, out)))) := c in
  let cfg := cfg_of hs ze admin in
  let req := decode_se (fst (readline input)) in
  match serve_input (mime_of mt) (fun _ => false) zip_pat (fun _ => true) (fun _ => []) cfg root tls input, ip with
  | None, None => true
  | Some (p, d), Some p' =>
      proto_eqb p p' &&
      (match d, idc with
       | DNotFound _, INotFound => opt_eqb str_eqb (serve_reply cfg p req d) (Some out)
       | DChosen h s, IChosen h' s' => hid_eqb h h' && str_eqb s s'
       | DDirect b, IOther => if is_http_family p then prefixb b out else str_eqb b out
       | DNoReply, IOther => str_eqb out []
       | _, _ => false
       end
       (* urlsplit's two netloc checks are outside Lib/Urlparse.v: there the code may answer 59 *)
       || (unchecked_input p input && match idc with IOther => str_eqb out BAD_REQUEST | _ => false end))
  | _, _ => false
  end.

(* branch tag for the coverage report: 0 not-found, 1 chosen, 2 direct, 3 no reply, 4 nobody claims the line *)
Definition tag_serve (root : tree) (hs : list hid) (ze : bool) (admin : str)
           (c : (bool * list N) * (list (str * bool) * (option proto * (idec * list N)))) : N :=
  let '((tls, input), (mt, _)) := c in
  match serve_input (mime_of mt) (fun _ => false) zip_pat (fun _ => true) (fun _ => []) (cfg_of hs ze admin) root tls input with
  | Some (_, DNotFound _) => 0 | Some (_, DChosen _ _) => 1 | Some (_, DDirect _) => 2 | Some (_, DNoReply) => 3 | None => 4
  end.
