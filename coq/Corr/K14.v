(* Correspondence checker for C14: deterministic schedules replayed on the REAL
   code (requests paused at the four cache-file gates: stat, open-for-read,
   open-for-write, dump) against Model/Conc.v run on the same schedule.
   One grant = the gated action plus everything up to the request's next gate. *)
From Coq Require Export ZArith.
From PG Require Import Lib.Str Model.Cache Model.Conc.
Local Open Scope N_scope.

(* listings are named by numbers: 0 = the current directory, 5 = the older content
   a pre-existing cache file holds.  A complete file is [l; l+1]. *)
Definition k_enc (l : N) : bytes := [l; l + 1].
Definition k_decode (g : bytes) : option N :=
  match g with [a; b] => if b =? a + 1 then Some a else None | _ => None end.
Definition k_fresh (m : Z) : bool := (0 <=? m)%Z.

Definition k_thread : thread N := mkt (after_lazies [0%nat; 1%nat] ToStat) [2%nat; 3%nat] [k_enc 0].
(* initial cache file: 0 none, 1 stale complete (older content), 2 fresh complete (older content), 3 fresh truncated *)
Definition k_file (kind : N) : option (Z * fcontent) :=
  match kind with
  | 1 => Some ((-1000)%Z, of_bytes (k_enc 5))
  | 2 => Some (1%Z, of_bytes (k_enc 5))
  | 3 => Some (1%Z, of_bytes [5])
  | _ => None
  end.
Definition k_state (kind : N) : state N N :=
  mkst (mks (k_file kind) (fun _ => None) false None false) (fun _ => k_thread).

Definition k_step (rep : bool) := step 0 k_decode k_fresh 1%Z (fun k => N.of_nat k) rep.

Definition at_gate (p : pc N) : bool :=
  match p with PStat | PRead | POpen | PWrite _ _ | PDone _ => true | _ => false end.
Fixpoint settle (fuel : nat) (rep : bool) (st : state N N) (i : nat) : state N N :=
  match fuel with
  | O => st
  | S f => if at_gate (tpc (th st i)) then st else settle f rep (k_step rep st i) i
  end.
Definition grant (rep : bool) (st : state N N) (i : nat) : state N N :=
  match tpc (th st i) with
  | PDone _ => st
  | _ => settle 40 rep (k_step rep st i) i
  end.
Definition k_run (rep : bool) (kind : N) (n : nat) (sched : list nat) : state N N :=
  fold_left (grant rep) sched (fold_left (fun st i => settle 40 rep st i) (seq 0 n) (k_state kind)).

(* observation per request: the listing it was served (0 / 5 / 99 other), or 1000 = empty reply *)
Definition obs_of (st : state N N) (i : nat) : N :=
  match response st i with
  | Some (CServed l) => l
  | Some CCrashed => 1000
  | None => 2000
  end.
Definition file_complete (st : state N N) : bool :=
  match file (sh st) with
  | Some (_, c) => match k_decode (fread c) with Some _ => true | None => false end
  | None => false
  end.

(* ((repaired?, kind of initial file), number of requests, schedule), (observations, file complete at the end) *)
Definition chk_sched (c : (bool * N * nat * list nat) * (list N * bool)) : bool :=
  let '((rep, kind, n, sched), (os, complete)) := c in
  let st := k_run rep kind n sched in
  list_eqb N.eqb (map (obs_of st) (seq 0 n)) os && Bool.eqb (file_complete st) complete.
