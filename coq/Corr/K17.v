(* Correspondence checkers for C17 / C18 (simpleTAL).
   chk_wf    : a REAL compiled program (commandList, symbolTable, macros written as a
               Gallina literal by the harness) satisfies wf_program;
   chk_rv    : the real RepeatVariable methods at (position, length) vs Model/TALES.v;
   chk_trace : the abstract VM of Model/TALVM.v, driven by the decisions the REAL interpreter
               took (recorded per executed command), visits exactly the same program counters,
               terminates, and ends with the same context key sets as the real Context. *)
From PG Require Import Lib.Str Model.TALES Model.TALProg Model.TALVM.
Local Open Scope N_scope.

Definition chk_wf (c : program * (symtab * macrotab)) : bool :=
  let '(p, (t, m)) := c in wf_program p t m.

(* ((pos, len), (index, number, even, odd, start, end, length, letter, Letter, roman, Roman)) *)
Definition chk_rv (c : (N * N) * (N * (N * (N * (N * (N * (N * (N * (str * (str * (str * str))))))))))) : bool :=
  let '((pos, len), (i, (n, (ev, (od, (st, (en, (ln, (l, (L, (r, R))))))))))) := c in
  (rv_index pos =? i) && (rv_number pos =? n) && (rv_even pos =? ev) && (rv_odd pos =? od) &&
  (rv_start pos =? st) && (rv_end pos len =? en) && (rv_length len =? ln) &&
  str_eqb (rv_letter pos) l && str_eqb (rv_Letter pos) L && str_eqb (rv_roman pos) r && str_eqb (rv_Roman pos) R.

(* ---- trace-guided run ---- *)
Inductive tag : Type := TgNone | TgCond (b : bool) | TgRep (r : rep_dec) | TgVal (v : val_dec) | TgMac (m : mac_dec).
Definition entry := (nat * tag)%type.
Record tstate : Type := mkT { ts_rest : list entry; ts_ok : bool }.

Definition g_cond (d : tstate) (c : cmd) : bool :=
  match ts_rest d with (_, TgCond b) :: _ => b | _ => false end.
Definition g_rep (d : tstate) (c : cmd) : rep_dec :=
  match ts_rest d with (_, TgRep r) :: _ => r | _ => RSkip end.
Definition g_val (d : tstate) (c : cmd) : val_dec :=
  match ts_rest d with (_, TgVal v) :: _ => v | _ => VDefault end.
Definition g_mac (d : tstate) (c : cmd) : mac_dec :=
  match ts_rest d with (_, TgMac m) :: _ => m | _ => MOther end.
Definition g_upd (d : tstate) (p : nat) (c : cmd) : tstate :=
  match ts_rest d with
  | (p', _) :: r => mkT r (ts_ok d && Nat.eqb p' p)
  | [] => mkT [] false
  end.

Definition incl_b (a b : list str) : bool := forallb (fun x => mem_str x b) a.
Definition set_eqb (a b : list str) : bool := incl_b a b && incl_b b a.

(* (program, (symtab, macros)), (entries, (initial global names, (final local names, final global names))) *)
Definition chk_trace (c : (program * (symtab * macrotab)) * (list entry * (list str * (list str * list str)))) : bool :=
  let '((p, (t, m)), (es, (g0, (l1, g1)))) := c in
  let subs := all_subs p m in
  match vm_run p t subs tstate g_cond g_rep g_val g_mac g_upd (length es + 2)
               (mkCtx (mkSc [] [] [] []) g0) (mkT es true) with
  | Done mf =>
      ts_ok (dat _ mf) && (match ts_rest (dat _ mf) with [] => true | _ => false end) &&
      Nat.eqb (pc _ mf) (length p) && (match sstack _ mf with [] => true | _ => false end) &&
      set_eqb (s_locals (c_sc (cx _ mf))) l1 && set_eqb (c_globals (cx _ mf)) g1 &&
      (match s_lstack (c_sc (cx _ mf)), s_rstack (c_sc (cx _ mf)), s_rmap (c_sc (cx _ mf)) with
       | [], [], [] => true | _, _, _ => false end)
  | _ => false
  end.
