(* Correspondence checkers for C17 / C18 (simpleTAL).
   chk_wf    : a REAL compiled program (commandList, symbolTable, macros written as a
               Gallina literal by the harness) satisfies wf_program;
   chk_rv    : the real RepeatVariable methods at (position, length) vs Model/TALES.v;
   chk_trace : the abstract VM of Model/TALVM.v, driven by the decisions the REAL interpreter
               took (recorded per executed command), visits exactly the same program counters,
               terminates, and ends with the same context key sets as the real Context;
   chk_compile : the event stream html.parser produced for a template (recorded from the real
               parser class) goes through Model/TALCompile.compile and the result is structurally
               equal to the REAL commandList / symbolTable / macros (None = the real compiler raised);
   chk_eval  : Model/TALESEval.evaluate, with the REAL traversePath results (recorded per call) as
               its traversal oracle and the real eval results as its python oracle, returns what the
               REAL Context.evaluate returned and performs as many python evaluations;
   chk_out   : tagAsText / text and structure content / cmdAttributes output vs Model/TALOut.v;
   chk_spec  : for templates with condition / content / replace / attributes / omit-tag: the REAL program
               is read back as a forest (parse_forest) and BOTH the tree-walking specification
               (spec_forest) and the data instance of the VM (expand1), with the REAL results of
               Context.evaluate(expr, originalAtts) as evaluator, give the REAL expansion;
   chk_spec_full : the same for all six TAL statements (define and repeat included): the environment is
               the number of Context operations performed so far (pushLocals, popLocals, setLocal,
               addGlobal; addRepeat = 3 of them, removeRepeat + popLocals = 2), the evaluator is the table of
               REAL evaluate results keyed by that number, the expression and the original attributes —
               so specification, data VM and real interpreter must also agree on the ORDER of all
               context operations. *)
From Coq Require Import String.
From PG Require Import Lib.Str Model.TALES Model.TALProg Model.TALVM Model.TALCompile Model.TALESEval Model.TALOut Model.TALSpec
                       Model.TALSpecFull Model.TALDoc.
Local Open Scope N_scope.

Definition chk_wf (c : program * (symtab * macrotab)) : bool :=
  let '(p, (t, m)) := c in wf_program p t m.

(* ((pos, len), (index, number, even, odd, start, end, length, letter, Letter, roman, Roman)) *)
Definition chk_rv (c : (N * N) * (N * (N * (N * (N * (N * (N * (N * (str * (str * (str * str))))))))))) : bool :=
  let '((pos, len), (i, (n, (ev, (od, (st, (en, (ln, (l, (L, (r, R))))))))))) := c in
  (rv_index pos =? i) && (rv_number pos =? n) && (rv_even pos =? ev) && (rv_odd pos =? od) &&
  (rv_start pos =? st) && (rv_end pos len =? en) && (rv_length len =? ln) &&
  str_eqb (rv_letter pos) l && str_eqb (rv_Letter pos) L && str_eqb (rv_roman pos) r && str_eqb (rv_Roman pos) R.

(* ---- trace-guided run ---- *)
Inductive tag : Type := TgNone | TgCond (b : bool) | TgRep (r : rep_dec) | TgVal (v : val_dec) | TgMac (m : mac_dec).
Definition entry := (nat * tag)%type.
Record tstate : Type := mkT { ts_rest : list entry; ts_ok : bool }.

Definition g_cond (d : tstate) (c : cmd) : bool :=
  match ts_rest d with (_, TgCond b) :: _ => b | _ => false end.
Definition g_rep (d : tstate) (c : cmd) : rep_dec :=
  match ts_rest d with (_, TgRep r) :: _ => r | _ => RSkip end.
Definition g_val (d : tstate) (c : cmd) : val_dec :=
  match ts_rest d with (_, TgVal v) :: _ => v | _ => VDefault end.
Definition g_mac (d : tstate) (c : cmd) : mac_dec :=
  match ts_rest d with (_, TgMac m) :: _ => m | _ => MOther end.
Definition g_upd (d : tstate) (p : nat) (c : cmd) : tstate :=
  match ts_rest d with
  | (p', _) :: r => mkT r (ts_ok d && Nat.eqb p' p)
  | [] => mkT [] false
  end.

Definition incl_b (a b : list str) : bool := forallb (fun x => mem_str x b) a.
Definition set_eqb (a b : list str) : bool := incl_b a b && incl_b b a.

(* (program, (symtab, macros)), (entries, (initial global names, (final local names, final global names))) *)
Definition chk_trace (c : (program * (symtab * macrotab)) * (list entry * (list str * (list str * list str)))) : bool :=
  let '((p, (t, m)), (es, (g0, (l1, g1)))) := c in
  let subs := all_subs p m in
  match vm_run p t subs tstate g_cond g_rep g_val g_mac g_upd (length es + 2)
               (mkCtx (mkSc [] [] [] []) g0) (mkT es true) with
  | Done mf =>
      ts_ok (dat _ mf) && (match ts_rest (dat _ mf) with [] => true | _ => false end) &&
      Nat.eqb (pc _ mf) (length p) && (match sstack _ mf with [] => true | _ => false end) &&
      set_eqb (s_locals (c_sc (cx _ mf))) l1 && set_eqb (c_globals (cx _ mf)) g1 &&
      (match s_lstack (c_sc (cx _ mf)), s_rstack (c_sc (cx _ mf)), s_rmap (c_sc (cx _ mf)) with
       | [], [], [] => true | _, _, _ => false end)
  | _ => false
  end.

(* ---- compiler model vs real compiler ---- *)
Definition pair_eqb (a b : str * str) : bool := str_eqb (fst a) (fst b) && str_eqb (snd a) (snd b).
Definition subt_eqb (a b : subt) : bool := Nat.eqb (fst a) (fst b) && Nat.eqb (snd a) (snd b).
Definition slot_eqb (a b : str * subt) : bool := str_eqb (fst a) (fst b) && subt_eqb (snd a) (snd b).
Definition def_eqb (a b : bool * (str * str)) : bool := Bool.eqb (fst a) (fst b) && pair_eqb (snd a) (snd b).

Definition cmd_eqb (a b : cmd) : bool :=
  match a, b with
  | CDefine x, CDefine y => list_eqb def_eqb x y
  | CCondition e s, CCondition e' s' => str_eqb e e' && Nat.eqb s s'
  | CRepeat v e s, CRepeat v' e' s' => str_eqb v v' && str_eqb e e' && Nat.eqb s s'
  | CContent r t e s, CContent r' t' e' s' => Bool.eqb r r' && Bool.eqb t t' && str_eqb e e' && Nat.eqb s s'
  | CAttributes x, CAttributes y => list_eqb pair_eqb x y
  | COmitTag e, COmitTag e' => str_eqb e e'
  | CStartScope o c, CStartScope o' c' => list_eqb pair_eqb o o' && list_eqb pair_eqb c c'
  | COutput s, COutput s' => str_eqb s s'
  | CStartTag t g, CStartTag t' g' => str_eqb t t' && Bool.eqb g g'
  | CEndTagEndScope t o g, CEndTagEndScope t' o' g' => str_eqb t t' && Bool.eqb o o' && Bool.eqb g g'
  | CNoOp, CNoOp => true
  | CUseMacro e sl s, CUseMacro e' sl' s' => str_eqb e e' && list_eqb slot_eqb sl sl' && Nat.eqb s s'
  | CDefineSlot n s, CDefineSlot n' s' => str_eqb n n' && Nat.eqb s s'
  | _, _ => false
  end.

Definition symp_eqb (a b : nat * nat) : bool := Nat.eqb (fst a) (fst b) && Nat.eqb (snd a) (snd b).

Definition prog_eqb (a b : program * (symtab * macrotab)) : bool :=
  list_eqb cmd_eqb (fst a) (fst b) && list_eqb symp_eqb (fst (snd a)) (fst (snd b)) &&
  list_eqb slot_eqb (snd (snd a)) (snd (snd b)).

(* ((v_text, (v_cdata, (v_eof, (v_dup, v_start)))), (events, real result)) *)
Definition chk_compile (c : (bool * (bool * (bool * (bool * bool)))) * (list event * option (program * (symtab * macrotab)))) : bool :=
  let '((vt, (vc, (ve, (vd, vs)))), (evs, real)) := c in
  match compile (mkVariant vt vc ve vd vs) evs, real with
  | COk p, Some q => prog_eqb p q
  | CErr, None => true
  | _, _ => false
  end.

(* ---- Context.evaluate ---- *)
(* a value as far as evaluate looks at it: (text, (is None, (== default marker, bool()))) *)
Definition cval := (str * (bool * (bool * bool)))%type.
Definition DEFAULT_MARK : str := lit "This represents a Default value."%string.
Definition cv_false : cval := (lit "0"%string, (false, (false, false))).
Definition cv_true : cval := (lit "1"%string, (false, (false, true))).
Definition cv_str (s : str) : cval :=
  (s, (false, (str_eqb s DEFAULT_MARK, match s with [] => false | _ => true end))).
Definition cv_miss : cval := (lit "<<path never traversed by the real code>>"%string, (false, (false, true))).
Definition cval_eqb (a b : cval) : bool :=
  str_eqb (fst a) (fst b) && Bool.eqb (fst (snd a)) (fst (snd b)) &&
  Bool.eqb (fst (snd (snd a))) (fst (snd (snd b))) && Bool.eqb (snd (snd (snd a))) (snd (snd (snd b))).

Fixpoint trav_lookup (t : list ((str * bool) * option cval)) (p : str) (call : bool) : option cval :=
  match t with
  | [] => Some cv_miss
  | ((q, c), v) :: r => if str_eqb q p && Bool.eqb c call then v else trav_lookup r p call
  end.
Fixpoint py_lookup (t : list (str * cval)) (e : str) : cval :=
  match t with
  | [] => cv_miss
  | (q, v) :: r => if str_eqb q e then v else py_lookup r e
  end.

(* (((first alternative of exists:/nocall: stripped?, allowPythonPath), expression), (traversals, python results)),
   (real result, real number of evals) *)
Definition chk_eval (c : (((bool * bool) * str) * (list ((str * bool) * option cval) * list (str * cval))) * (option cval * nat)) : bool :=
  let '((((strip1, allow), e), (tr, pt)), (real, evals)) := c in
  let '(r, n) := evaluate cval cv_false cv_true cv_str (fun v => fst (snd v)) (fun v => fst (snd (snd v)))
                          (fun v => snd (snd (snd v))) (fun v => fst v) (trav_lookup tr) (py_lookup pt) strip1
                          (S (List.length e)) allow e in
  opt_eqb cval_eqb r real && Nat.eqb n evals.

(* ---- output functions ---- *)
(* ((tag, (attributes, value)), (interpreter tagAsText, (compiler tagAsText,
     (<p tal:content="v">, (<p tal:content="structure v">, <p id="i" tal:attributes="title v">x</p>))))) *)
Definition chk_out (c : (str * (list (str * str) * str)) * (str * (str * (str * (str * str))))) : bool :=
  let '((tag, (atts, v)), (t1, (t2, (o1, (o2, o3))))) := c in
  let P := lit "p"%string in
  str_eqb (start_tag_text tag atts) t1 && str_eqb (tag_as_text tag atts) t2 &&
  str_eqb (start_tag_text P [] ++ content_text false v ++ end_tag_text P) o1 &&
  str_eqb (start_tag_text P [] ++ content_text true v ++ end_tag_text P) o2 &&
  str_eqb (start_tag_text P (apply_attributes [(lit "title"%string, AValue v)] [(lit "id"%string, lit "i"%string)])
           ++ lit "x"%string ++ end_tag_text P) o3.

(* ---- specification and data VM vs the real expansion ---- *)
Definition atts_eqb (a b : list (str * str)) : bool := list_eqb pair_eqb a b.
Fixpoint ev_lookup (t : list ((str * list (str * str)) * cval)) (e : str) (orig : list (str * str)) : cval :=
  match t with
  | [] => cv_miss
  | ((q, o), v) :: r => if str_eqb q e && atts_eqb o orig then v else ev_lookup r e orig
  end.

(* ((program, (symtab, macros)), (evaluations, real output)) *)
Definition chk_spec (c : (program * (symtab * macrotab)) * (list ((str * list (str * str)) * cval) * str)) : bool :=
  let '((p, (t, _)), (tbl, real)) := c in
  let ev := ev_lookup tbl in
  let nothing := fun v : cval => fst (snd v) in
  let dflt := fun v : cval => fst (snd (snd v)) in
  let truth := fun v : cval => snd (snd (snd v)) in
  let text := fun v : cval => fst v in
  match TALSpec.parse_forest (S (List.length p)) t 0 p with
  | Some (f, []) =>
      str_eqb (TALSpec.spec_forest cval ev nothing dflt truth text f) real &&
      match expand1 cval ev nothing dflt truth text p t (4 * List.length p + 8) (mkCtx (mkSc [] [] [] []) []) with
      | Done mf => str_eqb (TALSpec.d_out (dat _ mf)) real
      | _ => false
      end
  | _ => false
  end.

(* ---- all six TAL statements ---- *)
(* value: (text, (is None, (== default, (truth, len())))) *)
Definition cvalL := (str * (bool * (bool * (bool * option nat))))%type.
Definition cvL_miss : cvalL := (lit "<<evaluation the real code never made>>"%string, (false, (false, (true, None)))).
Fixpoint evL_lookup (t : list ((nat * (str * list (str * str))) * cvalL)) (ver : nat) (e : str) (orig : list (str * str)) : cvalL :=
  match t with
  | [] => cvL_miss
  | ((n, (q, o)), v) :: r => if Nat.eqb n ver && str_eqb q e && atts_eqb o orig then v else evL_lookup r ver e orig
  end.

(* ((program, (symtab, macros)), (evaluations, (real output, real number of context operations))) *)
Definition chk_spec_full (c : (program * (symtab * macrotab)) *
                              (list ((nat * (str * list (str * str))) * cvalL) * (str * nat))) : bool :=
  let '((p, (t, _)), (tbl, (real, nops))) := c in
  let ev := fun (ver : nat) e orig => evL_lookup tbl ver e orig in
  let bump := fun (k : nat) (ver : nat) => (ver + k)%nat in
  let nothing := fun v : cvalL => fst (snd v) in
  let dflt := fun v : cvalL => fst (snd (snd v)) in
  let truth := fun v : cvalL => fst (snd (snd (snd v))) in
  let vlen := fun v : cvalL => snd (snd (snd (snd v))) in
  let text := fun v : cvalL => fst v in
  match TALSpecFull.parse_forest (S (List.length p)) t 0 p with
  | Some (f, []) =>
      let sp := TALSpecFull.spec_forest cvalL nat ev (bump 1%nat) (bump 1%nat) (fun v _ _ => bump 1%nat v) (fun v _ _ => bump 1%nat v)
                  (fun v _ _ => bump 3%nat v) (fun v _ => bump 1%nat v) (fun v _ => bump 2%nat v) nothing dflt truth text vlen 0%nat f in
      str_eqb (fst sp) real && Nat.eqb (snd sp) nops &&
      match expand_tal cvalL nat ev (bump 1%nat) (bump 1%nat) (fun v _ _ => bump 1%nat v) (fun v _ _ => bump 1%nat v)
                       (fun v _ _ => bump 3%nat v) (fun v _ => bump 1%nat v) (fun v _ => bump 2%nat v) nothing dflt truth text vlen
                       p t ((nops + 2) * (List.length p + 2))%nat (mkCtx (mkSc [] [] [] []) []) 0%nat with
      | Done mf => str_eqb (TALSpecFull.d_out (dat _ mf)) real && Nat.eqb (TALSpecFull.d_env (dat _ mf)) nops
      | _ => false
      end
  | _ => false
  end.

(* ---- the document tree of Model/TALDoc.v: its events are the REAL parser's, its specification writes the REAL output ---- *)
Definition hatt_eqb (a b : str * option str) : bool :=
  str_eqb (fst a) (fst b) && match snd a, snd b with Some x, Some y => str_eqb x y | None, None => true | _, _ => false end.
Definition event_eqb (a b : event) : bool :=
  match a, b with
  | EvStart t x, EvStart t' x' | EvStartEnd t x, EvStartEnd t' x' => str_eqb t t' && list_eqb hatt_eqb x x'
  | EvEnd t, EvEnd t' => str_eqb t t'
  | EvData d c, EvData d' c' => str_eqb d d' && Bool.eqb c c'
  | EvComment d, EvComment d' | EvDecl d, EvDecl d' | EvPi d, EvPi d' => str_eqb d d'
  | _, _ => false
  end.

(* ((document, real parser events), (evaluations, (real output, real number of context operations))):
   doc_events doc = the real events; no METAL; the tree-walking specification applied to doc_forest doc (no
   compiler, no program) writes the real output with the real number of context operations; and the model
   compiler accepts the events *)
Definition chk_doc (c : (list dnode * list event) * (list ((nat * (str * list (str * str))) * cvalL) * (str * nat))) : bool :=
  let '((doc, evs), (tbl, (real, nops))) := c in
  let ev := fun (ver : nat) e orig => evL_lookup tbl ver e orig in
  let bump := fun (k : nat) (ver : nat) => (ver + k)%nat in
  let nothing := fun v : cvalL => fst (snd v) in
  let dflt := fun v : cvalL => fst (snd (snd v)) in
  let truth := fun v : cvalL => fst (snd (snd (snd v))) in
  let vlen := fun v : cvalL => snd (snd (snd (snd v))) in
  let text := fun v : cvalL => fst v in
  let sp := TALSpecFull.spec_forest cvalL nat ev (bump 1%nat) (bump 1%nat) (fun v _ _ => bump 1%nat v) (fun v _ _ => bump 1%nat v)
              (fun v _ _ => bump 3%nat v) (fun v _ => bump 1%nat v) (fun v _ => bump 2%nat v) nothing dflt truth text vlen 0%nat
              (doc_forest doc) in
  list_eqb event_eqb (doc_events doc) evs && forallb no_metal doc &&
  str_eqb (fst sp) real && Nat.eqb (snd sp) nops &&
  match compile repaired (doc_events doc) with COk _ => true | _ => false end.
