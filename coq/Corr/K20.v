(* Correspondence checker for C20: what the REAL GopherRequestHandler.handle did
   with a wfile failing at write k, against Model/Conn.v evaluated with the specs
   read off the current source (Gen/Conn.v) on the action sequence recorded from
   the unfaulted real run of the same request. *)
From Coq Require Import List Arith Bool.
Import ListNotations.
From PG Require Import Lib.Str Model.Conn Gen.Conn.

Definition ioclass_eqb (a b : ioclass) : bool :=
  match a, b with EPIPE, EPIPE | ECONNRESET, ECONNRESET | TIMEOUT, TIMEOUT => true | _, _ => false end.
Definition logcls_eqb (a b : logcls) : bool :=
  match a, b with
  | LIO x, LIO y => ioclass_eqb x y
  | LIndexError, LIndexError | LAttributeError, LAttributeError | LFileNotFound, LFileNotFound => true
  | _, _ => false          (* LOther never equals anything: an unknown class is a disagreement *)
  end.
Definition rec_eqb (a b : logcls * bool) : bool := logcls_eqb (fst a) (fst b) && Bool.eqb (snd a) (snd b).

(* a response written outside the protocol's try (HTTP icons, Gemini input
   prompts): same except clauses, nothing of it inside the try *)
Definition spec_for (p : pclass) (outside : bool) : hspec :=
  let h := handle_spec p in
  if outside then HSpec false (io_logs h) (io_msg h) (nf_steps h) else h.

(* (((protocol family, outside-try), ((actions during getProtocol, actions after), ((k, n), class))))  — writes k..k+n-1 fail, n = None: for good,
    (escaped, (records after the fault: (class, has client address), descriptors left open))) *)
Definition chk_fault (x : ((pclass * bool) * ((list action * list action) * ((nat * option nat) * ioclass))) * (bool * (list (logcls * bool) * nat))) : bool :=
  let '(((p, outside), ((pre, acts), ((k, n), c))), (escaped, (recs, leaked))) := x in
  let '(o, s) := connection (window k n) c server_spec (spec_for p outside) pre acts in
  Bool.eqb (match o with Contained => false | Escaped _ => true end) escaped &&
  list_eqb rec_eqb (map (fun e => (e_cls e, e_addr e)) (after_fault s)) recs &&
  Nat.eqb (depth s) leaked.
