(* Facts about the repeat-variable arithmetic of Model/TALES.v *)
From Coq Require Import Lia.
From PG Require Import Lib.Str Model.TALES.
Local Open Scope N_scope.

Lemma number_is_index_plus_one pos : rv_number pos = rv_index pos + 1.
Proof. reflexivity. Qed.

Lemma even_odd_complementary pos :
  rv_even pos + rv_odd pos = 1 /\ (rv_even pos = 1 <-> pos mod 2 = 0) /\ (rv_odd pos = 1 <-> pos mod 2 = 1).
Proof.
  unfold rv_even, rv_odd.
  assert (H : pos mod 2 < 2) by (apply N.mod_lt; lia).
  remember (pos mod 2) as m eqn:Hm. clear Hm.
  destruct (m =? 0) eqn:E; simpl.
  - apply N.eqb_eq in E. rewrite E. split; [reflexivity|]. split; split; intros; try reflexivity; discriminate.
  - apply N.eqb_neq in E. split; [reflexivity|]. split; split; intros; try reflexivity; try discriminate; lia.
Qed.

Lemma start_iff_first pos : rv_start pos = 1 <-> pos = 0.
Proof.
  unfold rv_start. destruct (pos =? 0) eqn:E.
  - apply N.eqb_eq in E. tauto.
  - apply N.eqb_neq in E. split; intros; [lia | contradiction].
Qed.

Lemma end_iff_last pos len : rv_end pos len = 1 <-> (0 < len /\ pos = len - 1).
Proof.
  unfold rv_end. destruct (len =? 0) eqn:E0.
  - apply N.eqb_eq in E0. split; intros; lia.
  - apply N.eqb_neq in E0. destruct (pos =? len - 1) eqn:E.
    + apply N.eqb_eq in E. split; intros; [split; lia | reflexivity].
    + apply N.eqb_neq in E. split; intros; lia.
Qed.

(* ---- letter ---- *)
Lemma parse_letter_aux_cons a c r :
  parse_letter_aux a (c :: r) =
  if (97 <=? c) && (c <=? 122) then parse_letter_aux (a * 26 + (c - 97)) r else None.
Proof. reflexivity. Qed.

Lemma letter_loop_S f n acc :
  letter_loop (S f) n acc = if n =? 0 then acc else letter_loop f (n / 26) ((97 + n mod 26) :: acc).
Proof. reflexivity. Qed.

Lemma letter_loop_parse : forall fuel n acc,
  n < 2 ^ N.of_nat fuel ->
  parse_letter_aux 0 (letter_loop fuel n acc) = parse_letter_aux n acc.
Proof.
  induction fuel as [|f IH]; intros n acc Hn.
  - simpl in Hn. assert (n = 0) by lia. subst. reflexivity.
  - rewrite letter_loop_S. destruct (n =? 0) eqn:E.
    + apply N.eqb_eq in E. subst. reflexivity.
    + apply N.eqb_neq in E.
      assert (Hm : n mod 26 < 26) by (apply N.mod_lt; discriminate).
      assert (Hd : n = 26 * (n / 26) + n mod 26) by (apply N.div_mod; discriminate).
      assert (Hq : n / 26 < 2 ^ N.of_nat f).
      { rewrite Nat2N.inj_succ, N.pow_succ_r' in Hn.
        apply N.div_lt_upper_bound; [discriminate|].
        remember (2 ^ N.of_nat f) as p. clear - Hn. lia. }
      rewrite (IH _ _ Hq).
      remember (n / 26) as q eqn:Eq. remember (n mod 26) as r eqn:Er. clear Eq Er IH Hq.
      rewrite parse_letter_aux_cons.
      replace ((97 <=? 97 + r) && (97 + r <=? 122)) with true.
      2:{ symmetry. apply andb_true_iff. split; apply N.leb_le; lia. }
      f_equal. lia.
Qed.

Lemma letter_inverse n : parse_letter (rv_letter n) = Some n.
Proof.
  unfold rv_letter, parse_letter. destruct (n =? 0) eqn:E.
  - apply N.eqb_eq in E. subst. reflexivity.
  - rewrite letter_loop_parse; [reflexivity|].
    rewrite Nat2N.inj_succ, N2Nat.id, N.pow_succ_r'.
    pose proof (N.size_gt n). lia.
Qed.

Lemma letter_injective a b : rv_letter a = rv_letter b -> a = b.
Proof.
  intros H. pose proof (letter_inverse a) as Ha. rewrite H, letter_inverse in Ha. congruence.
Qed.

(* ---- roman ---- *)
Definition roman_ok (n : N) : bool :=
  match parse_roman (rv_roman n) with Some k => k =? n + 1 | None => false end.

Lemma roman_sweep : forallb roman_ok (upto 3999) = true.
Proof. vm_compute. reflexivity. Qed.

Lemma upto_aux_In : forall n acc x, In x (upto_aux n acc) <-> (x < N.of_nat n \/ In x acc).
Proof.
  induction n as [|k IH]; intros acc x.
  - simpl. split; [tauto | intros [H|H]; [lia | exact H]].
  - simpl upto_aux. rewrite IH. simpl In. rewrite Nat2N.inj_succ. split.
    + intros [H|[H|H]]; [left; lia | left; lia | right; exact H].
    + intros [H|H]; [|right; right; exact H].
      destruct (N.eq_dec x (N.of_nat k)); [right; left; congruence | left; lia].
Qed.

Lemma upto_In n x : x < N.of_nat n -> In x (upto n).
Proof. intros H. apply upto_aux_In. left. exact H. Qed.

Lemma roman_ok_spec n : roman_ok n = true -> parse_roman (rv_roman n) = Some (n + 1).
Proof.
  unfold roman_ok. generalize (parse_roman (rv_roman n)). intros [k|] H; [|discriminate].
  apply N.eqb_eq in H. congruence.
Qed.

Lemma roman_inverse n : n < 3999 -> parse_roman (rv_roman n) = Some (n + 1).
Proof.
  intros H. apply roman_ok_spec.
  pose proof roman_sweep as S. rewrite forallb_forall in S. apply S.
  apply upto_In. change (N.of_nat 3999) with 3999. exact H.
Qed.

Lemma roman_injective a b : a < 3999 -> b < 3999 -> rv_roman a = rv_roman b -> a = b.
Proof.
  intros Ha Hb H. pose proof (roman_inverse a Ha) as A. rewrite H, (roman_inverse b Hb) in A.
  injection A. lia.
Qed.
