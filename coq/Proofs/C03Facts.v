(* C03Facts.v — lemmas behind Props/C03.v: whatever the handler chain did (not found,
   I/O error, document, directory) and whatever bytes the message carries, the reply
   written by each protocol class (Model/Respond.v) is accepted by that protocol's
   reader (Model/Wellformed.v). *)
From Coq Require Import Lia String ZArith.
From PG Require Import Lib.Str Lib.StrFacts Lib.Bytes Lib.Utf8 Lib.Utf8Facts Lib.Bsr Lib.Dec Lib.DecFacts Lib.Crlf Lib.CrlfFacts
  Lib.HtmlEsc Model.Copy Model.Wml Model.ProtoId Model.Request Model.Respond Model.Wellformed Proofs.C04Facts.
Local Open Scope N_scope.
Local Ltac dlia := zify; Z.to_euclidean_division_equations; lia.


Lemma mem_N_app x a b : mem_N x (a ++ b) = mem_N x a || mem_N x b.
Proof. induction a as [|y a IHa]; simpl; [reflexivity|]. now rewrite IHa, orb_assoc. Qed.

(* ---------- encoders keep CR, LF, TAB out ---------- *)
Lemma mem_high d l : d < 128 -> Forall (fun x => 128 <= x) l -> mem_N d l = false.
Proof.
  intros D F. induction F as [|x l Hx _ IH]; [reflexivity|]. cbn [mem_N]. rewrite IH, orb_false_r.
  apply N.eqb_neq. lia.
Qed.

Lemma enc_cp_no d c b : d < 128 -> enc_cp c = Some b -> c <> d -> mem_N d b = false.
Proof.
  intros D E NE. unfold enc_cp in E.
  destruct (c <? 128) eqn:T1.
  { assert (Hb : b = [c]) by congruence. rewrite Hb. cbn [mem_N]. rewrite orb_false_r. apply N.eqb_neq. congruence. }
  apply N.ltb_ge in T1.
  destruct (c <? 2048) eqn:T2.
  { assert (Hb : b = [192 + c / 64; 128 + c mod 64]) by congruence. rewrite Hb.
    apply (mem_high d _ D). repeat (apply Forall_cons; [dlia|]); apply Forall_nil. }
  destruct ((55296 <=? c) && (c <=? 57343)) eqn:T3.
  { destruct ((56448 <=? c) && (c <=? 56575)) eqn:T4; [|discriminate].
    assert (Hb : b = [c - 56320]) by congruence. rewrite Hb.
    apply andb_true_iff in T4 as [A B]. apply N.leb_le in A, B.
    apply (mem_high d _ D). apply Forall_cons; [lia|apply Forall_nil]. }
  destruct (c <? 65536) eqn:T5.
  { assert (Hb : b = [224 + c / 4096; 128 + (c / 64) mod 64; 128 + c mod 64]) by congruence. rewrite Hb.
    apply (mem_high d _ D). repeat (apply Forall_cons; [dlia|]); apply Forall_nil. }
  destruct (c <? 1114112) eqn:T6; [|discriminate].
  assert (Hb : b = [240 + c / 262144; 128 + (c / 4096) mod 64; 128 + (c / 64) mod 64; 128 + c mod 64]) by congruence.
  rewrite Hb. apply (mem_high d _ D). repeat (apply Forall_cons; [dlia|]); apply Forall_nil.
Qed.

Lemma encode_se_no d s b : d < 128 -> encode_se s = Some b -> mem_N d s = false -> mem_N d b = false.
Proof.
  intros D. revert b. induction s as [|c s IH]; intros b E M; simpl in E.
  - inversion E. reflexivity.
  - destruct (enc_cp c) as [a|] eqn:Ec; [|discriminate]. destruct (encode_se s) as [r|]; [|discriminate].
    inversion E; subst. cbn [mem_N] in M. apply orb_false_iff in M as [M1 M2].
    rewrite mem_N_app, (IH r eq_refl M2), orb_false_r.
    apply (enc_cp_no d c a D Ec). apply N.eqb_neq in M1. congruence.
Qed.

Lemma hexdig_l_range d : d < 16 -> 48 <= hexdig_l d /\ hexdig_l d <= 102.
Proof. intros H. unfold hexdig_l. destruct (d <? 10) eqn:E; [apply N.ltb_lt in E|apply N.ltb_ge in E]; lia. Qed.

Lemma enc_cp_bsr_no d c : d < 48 -> c <> d -> mem_N d (enc_cp_bsr c) = false.
Proof.
  intros D NE. unfold enc_cp_bsr. destruct (is_surrogate c).
  - pose proof (hexdig_l_range (c / 4096)) as H1. pose proof (hexdig_l_range ((c / 256) mod 16)) as H2.
    pose proof (hexdig_l_range ((c / 16) mod 16)) as H3. pose proof (hexdig_l_range (c mod 16)) as H4.
    cbn [mem_N]. repeat (apply orb_false_iff; split); try reflexivity; apply N.eqb_neq.
    + lia.
    + lia.
    + destruct (N.lt_ge_cases (c / 4096) 16) as [L|L]; [specialize (H1 L); lia|].
      unfold hexdig_l. destruct (c / 4096 <? 10) eqn:E; [apply N.ltb_lt in E; lia|lia].
    + specialize (H2 ltac:(dlia)). lia.
    + specialize (H3 ltac:(dlia)). lia.
    + specialize (H4 ltac:(dlia)). lia.
  - destruct (enc_cp c) as [b|] eqn:E; [|reflexivity]. apply (enc_cp_no d c b); [lia|exact E|exact NE].
Qed.

Lemma encode_bsr_no d s : d < 48 -> mem_N d s = false -> mem_N d (encode_bsr s) = false.
Proof.
  intros D. induction s as [|c s IH]; intros M; [reflexivity|]. cbn [mem_N] in M.
  apply orb_false_iff in M as [M1 M2]. unfold encode_bsr. cbn [flat_map]. rewrite mem_N_app.
  fold (encode_bsr s). rewrite (IH M2), orb_false_r. apply enc_cp_bsr_no; [exact D|].
  apply N.eqb_neq in M1. congruence.
Qed.

Lemma encode_bsr_app a b : encode_bsr (a ++ b) = encode_bsr a ++ encode_bsr b.
Proof. unfold encode_bsr. apply flat_map_app. Qed.

Lemma clean_meta_no_cr m : mem_N 13 (clean_meta m) = false /\ mem_N 10 (clean_meta m) = false.
Proof.
  induction m as [|c m [I1 I2]]; [split; reflexivity|]. unfold clean_meta in *. cbn [map mem_N].
  rewrite I1, I2, !orb_false_r. destruct (c =? 13) eqn:E1; [split; reflexivity|].
  destruct (c =? 10) eqn:E2; [split; reflexivity|]. cbn [orb].
  split; rewrite N.eqb_sym; assumption.
Qed.

(* ---------- status lines ---------- *)
(* code is ASCII digits: it encodes to itself *)
Lemma status_line_shape code meta :
  forallb is_ascii_digit code = true ->
  exists M, status_line true code meta = code ++ [32] ++ M ++ crlf /\ mem_N 13 M = false /\ mem_N 10 M = false.
Proof.
  intros D. exists (encode_bsr (clean_meta meta)). unfold status_line. rewrite !encode_bsr_app.
  assert (E : encode_bsr code = code).
  { clear -D. induction code as [|c code IH]; [reflexivity|]. simpl in D. apply andb_true_iff in D as [D1 D2].
    unfold encode_bsr in *. cbn [flat_map]. rewrite (IH D2). unfold enc_cp_bsr, is_surrogate, enc_cp.
    unfold is_ascii_digit in D1. apply andb_true_iff in D1 as [A B]. apply N.leb_le in A, B.
    destruct (55296 <=? c) eqn:S1; [apply N.leb_le in S1; lia|]. cbn [andb].
    destruct (c <? 128) eqn:S2; [reflexivity|apply N.ltb_ge in S2; lia]. }
  rewrite E. split; [reflexivity|]. destruct (clean_meta_no_cr meta) as [C1 C2].
  split; apply encode_bsr_no; (reflexivity || assumption).
Qed.

Lemma no_lf_of M : mem_N 10 M = false -> no_lf M.
Proof. exact (fun H => H). Qed.

Lemma gemini_status_kind a b M body :
  is_ascii_digit a = true -> is_ascii_digit b = true -> (49 <=? a) && (a <=? 54) = true ->
  mem_N 13 M = false -> mem_N 10 M = false ->
  ((a =? 50) || match body with [] => true | _ => false end) = true ->
  gemini_kind ([a; b] ++ [32] ++ M ++ crlf ++ body)
  = Some (if (a =? 49) || (a =? 50) || (a =? 51) then KSuccess else KError).
Proof.
  intros A B R M1 M2 BD. unfold gemini_kind.
  change ([a; b] ++ [32] ++ M ++ crlf ++ body) with ((a :: b :: 32 :: M) ++ crlf ++ body).
  rewrite cut_crlf_line.
  2:{ unfold no_lf. change LF with 10. cbn [mem_N]. rewrite M2.
      unfold is_ascii_digit in A, B. apply andb_true_iff in A as [A1 A2]. apply andb_true_iff in B as [B1 B2].
      apply N.leb_le in A1, B1.
      replace (10 =? a) with false by (symmetry; apply N.eqb_neq; lia).
      replace (10 =? b) with false by (symmetry; apply N.eqb_neq; lia). reflexivity. }
  unfold no_crlf_chars. rewrite A, B, M1, M2, N.eqb_refl. cbn [andb negb].
  apply andb_true_iff in R as [R1 R2]. rewrite R1, R2, BD. reflexivity.
Qed.

Lemma spartan_status_kind a M body :
  (50 <=? a) && (a <=? 53) = true -> mem_N 13 M = false -> mem_N 10 M = false ->
  ((a =? 50) || match body with [] => true | _ => false end) = true ->
  spartan_kind ([a] ++ [32] ++ M ++ crlf ++ body)
  = Some (if (a =? 50) || (a =? 51) then KSuccess else KError).
Proof.
  intros R M1 M2 BD. unfold spartan_kind.
  change ([a] ++ [32] ++ M ++ crlf ++ body) with ((a :: 32 :: M) ++ crlf ++ body).
  rewrite cut_crlf_line.
  2:{ unfold no_lf. change LF with 10. cbn [mem_N]. rewrite M2. apply andb_true_iff in R as [R1 R2]. apply N.leb_le in R1.
      replace (10 =? a) with false by (symmetry; apply N.eqb_neq; lia). reflexivity. }
  unfold no_crlf_chars. rewrite M1, M2, N.eqb_refl. cbn [andb negb].
  apply andb_true_iff in R as [R1 R2]. rewrite R1, R2, BD. reflexivity.
Qed.


(* ---------- Gemini / Spartan ---------- *)
Lemma gemini_line_kind a b meta body :
  is_ascii_digit a = true -> is_ascii_digit b = true -> (49 <=? a) && (a <=? 54) = true ->
  ((a =? 50) || match body with [] => true | _ => false end) = true ->
  gemini_kind (status_line true [a; b] meta ++ body)
  = Some (if (a =? 49) || (a =? 50) || (a =? 51) then KSuccess else KError).
Proof.
  intros A B R BD. destruct (status_line_shape [a; b] meta) as (M & E & M1 & M2).
  { simpl. now rewrite A, B. }
  rewrite E, <- !app_assoc. now apply gemini_status_kind.
Qed.

Lemma spartan_line_kind a meta body :
  (50 <=? a) && (a <=? 53) = true ->
  ((a =? 50) || match body with [] => true | _ => false end) = true ->
  spartan_kind (status_line true [a] meta ++ body)
  = Some (if (a =? 50) || (a =? 51) then KSuccess else KError).
Proof.
  intros R BD. destruct (status_line_shape [a] meta) as (M & E & M1 & M2).
  { simpl. apply andb_true_iff in R as [R1 R2]. apply N.leb_le in R1, R2.
    unfold is_ascii_digit. rewrite andb_true_r. apply andb_true_iff. split; apply N.leb_le; lia. }
  rewrite E, <- !app_assoc. now apply spartan_status_kind.
Qed.

Theorem gemini_wf e o : exists r, respond e PGemini o = Some r /\ wf PGemini r = true.
Proof.
  destruct o as [m|se t|m sz body|m l]; eexists; (split; [reflexivity|]); unfold wf, reply_kind.
  - rewrite <- (app_nil_r (status_line _ _ _)). change (lit "51"%string) with [53; 49].
    now rewrite gemini_line_kind.
  - rewrite <- (app_nil_r (status_line _ _ _)). change (lit "51"%string) with [53; 49].
    now rewrite gemini_line_kind.
  - change (lit "20"%string) with [50; 48]. now rewrite gemini_line_kind.
  - change (lit "20"%string) with [50; 48]. now rewrite gemini_line_kind.
Qed.

Theorem spartan_wf e o : exists r, respond e PSpartan o = Some r /\ wf PSpartan r = true.
Proof.
  destruct o as [m|se t|m sz body|m l]; eexists; (split; [reflexivity|]); unfold wf, reply_kind.
  - rewrite <- (app_nil_r (status_line _ _ _)). change (lit "4"%string) with [52]. now rewrite spartan_line_kind.
  - rewrite <- (app_nil_r (status_line _ _ _)). change (lit "5"%string) with [53]. now rewrite spartan_line_kind.
  - change (lit "2"%string) with [50]. now rewrite spartan_line_kind.
  - change (lit "2"%string) with [50]. now rewrite spartan_line_kind.
Qed.

(* error replies of Gemini and Spartan: one CRLF-terminated line and nothing else *)
Theorem status_error_one_line e p o :
  (p = PGemini \/ p = PSpartan) -> is_error o = true ->
  exists line, respond e p o = Some (line ++ crlf) /\ mem_N 13 line = false /\ mem_N 10 line = false /\
               split_crlf (line ++ crlf) = ([line], []).
Proof.
  intros P E.
  assert (G : forall code meta, forallb is_ascii_digit code = true ->
    exists line, Some (status_line true code meta) = Some (line ++ crlf) /\ mem_N 13 line = false /\ mem_N 10 line = false /\
                 split_crlf (line ++ crlf) = ([line], [])).
  { intros code meta D. destruct (status_line_shape code meta D) as (M & E1 & M1 & M2).
    exists (code ++ [32] ++ M). rewrite E1, <- !app_assoc. split; [reflexivity|].
    assert (C13 : mem_N 13 code = false /\ mem_N 10 code = false).
    { clear -D. induction code as [|c code IH]; [split; reflexivity|]. simpl in D. apply andb_true_iff in D as [D1 D2].
      destruct (IH D2) as [I1 I2]. unfold is_ascii_digit in D1. apply andb_true_iff in D1 as [A B]. apply N.leb_le in A, B.
      cbn [mem_N]. rewrite I1, I2, !orb_false_r. split; apply N.eqb_neq; lia. }
    destruct C13 as [C1 C2].
    assert (L13 : mem_N 13 (code ++ [32] ++ M) = false) by (rewrite !mem_N_app, C1, M1; reflexivity).
    assert (L10 : mem_N 10 (code ++ [32] ++ M) = false) by (rewrite !mem_N_app, C2, M2; reflexivity).
    split; [exact L13|split; [exact L10|]].
    pose proof (split_crlf_unlines [code ++ [32] ++ M]) as U. unfold unlines_crlf in U. simpl concat in U.
    rewrite app_nil_r in U. rewrite <- !app_assoc in U. apply U. constructor; [exact L10|constructor]. }
  destruct P as [-> | ->]; destruct o as [m|se t|m sz body|m l]; try discriminate;
  refine (G _ _ _); reflexivity.
Qed.

(* the defect repaired by /repo 92fb050 *)
Theorem crlf_refuted :
  exists msg, wf PGemini (match respond_pinned (mk_env [] true None None) PGemini (ONotFound msg) with Some r => r | None => [] end) = false.
Proof. exists (lit "'/a"%string ++ [13; 10] ++ lit "20 text/plain"%string ++ [13; 10] ++ lit "hi' does not exist"%string). vm_compute. reflexivity. Qed.
Theorem crlf_refuted_spartan :
  exists msg, wf PSpartan (match respond_pinned (mk_env [] true None None) PSpartan (ONotFound msg) with Some r => r | None => [] end) = false.
Proof. exists (lit "'/x"%string ++ [10] ++ lit "y' does not exist"%string). vm_compute. reflexivity. Qed.


(* ---------- encodable strings ---------- *)
Lemma encode_se_app_some a b x y :
  encode_se a = Some x -> encode_se b = Some y -> encode_se (a ++ b) = Some (x ++ y).
Proof. intros A B. rewrite encode_se_app, A, B. reflexivity. Qed.

Lemma encodable_app a b : encodable (a ++ b) = encodable a && encodable b.
Proof.
  unfold encodable. rewrite encode_se_app. destruct (encode_se a), (encode_se b); reflexivity.
Qed.

Lemma encodable_cons c s : encodable (c :: s) = is_some (enc_cp c) && encodable s.
Proof. unfold encodable. simpl. destruct (enc_cp c), (encode_se s); reflexivity. Qed.

Lemma encodable_escape q s : encodable s = true -> encodable (escape q s) = true.
Proof.
  induction s as [|c s IH]; [reflexivity|]. rewrite encodable_cons. intros H.
  apply andb_true_iff in H as [Hc Hs]. simpl escape. rewrite encodable_app, (IH Hs), andb_true_r.
  unfold esc_char.
  repeat match goal with |- context [if ?t then _ else _] => destruct t end; try reflexivity.
  rewrite encodable_cons, Hc. reflexivity.
Qed.

Lemma encodable_some s : encodable s = true -> exists b, encode_se s = Some b.
Proof. unfold encodable. destruct (encode_se s) as [b|]; [eauto|discriminate]. Qed.

Lemma strict_some s : is_some (encode_strict s) = true -> exists b, encode_strict s = Some b /\ encode_se s = Some b.
Proof.
  unfold encode_strict. destruct (forallb _ s); [|discriminate].
  destruct (encode_se s) as [b|]; [eauto|discriminate].
Qed.

Lemma line_ok_bytes s :
  line_ok s = true -> exists b, encode_strict s = Some b /\ mem_N 13 b = false /\ mem_N 10 b = false.
Proof.
  unfold line_ok. intros H. apply andb_true_iff in H as [H H10]. apply andb_true_iff in H as [H H13].
  apply negb_true_iff in H10, H13. destruct (strict_some s H) as (b & E1 & E2). exists b. split; [exact E1|].
  split; apply (encode_se_no _ s b); (reflexivity || assumption).
Qed.

(* ---------- HTTP ---------- *)
Lemma length_unlines ls : (List.length ls <= List.length (unlines_crlf ls))%nat.
Proof.
  induction ls as [|l ls IH]; [simpl; lia|]. unfold unlines_crlf in *. simpl concat.
  rewrite !app_length. simpl. lia.
Qed.

Lemma http_kind_block l0 ls body code reason ns :
  http_status l0 = Some (code, reason) -> no_lf l0 ->
  Forall (fun l => no_lf l /\ l <> []) ls -> header_names ls = Some ns ->
  mem_str (lit "content-type"%string) ns = true -> nodup_str ns = true ->
  http_kind (unlines_crlf (l0 :: ls) ++ crlf ++ body) =
    Some (if (code =? 200) && negb (contains (lit "Not Found"%string) l0) then KSuccess else KError).
Proof.
  intros S L0 F HN CT ND. unfold http_kind.
  replace (unlines_crlf (l0 :: ls) ++ crlf ++ body) with (l0 ++ crlf ++ (unlines_crlf ls ++ crlf ++ body)).
  2:{ unfold unlines_crlf. simpl concat. now rewrite <- !app_assoc. }
  rewrite (cut_crlf_line l0 _ L0), S.
  rewrite (http_split_block_fuel ls body F).
  2:{ pose proof (length_unlines ls). rewrite !app_length. lia. }
  now rewrite HN, CT, ND.
Qed.

Lemma split_once_at c a b : mem_N c a = false -> split_once c (a ++ c :: b) = (a, Some b).
Proof.
  induction a as [|x a IH]; simpl.
  - now rewrite N.eqb_refl.
  - rewrite N.eqb_sym. intros H. apply orb_false_iff in H as [H1 H2]. now rewrite H1, (IH H2).
Qed.

Lemma header_name_ok name v :
  forallb is_token_char name = true -> name <> [] -> no_crlf_chars v = true ->
  header_name (name ++ [58; 32] ++ v) = Some (lower_ascii name).
Proof.
  intros T NE V. unfold header_name. change (name ++ [58; 32] ++ v) with (name ++ 58 :: (32 :: v)).
  rewrite split_once_at.
  - rewrite T, V. destruct name; [contradiction|]. reflexivity.
  - clear -T. induction name as [|c n IH]; [reflexivity|]. simpl in T. apply andb_true_iff in T as [T1 T2].
    cbn [mem_N]. rewrite (IH T2), orb_false_r. apply N.eqb_neq. intros <-. discriminate.
Qed.

Lemma no_crlf_of b : mem_N 13 b = false -> mem_N 10 b = false -> no_crlf_chars b = true.
Proof. intros A B. unfold no_crlf_chars. now rewrite A, B. Qed.

Lemma http_ok_kind e ctype body :
  env_ok e = true -> line_ok ctype = true ->
  exists r, http_ok e ctype body = Some r /\ http_kind r = Some KSuccess.
Proof.
  intros E C. unfold env_ok in E. apply andb_true_iff in E as [_ EL].
  destruct (line_ok_bytes ctype C) as (ct & C1 & C13 & C10).
  unfold http_ok. rewrite C1.
  assert (CTL : header_name (lit "Content-Type: "%string ++ ct) = Some (lit "content-type"%string)).
  { apply (header_name_ok (lit "Content-Type"%string) ct); [reflexivity|discriminate|now apply no_crlf_of]. }
  destruct (e_lastmod e) as [t|].
  - destruct (line_ok_bytes t EL) as (lm & L1 & L13 & L10). rewrite L1. cbn [option_map].
    eexists. split; [reflexivity|].
    unfold http_doc, http_header_block, http_header_lines. cbn [app]. rewrite <- app_assoc.
    assert (LML : header_name (lit "Last-Modified: "%string ++ lm) = Some (lit "last-modified"%string)).
    { apply (header_name_ok (lit "Last-Modified"%string) lm); [reflexivity|discriminate|now apply no_crlf_of]. }
    rewrite (http_kind_block (lit "HTTP/1.0 200 OK"%string) _ _ 200 (lit "OK"%string)
               [lit "last-modified"%string; lit "content-type"%string] eq_refl eq_refl); [reflexivity| | |reflexivity|reflexivity].
    + repeat constructor; try discriminate; apply no_lf_app; (split; [reflexivity|assumption]).
    + cbn [header_names]. rewrite LML, CTL. reflexivity.
  - eexists. split; [reflexivity|].
    unfold http_doc, http_header_block, http_header_lines. cbn [app]. rewrite <- app_assoc.
    rewrite (http_kind_block (lit "HTTP/1.0 200 OK"%string) _ _ 200 (lit "OK"%string)
               [lit "content-type"%string] eq_refl eq_refl); [reflexivity| | |reflexivity|reflexivity].
    + repeat constructor; try discriminate; apply no_lf_app; (split; [reflexivity|assumption]).
    + cbn [header_names]. rewrite CTL. reflexivity.
Qed.

Definition HTTP_404_DOC : str :=
  lit "<!DOCTYPE HTML PUBLIC ""-//W3C//DTD HTML 4.0 Transitional//EN"" ""http://www.w3.org/TR/REC-html40/loose.dtd"">" ++
  NLc ++ lit "<HTML><HEAD><TITLE>Selector Not Found</TITLE>" ++ NLc ++
  lit "        <H1>Selector Not Found</H1>" ++ NLc ++ lit "        <TT>".
Lemma HTTP_404_HEAD_eq :
  HTTP_404_HEAD = unlines_crlf [lit "HTTP/1.0 404 Not Found"%string; lit "Content-Type: text/html"%string] ++ crlf ++ HTTP_404_DOC.
Proof. vm_compute. reflexivity. Qed.

Lemma http_error_kind msg :
  encodable msg = true -> exists r, http_error msg = Some r /\ http_kind r = Some KError.
Proof.
  intros E. destruct (encodable_some _ (encodable_escape true msg E)) as (b & B).
  unfold http_error. rewrite B. eexists. split; [reflexivity|].
  rewrite HTTP_404_HEAD_eq, <- !app_assoc.
  rewrite (http_kind_block (lit "HTTP/1.0 404 Not Found"%string) _ _ 404 (lit "Not Found"%string)
             [lit "content-type"%string] eq_refl eq_refl); [reflexivity| |reflexivity|reflexivity|reflexivity].
  repeat constructor; discriminate.
Qed.

Definition WAP_ERR_DOC : str :=
  WML_HEADER ++ lit "<card id=""index"" title=""404 Error"" newcontext=""true"">" ++ NLc ++
  lit "<p><b>Gopher Error</b></p><p>" ++ NLc.
Lemma WAP_ERR_HEAD_eq :
  WAP_ERR_HEAD = unlines_crlf [lit "HTTP/1.0 200 Not Found"%string; lit "Content-Type: text/vnd.wap.wml"%string] ++ crlf ++ WAP_ERR_DOC.
Proof. vm_compute. reflexivity. Qed.

Lemma wap_error_kind msg :
  encodable msg = true -> exists r, wap_error msg = Some r /\ http_kind r = Some KError.
Proof.
  intros E. destruct (encodable_some _ (encodable_escape true msg E)) as (b & B).
  unfold wap_error. rewrite B. eexists. split; [reflexivity|].
  rewrite WAP_ERR_HEAD_eq, <- !app_assoc.
  rewrite (http_kind_block (lit "HTTP/1.0 200 Not Found"%string) _ _ 200 (lit "Not Found"%string)
             [lit "content-type"%string] eq_refl eq_refl); [reflexivity| |reflexivity|reflexivity|reflexivity].
  repeat constructor; discriminate.
Qed.


(* ---------- Gopher+ ---------- *)
Lemma endswith_app_crlf x : endswith (x ++ crlf) crlf = true.
Proof. unfold endswith. rewrite rev_app_distr. reflexivity. Qed.

Lemma gplus_error_shape rest :
  ends_crlf (49 :: 32 :: rest) = true ->
  gopherplus_kind ([45; 45; 50] ++ crlf ++ 49 :: 32 :: rest) = Some KError.
Proof.
  intros H. unfold gopherplus_kind. rewrite cut_crlf_line by reflexivity.
  cbv beta iota. rewrite H. reflexivity.
Qed.

Lemma gopherplus_error_kind admin msg :
  is_some (encode_strict admin) = true -> encodable msg = true ->
  exists r, gopherplus_error admin msg = Some r /\ gopherplus_kind r = Some KError.
Proof.
  intros A M. destruct (strict_some admin A) as (ab & A1 & _). destruct (encodable_some msg M) as (mb & M1).
  unfold gopherplus_error. rewrite A1.
  rewrite (encode_se_app_some crlf (msg ++ crlf) crlf (mb ++ crlf) eq_refl (encode_se_app_some msg crlf mb crlf M1 eq_refl)).
  eexists. split; [reflexivity|]. cbn [opt_app lit_b].
  replace ((((lit "--2"%string ++ crlf) ++ lit "1 "%string) ++ ab) ++ crlf ++ mb ++ crlf)
    with ([45; 45; 50] ++ crlf ++ 49 :: 32 :: (ab ++ crlf ++ mb ++ crlf)).
  2:{ rewrite <- !app_assoc. reflexivity. }
  apply gplus_error_shape.
  replace (49 :: 32 :: ab ++ crlf ++ mb ++ crlf) with ((49 :: 32 :: ab ++ crlf ++ mb) ++ crlf).
  2:{ cbn [app]. now rewrite <- !app_assoc. }
  apply endswith_app_crlf.
Qed.

Lemma print_dec_not_marker n s : s = lit "-1"%string \/ s = lit "-2"%string -> str_eqb (print_dec n) s = false.
Proof.
  intros S. destruct (str_eqb (print_dec n) s) eqn:E; [|reflexivity]. apply str_eqb_eq in E.
  pose proof (print_dec_digits n) as D. rewrite E in D. destruct S as [-> | ->]; discriminate.
Qed.

Lemma gplus_doc_kind size body :
  match size with Some n => n =? N.of_nat (List.length body) | None => true end = true ->
  gopherplus_kind (gplus_doc size body) = Some KSuccess.
Proof.
  intros S. unfold gopherplus_kind, gplus_doc. rewrite cut_crlf_line by apply gplus_first_line_no_lf.
  unfold gplus_first_line, PLUS. rewrite N.eqb_refl.
  destruct size as [n|]; [|reflexivity]. unfold gplus_size_text.
  rewrite !print_dec_not_marker by auto. cbn [orb]. rewrite parse_print_dec.
  apply N.eqb_eq in S. rewrite S, N.eqb_refl. reflexivity.
Qed.

(* ---------- plain Gopher: the strict error line ---------- *)
Theorem gopher_error_line msg :
  gopher_msg_ok msg = true ->
  exists r, gopher_error msg = Some r /\ wf_gopher_error r = true.
Proof.
  unfold gopher_msg_ok. intros H. apply andb_true_iff in H as [H H10]. apply andb_true_iff in H as [H H13].
  apply andb_true_iff in H as [E H9]. apply negb_true_iff in H9, H10, H13.
  destruct (encodable_some msg E) as (mb & M).
  assert (B9 : mem_N 9 mb = false) by (apply (encode_se_no 9 msg mb); (reflexivity || assumption)).
  assert (B13 : mem_N 13 mb = false) by (apply (encode_se_no 13 msg mb); (reflexivity || assumption)).
  assert (B10 : mem_N 10 mb = false) by (apply (encode_se_no 10 msg mb); (reflexivity || assumption)).
  unfold gopher_error.
  set (tail := [9; 9] ++ lit "error.host"%string ++ [9] ++ lit "1"%string ++ crlf).
  rewrite (encode_se_app_some (lit "3"%string) (msg ++ tail) (lit "3"%string) (mb ++ tail) eq_refl
             (encode_se_app_some msg tail mb tail M eq_refl)).
  eexists. split; [reflexivity|].
  unfold wf_gopher_error, tail.
  replace (lit "3"%string ++ mb ++ [9; 9] ++ lit "error.host"%string ++ [9] ++ lit "1"%string ++ crlf)
    with ((lit "3"%string ++ mb ++ [9; 9] ++ lit "error.host"%string ++ [9] ++ lit "1"%string) ++ crlf ++ [])
    by (now rewrite <- !app_assoc, app_nil_r).
  assert (L13 : mem_N 13 (lit "3"%string ++ mb ++ [9; 9] ++ lit "error.host"%string ++ [9] ++ lit "1"%string) = false)
    by (rewrite !mem_N_app, B13; reflexivity).
  assert (L10 : mem_N 10 (lit "3"%string ++ mb ++ [9; 9] ++ lit "error.host"%string ++ [9] ++ lit "1"%string) = false)
    by (rewrite !mem_N_app, B10; reflexivity).
  rewrite cut_crlf_line by exact L10.
  unfold wf_menu_line, no_crlf_chars. rewrite L13, L10. cbn [negb andb].
  change (lit "3"%string ++ mb ++ [9; 9] ++ lit "error.host"%string ++ [9] ++ lit "1"%string)
    with ((51 :: mb) ++ 9 :: ([] ++ 9 :: (lit "error.host"%string ++ 9 :: lit "1"%string))).
  rewrite split_on_app, split_on_app, split_on_app.
  rewrite (split_on_no_sep 9 (51 :: mb)) by (cbn [mem_N]; now rewrite B9).
  reflexivity.
Qed.

(* a TAB, CR or LF in the message breaks the strict form *)
Theorem gopher_error_line_refuted :
  exists msg, encodable msg = true /\
    wf_gopher_error (match gopher_error msg with Some r => r | None => [] end) = false.
Proof. exists (lit "'/a"%string ++ [13] ++ lit "b' does not exist"%string). vm_compute. split; reflexivity. Qed.

Lemma gopher_error_some msg : encodable msg = true -> exists r, gopher_error msg = Some r.
Proof.
  intros E. destruct (encodable_some msg E) as (mb & M). unfold gopher_error.
  set (tail := [9; 9] ++ lit "error.host"%string ++ [9] ++ lit "1"%string ++ crlf).
  rewrite (encode_se_app_some (lit "3"%string) (msg ++ tail) (lit "3"%string) (mb ++ tail) eq_refl
             (encode_se_app_some msg tail mb tail M eq_refl)). eauto.
Qed.

(* ---------- every protocol, every outcome ---------- *)
Theorem respond_wellformed e p o :
  env_ok e = true -> outcome_ok e p o = true ->
  exists r, respond e p o = Some r /\ wf p r = true.
Proof.
  intros E O. pose proof E as E'. unfold env_ok in E'. apply andb_true_iff in E' as [EA EL].
  assert (MSG : forall m, error_msg_of p o = Some m -> encodable m = true).
  { intros m H. destruct o as [m'|se t|? ? ?|? ?]; try discriminate; simpl in H, O.
    - inversion H; subst. exact O.
    - apply andb_true_iff in O as [O1 O2]. destruct p; inversion H; subst; assumption. }
  destruct p.
  - (* WAP *)
    destruct o as [m|se t|m sz body|m l]; unfold respond, respond_with, wf, reply_kind.
    + destruct (wap_error_kind m (MSG _ eq_refl)) as (r & R1 & R2). exists r. cbn [error_msg_of]. now rewrite R1, R2.
    + destruct (wap_error_kind _ (MSG _ eq_refl)) as (r & R1 & R2). exists r. cbn [error_msg_of]. now rewrite R1, R2.
    + simpl in O. apply andb_true_iff in O as [O1 O2]. destruct (wap_body m body) as [b|]; [|discriminate].
      destruct (http_ok_kind e (wap_adjust m) b E O1) as (r & R1 & R2). exists r. now rewrite R1, R2.
    + simpl in O. destruct (http_ok_kind e (wap_adjust m) l E O) as (r & R1 & R2). exists r. now rewrite R1, R2.
  - (* Gemini *) apply gemini_wf.
  - (* HTTP *)
    destruct o as [m|se t|m sz body|m l]; unfold respond, respond_with, wf, reply_kind.
    + destruct (http_error_kind m (MSG _ eq_refl)) as (r & R1 & R2). exists r. cbn [error_msg_of]. now rewrite R1, R2.
    + destruct (http_error_kind _ (MSG _ eq_refl)) as (r & R1 & R2). exists r. cbn [error_msg_of]. now rewrite R1, R2.
    + simpl in O. destruct (http_ok_kind e (http_adjust m) body E O) as (r & R1 & R2). exists r. now rewrite R1, R2.
    + simpl in O. destruct (http_ok_kind e (http_adjust m) l E O) as (r & R1 & R2). exists r. now rewrite R1, R2.
  - (* HTTPS *)
    destruct o as [m|se t|m sz body|m l]; unfold respond, respond_with, wf, reply_kind.
    + destruct (http_error_kind m (MSG _ eq_refl)) as (r & R1 & R2). exists r. cbn [error_msg_of]. now rewrite R1, R2.
    + destruct (http_error_kind _ (MSG _ eq_refl)) as (r & R1 & R2). exists r. cbn [error_msg_of]. now rewrite R1, R2.
    + simpl in O. destruct (http_ok_kind e (http_adjust m) body E O) as (r & R1 & R2). exists r. now rewrite R1, R2.
    + simpl in O. destruct (http_ok_kind e (http_adjust m) l E O) as (r & R1 & R2). exists r. now rewrite R1, R2.
  - (* Spartan *) apply spartan_wf.
  - (* Gopher+ *)
    destruct o as [m|se t|m sz body|m l]; unfold respond, respond_with, wf, reply_kind.
    + destruct (gopherplus_error_kind (e_admin e) m EA (MSG _ eq_refl)) as (r & R1 & R2). exists r. cbn [error_msg_of]. now rewrite R1, R2.
    + destruct (gopherplus_error_kind (e_admin e) _ EA (MSG _ eq_refl)) as (r & R1 & R2). exists r. cbn [error_msg_of]. now rewrite R1, R2.
    + simpl in O. destruct (e_info e) as [blocks|]; eexists; (split; [reflexivity|]).
      * change (gplus_first_line None ++ crlf ++ blocks) with (gplus_doc None blocks). now rewrite gplus_doc_kind.
      * now rewrite gplus_doc_kind.
    + destruct (e_info e) as [blocks|]; eexists; (split; [reflexivity|]).
      * change (gplus_first_line None ++ crlf ++ blocks) with (gplus_doc None blocks). now rewrite gplus_doc_kind.
      * now rewrite gplus_doc_kind.
  - (* secure Gopher+ *)
    destruct o as [m|se t|m sz body|m l]; unfold respond, respond_with, wf, reply_kind.
    + destruct (gopherplus_error_kind (e_admin e) m EA (MSG _ eq_refl)) as (r & R1 & R2). exists r. cbn [error_msg_of]. now rewrite R1, R2.
    + destruct (gopherplus_error_kind (e_admin e) _ EA (MSG _ eq_refl)) as (r & R1 & R2). exists r. cbn [error_msg_of]. now rewrite R1, R2.
    + simpl in O. destruct (e_info e) as [blocks|]; eexists; (split; [reflexivity|]).
      * change (gplus_first_line None ++ crlf ++ blocks) with (gplus_doc None blocks). now rewrite gplus_doc_kind.
      * now rewrite gplus_doc_kind.
    + destruct (e_info e) as [blocks|]; eexists; (split; [reflexivity|]).
      * change (gplus_first_line None ++ crlf ++ blocks) with (gplus_doc None blocks). now rewrite gplus_doc_kind.
      * now rewrite gplus_doc_kind.
  - (* Gopher *)
    destruct o as [m|se t|m sz body|m l]; unfold respond, respond_with, wf, reply_kind, gopher_kind.
    + destruct (gopher_error_some _ (MSG _ eq_refl)) as (r & R). cbn [error_msg_of]. rewrite R.
      exists r. split; [reflexivity|]. now destruct (wf_gopher_error _).
    + destruct (gopher_error_some _ (MSG _ eq_refl)) as (r & R). cbn [error_msg_of]. rewrite R.
      exists r. split; [reflexivity|]. now destruct (wf_gopher_error _).
    + eexists. split; [reflexivity|]. now destruct (wf_gopher_error _).
    + eexists. split; [reflexivity|]. now destruct (wf_gopher_error _).
  - (* secure Gopher *)
    destruct o as [m|se t|m sz body|m l]; unfold respond, respond_with, wf, reply_kind, gopher_kind.
    + destruct (gopher_error_some _ (MSG _ eq_refl)) as (r & R). cbn [error_msg_of]. rewrite R.
      exists r. split; [reflexivity|]. now destruct (wf_gopher_error _).
    + destruct (gopher_error_some _ (MSG _ eq_refl)) as (r & R). cbn [error_msg_of]. rewrite R.
      exists r. split; [reflexivity|]. now destruct (wf_gopher_error _).
    + eexists. split; [reflexivity|]. now destruct (wf_gopher_error _).
    + eexists. split; [reflexivity|]. now destruct (wf_gopher_error _).
  - (* URL Gopher+ *)
    destruct o as [m|se t|m sz body|m l]; unfold respond, respond_with, wf, reply_kind.
    + destruct (gopherplus_error_kind (e_admin e) m EA (MSG _ eq_refl)) as (r & R1 & R2). exists r. cbn [error_msg_of]. now rewrite R1, R2.
    + destruct (gopherplus_error_kind (e_admin e) _ EA (MSG _ eq_refl)) as (r & R1 & R2). exists r. cbn [error_msg_of]. now rewrite R1, R2.
    + simpl in O. destruct (e_info e) as [blocks|]; eexists; (split; [reflexivity|]).
      * change (gplus_first_line None ++ crlf ++ blocks) with (gplus_doc None blocks). now rewrite gplus_doc_kind.
      * now rewrite gplus_doc_kind.
    + destruct (e_info e) as [blocks|]; eexists; (split; [reflexivity|]).
      * change (gplus_first_line None ++ crlf ++ blocks) with (gplus_doc None blocks). now rewrite gplus_doc_kind.
      * now rewrite gplus_doc_kind.
Qed.


(* ---------- the WAP text conversion never fails on decoded bytes ---------- *)
Definition cp_ok (c : N) : bool := is_some (enc_cp c).
Lemma encodable_forallb s : encodable s = forallb cp_ok s.
Proof. induction s as [|c s IH]; [reflexivity|]. rewrite encodable_cons, IH. reflexivity. Qed.

Lemma encodable_In s : encodable s = true <-> forall c, In c s -> cp_ok c = true.
Proof. rewrite encodable_forallb. apply forallb_forall. Qed.

Lemma ascii_cp_ok c : c < 128 -> cp_ok c = true.
Proof. intros H. unfold cp_ok, enc_cp. apply N.ltb_lt in H. now rewrite H. Qed.

Lemma lines_keepends_aux_concat cur s : concat (lines_keepends_aux cur s) = rev cur ++ s.
Proof.
  revert cur. induction s as [|x s IH]; intros cur; simpl.
  - destruct cur; simpl; now rewrite ?app_nil_r.
  - destruct (x =? 10).
    + simpl. rewrite (IH []). simpl. now rewrite <- app_assoc.
    + rewrite (IH (x :: cur)). simpl. now rewrite <- app_assoc.
Qed.

Lemma to_wml_chars text c : In c (to_wml text) -> c < 128 \/ In c text.
Proof.
  unfold to_wml. rewrite !in_app_iff. intros [H|[H|H]].
  - left. revert H. vm_compute. intros H. repeat (destruct H as [<-|H]; [reflexivity|]). contradiction.
  - unfold to_wml_body, wml_source_lines in H. apply in_concat in H as (piece & P & C).
    apply in_map_iff in P as (l & <- & L). apply in_map_iff in L as (l0 & <- & L0).
    assert (SUB : forall d, In d (rstrip l0) -> In d text).
    { intros d D. destruct (rstrip_prefix l0) as [t T]. 
      assert (In d l0) by (rewrite T; apply in_app_iff; now left).
      assert (In d (concat (lines_keepends text))) by (apply in_concat; eauto).
      unfold lines_keepends in *. rewrite lines_keepends_aux_concat in *. assumption. }
    unfold wml_piece in C. destruct (rstrip l0) as [|y r] eqn:R.
    + left. revert C. vm_compute. intros C. repeat (destruct C as [<-|C]; [reflexivity|]). contradiction.
    + rewrite <- R in *. apply in_app_iff in C as [C|C].
      * clear -C SUB. induction (rstrip l0) as [|z s IH]; [contradiction|]. simpl in C. apply in_app_iff in C as [C|C].
        -- unfold esc_char in C.
           repeat match type of C with context [if ?t then _ else _] => destruct t end;
           try (left; revert C; vm_compute; intros C; repeat (destruct C as [<-|C]; [reflexivity|]); contradiction).
           destruct C as [<-|[]]. right. apply SUB. now left.
        -- apply IH; [exact C|]. intros d D. apply SUB. now right.
      * left. destruct C as [<-|[]]. reflexivity.
  - left. revert H. vm_compute. intros H. repeat (destruct H as [<-|H]; [reflexivity|]). contradiction.
Qed.

Lemma wap_body_some m body : is_bytes body = true -> is_some (wap_body m body) = true.
Proof.
  intros B. unfold wap_body. destruct (wap_needs_conversion m); [|reflexivity].
  change (encodable (to_wml (decode_se body)) = true). apply encodable_In. intros c H.
  apply to_wml_chars in H as [H|H]; [now apply ascii_cp_ok|].
  assert (E : encodable (decode_se body) = true) by (unfold encodable; now rewrite (encode_decode_se body B)).
  rewrite encodable_In in E. now apply E.
Qed.

(* ---------- the replies written without a handler ---------- *)
Theorem direct_wellformed e icon_data r :
  match r with ToHandler _ _ | Crash => False | _ => True end ->
  exists b, respond_direct e icon_data r = Some b /\
            wf (match r with Icon _ => PHttp | SpartanTooLarge => PSpartan | _ => PGemini end) b = true.
Proof.
  intros H. destruct r as [s q|n| | |t| |]; try contradiction; eexists; (split; [reflexivity|]); unfold wf, reply_kind.
  - (* icon *)
    replace (ICON_HEAD ++ (if e_get e then icon_data n else []))
      with (unlines_crlf [lit "HTTP/1.0 200 OK"%string; lit "Last-Modified: Fri, 14 Dec 2001 21:19:47 GMT"%string;
                          lit "Content-Type: image/gif"%string] ++ crlf ++ (if e_get e then icon_data n else [])) by reflexivity.
    rewrite (http_kind_block (lit "HTTP/1.0 200 OK"%string) _ _ 200 (lit "OK"%string)
               [lit "last-modified"%string; lit "content-type"%string] eq_refl eq_refl); [reflexivity| |reflexivity|reflexivity|reflexivity].
    repeat constructor; discriminate.
  - rewrite <- (app_nil_r (status_line _ _ _)). change (lit "59"%string) with [53; 57]. now rewrite gemini_line_kind.
  - rewrite <- (app_nil_r (status_line _ _ _)). change (lit "10"%string) with [49; 48]. now rewrite gemini_line_kind.
  - rewrite <- (app_nil_r (status_line _ _ _)). change (lit "30"%string) with [51; 48]. now rewrite gemini_line_kind.
  - rewrite <- (app_nil_r (status_line _ _ _)). change (lit "4"%string) with [52]. now rewrite spartan_line_kind.
Qed.

(* ---------- ANY message bytes ---------- *)
Lemma decode_encodable b : is_bytes b = true -> encodable (decode_se b) = true.
Proof. intros B. unfold encodable. now rewrite (encode_decode_se b B). Qed.

Theorem error_any_message e p b :
  env_ok e = true -> is_bytes b = true ->
  exists r, respond e p (ONotFound (decode_se b)) = Some r /\ wf p r = true.
Proof. intros E B. apply respond_wellformed; [exact E|]. simpl. now apply decode_encodable. Qed.

Theorem ioerror_any_message e p se b :
  env_ok e = true -> is_bytes b = true ->
  match se with Some s => encodable s | None => true end = true ->
  exists r, respond e p (OIOError se (decode_se b)) = Some r /\ wf p r = true.
Proof.
  intros E B S. apply respond_wellformed; [exact E|]. simpl. apply andb_true_iff. split.
  - unfold ioerror_msg. destruct se as [[|c s]|]; try now apply decode_encodable. exact S.
  - unfold ioerror_msg_gopher. destruct se as [s|]; [exact S|reflexivity].
Qed.

(* documents: the only conditions left are on what the server itself chose *)
Theorem doc_wellformed e p m size body :
  env_ok e = true -> is_bytes body = true ->
  line_ok (http_adjust m) = true -> line_ok (wap_adjust m) = true ->
  match size with Some n => n =? N.of_nat (List.length body) | None => true end = true ->
  exists r, respond e p (ODoc m size body) = Some r /\ wf p r = true.
Proof.
  intros E B H W S. apply respond_wellformed; [exact E|]. destruct p; simpl; try reflexivity; try assumption.
  - now rewrite W, wap_body_some.
  - destruct (e_info e); [reflexivity|exact S].
  - destruct (e_info e); [reflexivity|exact S].
  - destruct (e_info e); [reflexivity|exact S].
Qed.

(* the pinned IOError branch (e.args[1]) is outside this model; the one-argument case of the
   repaired code prints str(e) *)
Example ioerror_one_arg :
  respond (mk_env [] true None None) PGemini (OIOError None (lit "timed out"%string))
  = Some (lit "51 timed out"%string ++ crlf).
Proof. vm_compute. reflexivity. Qed.

Theorem one_status_line e p o :
  (p = PGemini \/ p = PSpartan) -> is_error o = true ->
  exists r, respond e p o = Some r /\ crlf_lines r = 1%nat.
Proof.
  intros P E. destruct (status_error_one_line e p o P E) as (line & R & _ & _ & SC).
  exists (line ++ crlf). split; [exact R|]. unfold crlf_lines. now rewrite SC.
Qed.
