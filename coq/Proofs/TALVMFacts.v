(* The scope discipline of the abstract VM (Model/TALVM.v): for every structurally
   well-formed program, every data state and all decision functions, a run of a program
   segment (a sequence of body items, an element, a called sub-template) that terminates
   leaves scope stack, registers, current slots and the context's scopes exactly as it found
   them — and the VM never gets stuck.  Induction on the fuel bound (for sub-template
   calls), inside it mutual structural induction on the well-formedness derivation,
   inside the element case an induction on the remaining repeat count. *)
From Coq Require Import Lia PeanoNat.
From PG Require Import Lib.Str Model.TALProg Model.TALProgSpec Model.TALVM Proofs.TALProgFacts.

(* ---- scopes ---- *)
Definition unwind (lvd act : bool) (s : scopes) : option scopes :=
  let s1 := if act then match sc_remove_repeat s with Some a => sc_pop a | None => None end else Some s in
  match s1 with
  | Some b => if lvd then sc_pop b else Some b
  | None => None
  end.

Lemma sc_eta s : mkSc (s_locals s) (s_lstack s) (s_rmap s) (s_rstack s) = s.
Proof. destruct s; reflexivity. Qed.

Lemma unwind_add_repeat lvd v s : unwind lvd true (sc_add_repeat v s) = unwind lvd false s.
Proof. unfold unwind, sc_add_repeat, sc_remove_repeat, sc_pop, sc_set, sc_push. simpl. now rewrite sc_eta. Qed.

Lemma unwind_set_act lvd v s : unwind lvd true (sc_set v s) = unwind lvd true s.
Proof.
  unfold unwind, sc_remove_repeat, sc_set. simpl. destruct (s_rstack s); [reflexivity|].
  unfold sc_pop. simpl. reflexivity.
Qed.

Lemma do_defines_scopes : forall args fnd c fnd' c',
  do_defines args fnd c = (fnd', c') ->
  if fnd then fnd' = true /\ (forall b, sc_pop (c_sc c) = Some b -> sc_pop (c_sc c') = Some b)
  else if fnd' then sc_pop (c_sc c') = Some (c_sc c) else c_sc c' = c_sc c.
Proof.
  induction args as [|[isloc [name e]] r IH]; intros fnd c fnd' c' H; simpl in H.
  - inversion H; subst. destruct fnd'; [split; auto|reflexivity].
  - destruct isloc.
    + apply IH in H. destruct H as [E P]. subst fnd'. destruct fnd.
      * split; [reflexivity|]. intros b Hb. apply P. unfold sc_pop in *. simpl in *. exact Hb.
      * apply P. unfold sc_pop. simpl. now rewrite sc_eta.
    + apply IH in H. destruct fnd; exact H.
Qed.

Section VMFacts.
  Variable prog : program.
  Variable tab : symtab.
  Variable subs : list subt.
  Variable D : Type.
  Variable o_cond : D -> cmd -> bool.
  Variable o_rep : D -> cmd -> rep_dec.
  Variable o_val : D -> cmd -> val_dec.
  Variable o_mac : D -> cmd -> mac_dec.
  Variable o_upd : D -> nat -> cmd -> D.

  Hypothesis subs_valid : forall s, In s subs -> valid_sub prog tab s.
  Hypothesis slots_in_subs : forall c, In c prog -> forall s, In s (cmd_slots c) -> In s subs.

  Notation machD := (mach D).
  Notation runD := (run prog tab subs D o_cond o_rep o_val o_mac o_upd).
  Notation stepD := (step tab subs D o_cond o_rep o_val o_mac o_upd).

  Definition slots_ok (sl : slotmap) : Prop := forall n s, lookup_slot sl n = Some s -> In s subs.
  Definition tc_ok (t : tcv) : Prop := match t with TTpl s => In s subs | _ => True end.
  Definition Good (m : machD) : Prop := slots_ok (slotp D m) /\ slots_ok (curs D m) /\ tc_ok (r_tc (rg D m)).

  Definition SegPost (m : machD) (target : nat) (m' : machD) : Prop :=
    pc D m' = target /\ sstack D m' = sstack D m /\ rg D m' = rg D m /\ curs D m' = curs D m /\
    c_sc (cx D m') = c_sc (cx D m) /\ slots_ok (slotp D m').

  (* a run from m either runs out of fuel or passes through a state satisfying P *)
  Definition Reaches (L fuel : nat) (m : machD) (P : machD -> Prop) : Prop :=
    runD fuel L m = OutOfFuel \/
    exists fuel' m', fuel' <= fuel /\ runD fuel L m = runD fuel' L m' /\ P m'.

  Lemma run_S f L m :
    runD (S f) L m =
    if Nat.leb L (pc D m) then Done m
    else match nth_error prog (pc D m) with
         | None => Stuck
         | Some c => match stepD (runD f) c m with
                     | Done m1 => runD f L m1
                     | Stuck => Stuck
                     | OutOfFuel => OutOfFuel
                     end
         end.
  Proof. reflexivity. Qed.

  Lemma reaches_0 L m P : Reaches L 0 m P.
  Proof. left. reflexivity. Qed.

  Lemma reaches_here L fuel m (P : machD -> Prop) : P m -> Reaches L fuel m P.
  Proof. intros H. right. exists fuel, m. auto. Qed.

  Lemma reaches_step L f m c m1 P :
    pc D m < L -> nth_error prog (pc D m) = Some c -> stepD (runD f) c m = Done m1 ->
    Reaches L f m1 P -> Reaches L (S f) m P.
  Proof.
    intros Hlt Hn Hs [H|(f' & m' & Hle & Hr & HP)].
    - left. rewrite run_S. replace (Nat.leb L (pc D m)) with false by (symmetry; apply Nat.leb_gt; lia).
      now rewrite Hn, Hs.
    - right. exists f', m'. split; [lia|]. split; [|exact HP].
      rewrite run_S. replace (Nat.leb L (pc D m)) with false by (symmetry; apply Nat.leb_gt; lia).
      now rewrite Hn, Hs.
  Qed.

  Lemma reaches_step_oof L f m c P :
    pc D m < L -> nth_error prog (pc D m) = Some c -> stepD (runD f) c m = OutOfFuel ->
    Reaches L (S f) m P.
  Proof.
    intros Hlt Hn Hs. left. rewrite run_S.
    replace (Nat.leb L (pc D m)) with false by (symmetry; apply Nat.leb_gt; lia). now rewrite Hn, Hs.
  Qed.

  Lemma reaches_bind L fuel m (P Q : machD -> Prop) :
    Reaches L fuel m P ->
    (forall fuel' m', fuel' <= fuel -> P m' -> Reaches L fuel' m' Q) ->
    Reaches L fuel m Q.
  Proof.
    intros [H|(f' & m' & Hle & Hr & HP)] K; [now left|].
    destruct (K f' m' Hle HP) as [H|(f2 & m2 & Hle2 & Hr2 & HQ)].
    - left. congruence.
    - right. exists f2, m2. split; [lia|]. split; [congruence|exact HQ].
  Qed.

  Lemma reaches_weaken L fuel m (P Q : machD -> Prop) :
    Reaches L fuel m P -> (forall m', P m' -> Q m') -> Reaches L fuel m Q.
  Proof. intros H K. eapply reaches_bind; [exact H|]. intros f' m' _ HP. apply reaches_here. auto. Qed.

  Lemma run_at_limit fuel L m : L <= pc D m -> runD fuel L m = OutOfFuel \/ runD fuel L m = Done m.
  Proof.
    intros H. destruct fuel; [now left|]. right. rewrite run_S.
    replace (Nat.leb L (pc D m)) with true by (symmetry; apply Nat.leb_le; lia). reflexivity.
  Qed.

  (* position of a segment inside the program *)
  Lemma nth_error_seg (pre l post : list cmd) i :
    prog = pre ++ l ++ post -> i < length l -> nth_error prog (length pre + i) = nth_error l i.
  Proof.
    intros E Hi. rewrite E. rewrite nth_error_app2 by lia.
    replace (length pre + i - length pre) with i by lia. now rewrite nth_error_app1.
  Qed.

  Definition ElemP (n : nat) : Prop :=
    forall o el pre post, prog = pre ++ el ++ post -> length pre = o -> wfelem tab o el ->
    forall L fuel m, fuel <= n -> o + length el <= L -> pc D m = o -> Good m ->
    Reaches L fuel m (SegPost m (o + length el)).

  Definition ItemsP (n : nat) : Prop :=
    forall o l pre post, prog = pre ++ l ++ post -> length pre = o -> wfitems tab o l ->
    forall L fuel m, fuel <= n -> o + length l <= L -> pc D m = o -> Good m ->
    Reaches L fuel m (SegPost m (o + length l)).

  Lemma head_sorted_weaken : forall h lo lo', lo' <= lo -> head_sorted lo h = true -> head_sorted lo' h = true.
  Proof.
    destruct h as [|c h]; intros lo lo' Hle H; simpl in *; [reflexivity|].
    destruct (head_rank c) as [k|]; [|discriminate].
    apply andb_true_iff in H. destruct H as [H1 H2]. apply Nat.ltb_lt in H1.
    apply andb_true_iff. split; [apply Nat.ltb_lt; lia | exact H2].
  Qed.

  (* steps of the three commands that frame an element, for a command known only by its kind *)
  Definition updm (m : machD) (c : cmd) : machD :=
    mkMach D (pc D m) (sstack D m) (rg D m) (slotp D m) (curs D m) (cx D m) (o_upd (dat D m) (pc D m) c).

  Lemma step_scope call c m : is_scope c = true ->
    stepD call c m = Done (next D (set_ss D (SScope (rg D m) :: sstack D m) (set_rg D regs0 (updm m c)))).
  Proof. destruct c; try discriminate. reflexivity. Qed.

  Lemma step_stag call c m : is_stag c = true ->
    stepD call c m = Done (match r_fwd (rg D m) with Some p => set_pc D p (updm m c) | None => next D (updm m c) end).
  Proof. destruct c; try discriminate. intros _. unfold step. simpl. destruct (r_fwd (rg D m)); reflexivity. Qed.

  Lemma step_out call c m : is_out c = true -> stepD call c m = Done (next D (updm m c)).
  Proof. destruct c; try discriminate; reflexivity. Qed.

  (* ENDTAG_ENDSCOPE when tagContent is not a template *)
  Definition endtag_finish (m1 : machD) (r : regs) : res machD :=
    match r_back r with
    | Some b => Done (set_pc D b m1)
    | None =>
        let c1 := if r_lvd r then pop_locals (cx D m1) else Some (cx D m1) in
        match c1, sstack D m1 with
        | Some c2, SScope r0 :: ss => Done (next D (set_ss D ss (set_rg D r0 (set_cx D c2 m1))))
        | _, _ => Stuck
        end
    end.

  Lemma step_etag call c m : is_etag c = true ->
    stepD call c m =
    match r_tc (rg D m) with
    | TTpl s =>
        match lookup_sym tab (snd s) with
        | None => Stuck
        | Some e =>
            match call (S e) (mkMach D (fst s) [] regs0 (slotp D m) (slotp D m) (cx D m) (dat D (updm m c))) with
            | Done m2 => endtag_finish (mkMach D (pc D m) (sstack D m) (rg D m) [] (curs D m) (cx D m2) (dat D m2)) (rg D m)
            | Stuck => Stuck
            | OutOfFuel => OutOfFuel
            end
        end
    | _ => endtag_finish (updm m c) (rg D m)
    end.
  Proof.
    destruct c; try discriminate. intros _. unfold step, endtag_finish. simpl.
    destruct (r_tc (rg D m)) as [| |s]; try reflexivity.
    destruct (lookup_sym tab (snd s)); [|reflexivity].
    destruct (call _ _); reflexivity.
  Qed.

  (* ------------------------------------------------------------------ *)
  Section Elem.
    Variable n : nat.
    Hypothesis Hn : ElemP n.
    Variables (o e : nat) (sc : cmd) (head : list cmd) (st : cmd) (body : list cmd) (en : cmd).
    Variables (pre post : list cmd).
    Hypothesis He : e = o + 2 + length head + length body.
    Hypothesis Hprog : prog = pre ++ (sc :: head ++ st :: body ++ [en]) ++ post.
    Hypothesis Hpre : length pre = o.
    Hypothesis Hsc : is_scope sc = true.
    Hypothesis Hsorted : head_sorted 0 head = true.
    Hypothesis Hst : is_stag st = true.
    Hypothesis Hen : is_etag en = true.
    Hypothesis Hsyms : syms_ok tab e head = true.
    Hypothesis IHbody :
      forall pre' post', prog = pre' ++ body ++ post' -> length pre' = o + 2 + length head ->
      forall L fuel m, fuel <= S n -> o + 2 + length head + length body <= L ->
        pc D m = o + 2 + length head -> Good m ->
        Reaches L fuel m (SegPost m (o + 2 + length head + length body)).
    Variable L : nat.
    Hypothesis HL : S e <= L.
    Variable m0 : machD.
    Hypothesis Hgood0 : Good m0.

    Lemma el_length : length (sc :: head ++ st :: body ++ [en]) = 3 + length head + length body.
    Proof. simpl. rewrite app_length. simpl. rewrite app_length. simpl. lia. Qed.

    Lemma N_sc : nth_error prog o = Some sc.
    Proof.
      rewrite <- Hpre. replace (length pre) with (length pre + 0) by lia.
      rewrite (nth_error_seg pre _ post 0 Hprog); [reflexivity | rewrite el_length; lia].
    Qed.

    Lemma N_head j c : nth_error head j = Some c -> nth_error prog (o + 1 + j) = Some c.
    Proof.
      intros H. assert (Hj : j < length head) by (apply nth_error_Some; congruence).
      rewrite <- Hpre. replace (length pre + 1 + j) with (length pre + S j) by lia.
      rewrite (nth_error_seg pre _ post (S j) Hprog) by (rewrite el_length; lia).
      simpl. rewrite nth_error_app1 by lia. exact H.
    Qed.

    Lemma N_st : nth_error prog (o + 1 + length head) = Some st.
    Proof.
      rewrite <- Hpre. replace (length pre + 1 + length head) with (length pre + S (length head)) by lia.
      rewrite (nth_error_seg pre _ post (S (length head)) Hprog) by (rewrite el_length; lia).
      simpl. rewrite nth_error_app2 by lia. replace (length head - length head) with 0 by lia. reflexivity.
    Qed.

    Lemma N_en : nth_error prog e = Some en.
    Proof.
      rewrite He, <- Hpre.
      replace (length pre + 2 + length head + length body) with (length pre + (2 + length head + length body)) by lia.
      rewrite (nth_error_seg pre _ post _ Hprog) by (rewrite el_length; lia).
      change (sc :: head ++ st :: body ++ [en]) with ((sc :: head) ++ (st :: body) ++ [en]).
      replace (2 + length head + length body) with (length (sc :: head) + length (st :: body)) by (simpl; lia).
      apply nth_error_last2.
    Qed.

    Lemma head_in_prog c : In c head -> In c prog.
    Proof. intros H. rewrite Hprog. apply in_or_app. right. apply in_or_app. left. right. apply in_or_app. now left. Qed.

    Lemma head_sym c s : In c head -> cmd_sym c = Some s -> lookup_sym tab s = Some e.
    Proof. intros Hin Hs. exact (syms_ok_spec tab e head Hsyms c s Hin Hs). Qed.

    Lemma body_position : prog = (pre ++ sc :: head ++ [st]) ++ body ++ ([en] ++ post) /\
                          length (pre ++ sc :: head ++ [st]) = o + 2 + length head.
    Proof.
      split.
      - rewrite Hprog. rewrite <- !app_assoc. simpl. f_equal. f_equal. rewrite <- !app_assoc. simpl.
        f_equal. f_equal. now rewrite <- app_assoc.
      - rewrite app_length. simpl. rewrite app_length. simpl. lia.
    Qed.

    (* the element-local invariant while the element that started in state m0 is being executed:
       act = a repeat of this element is in progress, its REPEAT command sits at index ridx *)
    Record EI (act : bool) (ridx : nat) (mj : machD) : Prop := mkEI {
      ei_ss : sstack D mj = (if act then [SRep] else []) ++ SScope (rg D m0) :: sstack D m0;
      ei_back : r_back (rg D mj) = if act then Some ridx else None;
      ei_rep : if act then exists k, r_rep (rg D mj) = Some k else r_rep (rg D mj) = None;
      ei_fwd : r_fwd (rg D mj) = None \/ r_fwd (rg D mj) = Some e;
      ei_tc : tc_ok (r_tc (rg D mj));
      ei_cx : unwind (r_lvd (rg D mj)) act (c_sc (cx D mj)) = Some (c_sc (cx D m0));
      ei_slotp : slots_ok (slotp D mj);
      ei_curs : curs D mj = curs D m0
    }.

    Lemma EI_good act ridx mj : EI act ridx mj -> Good mj.
    Proof.
      intros H. destruct Hgood0 as (_ & G2 & _). repeat split.
      - apply (ei_slotp _ _ _ H).
      - rewrite (ei_curs _ _ _ H). exact G2.
      - apply (ei_tc _ _ _ H).
    Qed.

    (* content / attributes / omit-tag, STARTTAG, body: up to the ENDTAG_ENDSCOPE *)
    Lemma tail_run : forall hs hpre act ridx,
      head = hpre ++ hs -> head_sorted 5 hs = true ->
      forall fuel mj, fuel <= S n -> pc D mj = o + 1 + length hpre -> EI act ridx mj ->
      Reaches L fuel mj (fun m' => pc D m' = e /\ EI act ridx m' /\ r_rep (rg D m') = r_rep (rg D mj)).
    Proof.
      induction hs as [|c hs IH]; intros hpre act ridx Hh Hs fuel mj Hf Hpc Hei.
      - (* STARTTAG *)
        rewrite app_nil_r in Hh. subst hpre.
        destruct fuel as [|f]; [apply reaches_0|].
        destruct (ei_fwd _ _ _ Hei) as [Hfw|Hfw].
        + (* no forward jump: into the body *)
          eapply reaches_step; [lia | rewrite Hpc; apply N_st | rewrite (step_stag _ _ _ Hst), Hfw; reflexivity |].
          destruct body_position as [Bp Bl].
          eapply reaches_weaken.
          * apply (IHbody _ _ Bp Bl L f); [lia | lia | simpl; lia |].
            destruct (EI_good _ _ _ Hei) as (G1 & G2 & G3). repeat split; simpl; auto.
          * intros m' (P1 & P2 & P3 & P4 & P5 & P6). simpl in *.
            split; [lia|]. split; [|now rewrite P3].
            destruct Hei. constructor; try rewrite P3; try rewrite P2; try rewrite P4; try rewrite P5; auto.
        + eapply reaches_step; [lia | rewrite Hpc; apply N_st | rewrite (step_stag _ _ _ Hst), Hfw; reflexivity |].
          apply reaches_here. simpl. split; [reflexivity|]. split; [|reflexivity].
          destruct Hei. constructor; simpl; auto.
      - (* a command of rank > 5 *)
        simpl in Hs. destruct (head_rank c) as [k|] eqn:Ek; [|discriminate].
        apply andb_true_iff in Hs. destruct Hs as [Hk Hs]. apply Nat.ltb_lt in Hk.
        assert (Hs5 : head_sorted 5 hs = true) by (apply (head_sorted_weaken hs k 5); [lia|exact Hs]).
        assert (Hin : In c head) by (rewrite Hh; apply in_or_app; right; now left).
        assert (Hnth : nth_error prog (pc D mj) = Some c).
        { rewrite Hpc. apply N_head. rewrite Hh. rewrite nth_error_app2 by lia.
          replace (length hpre - length hpre) with 0 by lia. reflexivity. }
        assert (Hh' : head = (hpre ++ [c]) ++ hs) by (rewrite <- app_assoc; exact Hh).
        assert (Hlen : o + 1 + length (hpre ++ [c]) = S (o + 1 + length hpre)) by (rewrite app_length; simpl; lia).
        assert (Hlt : pc D mj < L).
        { assert (length hpre < length head) by (rewrite Hh, app_length; simpl; lia). lia. }
        destruct fuel as [|f]; [apply reaches_0|].
        destruct c; simpl in Ek; inversion Ek; subst k; try lia.
        + (* CContent *)
          assert (Hsym : lookup_sym tab sym = Some e) by (apply (head_sym _ _ Hin); reflexivity).
          destruct (o_val (dat D mj) (CContent repl struct e0 sym)) eqn:Ev.
          * eapply reaches_step; [exact Hlt | exact Hnth | unfold step; simpl; rewrite Ev, Hsym; reflexivity |].
            eapply reaches_weaken.
            -- apply (IH _ act ridx Hh' Hs5 f); [lia | simpl; lia |].
               destruct Hei. constructor; simpl; auto.
            -- simpl. intros m' H. exact H.
          * eapply reaches_step; [exact Hlt | exact Hnth | unfold step; simpl; rewrite Ev; reflexivity |].
            eapply reaches_weaken.
            -- apply (IH _ act ridx Hh' Hs5 f); [lia | simpl; lia |].
               destruct Hei. constructor; simpl; auto.
            -- simpl. intros m' H. exact H.
          * eapply reaches_step; [exact Hlt | exact Hnth | unfold step; simpl; rewrite Ev, Hsym; reflexivity |].
            eapply reaches_weaken.
            -- apply (IH _ act ridx Hh' Hs5 f); [lia | simpl; lia |].
               destruct Hei. constructor; simpl; auto.
            -- simpl. intros m' H. exact H.
          * eapply reaches_step; [exact Hlt | exact Hnth | unfold step; simpl; rewrite Ev, Hsym; reflexivity |].
            eapply reaches_weaken.
            -- apply (IH _ act ridx Hh' Hs5 f); [lia | simpl; lia |].
               destruct Hei. constructor; simpl; auto.
               destruct (nth_error subs i) as [s|] eqn:Es; [|exact I].
               destruct struct; [|exact I]. simpl. eapply nth_error_In; eauto.
            -- simpl. intros m' H. exact H.
        + (* CAttributes *)
          eapply reaches_step; [exact Hlt | exact Hnth | unfold step; simpl; reflexivity |].
          eapply reaches_weaken.
          * apply (IH _ act ridx Hh' Hs5 f); [lia | simpl; lia |]. destruct Hei. constructor; simpl; auto.
          * simpl. intros m' H. exact H.
        + (* COmitTag *)
          eapply reaches_step; [exact Hlt | exact Hnth | unfold step; simpl; reflexivity |].
          eapply reaches_weaken.
          * apply (IH _ act ridx Hh' Hs5 f); [lia | simpl; lia |]. destruct Hei. constructor; simpl; auto.
          * simpl. intros m' H. exact H.
    Qed.

    (* the call made by ENDTAG_ENDSCOPE when tagContent is a template of this program *)
    Lemma call_result f s (mc : machD) :
      f <= n -> In s subs -> pc D mc = fst s -> Good mc ->
      exists es, lookup_sym tab (snd s) = Some es /\
        (runD f (S es) mc = OutOfFuel \/
         exists m2, runD f (S es) mc = Done m2 /\ c_sc (cx D m2) = c_sc (cx D mc)).
    Proof.
      intros Hf Hin Hpc Hg.
      destruct (subs_valid s Hin) as (pre' & el' & post' & es & Ep & Es & Wel & Ls & Le).
      exists es. split; [exact Ls|].
      assert (R : Reaches (S es) f mc (SegPost mc (fst s + length el'))).
      { apply (Hn (fst s) el' pre' post' Ep (eq_sym Es) Wel (S es) f mc Hf); [lia | exact Hpc | exact Hg]. }
      destruct R as [R|(f' & m2 & Hle & Hr & (P1 & P2 & P3 & P4 & P5 & P6))]; [now left|].
      destruct (run_at_limit f' (S es) m2) as [X|X]; [lia | left; congruence | right].
      exists m2. split; [congruence | exact P5].
    Qed.

    Lemma unwind_false lvd s s0 : unwind lvd false s = Some s0 ->
      if lvd then sc_pop s = Some s0 else s = s0.
    Proof. unfold unwind. destruct lvd; intros H; [exact H | now inversion H]. Qed.

    (* ENDTAG_ENDSCOPE with no repeat in progress closes the element *)
    Lemma end_run fuel mj ridx :
      fuel <= S n -> pc D mj = e -> EI false ridx mj ->
      Reaches L fuel mj (SegPost m0 (S e)).
    Proof.
      intros Hf Hpc Hei. destruct fuel as [|f]; [apply reaches_0|].
      assert (Hnth : nth_error prog (pc D mj) = Some en) by (rewrite Hpc; apply N_en).
      assert (Hlt : pc D mj < L) by lia.
      pose proof (ei_ss _ _ _ Hei) as Ess. pose proof (ei_back _ _ _ Hei) as Eb.
      pose proof (ei_cx _ _ _ Hei) as Ecx. pose proof (ei_curs _ _ _ Hei) as Ecu. simpl in Ess, Eb.
      (* what the closing part does on any machine that agrees with mj on stack, regs, scopes *)
      assert (Fin : forall m1 : machD, sstack D m1 = sstack D mj -> c_sc (cx D m1) = c_sc (cx D mj) ->
                pc D m1 = e -> curs D m1 = curs D mj -> slots_ok (slotp D m1) ->
                exists m', endtag_finish m1 (rg D mj) = Done m' /\ SegPost m0 (S e) m').
      { intros m1 A1 A2 A3 A4 A5. unfold endtag_finish. rewrite Eb, A1, Ess.
        apply unwind_false in Ecx. rewrite <- A2 in Ecx.
        destruct (r_lvd (rg D mj)).
        - unfold pop_locals. rewrite Ecx. eexists. split; [reflexivity|].
          repeat split; simpl; auto; try lia; try congruence.
        - eexists. split; [reflexivity|]. repeat split; simpl; auto; try lia; try congruence. }
      destruct (r_tc (rg D mj)) as [| |s] eqn:Etc.
      - destruct (Fin (updm mj en)) as (m' & Em & Pm); simpl; auto; [apply (ei_slotp _ _ _ Hei)|].
        eapply reaches_step; [exact Hlt | exact Hnth | rewrite (step_etag _ _ _ Hen), Etc; exact Em |].
        now apply reaches_here.
      - destruct (Fin (updm mj en)) as (m' & Em & Pm); simpl; auto; [apply (ei_slotp _ _ _ Hei)|].
        eapply reaches_step; [exact Hlt | exact Hnth | rewrite (step_etag _ _ _ Hen), Etc; exact Em |].
        now apply reaches_here.
      - assert (Hs : In s subs) by (pose proof (ei_tc _ _ _ Hei) as T; rewrite Etc in T; exact T).
        set (mc := mkMach D (fst s) [] regs0 (slotp D mj) (slotp D mj) (cx D mj) (dat D (updm mj en))).
        destruct (call_result f s mc) as (es & Ls & [R|(m2 & R & C2)]); try lia; auto.
        { repeat split; simpl; try apply (ei_slotp _ _ _ Hei); exact I. }
        + eapply reaches_step_oof; [exact Hlt | exact Hnth |].
          rewrite (step_etag _ _ _ Hen), Etc, Ls. fold mc. now rewrite R.
        + destruct (Fin (mkMach D (pc D mj) (sstack D mj) (rg D mj) [] (curs D mj) (cx D m2) (dat D m2)))
            as (m' & Em & Pm); simpl; auto; [intros ? ? X; discriminate X|].
          eapply reaches_step; [exact Hlt | exact Hnth | |].
          * rewrite (step_etag _ _ _ Hen), Etc, Ls. fold mc. rewrite R. exact Em.
          * now apply reaches_here.
    Qed.

    (* ENDTAG_ENDSCOPE while a repeat is in progress goes back to the REPEAT command *)
    Lemma end_back fuel mj ridx :
      fuel <= S n -> pc D mj = e -> EI true ridx mj ->
      Reaches L fuel mj (fun m' => pc D m' = ridx /\ EI true ridx m' /\ r_rep (rg D m') = r_rep (rg D mj)).
    Proof.
      intros Hf Hpc Hei. destruct fuel as [|f]; [apply reaches_0|].
      assert (Hnth : nth_error prog (pc D mj) = Some en) by (rewrite Hpc; apply N_en).
      assert (Hlt : pc D mj < L) by lia.
      pose proof (ei_back _ _ _ Hei) as Eb. simpl in Eb.
      assert (Fin : forall m1 : machD, sstack D m1 = sstack D mj -> c_sc (cx D m1) = c_sc (cx D mj) ->
                rg D m1 = rg D mj -> curs D m1 = curs D mj -> slots_ok (slotp D m1) ->
                exists m', endtag_finish m1 (rg D mj) = Done m' /\
                           pc D m' = ridx /\ EI true ridx m' /\ r_rep (rg D m') = r_rep (rg D mj)).
      { intros m1 A1 A2 A3 A4 A5. unfold endtag_finish. rewrite Eb. eexists. split; [reflexivity|].
        simpl. split; [reflexivity|]. split; [|now rewrite A3].
        destruct Hei. constructor; simpl; try rewrite A3; try rewrite A1; try rewrite A2; try rewrite A4; auto. }
      destruct (r_tc (rg D mj)) as [| |s] eqn:Etc.
      - destruct (Fin (updm mj en)) as (m' & Em & Pm); simpl; auto; [apply (ei_slotp _ _ _ Hei)|].
        eapply reaches_step; [exact Hlt | exact Hnth | rewrite (step_etag _ _ _ Hen), Etc; exact Em |].
        now apply reaches_here.
      - destruct (Fin (updm mj en)) as (m' & Em & Pm); simpl; auto; [apply (ei_slotp _ _ _ Hei)|].
        eapply reaches_step; [exact Hlt | exact Hnth | rewrite (step_etag _ _ _ Hen), Etc; exact Em |].
        now apply reaches_here.
      - assert (Hs : In s subs) by (pose proof (ei_tc _ _ _ Hei) as T; rewrite Etc in T; exact T).
        set (mc := mkMach D (fst s) [] regs0 (slotp D mj) (slotp D mj) (cx D mj) (dat D (updm mj en))).
        destruct (call_result f s mc) as (es & Ls & [R|(m2 & R & C2)]); try lia; auto.
        { repeat split; simpl; try apply (ei_slotp _ _ _ Hei); exact I. }
        + eapply reaches_step_oof; [exact Hlt | exact Hnth |].
          rewrite (step_etag _ _ _ Hen), Etc, Ls. fold mc. now rewrite R.
        + destruct (Fin (mkMach D (pc D mj) (sstack D mj) (rg D mj) [] (curs D mj) (cx D m2) (dat D m2)))
            as (m' & Em & Pm); simpl; auto; [intros ? ? X; discriminate X|].
          eapply reaches_step; [exact Hlt | exact Hnth | |].
          * rewrite (step_etag _ _ _ Hen), Etc, Ls. fold mc. rewrite R. exact Em.
          * now apply reaches_here.
    Qed.

    Lemma unwind_true lvd s s0 : unwind lvd true s = Some s0 ->
      exists a b, sc_remove_repeat s = Some a /\ sc_pop a = Some b /\ unwind lvd false b = Some s0.
    Proof.
      unfold unwind. destruct (sc_remove_repeat s) as [a|] eqn:Ea; [|discriminate].
      destruct (sc_pop a) as [b|] eqn:Eb; [|discriminate]. intros H. exists a, b. repeat split; auto.
    Qed.

    (* the repeat loop: from the ENDTAG_ENDSCOPE with k further items to go *)
    Section Loop.
      Variables (hpre_r : list cmd) (v ex : str) (sym : nat) (hs' : list cmd).
      Hypothesis Hhead : head = hpre_r ++ CRepeat v ex sym :: hs'.
      Hypothesis Hs' : head_sorted 5 hs' = true.
      Let ridx := o + 1 + length hpre_r.

      Lemma N_rep : nth_error prog ridx = Some (CRepeat v ex sym).
      Proof.
        unfold ridx. apply N_head. rewrite Hhead, nth_error_app2 by lia.
        replace (length hpre_r - length hpre_r) with 0 by lia. reflexivity.
      Qed.

      Lemma rep_sym : lookup_sym tab sym = Some e.
      Proof. apply (head_sym (CRepeat v ex sym)); [|reflexivity]. rewrite Hhead. apply in_or_app. right. now left. Qed.

      Lemma ridx_lt : ridx < L.
      Proof. unfold ridx. assert (length hpre_r < length head) by (rewrite Hhead, app_length; simpl; lia). lia. Qed.

      Lemma loop_run : forall k fuel mj,
        fuel <= S n -> pc D mj = e -> EI true ridx mj -> r_rep (rg D mj) = Some k ->
        Reaches L fuel mj (SegPost m0 (S e)).
      Proof.
        assert (Hh2 : head = (hpre_r ++ [CRepeat v ex sym]) ++ hs') by (rewrite <- app_assoc; exact Hhead).
        assert (Hl2 : o + 1 + length (hpre_r ++ [CRepeat v ex sym]) = S ridx) by (rewrite app_length; simpl; unfold ridx; lia).
        induction k as [|k IH]; intros fuel mj Hf Hpc Hei Hk.
        - (* last item done: leave the loop *)
          eapply reaches_bind; [apply (end_back fuel mj ridx Hf Hpc Hei)|].
          intros f1 m1 Hf1 (P1 & P2 & P3). rewrite Hk in P3.
          destruct f1 as [|f]; [apply reaches_0|].
          destruct (unwind_true _ _ _ (ei_cx _ _ _ P2)) as (a & b & Ea & Eb & Ec).
          pose proof (ei_ss _ _ _ P2) as Ess. simpl in Ess.
          eapply reaches_step; [rewrite P1; apply ridx_lt | rewrite P1; apply N_rep | |].
          + unfold step. simpl. rewrite P3. unfold remove_repeat, pop_locals. simpl. rewrite Ea. simpl.
            rewrite Eb, rep_sym, Ess. reflexivity.
          + apply (end_run f _ ridx); [lia | reflexivity |].
            destruct P2. constructor; simpl; auto. intros ? ? X; auto.
        - eapply reaches_bind; [apply (end_back fuel mj ridx Hf Hpc Hei)|].
          intros f1 m1 Hf1 (P1 & P2 & P3). rewrite Hk in P3.
          destruct f1 as [|f]; [apply reaches_0|].
          eapply reaches_step; [rewrite P1; apply ridx_lt | rewrite P1; apply N_rep | |].
          + unfold step. simpl. rewrite P3. reflexivity.
          + eapply reaches_bind.
            * apply (tail_run hs' _ true ridx Hh2 Hs' f); [lia | simpl; lia |].
              destruct P2. constructor; simpl; auto; [eauto | now rewrite unwind_set_act].
            * simpl. intros f2 m2 Hf2 (Q1 & Q2 & Q3). apply (IH f2 m2); [lia | exact Q1 | exact Q2 | exact Q3].
      Qed.
    End Loop.
  End Elem.
End VMFacts.
