(* The scope discipline of the abstract VM (Model/TALVM.v): for every structurally
   well-formed program, every data state and all decision functions, a run of a program
   segment (a sequence of body items, an element, a called sub-template) that terminates
   leaves scope stack, registers, current slots and the context's scopes exactly as it found
   them — and the VM never gets stuck.  Induction on the fuel bound (for sub-template
   calls), inside it mutual structural induction on the well-formedness derivation,
   inside the element case an induction on the remaining repeat count. *)
From Coq Require Import Lia PeanoNat.
From PG Require Import Lib.Str Model.TALProg Model.TALProgSpec Model.TALVM Proofs.TALProgFacts.

(* ---- scopes ---- *)
Definition unwind (lvd act : bool) (s : scopes) : option scopes :=
  let s1 := if act then match sc_remove_repeat s with Some a => sc_pop a | None => None end else Some s in
  match s1 with
  | Some b => if lvd then sc_pop b else Some b
  | None => None
  end.

Lemma sc_eta s : mkSc (s_locals s) (s_lstack s) (s_rmap s) (s_rstack s) = s.
Proof. destruct s; reflexivity. Qed.

Lemma unwind_add_repeat lvd v s : unwind lvd true (sc_add_repeat v s) = unwind lvd false s.
Proof. unfold unwind, sc_add_repeat, sc_remove_repeat, sc_pop, sc_set, sc_push. simpl. now rewrite sc_eta. Qed.

Lemma unwind_set_act lvd v s : unwind lvd true (sc_set v s) = unwind lvd true s.
Proof.
  unfold unwind, sc_remove_repeat, sc_set. simpl. destruct (s_rstack s); [reflexivity|].
  unfold sc_pop. simpl. reflexivity.
Qed.

Lemma do_defines_scopes : forall args fnd c fnd' c',
  do_defines args fnd c = (fnd', c') ->
  if fnd then fnd' = true /\ (forall b, sc_pop (c_sc c) = Some b -> sc_pop (c_sc c') = Some b)
  else if fnd' then sc_pop (c_sc c') = Some (c_sc c) else c_sc c' = c_sc c.
Proof.
  induction args as [|[isloc [name e]] r IH]; intros fnd c fnd' c' H; simpl in H.
  - inversion H; subst. destruct fnd'; [split; auto|reflexivity].
  - destruct isloc.
    + apply IH in H. destruct H as [E P]. subst fnd'. destruct fnd.
      * split; [reflexivity|]. intros b Hb. apply P. unfold sc_pop in *. simpl in *. exact Hb.
      * apply P. unfold sc_pop. simpl. now rewrite sc_eta.
    + apply IH in H. destruct fnd; exact H.
Qed.

Section VMFacts.
  Variable prog : program.
  Variable tab : symtab.
  Variable subs : list subt.
  Variable D : Type.
  Variable o_cond : D -> cmd -> bool.
  Variable o_rep : D -> cmd -> rep_dec.
  Variable o_val : D -> cmd -> val_dec.
  Variable o_mac : D -> cmd -> mac_dec.
  Variable o_upd : D -> nat -> cmd -> D.

  Hypothesis subs_valid : forall s, In s subs -> valid_sub prog tab s.
  Hypothesis slots_in_subs : forall c, In c prog -> forall s, In s (cmd_slots c) -> In s subs.

  Notation machD := (mach D).
  Notation runD := (run prog tab subs D o_cond o_rep o_val o_mac o_upd).
  Notation stepD := (step tab subs D o_cond o_rep o_val o_mac o_upd).

  Definition slots_ok (sl : slotmap) : Prop := forall n s, lookup_slot sl n = Some s -> In s subs.
  Definition tc_ok (t : tcv) : Prop := match t with TTpl s => In s subs | _ => True end.
  Definition Good (m : machD) : Prop := slots_ok (slotp D m) /\ slots_ok (curs D m) /\ tc_ok (r_tc (rg D m)).

  Definition SegPost (m : machD) (target : nat) (m' : machD) : Prop :=
    pc D m' = target /\ sstack D m' = sstack D m /\ rg D m' = rg D m /\ curs D m' = curs D m /\
    c_sc (cx D m') = c_sc (cx D m) /\ slots_ok (slotp D m').

  (* a run from m either runs out of fuel or passes through a state satisfying P *)
  Definition Reaches (L fuel : nat) (m : machD) (P : machD -> Prop) : Prop :=
    runD fuel L m = OutOfFuel \/
    exists fuel' m', fuel' <= fuel /\ runD fuel L m = runD fuel' L m' /\ P m'.

  Lemma run_S f L m :
    runD (S f) L m =
    if Nat.leb L (pc D m) then Done m
    else match nth_error prog (pc D m) with
         | None => Stuck
         | Some c => match stepD (runD f) c m with
                     | Done m1 => runD f L m1
                     | Stuck => Stuck
                     | OutOfFuel => OutOfFuel
                     end
         end.
  Proof. reflexivity. Qed.

  Lemma reaches_0 L m P : Reaches L 0 m P.
  Proof. left. reflexivity. Qed.

  Lemma reaches_here L fuel m (P : machD -> Prop) : P m -> Reaches L fuel m P.
  Proof. intros H. right. exists fuel, m. auto. Qed.

  Lemma reaches_step L f m c m1 P :
    pc D m < L -> nth_error prog (pc D m) = Some c -> stepD (runD f) c m = Done m1 ->
    Reaches L f m1 P -> Reaches L (S f) m P.
  Proof.
    intros Hlt Hn Hs [H|(f' & m' & Hle & Hr & HP)].
    - left. rewrite run_S. replace (Nat.leb L (pc D m)) with false by (symmetry; apply Nat.leb_gt; lia).
      now rewrite Hn, Hs.
    - right. exists f', m'. split; [lia|]. split; [|exact HP].
      rewrite run_S. replace (Nat.leb L (pc D m)) with false by (symmetry; apply Nat.leb_gt; lia).
      now rewrite Hn, Hs.
  Qed.

  Lemma reaches_step_oof L f m c P :
    pc D m < L -> nth_error prog (pc D m) = Some c -> stepD (runD f) c m = OutOfFuel ->
    Reaches L (S f) m P.
  Proof.
    intros Hlt Hn Hs. left. rewrite run_S.
    replace (Nat.leb L (pc D m)) with false by (symmetry; apply Nat.leb_gt; lia). now rewrite Hn, Hs.
  Qed.

  Lemma reaches_bind L fuel m (P Q : machD -> Prop) :
    Reaches L fuel m P ->
    (forall fuel' m', fuel' <= fuel -> P m' -> Reaches L fuel' m' Q) ->
    Reaches L fuel m Q.
  Proof.
    intros [H|(f' & m' & Hle & Hr & HP)] K; [now left|].
    destruct (K f' m' Hle HP) as [H|(f2 & m2 & Hle2 & Hr2 & HQ)].
    - left. congruence.
    - right. exists f2, m2. split; [lia|]. split; [congruence|exact HQ].
  Qed.

  Lemma reaches_weaken L fuel m (P Q : machD -> Prop) :
    Reaches L fuel m P -> (forall m', P m' -> Q m') -> Reaches L fuel m Q.
  Proof. intros H K. eapply reaches_bind; [exact H|]. intros f' m' _ HP. apply reaches_here. auto. Qed.

  Lemma run_at_limit fuel L m : L <= pc D m -> runD fuel L m = OutOfFuel \/ runD fuel L m = Done m.
  Proof.
    intros H. destruct fuel; [now left|]. right. rewrite run_S.
    replace (Nat.leb L (pc D m)) with true by (symmetry; apply Nat.leb_le; lia). reflexivity.
  Qed.

  (* position of a segment inside the program *)
  Lemma nth_error_seg (pre l post : list cmd) i :
    prog = pre ++ l ++ post -> i < length l -> nth_error prog (length pre + i) = nth_error l i.
  Proof.
    intros E Hi. rewrite E. rewrite nth_error_app2 by lia.
    replace (length pre + i - length pre) with i by lia. now rewrite nth_error_app1.
  Qed.

  Definition ElemP (n : nat) : Prop :=
    forall o el pre post, prog = pre ++ el ++ post -> length pre = o -> wfelem tab o el ->
    forall L fuel m, fuel <= n -> o + length el <= L -> pc D m = o -> Good m ->
    Reaches L fuel m (SegPost m (o + length el)).

  Definition ItemsP (n : nat) : Prop :=
    forall o l pre post, prog = pre ++ l ++ post -> length pre = o -> wfitems tab o l ->
    forall L fuel m, fuel <= n -> o + length l <= L -> pc D m = o -> Good m ->
    Reaches L fuel m (SegPost m (o + length l)).

  Lemma head_sorted_weaken : forall h lo lo', lo' <= lo -> head_sorted lo h = true -> head_sorted lo' h = true.
  Proof.
    destruct h as [|c h]; intros lo lo' Hle H; simpl in *; [reflexivity|].
    destruct (head_rank c) as [k|]; [|discriminate].
    apply andb_true_iff in H. destruct H as [H1 H2]. apply Nat.ltb_lt in H1.
    apply andb_true_iff. split; [apply Nat.ltb_lt; lia | exact H2].
  Qed.

  (* steps of the three commands that frame an element, for a command known only by its kind *)
  Definition updm (m : machD) (c : cmd) : machD :=
    mkMach D (pc D m) (sstack D m) (rg D m) (slotp D m) (curs D m) (cx D m) (o_upd (dat D m) (pc D m) c).

  Lemma step_scope call c m : is_scope c = true ->
    stepD call c m = Done (next D (set_ss D (SScope (rg D m) :: sstack D m) (set_rg D regs0 (updm m c)))).
  Proof. destruct c; try discriminate. reflexivity. Qed.

  Lemma step_stag call c m : is_stag c = true ->
    stepD call c m = Done (match r_fwd (rg D m) with Some p => set_pc D p (updm m c) | None => next D (updm m c) end).
  Proof. destruct c; try discriminate. intros _. unfold step. simpl. destruct (r_fwd (rg D m)); reflexivity. Qed.

  Lemma step_out call c m : is_out c = true -> stepD call c m = Done (next D (updm m c)).
  Proof. destruct c; try discriminate; reflexivity. Qed.

  (* ENDTAG_ENDSCOPE when tagContent is not a template *)
  Definition endtag_finish (m1 : machD) (r : regs) : res machD :=
    match r_back r with
    | Some b => Done (set_pc D b m1)
    | None =>
        let c1 := if r_lvd r then pop_locals (cx D m1) else Some (cx D m1) in
        match c1, sstack D m1 with
        | Some c2, SScope r0 :: ss => Done (next D (set_ss D ss (set_rg D r0 (set_cx D c2 m1))))
        | _, _ => Stuck
        end
    end.

  Lemma step_etag call c m : is_etag c = true ->
    stepD call c m =
    match r_tc (rg D m) with
    | TTpl s =>
        match lookup_sym tab (snd s) with
        | None => Stuck
        | Some e =>
            match call (S e) (mkMach D (fst s) [] regs0 (slotp D m) (slotp D m) (cx D m) (dat D (updm m c))) with
            | Done m2 => endtag_finish (mkMach D (pc D m) (sstack D m) (rg D m) [] (curs D m) (cx D m2) (dat D m2)) (rg D m)
            | Stuck => Stuck
            | OutOfFuel => OutOfFuel
            end
        end
    | _ => endtag_finish (updm m c) (rg D m)
    end.
  Proof.
    destruct c; try discriminate. intros _. unfold step, endtag_finish. simpl.
    destruct (r_tc (rg D m)) as [| |s]; try reflexivity.
    destruct (lookup_sym tab (snd s)); [|reflexivity].
    destruct (call _ _); reflexivity.
  Qed.

  (* ------------------------------------------------------------------ *)
  Section Elem.
    Variable n : nat.
    Hypothesis Hn : ElemP n.
    Variables (o e : nat) (sc : cmd) (head : list cmd) (st : cmd) (body : list cmd) (en : cmd).
    Variables (pre post : list cmd).
    Hypothesis He : e = o + 2 + length head + length body.
    Hypothesis Hprog : prog = pre ++ (sc :: head ++ st :: body ++ [en]) ++ post.
    Hypothesis Hpre : length pre = o.
    Hypothesis Hsc : is_scope sc = true.
    Hypothesis Hsorted : head_sorted 0 head = true.
    Hypothesis Hst : is_stag st = true.
    Hypothesis Hen : is_etag en = true.
    Hypothesis Hsyms : syms_ok tab e head = true.
    Hypothesis IHbody :
      forall pre' post', prog = pre' ++ body ++ post' -> length pre' = o + 2 + length head ->
      forall L fuel m, fuel <= S n -> o + 2 + length head + length body <= L ->
        pc D m = o + 2 + length head -> Good m ->
        Reaches L fuel m (SegPost m (o + 2 + length head + length body)).
    Variable L : nat.
    Hypothesis HL : S e <= L.
    Variable m0 : machD.
    Hypothesis Hgood0 : Good m0.

    Lemma el_length : length (sc :: head ++ st :: body ++ [en]) = 3 + length head + length body.
    Proof. simpl. rewrite app_length. simpl. rewrite app_length. simpl. lia. Qed.

    Lemma N_sc : nth_error prog o = Some sc.
    Proof.
      rewrite <- Hpre. replace (length pre) with (length pre + 0) by lia.
      rewrite (nth_error_seg pre _ post 0 Hprog); [reflexivity | rewrite el_length; lia].
    Qed.

    Lemma N_head j c : nth_error head j = Some c -> nth_error prog (o + 1 + j) = Some c.
    Proof.
      intros H. assert (Hj : j < length head) by (apply nth_error_Some; congruence).
      rewrite <- Hpre. replace (length pre + 1 + j) with (length pre + S j) by lia.
      rewrite (nth_error_seg pre _ post (S j) Hprog) by (rewrite el_length; lia).
      simpl. rewrite nth_error_app1 by lia. exact H.
    Qed.

    Lemma N_st : nth_error prog (o + 1 + length head) = Some st.
    Proof.
      rewrite <- Hpre. replace (length pre + 1 + length head) with (length pre + S (length head)) by lia.
      rewrite (nth_error_seg pre _ post (S (length head)) Hprog) by (rewrite el_length; lia).
      simpl. rewrite nth_error_app2 by lia. replace (length head - length head) with 0 by lia. reflexivity.
    Qed.

    Lemma N_en : nth_error prog e = Some en.
    Proof.
      rewrite He, <- Hpre.
      replace (length pre + 2 + length head + length body) with (length pre + (2 + length head + length body)) by lia.
      rewrite (nth_error_seg pre _ post _ Hprog) by (rewrite el_length; lia).
      change (sc :: head ++ st :: body ++ [en]) with ((sc :: head) ++ (st :: body) ++ [en]).
      replace (2 + length head + length body) with (length (sc :: head) + length (st :: body)) by (simpl; lia).
      apply nth_error_last2.
    Qed.

    Lemma head_in_prog c : In c head -> In c prog.
    Proof. intros H. rewrite Hprog. apply in_or_app. right. apply in_or_app. left. right. apply in_or_app. now left. Qed.

    Lemma head_sym c s : In c head -> cmd_sym c = Some s -> lookup_sym tab s = Some e.
    Proof. intros Hin Hs. exact (syms_ok_spec tab e head Hsyms c s Hin Hs). Qed.

    Lemma body_position : prog = (pre ++ sc :: head ++ [st]) ++ body ++ ([en] ++ post) /\
                          length (pre ++ sc :: head ++ [st]) = o + 2 + length head.
    Proof.
      split.
      - rewrite Hprog. rewrite <- !app_assoc. simpl. f_equal. f_equal. rewrite <- !app_assoc. simpl.
        f_equal. f_equal. now rewrite <- app_assoc.
      - rewrite app_length. simpl. rewrite app_length. simpl. lia.
    Qed.

    (* the element-local invariant while the element that started in state m0 is being executed:
       act = a repeat of this element is in progress, its REPEAT command sits at index ridx *)
    Record EI (act : bool) (ridx : nat) (mj : machD) : Prop := mkEI {
      ei_ss : sstack D mj = (if act then [SRep] else []) ++ SScope (rg D m0) :: sstack D m0;
      ei_back : r_back (rg D mj) = if act then Some ridx else None;
      ei_rep : if act then exists k, r_rep (rg D mj) = Some k else r_rep (rg D mj) = None;
      ei_fwd : r_fwd (rg D mj) = None \/ r_fwd (rg D mj) = Some e;
      ei_tc : tc_ok (r_tc (rg D mj));
      ei_cx : unwind (r_lvd (rg D mj)) act (c_sc (cx D mj)) = Some (c_sc (cx D m0));
      ei_slotp : slots_ok (slotp D mj);
      ei_curs : curs D mj = curs D m0
    }.

    Lemma EI_good act ridx mj : EI act ridx mj -> Good mj.
    Proof.
      intros H. destruct Hgood0 as (_ & G2 & _). repeat split.
      - apply (ei_slotp _ _ _ H).
      - rewrite (ei_curs _ _ _ H). exact G2.
      - apply (ei_tc _ _ _ H).
    Qed.

    (* content / attributes / omit-tag, STARTTAG, body: up to the ENDTAG_ENDSCOPE *)
    Lemma tail_run : forall hs hpre act ridx,
      head = hpre ++ hs -> head_sorted 5 hs = true ->
      forall fuel mj, fuel <= S n -> pc D mj = o + 1 + length hpre -> EI act ridx mj ->
      Reaches L fuel mj (fun m' => pc D m' = e /\ EI act ridx m' /\ r_rep (rg D m') = r_rep (rg D mj)).
    Proof.
      induction hs as [|c hs IH]; intros hpre act ridx Hh Hs fuel mj Hf Hpc Hei.
      - (* STARTTAG *)
        rewrite app_nil_r in Hh. subst hpre.
        destruct fuel as [|f]; [apply reaches_0|].
        destruct (ei_fwd _ _ _ Hei) as [Hfw|Hfw].
        + (* no forward jump: into the body *)
          eapply reaches_step; [lia | rewrite Hpc; apply N_st | rewrite (step_stag _ _ _ Hst), Hfw; reflexivity |].
          destruct body_position as [Bp Bl].
          eapply reaches_weaken.
          * apply (IHbody _ _ Bp Bl L f); [lia | lia | simpl; lia |].
            destruct (EI_good _ _ _ Hei) as (G1 & G2 & G3). repeat split; simpl; auto.
          * intros m' (P1 & P2 & P3 & P4 & P5 & P6). simpl in *.
            split; [lia|]. split; [|now rewrite P3].
            destruct Hei. constructor; try rewrite P3; try rewrite P2; try rewrite P4; try rewrite P5; auto.
        + eapply reaches_step; [lia | rewrite Hpc; apply N_st | rewrite (step_stag _ _ _ Hst), Hfw; reflexivity |].
          apply reaches_here. simpl. split; [reflexivity|]. split; [|reflexivity].
          destruct Hei. constructor; simpl; auto.
      - (* a command of rank > 5 *)
        simpl in Hs. destruct (head_rank c) as [k|] eqn:Ek; [|discriminate].
        apply andb_true_iff in Hs. destruct Hs as [Hk Hs]. apply Nat.ltb_lt in Hk.
        assert (Hs5 : head_sorted 5 hs = true) by (apply (head_sorted_weaken hs k 5); [lia|exact Hs]).
        assert (Hin : In c head) by (rewrite Hh; apply in_or_app; right; now left).
        assert (Hnth : nth_error prog (pc D mj) = Some c).
        { rewrite Hpc. apply N_head. rewrite Hh. rewrite nth_error_app2 by lia.
          replace (length hpre - length hpre) with 0 by lia. reflexivity. }
        assert (Hh' : head = (hpre ++ [c]) ++ hs) by (rewrite <- app_assoc; exact Hh).
        assert (Hlen : o + 1 + length (hpre ++ [c]) = S (o + 1 + length hpre)) by (rewrite app_length; simpl; lia).
        assert (Hlt : pc D mj < L).
        { assert (length hpre < length head) by (rewrite Hh, app_length; simpl; lia). lia. }
        destruct fuel as [|f]; [apply reaches_0|].
        destruct c; simpl in Ek; inversion Ek; subst k; try lia.
        + (* CContent *)
          assert (Hsym : lookup_sym tab sym = Some e) by (apply (head_sym _ _ Hin); reflexivity).
          destruct (o_val (dat D mj) (CContent repl struct e0 sym)) eqn:Ev.
          * eapply reaches_step; [exact Hlt | exact Hnth | unfold step; simpl; rewrite Ev, Hsym; reflexivity |].
            eapply reaches_weaken.
            -- apply (IH _ act ridx Hh' Hs5 f); [lia | simpl; lia |].
               destruct Hei. constructor; simpl; auto.
            -- simpl. intros m' H. exact H.
          * eapply reaches_step; [exact Hlt | exact Hnth | unfold step; simpl; rewrite Ev; reflexivity |].
            eapply reaches_weaken.
            -- apply (IH _ act ridx Hh' Hs5 f); [lia | simpl; lia |].
               destruct Hei. constructor; simpl; auto.
            -- simpl. intros m' H. exact H.
          * eapply reaches_step; [exact Hlt | exact Hnth | unfold step; simpl; rewrite Ev, Hsym; reflexivity |].
            eapply reaches_weaken.
            -- apply (IH _ act ridx Hh' Hs5 f); [lia | simpl; lia |].
               destruct Hei. constructor; simpl; auto.
            -- simpl. intros m' H. exact H.
          * eapply reaches_step; [exact Hlt | exact Hnth | unfold step; simpl; rewrite Ev, Hsym; reflexivity |].
            eapply reaches_weaken.
            -- apply (IH _ act ridx Hh' Hs5 f); [lia | simpl; lia |].
               destruct Hei. constructor; simpl; auto.
               destruct (nth_error subs i) as [s|] eqn:Es; [|exact I].
               destruct struct; [|exact I]. simpl. eapply nth_error_In; eauto.
            -- simpl. intros m' H. exact H.
        + (* CAttributes *)
          eapply reaches_step; [exact Hlt | exact Hnth | unfold step; simpl; reflexivity |].
          eapply reaches_weaken.
          * apply (IH _ act ridx Hh' Hs5 f); [lia | simpl; lia |]. destruct Hei. constructor; simpl; auto.
          * simpl. intros m' H. exact H.
        + (* COmitTag *)
          eapply reaches_step; [exact Hlt | exact Hnth | unfold step; simpl; reflexivity |].
          eapply reaches_weaken.
          * apply (IH _ act ridx Hh' Hs5 f); [lia | simpl; lia |]. destruct Hei. constructor; simpl; auto.
          * simpl. intros m' H. exact H.
    Qed.

    (* the call made by ENDTAG_ENDSCOPE when tagContent is a template of this program *)
    Lemma call_result f s (mc : machD) :
      f <= n -> In s subs -> pc D mc = fst s -> Good mc ->
      exists es, lookup_sym tab (snd s) = Some es /\
        (runD f (S es) mc = OutOfFuel \/
         exists m2, runD f (S es) mc = Done m2 /\ c_sc (cx D m2) = c_sc (cx D mc)).
    Proof.
      intros Hf Hin Hpc Hg.
      destruct (subs_valid s Hin) as (pre' & el' & post' & es & Ep & Es & Wel & Ls & Le).
      exists es. split; [exact Ls|].
      assert (R : Reaches (S es) f mc (SegPost mc (fst s + length el'))).
      { apply (Hn (fst s) el' pre' post' Ep (eq_sym Es) Wel (S es) f mc Hf); [lia | exact Hpc | exact Hg]. }
      destruct R as [R|(f' & m2 & Hle & Hr & (P1 & P2 & P3 & P4 & P5 & P6))]; [now left|].
      destruct (run_at_limit f' (S es) m2) as [X|X]; [lia | left; congruence | right].
      exists m2. split; [congruence | exact P5].
    Qed.

    Lemma unwind_false lvd s s0 : unwind lvd false s = Some s0 ->
      if lvd then sc_pop s = Some s0 else s = s0.
    Proof. unfold unwind. destruct lvd; intros H; [exact H | now inversion H]. Qed.

    (* ENDTAG_ENDSCOPE with no repeat in progress closes the element *)
    Lemma end_run fuel mj ridx :
      fuel <= S n -> pc D mj = e -> EI false ridx mj ->
      Reaches L fuel mj (SegPost m0 (S e)).
    Proof.
      intros Hf Hpc Hei. destruct fuel as [|f]; [apply reaches_0|].
      assert (Hnth : nth_error prog (pc D mj) = Some en) by (rewrite Hpc; apply N_en).
      assert (Hlt : pc D mj < L) by lia.
      pose proof (ei_ss _ _ _ Hei) as Ess. pose proof (ei_back _ _ _ Hei) as Eb.
      pose proof (ei_cx _ _ _ Hei) as Ecx. pose proof (ei_curs _ _ _ Hei) as Ecu. simpl in Ess, Eb.
      (* what the closing part does on any machine that agrees with mj on stack, regs, scopes *)
      assert (Fin : forall m1 : machD, sstack D m1 = sstack D mj -> c_sc (cx D m1) = c_sc (cx D mj) ->
                pc D m1 = e -> curs D m1 = curs D mj -> slots_ok (slotp D m1) ->
                exists m', endtag_finish m1 (rg D mj) = Done m' /\ SegPost m0 (S e) m').
      { intros m1 A1 A2 A3 A4 A5. unfold endtag_finish. rewrite Eb, A1, Ess.
        apply unwind_false in Ecx. rewrite <- A2 in Ecx.
        destruct (r_lvd (rg D mj)).
        - unfold pop_locals. rewrite Ecx. eexists. split; [reflexivity|].
          repeat split; simpl; auto; try lia; try congruence.
        - eexists. split; [reflexivity|]. repeat split; simpl; auto; try lia; try congruence. }
      destruct (r_tc (rg D mj)) as [| |s] eqn:Etc.
      - destruct (Fin (updm mj en)) as (m' & Em & Pm); simpl; auto; [apply (ei_slotp _ _ _ Hei)|].
        eapply reaches_step; [exact Hlt | exact Hnth | rewrite (step_etag _ _ _ Hen), Etc; exact Em |].
        now apply reaches_here.
      - destruct (Fin (updm mj en)) as (m' & Em & Pm); simpl; auto; [apply (ei_slotp _ _ _ Hei)|].
        eapply reaches_step; [exact Hlt | exact Hnth | rewrite (step_etag _ _ _ Hen), Etc; exact Em |].
        now apply reaches_here.
      - assert (Hs : In s subs) by (pose proof (ei_tc _ _ _ Hei) as T; rewrite Etc in T; exact T).
        set (mc := mkMach D (fst s) [] regs0 (slotp D mj) (slotp D mj) (cx D mj) (dat D (updm mj en))).
        destruct (call_result f s mc) as (es & Ls & [R|(m2 & R & C2)]); try lia; auto.
        { repeat split; simpl; try apply (ei_slotp _ _ _ Hei); exact I. }
        + eapply reaches_step_oof; [exact Hlt | exact Hnth |].
          rewrite (step_etag _ _ _ Hen), Etc, Ls. fold mc. now rewrite R.
        + destruct (Fin (mkMach D (pc D mj) (sstack D mj) (rg D mj) [] (curs D mj) (cx D m2) (dat D m2)))
            as (m' & Em & Pm); simpl; auto; [intros ? ? X; discriminate X|].
          eapply reaches_step; [exact Hlt | exact Hnth | |].
          * rewrite (step_etag _ _ _ Hen), Etc, Ls. fold mc. rewrite R. exact Em.
          * now apply reaches_here.
    Qed.

    (* ENDTAG_ENDSCOPE while a repeat is in progress goes back to the REPEAT command *)
    Lemma end_back fuel mj ridx :
      fuel <= S n -> pc D mj = e -> EI true ridx mj ->
      Reaches L fuel mj (fun m' => pc D m' = ridx /\ EI true ridx m' /\ r_rep (rg D m') = r_rep (rg D mj)).
    Proof.
      intros Hf Hpc Hei. destruct fuel as [|f]; [apply reaches_0|].
      assert (Hnth : nth_error prog (pc D mj) = Some en) by (rewrite Hpc; apply N_en).
      assert (Hlt : pc D mj < L) by lia.
      pose proof (ei_back _ _ _ Hei) as Eb. simpl in Eb.
      assert (Fin : forall m1 : machD, sstack D m1 = sstack D mj -> c_sc (cx D m1) = c_sc (cx D mj) ->
                rg D m1 = rg D mj -> curs D m1 = curs D mj -> slots_ok (slotp D m1) ->
                exists m', endtag_finish m1 (rg D mj) = Done m' /\
                           pc D m' = ridx /\ EI true ridx m' /\ r_rep (rg D m') = r_rep (rg D mj)).
      { intros m1 A1 A2 A3 A4 A5. unfold endtag_finish. rewrite Eb. eexists. split; [reflexivity|].
        simpl. split; [reflexivity|]. split; [|now rewrite A3].
        destruct Hei. constructor; simpl; try rewrite A3; try rewrite A1; try rewrite A2; try rewrite A4; auto. }
      destruct (r_tc (rg D mj)) as [| |s] eqn:Etc.
      - destruct (Fin (updm mj en)) as (m' & Em & Pm); simpl; auto; [apply (ei_slotp _ _ _ Hei)|].
        eapply reaches_step; [exact Hlt | exact Hnth | rewrite (step_etag _ _ _ Hen), Etc; exact Em |].
        now apply reaches_here.
      - destruct (Fin (updm mj en)) as (m' & Em & Pm); simpl; auto; [apply (ei_slotp _ _ _ Hei)|].
        eapply reaches_step; [exact Hlt | exact Hnth | rewrite (step_etag _ _ _ Hen), Etc; exact Em |].
        now apply reaches_here.
      - assert (Hs : In s subs) by (pose proof (ei_tc _ _ _ Hei) as T; rewrite Etc in T; exact T).
        set (mc := mkMach D (fst s) [] regs0 (slotp D mj) (slotp D mj) (cx D mj) (dat D (updm mj en))).
        destruct (call_result f s mc) as (es & Ls & [R|(m2 & R & C2)]); try lia; auto.
        { repeat split; simpl; try apply (ei_slotp _ _ _ Hei); exact I. }
        + eapply reaches_step_oof; [exact Hlt | exact Hnth |].
          rewrite (step_etag _ _ _ Hen), Etc, Ls. fold mc. now rewrite R.
        + destruct (Fin (mkMach D (pc D mj) (sstack D mj) (rg D mj) [] (curs D mj) (cx D m2) (dat D m2)))
            as (m' & Em & Pm); simpl; auto; [intros ? ? X; discriminate X|].
          eapply reaches_step; [exact Hlt | exact Hnth | |].
          * rewrite (step_etag _ _ _ Hen), Etc, Ls. fold mc. rewrite R. exact Em.
          * now apply reaches_here.
    Qed.

    Lemma unwind_true lvd s s0 : unwind lvd true s = Some s0 ->
      exists a b, sc_remove_repeat s = Some a /\ sc_pop a = Some b /\ unwind lvd false b = Some s0.
    Proof.
      unfold unwind. destruct (sc_remove_repeat s) as [a|] eqn:Ea; [|discriminate].
      destruct (sc_pop a) as [b|] eqn:Eb; [|discriminate]. intros H. exists a, b. repeat split; auto.
    Qed.

    (* the repeat loop: from the ENDTAG_ENDSCOPE with k further items to go *)
    Section Loop.
      Variables (hpre_r : list cmd) (v ex : str) (sym : nat) (hs' : list cmd).
      Hypothesis Hhead : head = hpre_r ++ CRepeat v ex sym :: hs'.
      Hypothesis Hs' : head_sorted 5 hs' = true.
      Let ridx := o + 1 + length hpre_r.

      Lemma N_rep : nth_error prog ridx = Some (CRepeat v ex sym).
      Proof.
        unfold ridx. apply N_head. rewrite Hhead, nth_error_app2 by lia.
        replace (length hpre_r - length hpre_r) with 0 by lia. reflexivity.
      Qed.

      Lemma rep_sym : lookup_sym tab sym = Some e.
      Proof. apply (head_sym (CRepeat v ex sym)); [|reflexivity]. rewrite Hhead. apply in_or_app. right. now left. Qed.

      Lemma ridx_lt : ridx < L.
      Proof. unfold ridx. assert (length hpre_r < length head) by (rewrite Hhead, app_length; simpl; lia). lia. Qed.

      Lemma loop_run : forall k fuel mj,
        fuel <= S n -> pc D mj = e -> EI true ridx mj -> r_rep (rg D mj) = Some k ->
        Reaches L fuel mj (SegPost m0 (S e)).
      Proof.
        assert (Hh2 : head = (hpre_r ++ [CRepeat v ex sym]) ++ hs') by (rewrite <- app_assoc; exact Hhead).
        assert (Hl2 : o + 1 + length (hpre_r ++ [CRepeat v ex sym]) = S ridx) by (rewrite app_length; simpl; unfold ridx; lia).
        induction k as [|k IH]; intros fuel mj Hf Hpc Hei Hk.
        - (* last item done: leave the loop *)
          eapply reaches_bind; [apply (end_back fuel mj ridx Hf Hpc Hei)|].
          intros f1 m1 Hf1 (P1 & P2 & P3). rewrite Hk in P3.
          destruct f1 as [|f]; [apply reaches_0|].
          destruct (unwind_true _ _ _ (ei_cx _ _ _ P2)) as (a & b & Ea & Eb & Ec).
          pose proof (ei_ss _ _ _ P2) as Ess. simpl in Ess.
          eapply reaches_step; [rewrite P1; apply ridx_lt | rewrite P1; apply N_rep | |].
          + unfold step. simpl. rewrite P3. unfold remove_repeat, pop_locals. simpl. rewrite Ea. simpl.
            rewrite Eb, rep_sym, Ess. reflexivity.
          + apply (end_run f _ ridx); [lia | reflexivity |].
            destruct P2. constructor; simpl; auto.
        - eapply reaches_bind; [apply (end_back fuel mj ridx Hf Hpc Hei)|].
          intros f1 m1 Hf1 (P1 & P2 & P3). rewrite Hk in P3.
          destruct f1 as [|f]; [apply reaches_0|].
          eapply reaches_step; [rewrite P1; apply ridx_lt | rewrite P1; apply N_rep | |].
          + unfold step. simpl. rewrite P3. reflexivity.
          + eapply reaches_bind.
            * apply (tail_run hs' _ true ridx Hh2 Hs' f); [lia | simpl; lia |].
              destruct P2. constructor; simpl; auto; [eauto | now rewrite unwind_set_act].
            * simpl. intros f2 m2 Hf2 (Q1 & Q2 & Q3). apply (IH f2 m2); [lia | exact Q1 | exact Q2 | exact Q3].
      Qed.
    End Loop.

    Lemma EI_false_any r1 r2 mj : EI false r1 mj -> EI false r2 mj.
    Proof. intros H. destruct H. constructor; auto. Qed.

    Lemma slots_of_cmd c e0 sl sym : In c head -> c = CUseMacro e0 sl sym -> slots_ok sl.
    Proof.
      intros Hin Ec n0 s Hl. apply (slots_in_subs c (head_in_prog c Hin)). subst c. simpl.
      clear - Hl. induction sl as [|[k v0] r IH]; simpl in *; [discriminate|].
      destruct (str_eqb k n0); [inversion Hl; now left | right; now apply IH].
    Qed.

    (* the commands of the element from position |hpre| on, no repeat in progress *)
    Lemma pre_run : forall hs hpre lo,
      head = hpre ++ hs -> head_sorted lo hs = true ->
      forall fuel mj, fuel <= S n -> pc D mj = o + 1 + length hpre -> EI false 0 mj ->
      (3 <= lo \/ r_lvd (rg D mj) = false) ->
      Reaches L fuel mj (SegPost m0 (S e)).
    Proof.
      induction hs as [|c hs IH]; intros hpre lo Hh Hs fuel mj Hf Hpc Hei Hlvd.
      - eapply reaches_bind; [apply (tail_run [] hpre false 0 Hh eq_refl fuel mj Hf Hpc Hei)|].
        simpl. intros f1 m1 Hf1 (P1 & P2 & _). apply (end_run f1 m1 0); [lia | exact P1 | exact P2].
      - pose proof Hs as Hs0. simpl in Hs. destruct (head_rank c) as [k|] eqn:Ek; [|discriminate].
        apply andb_true_iff in Hs. destruct Hs as [Hk Hs]. apply Nat.ltb_lt in Hk.
        assert (Hin : In c head) by (rewrite Hh; apply in_or_app; right; now left).
        assert (Hnth : nth_error prog (pc D mj) = Some c).
        { rewrite Hpc. apply N_head. rewrite Hh. rewrite nth_error_app2 by lia.
          replace (length hpre - length hpre) with 0 by lia. reflexivity. }
        assert (Hh' : head = (hpre ++ [c]) ++ hs) by (rewrite <- app_assoc; exact Hh).
        assert (Hlen : o + 1 + length (hpre ++ [c]) = S (o + 1 + length hpre)) by (rewrite app_length; simpl; lia).
        assert (Hlt : pc D mj < L).
        { assert (length hpre < length head) by (rewrite Hh, app_length; simpl; lia). lia. }
        assert (Tail : 5 < k -> Reaches L fuel mj (SegPost m0 (S e))).
        { intros H5. eapply reaches_bind.
          - apply (tail_run (c :: hs) hpre false 0 Hh); [|exact Hf | exact Hpc | exact Hei].
            simpl. rewrite Ek. apply andb_true_iff. split; [now apply Nat.ltb_lt | exact Hs].
          - simpl. intros f1 m1 Hf1 (P1 & P2 & _). apply (end_run f1 m1 0); [lia | exact P1 | exact P2]. }
        destruct fuel as [|f]; [apply reaches_0|].
        assert (Next : forall m1 : machD, stepD (runD f) c mj = Done m1 ->
                  pc D m1 = S (pc D mj) -> EI false 0 m1 -> (3 <= k \/ r_lvd (rg D m1) = false) ->
                  Reaches L (S f) mj (SegPost m0 (S e))).
        { intros m1 E1 E2 E3 E4. eapply reaches_step; [exact Hlt | exact Hnth | exact E1 |].
          apply (IH _ k Hh' Hs f m1); [lia | lia | exact E3 | exact E4]. }
        assert (Jump : forall m1 : machD, stepD (runD f) c mj = Done m1 -> pc D m1 = e -> EI false 0 m1 ->
                  Reaches L (S f) mj (SegPost m0 (S e))).
        { intros m1 E1 E2 E3. eapply reaches_step; [exact Hlt | exact Hnth | exact E1 |].
          apply (end_run f m1 0); [lia | exact E2 | exact E3]. }
        pose proof (ei_rep _ _ _ Hei) as Erep. simpl in Erep.
        destruct c; simpl in Ek; inversion Ek; subst k; try (apply Tail; lia).
        + (* CDefine *)
          assert (Elv : r_lvd (rg D mj) = false) by (destruct Hlvd; [lia | assumption]).
          destruct (do_defines args false (cx D mj)) as [found c1] eqn:Ed.
          pose proof (do_defines_scopes _ _ _ _ _ Ed) as Sc. simpl in Sc.
          pose proof (ei_cx _ _ _ Hei) as Ecx. rewrite Elv in Ecx. simpl in Ecx. inversion Ecx as [Ecx'].
          eapply Next; [unfold step; simpl; rewrite Ed; reflexivity | reflexivity | | left; lia].
          destruct Hei. constructor; simpl; auto.
          unfold unwind. destruct found; [rewrite Sc, Ecx'; reflexivity | rewrite Sc, Ecx'; reflexivity].
        + (* CCondition *)
          destruct (o_cond (dat D mj) (CCondition e0 sym)) eqn:Ec.
          * eapply Next; [unfold step; simpl; rewrite Ec; reflexivity | reflexivity | | left; lia].
            destruct Hei. constructor; simpl; auto.
          * assert (Hsym : lookup_sym tab sym = Some e) by (apply (head_sym _ _ Hin); reflexivity).
            eapply Jump; [unfold step; simpl; rewrite Ec, Hsym; reflexivity | reflexivity |].
            destruct Hei. constructor; simpl; auto.
        + (* CRepeat *)
          assert (Hsym : lookup_sym tab sym = Some e) by (apply (head_sym _ _ Hin); reflexivity).
          destruct (o_rep (dat D mj) (CRepeat v e0 sym)) as [| |k] eqn:Er.
          * eapply Next; [unfold step; simpl; rewrite Erep, Er; reflexivity | reflexivity | | left; lia].
            destruct Hei. constructor; simpl; auto.
          * eapply Jump; [unfold step; simpl; rewrite Erep, Er, Hsym; reflexivity | reflexivity |].
            destruct Hei. constructor; simpl; auto.
          * eapply reaches_step; [exact Hlt | exact Hnth | unfold step; simpl; rewrite Erep, Er; reflexivity |].
            eapply reaches_bind.
            -- apply (tail_run hs _ true (o + 1 + length hpre) Hh' Hs f); [lia | simpl; lia |].
               destruct Hei. constructor; simpl; auto; [simpl in *; congruence | eauto |].
               now rewrite unwind_add_repeat.
            -- simpl. intros f2 m2 Hf2 (Q1 & Q2 & Q3).
               apply (loop_run hpre v e0 sym hs Hh Hs k f2 m2); [lia | exact Q1 | exact Q2 | exact Q3].
        + (* CUseMacro *)
          assert (Hsym : lookup_sym tab sym = Some e) by (apply (head_sym _ _ Hin); reflexivity).
          assert (Plain : Reaches L (S f) mj (SegPost m0 (S e))).
          { destruct (o_mac (dat D mj) (CUseMacro e0 slots sym)) as [| |i] eqn:Em.
            - eapply Next; [unfold step; simpl; rewrite Em, Hsym; reflexivity | reflexivity | |
                            destruct Hlvd; [left; lia | right; simpl; assumption]].
              destruct Hei. constructor; simpl; auto.
            - eapply Next; [unfold step; simpl; rewrite Em; reflexivity | reflexivity | |
                            destruct Hlvd; [left; lia | right; simpl; assumption]].
              destruct Hei. constructor; simpl; auto.
            - destruct (nth_error subs i) as [s|] eqn:Es.
              + eapply Jump; [unfold step; simpl; rewrite Em, Es, Hsym; reflexivity | reflexivity |].
                destruct Hei. constructor; simpl; auto.
                * eapply nth_error_In; eauto.
                * eapply slots_of_cmd; eauto.
              + eapply Next; [unfold step; simpl; rewrite Em, Es; reflexivity | reflexivity | |
                              destruct Hlvd; [left; lia | right; simpl; assumption]].
                destruct Hei. constructor; simpl; auto. }
          exact Plain.
        + (* CDefineSlot *)
          assert (Hsym : lookup_sym tab sym = Some e) by (apply (head_sym _ _ Hin); reflexivity).
          destruct (lookup_slot (curs D mj) name) as [s|] eqn:Esl.
          * eapply Jump; [unfold step; simpl; rewrite Esl, Hsym; reflexivity | reflexivity |].
            destruct Hgood0 as (_ & G2 & _).
            destruct Hei. constructor; simpl; auto. apply (G2 name). congruence.
          * eapply Next; [unfold step; simpl; rewrite Esl; reflexivity | reflexivity | |
                          destruct Hlvd; [left; lia | right; simpl; assumption]].
            destruct Hei. constructor; simpl; auto.
    Qed.

    (* the whole element *)
    Lemma elem_run fuel : fuel <= S n -> pc D m0 = o -> Reaches L fuel m0 (SegPost m0 (S e)).
    Proof.
      intros Hf Hpc. destruct fuel as [|f]; [apply reaches_0|].
      eapply reaches_step; [lia | rewrite Hpc; apply N_sc | apply (step_scope _ _ _ Hsc) |].
      apply (pre_run head [] 0 eq_refl Hsorted f); [lia | simpl; lia | | right; reflexivity].
      destruct Hgood0 as (G1 & G2 & G3). constructor; simpl; auto.
    Qed.
  End Elem.

  Definition SegStmt (n : nat) (o : nat) (l : list cmd) : Prop :=
    forall pre post, prog = pre ++ l ++ post -> length pre = o ->
    forall L fuel m, fuel <= n -> o + length l <= L -> pc D m = o -> Good m ->
    Reaches L fuel m (SegPost m (o + length l)).

  Lemma SegPost_trans m m1 m2 t1 t2 : SegPost m t1 m1 -> SegPost m1 t2 m2 -> SegPost m t2 m2.
  Proof.
    intros (A1 & A2 & A3 & A4 & A5 & A6) (B1 & B2 & B3 & B4 & B5 & B6).
    repeat split; auto; congruence.
  Qed.

  Lemma step_fuel n : ElemP n ->
    (forall o l, wfitems tab o l -> SegStmt (S n) o l) /\ (forall o l, wfelem tab o l -> SegStmt (S n) o l).
  Proof.
    intros Hn. apply (wf_min tab (SegStmt (S n)) (SegStmt (S n))).
    - (* no items *)
      intros o pre post Hp Hl L fuel m Hf HL Hpc Hg. apply reaches_here.
      repeat split; auto; [simpl; lia | apply Hg].
    - (* OUTPUT *)
      intros o c rest Hout _ IH pre post Hp Hl L fuel m Hf HL Hpc Hg. simpl in HL.
      destruct fuel as [|f]; [apply reaches_0|].
      assert (Hnth : nth_error prog (pc D m) = Some c).
      { rewrite Hpc, <- Hl. replace (length pre) with (length pre + 0) by lia.
        rewrite (nth_error_seg pre (c :: rest) post 0 Hp); [reflexivity | simpl; lia]. }
      eapply reaches_step; [lia | exact Hnth | apply (step_out _ _ _ Hout) |].
      eapply reaches_weaken.
      + apply (IH (pre ++ [c]) post); [rewrite Hp, <- app_assoc; reflexivity | rewrite app_length; simpl; lia | lia | lia |
                                        simpl; lia | exact Hg].
      + intros m' (A1 & A2 & A3 & A4 & A5 & A6). simpl in *. repeat split; auto. lia.
    - (* element followed by items *)
      intros o el rest _ IHel _ IHrest pre post Hp Hl L fuel m Hf HL Hpc Hg. rewrite app_length in HL.
      eapply reaches_bind.
      + apply (IHel pre (rest ++ post)); [rewrite Hp, <- app_assoc; reflexivity | exact Hl | exact Hf | lia | exact Hpc | exact Hg].
      + intros f1 m1 Hf1 P1. eapply reaches_weaken.
        * apply (IHrest (pre ++ el) post); [rewrite Hp, <- !app_assoc; reflexivity | rewrite app_length; lia | lia | lia | apply P1 |].
          destruct P1 as (A1 & A2 & A3 & A4 & A5 & A6). destruct Hg as (G1 & G2 & G3).
          repeat split; [exact A6 | rewrite A4; exact G2 | rewrite A3; exact G3].
        * intros m2 P2. rewrite app_length. replace (o + (length el + length rest)) with (o + length el + length rest) by lia.
          eapply SegPost_trans; eauto.
    - (* one element *)
      intros o sc head st body en Hsc Hsorted Hst Hen Hsyms _ IHbody pre post Hp Hl L fuel m Hf HL Hpc Hg.
      assert (Len : length (sc :: head ++ st :: body ++ [en]) = 3 + length head + length body).
      { simpl. rewrite app_length. simpl. rewrite app_length. simpl. lia. }
      rewrite Len in *.
      replace (o + (3 + length head + length body)) with (S (o + 2 + length head + length body)) by lia.
      apply (elem_run n Hn o (o + 2 + length head + length body) sc head st body en pre post eq_refl Hp Hl
                      Hsc Hsorted Hst Hen Hsyms); auto. lia.
  Qed.

  Lemma all_fuel : forall n, ElemP n.
  Proof.
    induction n as [|n IH].
    - intros o el pre post Hp Hl W L fuel m Hf. assert (fuel = 0) by lia. subst. intros. apply reaches_0.
    - intros o el pre post Hp Hl W. exact (proj2 (step_fuel n IH) o el W pre post Hp Hl).
  Qed.

  Lemma items_all : forall n o l, wfitems tab o l -> SegStmt n o l.
  Proof.
    intros [|n] o l W.
    - intros pre post Hp Hl L fuel m Hf. assert (fuel = 0) by lia. subst. intros. apply reaches_0.
    - exact (proj1 (step_fuel n (all_fuel n)) o l W).
  Qed.

  (* ---- the whole program ---- *)
  Theorem vm_run_restores :
    wfitems tab 0 prog ->
    forall fuel c d,
      vm_run prog tab subs D o_cond o_rep o_val o_mac o_upd fuel c d <> Stuck /\
      forall mf, vm_run prog tab subs D o_cond o_rep o_val o_mac o_upd fuel c d = Done mf ->
        c_sc (cx D mf) = c_sc c /\ sstack D mf = [] /\ pc D mf = length prog.
  Proof.
    intros W fuel c d. unfold vm_run.
    assert (R : Reaches (length prog) fuel (init D c d) (SegPost (init D c d) (0 + length prog))).
    { apply (items_all fuel 0 prog W [] []); auto; [now rewrite app_nil_r | ].
      repeat split; simpl; auto; intros ? ? X; discriminate X. }
    destruct R as [R|(f' & m' & Hle & Hr & (P1 & P2 & P3 & P4 & P5 & P6))].
    - rewrite R. split; [discriminate | intros mf X; discriminate X].
    - rewrite Hr. destruct (run_at_limit f' (length prog) m') as [X|X]; [simpl in P1; lia | |]; rewrite X.
      + split; [discriminate | intros mf Y; discriminate Y].
      + split; [discriminate|]. intros mf Y. inversion Y; subst mf. simpl in *. auto.
  Qed.
End VMFacts.

(* ---- closed form: for every program accepted by wf_program ---- *)
Lemma in_prog_slots p c s : In c p -> In s (cmd_slots c) -> In s (prog_slots p).
Proof. intros Hc Hs. unfold prog_slots. apply in_flat_map. eauto. Qed.

Theorem context_restored :
  forall (p : program) (t : symtab) (m : macrotab), wf_program p t m = true ->
  forall (D : Type) o_cond o_rep o_val o_mac o_upd (fuel : nat) (c : ctx) (d : D),
    vm_run p t (all_subs p m) D o_cond o_rep o_val o_mac o_upd fuel c d <> Stuck /\
    forall mf, vm_run p t (all_subs p m) D o_cond o_rep o_val o_mac o_upd fuel c d = Done mf ->
      c_sc (cx D mf) = c_sc c /\ sstack D mf = [] /\ pc D mf = length p.
Proof.
  intros p t m Hwf D o_cond o_rep o_val o_mac o_upd fuel c d.
  destruct (wf_program_sound p t m Hwf) as [W V].
  apply vm_run_restores; auto.
  intros c0 Hc s Hs. unfold all_subs. apply in_or_app. right. eapply in_prog_slots; eauto.
Qed.

(* ---- globals: an expansion only ever binds names of explicit `global` defines
        (and re-binds the built-in `repeat` / `attrs` slots) ---- *)
Section Globals.
  Variable prog : program.
  Variable tab : symtab.
  Variable subs : list subt.
  Variable D : Type.
  Variable o_cond : D -> cmd -> bool.
  Variable o_rep : D -> cmd -> rep_dec.
  Variable o_val : D -> cmd -> val_dec.
  Variable o_mac : D -> cmd -> mac_dec.
  Variable o_upd : D -> nat -> cmd -> D.
  Variable G0 : list str.

  Definition allowed (x : str) : Prop := In x G0 \/ In x (prog_globals prog) \/ x = REPEAT \/ x = ATTRS.
  Definition Ginv (c : ctx) : Prop := forall x, In x (c_globals c) -> allowed x.

  Lemma add_name_in x n l : In x (add_name n l) -> x = n \/ In x l.
  Proof. unfold add_name. destruct (mem_str n l); simpl; intuition. Qed.

  Lemma Ginv_add n c : allowed n -> Ginv c -> Ginv (add_global n c).
  Proof. intros Hn H x Hx. simpl in Hx. apply add_name_in in Hx. destruct Hx; [subst; auto | auto]. Qed.

  Lemma Ginv_same c c' : c_globals c' = c_globals c -> Ginv c -> Ginv c'.
  Proof. intros E H x Hx. rewrite E in Hx. auto. Qed.

  Lemma allowed_attrs : allowed ATTRS. Proof. right; right; right; reflexivity. Qed.
  Lemma allowed_repeat : allowed REPEAT. Proof. right; right; left; reflexivity. Qed.

  Lemma Ginv_touch c : Ginv c -> Ginv (touch_attrs c).
  Proof. apply Ginv_add, allowed_attrs. Qed.

  Lemma Ginv_pop c c' : pop_locals c = Some c' -> Ginv c -> Ginv c'.
  Proof. unfold pop_locals. destruct (sc_pop (c_sc c)); [|discriminate]. intros E. inversion E. now apply Ginv_same. Qed.

  Lemma Ginv_remove c c' : remove_repeat c = Some c' -> Ginv c -> Ginv c'.
  Proof.
    unfold remove_repeat. destruct (sc_remove_repeat (c_sc c)); [|discriminate]. intros E H. inversion E; subst.
    intros x Hx. simpl in Hx. apply add_name_in in Hx. destruct Hx; [subst; apply allowed_repeat | auto].
  Qed.

  Lemma Ginv_add_repeat v c : Ginv c -> Ginv (add_repeat v c).
  Proof. intros H x Hx. simpl in Hx. apply add_name_in in Hx. destruct Hx; [subst; apply allowed_repeat | auto]. Qed.

  Lemma Ginv_defines : forall args fnd c fnd' c',
    (forall a, In a args -> fst a = false -> allowed (fst (snd a))) ->
    do_defines args fnd c = (fnd', c') -> Ginv c -> Ginv c'.
  Proof.
    induction args as [|[isloc [name e]] r IH]; intros fnd c fnd' c' Hall H G; simpl in H.
    - inversion H; subst. exact G.
    - assert (Hr : forall a, In a r -> fst a = false -> allowed (fst (snd a))) by (intros a Ha; apply Hall; now right).
      destruct isloc.
      + eapply IH; [exact Hr | exact H |]. destruct fnd; eapply Ginv_same; try apply (Ginv_touch c G); reflexivity.
      + eapply IH; [exact Hr | exact H |]. apply Ginv_add; [|now apply Ginv_touch].
        apply (Hall (false, (name, e))); [now left | reflexivity].
  Qed.

  Lemma define_allowed c args : In c prog -> c = CDefine args ->
    forall a, In a args -> fst a = false -> allowed (fst (snd a)).
  Proof.
    intros Hc Ec a Ha Hf. right. left. unfold prog_globals. apply in_flat_map. exists c. split; [exact Hc|].
    subst c. simpl. apply in_map_iff. exists a. split; [reflexivity|]. apply filter_In. split; [exact Ha|]. now rewrite Hf.
  Qed.

  Notation machD := (mach D).
  Notation runD := (run prog tab subs D o_cond o_rep o_val o_mac o_upd).
  Notation stepD := (step tab subs D o_cond o_rep o_val o_mac o_upd).

  Lemma step_globals (call : nat -> machD -> res machD) c (m m1 : machD) :
    In c prog ->
    (forall L' mc r', call L' mc = Done r' -> Ginv (cx D mc) -> Ginv (cx D r')) ->
    stepD call c m = Done m1 -> Ginv (cx D m) -> Ginv (cx D m1).
  Proof.
    intros Hc Hcall Hs G. unfold step in Hs.
    destruct c; simpl in Hs.
    - destruct (do_defines args false (cx D m)) as [found c1] eqn:Ed. inversion Hs; subst; simpl.
      eapply Ginv_defines; [apply (define_allowed _ args Hc eq_refl) | exact Ed | exact G].
    - destruct (o_cond _ _); [inversion Hs; subst; simpl; now apply Ginv_touch|].
      destruct (lookup_sym tab sym); inversion Hs; subst; simpl; now apply Ginv_touch.
    - destruct (r_rep (rg D m)) as [[|k]|].
      + destruct (remove_repeat (cx D m)) as [c1|] eqn:E1; [|discriminate].
        destruct (pop_locals c1) as [c2|] eqn:E2; [|discriminate].
        destruct (lookup_sym tab sym); [|discriminate]. destruct (sstack D m) as [|[|] ss]; try discriminate.
        inversion Hs; subst; simpl. eapply Ginv_pop; [exact E2|]. eapply Ginv_remove; eauto.
      + inversion Hs; subst; simpl. eapply Ginv_same; [|exact G]. reflexivity.
      + destruct (o_rep _ _).
        * inversion Hs; subst; simpl. now apply Ginv_touch.
        * destruct (lookup_sym tab sym); inversion Hs; subst; simpl. now apply Ginv_touch.
        * inversion Hs; subst; simpl. apply Ginv_add_repeat. now apply Ginv_touch.
    - destruct (o_val _ _); try (destruct (lookup_sym tab sym)); inversion Hs; subst; simpl; now apply Ginv_touch.
    - inversion Hs; subst; simpl. now apply Ginv_touch.
    - inversion Hs; subst; simpl. now apply Ginv_touch.
    - inversion Hs; subst; simpl. exact G.
    - inversion Hs; subst; simpl. exact G.
    - destruct (r_fwd (rg D m)); inversion Hs; subst; simpl; exact G.
    - (* ENDTAG_ENDSCOPE *)
      assert (Fin : forall m2 : machD, Ginv (cx D m2) ->
                match r_back (rg D m) with
                | Some b => Done (set_pc D b m2)
                | None =>
                    match (if r_lvd (rg D m) then pop_locals (cx D m2) else Some (cx D m2)), sstack D m2 with
                    | Some c2, SScope r0 :: ss => Done (next D (set_ss D ss (set_rg D r0 (set_cx D c2 m2))))
                    | _, _ => Stuck
                    end
                end = Done m1 -> Ginv (cx D m1)).
      { intros m2 G2 H. destruct (r_back (rg D m)); [inversion H; subst; exact G2|].
        destruct (r_lvd (rg D m)).
        - destruct (pop_locals (cx D m2)) as [c2|] eqn:E2; [|discriminate].
          destruct (sstack D m2) as [|[|] ss]; try discriminate. inversion H; subst; simpl. eapply Ginv_pop; eauto.
        - destruct (sstack D m2) as [|[|] ss]; try discriminate. inversion H; subst; simpl. exact G2. }
      destruct (r_tc (rg D m)) as [| |s].
      + eapply Fin; [|exact Hs]. exact G.
      + eapply Fin; [|exact Hs]. exact G.
      + destruct (lookup_sym tab (snd s)); [|discriminate].
        destruct (call _ _) as [m2| |] eqn:Ec; try discriminate.
        eapply Fin; [|exact Hs]. simpl. eapply Hcall; [exact Ec|]. exact G.
    - inversion Hs; subst; simpl. exact G.
    - destruct (o_mac _ _) as [| |i].
      + destruct (lookup_sym tab sym); inversion Hs; subst; simpl; now apply Ginv_touch.
      + inversion Hs; subst; simpl; now apply Ginv_touch.
      + destruct (nth_error subs i); [destruct (lookup_sym tab sym)|]; inversion Hs; subst; simpl; now apply Ginv_touch.
    - destruct (lookup_slot _ _); [destruct (lookup_sym tab sym)|]; inversion Hs; subst; simpl; exact G.
  Qed.

  Lemma run_globals : forall fuel L (m r : machD), runD fuel L m = Done r -> Ginv (cx D m) -> Ginv (cx D r).
  Proof.
    induction fuel as [|f IH]; intros L m r H G; [discriminate|].
    simpl in H. destruct (Nat.leb L (pc D m)); [inversion H; subst; exact G|].
    destruct (nth_error prog (pc D m)) as [c|] eqn:En; [|discriminate].
    destruct (step tab subs D o_cond o_rep o_val o_mac o_upd (runD f) c m) as [m1| |] eqn:Es; try discriminate.
    apply (IH L m1 r H). eapply step_globals; [eapply nth_error_In; eauto | | exact Es | exact G].
    intros L' mc r' Hr Gc. eapply IH; eauto.
  Qed.
End Globals.

Theorem globals_only_explicit :
  forall (p : program) (t : symtab) (subs : list subt) (D : Type) o_cond o_rep o_val o_mac o_upd fuel (c : ctx) (d : D) mf,
    vm_run p t subs D o_cond o_rep o_val o_mac o_upd fuel c d = Done mf ->
    forall x, In x (c_globals (cx D mf)) ->
      In x (c_globals c) \/ In x (prog_globals p) \/ x = REPEAT \/ x = ATTRS.
Proof.
  intros p t subs D o_cond o_rep o_val o_mac o_upd fuel c d mf H x Hx.
  apply (run_globals p t subs D o_cond o_rep o_val o_mac o_upd (c_globals c) fuel (length p) _ mf H); [|exact Hx].
  intros y Hy. left. exact Hy.
Qed.
