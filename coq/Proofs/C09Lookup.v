(* C09Lookup.v — the repaired lookup of gophermap links (gophermap.py, /repo 10ac772): the VFS is consulted only for
   selectors that pass the request filter.  Facts about the instantiation used by the correspondence (Corr/K09.v). *)
From Coq Require Import String ZArith.
From PG Require Import Lib.Str Lib.PyInt Model.Selector Model.Entry Model.Render0 Model.Gophermap Model.GophermapSpec Corr.K09.
Local Open Scope N_scope.
Lemma insecure_link_not_looked_up existing populate e :
  is_secure (e_selector e) = false -> populate_local (k_exists existing) populate e = e.
Proof.
  intros H. unfold populate_local, k_exists. rewrite H. simpl.
  destruct (e_host e); destruct (e_port e); reflexivity.
Qed.
Lemma insecure_link_not_looked_up_zip zipname members outside populate e :
  is_secure (e_selector e) = false -> populate_local (k_exists_zip zipname members outside) populate e = e.
Proof.
  intros H. unfold populate_local, k_exists_zip. rewrite H. simpl.
  destruct (e_host e); destruct (e_port e); reflexivity.
Qed.
(* and whatever the tree looks like outside the root, the entry built for such a link is the same *)
Lemma insecure_link_independent ex1 ex2 populate1 populate2 e :
  is_secure (e_selector e) = false ->
  populate_local (k_exists ex1) populate1 e = populate_local (k_exists ex2) populate2 e.
Proof. intros H. now rewrite !insecure_link_not_looked_up. Qed.
