From Coq Require Import Lia.
From Coq Require Import String.
From PG Require Import Lib.Str Lib.StrFacts Gen.Secure Model.Selector Proofs.SelectorFacts.
Local Open Scope N_scope.

Definition climbers : list str := [[46;47]; [46;46]; [47;47]; [46;92]; [92;92]; [0]].

(* This is where the exact text of isrequestsecure enters: every documented
   climber must be one of the generated patterns. *)
Lemma climbers_in_filter : forallb (fun p => mem_str p base_patterns) climbers = true.
Proof. vm_compute. reflexivity. Qed.

Lemma climber_in p : In p climbers -> In p base_patterns.
Proof.
  intros H. pose proof climbers_in_filter as F. rewrite forallb_forall in F.
  apply mem_str_In. now apply F.
Qed.

Lemma climbers_rejected s p : In p climbers -> contains p s = true -> is_secure s = false.
Proof. intros H C. apply (secure_with_rejects _ p); [now apply climber_in | exact C]. Qed.

Lemma secure_substring_closed a s b : is_secure (a ++ s ++ b) = true -> is_secure s = true.
Proof. apply secure_with_substring_closed. Qed.

Lemma dotdot_climber : In DOTDOT climbers. Proof. simpl. tauto. Qed.
Lemma nul_climber : In [0] climbers. Proof. simpl. tauto. Qed.

Lemma secure_no_dotdot s : is_secure s = true -> ~ In DOTDOT (components s).
Proof. intros H. apply (secure_with_no_component base_patterns); [apply climber_in, dotdot_climber | exact H]. Qed.

Lemma secure_no_nul s : is_secure s = true -> has_nul s = false.
Proof.
  intros H. unfold has_nul. apply contains_single_mem.
  unfold is_secure in H. rewrite is_secure_with_spec in H. apply H, climber_in, nul_climber.
Qed.

Lemma secure_confined root s p :
  is_secure s = true -> starts_with_slash s = true ->
  getfspath root s = Some p -> inside root p = true /\ has_nul s = false.
Proof.
  intros H S G. split; [|now apply secure_no_nul].
  apply (getfspath_inside root s p S); [now apply secure_no_dotdot | exact G].
Qed.

(* ---- derived paths ---- *)
(* Suffixes handlers append to the (secure) selector before going to the VFS:
   gophermap.py "/gophermap"; mbox.py "/new" "/cur"; gopherentry.py handleeaext
   ".abstract" ".keywords" ".ask" ".3d" (files) and "/.abstract" ... (directories);
   dir.py "/" ++ cachefile. *)
Definition derived_suffixes : list str :=
  map lit ["/gophermap"; "/new"; "/cur"; ".abstract"; ".keywords"; ".ask"; ".3d";
           "/.abstract"; "/.keywords"; "/.ask"; "/.3d"; "/.cache.pygopherd.dir"; ""]%string.

(* components of s ++ t when t has no separator: only the last component changes *)
Lemma components_app_nosep s t :
  mem_N SLASH t = false ->
  exists init l, components s = init ++ [l] /\ components (s ++ t) = init ++ [l ++ t].
Proof.
  intros Ht. unfold components. induction s as [|x s IH]; simpl.
  - exists [], []. split; [reflexivity|]. simpl. now rewrite split_on_no_sep.
  - destruct IH as (init & l & E1 & E2). destruct (x =? SLASH).
    + exists ([] :: init), l. rewrite E1, E2. split; reflexivity.
    + rewrite E1, E2. destruct init as [|i init]; simpl.
      * exists [], (x :: l). split; reflexivity.
      * exists ((x :: i) :: init), l. split; reflexivity.
Qed.

Lemma no_dotdot_app_nosep s t :
  ~ In DOTDOT (components s) -> mem_N SLASH t = false ->
  (forall l, l ++ t <> DOTDOT \/ t = []) ->
  ~ In DOTDOT (components (s ++ t)).
Proof.
  intros Hs Ht Hl. destruct (components_app_nosep s t Ht) as (init & l & E1 & E2).
  rewrite E2. rewrite E1 in Hs. intro H. apply in_app_or in H as [H|H].
  - apply Hs, in_or_app. now left.
  - destruct H as [H|[]]. destruct (Hl l) as [N|N]; [congruence|].
    subst t. rewrite app_nil_r in H. apply Hs, in_or_app. right. now left.
Qed.

Lemma no_dotdot_app_slash s t :
  ~ In DOTDOT (components s) -> ~ In DOTDOT (components t) ->
  ~ In DOTDOT (components (s ++ SLASH :: t)).
Proof.
  intros Hs Ht. rewrite components_app_slash. intro H.
  apply in_app_or in H as [H|H]; tauto.
Qed.

Lemma starts_with_slash_app s t : starts_with_slash s = true -> starts_with_slash (s ++ t) = true.
Proof. destruct s; [discriminate | trivial]. Qed.

(* each derived suffix is either "/" ++ w or w, with w free of "/" and not
   completing a ".." component *)
Definition suffix_ok (suf : str) : bool :=
  let w := match suf with c :: r => if c =? SLASH then r else suf | [] => [] end in
  negb (mem_N SLASH w) &&
  match rev w with
  | [] => true
  | c :: _ => negb (c =? 46)      (* last character is not "." *)
  end &&
  negb (str_eqb w DOTDOT).

Lemma derived_suffixes_ok : forallb suffix_ok derived_suffixes = true.
Proof. vm_compute. reflexivity. Qed.

Lemma app_last_not_dot l w c r : rev w = c :: r -> c <> 46 -> l ++ w <> DOTDOT.
Proof.
  intros Hr Hc E. assert (rev (l ++ w) = rev DOTDOT) by now rewrite E.
  rewrite rev_app_distr, Hr in H. simpl in H. inversion H. congruence.
Qed.

Lemma suffix_ok_no_dotdot s suf :
  suffix_ok suf = true -> ~ In DOTDOT (components s) -> ~ In DOTDOT (components (s ++ suf)).
Proof.
  unfold suffix_ok. intros H Hs.
  apply andb_true_iff in H as [H H3]. apply andb_true_iff in H as [H1 H2].
  apply negb_true_iff in H1. apply negb_true_iff in H3. apply str_eqb_neq in H3.
  destruct suf as [|c r]; [now rewrite app_nil_r|].
  destruct (c =? SLASH) eqn:E.
  - apply N.eqb_eq in E. subst c. apply no_dotdot_app_slash; [exact Hs|].
    unfold components. rewrite split_on_no_sep by exact H1. intros [X|[]]. congruence.
  - apply no_dotdot_app_nosep; [exact Hs | exact H1 |].
    intros l. left. destruct (rev (c :: r)) as [|d q] eqn:R.
    + apply (f_equal (@rev N)) in R. rewrite rev_involutive in R. discriminate.
    + apply negb_true_iff, N.eqb_neq in H2. eapply app_last_not_dot; eauto.
Qed.

Lemma derived_confined root s suffix p :
  is_secure s = true -> starts_with_slash s = true -> In suffix derived_suffixes ->
  getfspath root (s ++ suffix) = Some p -> inside root p = true.
Proof.
  intros H S I G. pose proof derived_suffixes_ok as F. rewrite forallb_forall in F.
  apply (getfspath_inside root (s ++ suffix) p); [now apply starts_with_slash_app | | exact G].
  apply suffix_ok_no_dotdot; [now apply F | now apply secure_no_dotdot].
Qed.

Lemma child_confined root base name p :
  ~ In DOTDOT (components base) -> (base = [] \/ starts_with_slash base = true) ->
  name <> DOTDOT -> mem_N SLASH name = false ->
  getfspath root (base ++ SLASH :: name) = Some p -> inside root p = true.
Proof.
  intros Hb Hs Hn Hm G.
  apply (getfspath_inside root (base ++ SLASH :: name) p); [| | exact G].
  - destruct Hs as [->|Hs]; [reflexivity | now apply starts_with_slash_app].
  - apply no_dotdot_app_slash; [exact Hb|].
    unfold components. rewrite split_on_no_sep by exact Hm. intros [X|[]]. congruence.
Qed.

(* the real part of a virtual selector and the target of the type rewriter are
   substrings of a secure selector, hence secure and confined themselves *)
Lemma virtual_real_secure s : is_secure s = true -> is_secure (fst (virtual_split s)) = true.
Proof.
  intros H. destruct (virtual_real_is_prefix s) as [t E]. rewrite E in H.
  apply (secure_substring_closed [] _ t). exact H.
Qed.

Lemma rewriter_target_secure s : is_secure s = true -> is_secure (rewriter_target s) = true.
Proof.
  intros H. destruct (rewriter_target_is_suffix s) as [a E]. rewrite E in H.
  apply (secure_substring_closed a _ []). now rewrite app_nil_r.
Qed.

Lemma virtual_confined root s p :
  is_secure s = true -> starts_with_slash s = true -> fst (virtual_split s) <> [] ->
  getfspath root (fst (virtual_split s)) = Some p -> inside root p = true.
Proof.
  intros H S N G. apply (secure_confined root (fst (virtual_split s)) p); auto.
  - now apply virtual_real_secure.
  - now apply virtual_real_starts_slash.
Qed.

Lemma rewriter_confined root s p :
  is_secure s = true -> rewriter_accepts s = true ->
  getfspath root (rewriter_target s) = Some p -> inside root p = true.
Proof.
  intros H A G. apply (secure_confined root (rewriter_target s) p); auto.
  - now apply rewriter_target_secure.
  - now apply rewriter_target_starts_slash.
Qed.

(* Tie to the source: the only classes in pygopherd/handlers that define
   isrequestsecure / isrequestforme are BaseHandler (both) and HTMLURLHandler
   (isrequestsecure) — exactly what Model/Handlers.is_for_me assumes.  A new override
   anywhere changes Gen/Secure.v and breaks this lemma. *)
Lemma overriders_as_modelled :
  list_eqb str_eqb secure_overriders
    (map lit ["base.BaseHandler.isrequestforme"; "base.BaseHandler.isrequestsecure";
              "url.HTMLURLHandler.isrequestsecure"]%string) = true.
Proof. vm_compute. reflexivity. Qed.
