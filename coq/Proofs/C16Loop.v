(* C16Loop.v — phase 2 of populate_cache, the symlink fixpoint: it always
   terminates (the number of pending links is the fuel), and never raises on a
   well-formed archive. *)
From Coq Require Import Arith Lia.
From PG Require Import Lib.Str Lib.StrFacts Lib.ZipPath Proofs.ZipPathFacts Model.Zip Proofs.C16Index Proofs.C16Cache.
Local Open Scope nat_scope.

Ltac splits := repeat match goal with |- _ /\ _ => split end.

Lemma round_len v ps : forall t c t' c' ps',
  round v t c ps = Ok (t', c', ps') -> length ps' <= length ps.
Proof.
  induction ps as [|p r IH]; intros t c t' c' ps'; simpl.
  - intros [= _ _ <-]. simpl. lia.
  - destruct (link_target v p) as [d|e]; [|discriminate].
    destruct (clookup t c d) as [r1 c1]. destruct r1 as [x|].
    + destruct (clookup t c1 d) as [r2 c2]. destruct r2 as [ino|]; [|discriminate].
      destruct (nth_error (t_kinds t) (p_dir p)) as [[|]|]; try discriminate.
      intros H. apply IH in H. lia.
    + destruct (round v t c1 r) as [[[t2 c2] k]|e] eqn:Hr; [|discriminate].
      intros [= _ _ <-]. apply IH in Hr. simpl. lia.
Qed.

Lemma round_not_oof v ps : forall t c, round v t c ps <> Err OutOfFuel.
Proof.
  induction ps as [|p r IH]; intros t c; simpl; [discriminate|].
  destruct (link_target v p) as [d|e] eqn:Hl.
  - destruct (clookup t c d) as [r1 c1]. destruct r1 as [x|].
    + destruct (clookup t c1 d) as [r2 c2]. destruct r2 as [ino|]; [|discriminate].
      destruct (nth_error (t_kinds t) (p_dir p)) as [[|]|]; try discriminate. apply IH.
    + specialize (IH t c1). destruct (round v t c1 r) as [[[t2 c2] k]|e]; [discriminate|congruence].
  - unfold link_target in Hl. destruct (p_dest p) as [|ch d]; [inversion Hl; discriminate|].
    destruct (N.eqb ch SL); discriminate.
Qed.

(* the fuel lemma: more fuel than pending links is always enough *)
Lemma loop_fuel fuel : forall v t c ps lastlen,
  length ps < fuel -> loop fuel v t c ps lastlen <> Err OutOfFuel.
Proof.
  induction fuel as [|f IH]; intros v t c ps lastlen Hlt; [lia|]. simpl.
  destruct (is_nil ps || Nat.eqb (length ps) lastlen) eqn:Hstop; [discriminate|].
  destruct (round v t c ps) as [[[t' c'] ps']|e] eqn:Hr.
  - pose proof (round_len _ _ _ _ _ _ _ Hr) as Hle.
    destruct (Nat.eq_dec (length ps') (length ps)) as [Heq|Hne].
    + destruct f as [|f'].
      * destruct ps; [discriminate|simpl in Hlt; lia].
      * simpl. rewrite Heq, Nat.eqb_refl, orb_true_r. discriminate.
    + apply IH. lia.
  - intros E. inversion E; subst. eapply round_not_oof; eauto.
Qed.

Lemma mkdirp_not_oof levels : forall t c, mkdirp t c levels <> Err OutOfFuel.
Proof.
  induction levels as [|l r IH]; intros t c; simpl; [discriminate|].
  destruct (nth_error (t_kinds t) c) as [[|]|]; try discriminate.
  destruct (eget (c, l) (t_edges t)); apply IH.
Qed.

Lemma phase1_not_oof v ms : forall idx t ps, phase1 v idx t ps ms <> Err OutOfFuel.
Proof.
  induction ms as [|m r IH]; intros idx t ps; simpl; [discriminate|].
  destruct (step1 v idx t ps m) as [[t1 ps1]|e] eqn:Hs; [apply IH|].
  intros E. inversion E; subst. unfold step1 in Hs.
  pose proof (mkdirp_not_oof (name_levels (m_name m)) t 0) as Hm.
  destruct (mkdirp t 0 (name_levels (m_name m))) as [[t1 c]|e]; [|congruence].
  destruct (is_nil (name_base (m_name m))); [discriminate|].
  destruct (m_kind m); try discriminate; destruct (nth_error (t_kinds t1) c) as [[|]|]; discriminate.
Qed.

Lemma populate_terminates v ms : populate v ms <> Err OutOfFuel.
Proof.
  unfold populate. pose proof (phase1_not_oof v ms 0 tbl0 []) as H1.
  destruct (phase1 v 0 tbl0 [] ms) as [[t ps]|e]; [|congruence].
  apply loop_fuel. lia.
Qed.

(* archives without links: phase 2 has nothing to do *)
Lemma populate_no_links v ms :
  wf_zip ms = true -> no_links ms = true ->
  exists t P, populate v ms = Ok (t, no_caches) /\ ginv t P /\ cinv ms ms t P /\ labels_ok t.
Proof.
  intros W NL. destruct (phase1_ok v ms W) as (t & P & ps & H1 & G & C & PI).
  unfold pinv in PI. rewrite (no_links_pending ms NL) in PI. inversion PI; subst.
  exists t, P. unfold populate. rewrite H1. simpl. splits; auto.
  eapply phase1_labels; [apply labels_ok0|exact H1].
Qed.
