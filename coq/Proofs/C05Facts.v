(* C05Facts.v — lemmas behind Props/C05.v: following a rendered link (or submitting a
   search) with the protocol's own request syntax hands the handler chain the
   selector (and search text) that was rendered; slashnormalize on listing selectors;
   the wire level (one CRLF-terminated line, decoded with surrogateescape). *)
From Coq Require Import Lia String Wf_nat.
From PG Require Import Lib.Str Lib.StrFacts Lib.Bytes Lib.Percent Lib.PercentFacts Lib.Utf8 Lib.Utf8Facts
  Lib.PercentStr Lib.PercentStrFacts Lib.Urlparse Lib.Crlf Lib.DecFacts
  Model.ProtoId Model.Selector Model.Detect Model.Request Proofs.SelectorFacts.
Local Open Scope N_scope.


(* ---------- lists ---------- *)
Lemma last_app_ne {A} (a z : list A) d : z <> [] -> last (a ++ z) d = last z d.
Proof.
  intros Z. induction a as [|x a IH]; [reflexivity|]. simpl.
  destruct (a ++ z) eqn:E; [|exact IH].
  apply app_eq_nil in E as [_ E]. contradiction.
Qed.

Lemma forallb_last {A} (P : A -> bool) l d : forallb P l = true -> l <> [] -> P (last l d) = true.
Proof.
  intros F NE. rewrite forallb_forall in F. apply F.
  destruct l as [|x l]; [contradiction|]. clear. revert x. induction l as [|y l IH]; intros x; simpl; [now left|].
  right. apply IH.
Qed.

Lemma mem_N_app x a b : mem_N x (a ++ b) = mem_N x a || mem_N x b.
Proof. induction a as [|y a IHa]; simpl; [reflexivity|]. now rewrite IHa, orb_assoc. Qed.

Lemma mem_N_forallb (P : N -> bool) l d : forallb P l = true -> P d = false -> mem_N d l = false.
Proof.
  intros F Pd. induction l as [|x l IH]; [reflexivity|]. simpl in *.
  apply andb_true_iff in F as [Fx Fl]. rewrite (IH Fl), orb_false_r.
  apply N.eqb_neq. intros ->. congruence.
Qed.

(* ---------- strip ---------- *)
Lemma lstrip_id s : match s with [] => True | c :: _ => is_space c = false end -> lstrip s = s.
Proof. destruct s as [|c s]; [reflexivity|]. simpl. now intros ->. Qed.

Lemma rev_last_cons (s : str) : s <> [] -> rev s = last s 0 :: rev (removelast s).
Proof.
  intros NE. rewrite (app_removelast_last 0 NE) at 1. now rewrite rev_app_distr.
Qed.

Lemma rstrip_id s : s = [] \/ is_space (last s 0) = false -> rstrip s = s.
Proof.
  intros [->|H]; [reflexivity|]. destruct s as [|c s']; [reflexivity|].
  unfold rstrip. rewrite (rev_last_cons (c :: s')) by discriminate.
  cbn [lstrip]. rewrite H.
  rewrite <- (rev_last_cons (c :: s')) by discriminate. apply rev_involutive.
Qed.

Lemma rstrip_snoc s c : is_space c = true -> rstrip (s ++ [c]) = rstrip s.
Proof. intros H. unfold rstrip. rewrite rev_app_distr. simpl. now rewrite H. Qed.

Lemma strip_id s : strip_safe s = true -> strip s = s.
Proof.
  unfold strip_safe, strip. destruct s as [|c s]; [reflexivity|]. intros H.
  apply andb_true_iff in H as [H1 H2]. apply negb_true_iff in H1, H2.
  rewrite lstrip_id by exact H1. apply rstrip_id. now right.
Qed.

Lemma strip_crlf s : strip_safe s = true -> strip (s ++ CRLF) = s.
Proof.
  intros H. pose proof (strip_id s H) as I. unfold strip in *.
  destruct s as [|c s]; [reflexivity|].
  unfold strip_safe in H. apply andb_true_iff in H as [H1 H2]. apply negb_true_iff in H1.
  rewrite lstrip_id in I by exact H1.
  rewrite lstrip_id by (simpl; exact H1).
  unfold CRLF, crlf. change [CR; LF] with ([CR] ++ [LF]). rewrite app_assoc.
  rewrite rstrip_snoc by reflexivity. rewrite rstrip_snoc by reflexivity. exact I.
Qed.


Lemma nospace_strip_safe s : nospace s = true -> strip_safe s = true.
Proof.
  intros H. destruct s as [|c s]; [reflexivity|]. unfold strip_safe.
  pose proof (forallb_last _ _ 0 H ltac:(discriminate)) as L.
  simpl in H. apply andb_true_iff in H as [H _]. now rewrite H, L.
Qed.

Lemma strip_safe_ends (a z : str) :
  match a with c :: _ => is_space c = false | [] => False end ->
  z <> [] -> is_space (last z 0) = false -> strip_safe (a ++ z) = true.
Proof.
  intros A Z L. destruct a as [|c a]; [contradiction|]. unfold strip_safe.
  rewrite (last_app_ne (c :: a) z 0 Z), L. change ((c :: a) ++ z) with (c :: (a ++ z)). cbv beta iota.
  now rewrite A.
Qed.

(* ---------- split ---------- *)
Lemma split_once_no c s : mem_N c s = false -> split_once c s = (s, None).
Proof.
  induction s as [|x s IH]; [reflexivity|]. simpl. rewrite N.eqb_sym. intros H.
  apply orb_false_iff in H as [H1 H2]. now rewrite H1, (IH H2).
Qed.

Lemma split_once_at c a b : mem_N c a = false -> split_once c (a ++ c :: b) = (a, Some b).
Proof.
  induction a as [|x a IH]; simpl.
  - now rewrite N.eqb_refl.
  - rewrite N.eqb_sym. intros H. apply orb_false_iff in H as [H1 H2]. now rewrite H1, (IH H2).
Qed.

Lemma split1_no c s : mem_N c s = false -> split1 c s = (s, []).
Proof. intros H. unfold split1. now rewrite split_once_no. Qed.
Lemma split1_at c a b : mem_N c a = false -> split1 c (a ++ c :: b) = (a, b).
Proof. intros H. unfold split1. now rewrite split_once_at. Qed.

Lemma span_until_app stop a b :
  forallb (fun c => negb (stop c)) a = true ->
  match b with [] => True | c :: _ => stop c = true end ->
  span_until stop (a ++ b) = (a, b).
Proof.
  intros A B. induction a as [|x a IH]; simpl.
  - destruct b as [|c b]; [reflexivity|]. simpl. now rewrite B.
  - simpl in A. apply andb_true_iff in A as [A1 A2]. apply negb_true_iff in A1.
    now rewrite A1, (IH A2).
Qed.

Lemma filter_id {A} (P : A -> bool) l : forallb P l = true -> filter P l = l.
Proof.
  induction l as [|x l IH]; [reflexivity|]. simpl. intros H. apply andb_true_iff in H as [H1 H2].
  now rewrite H1, (IH H2).
Qed.

(* ---------- slashnormalize ---------- *)
Lemma sn_fixed_point t :
  starts_with_slash t = true -> (t = [SLASH] \/ last_char t <> Some SLASH) -> slashnormalize t = t.
Proof.
  intros S [->|L]; [reflexivity|].
  unfold slashnormalize.
  destruct (last_char t) as [c|] eqn:E.
  - destruct (c =? SLASH) eqn:C.
    + apply N.eqb_eq in C. subst c. congruence.
    + destruct t as [|x t]; [discriminate|]. simpl in S. now rewrite S.
  - destruct t; [discriminate|]. simpl in S. now rewrite S.
Qed.

Lemma last_char_cons_ne x (s : str) : s <> [] -> last_char (x :: s) = last_char s.
Proof. destruct s; [contradiction|reflexivity]. Qed.

Lemma last_char_app_ne (a z : str) : z <> [] -> last_char (a ++ z) = last_char z.
Proof.
  intros Z. unfold last_char. destruct z as [|y z]; [contradiction|].
  destruct (a ++ y :: z) eqn:E; [apply app_eq_nil in E as [_ E]; discriminate|].
  rewrite <- E. f_equal. apply last_app_ne. discriminate.
Qed.

Theorem slashnormalize_idem s :
  endswith s [SLASH; SLASH] = false -> slashnormalize (slashnormalize s) = slashnormalize s.
Proof.
  intros H. apply sn_fixed_point; [apply slashnormalize_starts_slash|].
  unfold slashnormalize.
  destruct (last_char s) as [c|] eqn:L.
  - apply last_char_some in L. set (i := drop_last s) in *. 
    destruct (c =? SLASH) eqn:C.
    + apply N.eqb_eq in C. subst c.
      destruct (last_char i) as [d|] eqn:Li.
      * apply last_char_some in Li. set (j := drop_last i) in *.
        assert (D : d <> SLASH).
        { intros ->. rewrite L, Li in H. unfold endswith in H. rewrite !rev_app_distr in H. simpl in H. discriminate. }
        right. destruct i as [|x i']; [destruct j; discriminate|].
        destruct (x =? SLASH).
        -- rewrite Li, last_char_app. congruence.
        -- rewrite Li. change (SLASH :: j ++ [d]) with ((SLASH :: j) ++ [d]). rewrite last_char_app. congruence.
      * destruct i; [now left|discriminate].
    + right. apply N.eqb_neq in C. destruct s as [|x s']; [destruct i; discriminate|].
      destruct (x =? SLASH).
      * rewrite L, last_char_app. congruence.
      * rewrite L. change (SLASH :: i ++ [c]) with ((SLASH :: i) ++ [c]). rewrite last_char_app. congruence.
  - destruct s; [now left|discriminate].
Qed.

Theorem slashnormalize_idem_refuted : exists s, slashnormalize (slashnormalize s) <> slashnormalize s.
Proof. exists (lit "a//"%string). vm_compute. discriminate. Qed.

Theorem listing_selector_fixed base name :
  (base = [] \/ starts_with_slash base = true) -> name <> [] -> mem_N SLASH name = false ->
  slashnormalize (base ++ SLASH :: name) = base ++ SLASH :: name.
Proof.
  intros B NE NS. apply sn_fixed_point.
  - destruct B as [->|B]; [reflexivity|]. destruct base; [discriminate|exact B].
  - right. change (SLASH :: name) with ([SLASH] ++ name). rewrite app_assoc, last_char_app_ne by exact NE.
    unfold last_char. destruct name as [|y n]; [contradiction|]. intros E.
    assert (E1 : last (y :: n) 0 = SLASH) by congruence.
    assert (H : In (last (y :: n) 0) (y :: n)).
    { clear. revert y. induction n as [|z n IH]; intros y; [now left|]. right. apply IH. }
    rewrite E1 in H. apply mem_N_In in H. congruence.
Qed.


Ltac vmc t := let x := eval vm_compute in t in change t with x.

Lemma forallb_impl {A} (P Q : A -> bool) l :
  (forall x, P x = true -> Q x = true) -> forallb P l = true -> forallb Q l = true.
Proof.
  intros I. induction l as [|x l IH]; [reflexivity|]. simpl. intros H.
  apply andb_true_iff in H as [H1 H2]. now rewrite (I _ H1), (IH H2).
Qed.

(* ---------- the characters of a rendered link ---------- *)
Definition plainc (c : N) : bool := is_unreserved c || (c =? 47) || (c =? 37).

Lemma plainc_range c : plainc c = true -> 33 <= c /\ c <= 126.
Proof.
  unfold plainc, is_unreserved. intros H.
  repeat match type of H with
  | _ || _ = true => apply orb_true_iff in H as [H|H]
  end;
  repeat match goal with
  | H : _ && _ = true |- _ => apply andb_true_iff in H as [? ?]
  | H : (_ <=? _) = true |- _ => apply N.leb_le in H
  | H : (_ =? _) = true |- _ => apply N.eqb_eq in H
  end; lia.
Qed.

Lemma range_not_space c : 33 <= c /\ c <= 126 -> is_space c = false.
Proof.
  intros [A B]. unfold is_space.
  repeat (apply orb_false_iff; split);
  try (apply andb_false_iff; first [left; apply N.leb_gt; lia | right; apply N.leb_gt; lia]);
  apply N.eqb_neq; lia.
Qed.

Lemma plain_nospace u : forallb plainc u = true -> nospace u = true.
Proof.
  apply forallb_impl. intros c H. apply negb_true_iff, range_not_space, plainc_range, H.
Qed.

Lemma plain_ascii u : forallb plainc u = true -> all_ascii u = true.
Proof.
  apply forallb_impl. intros c H. apply plainc_range in H. apply N.ltb_lt. lia.
Qed.

Lemma plain_no d u : forallb plainc u = true -> plainc d = false -> mem_N d u = false.
Proof. apply mem_N_forallb. Qed.

Lemma unreserved_plain u : forallb is_unreserved u = true -> forallb plainc u = true.
Proof. apply forallb_impl. intros c H. unfold plainc. now rewrite H. Qed.

Lemma quote_plain safe b :
  is_bytes b = true -> (forall c, mem_N c safe = true -> c = 47) ->
  forallb plainc (quote_bytes safe b) = true.
Proof.
  intros B S. eapply forallb_impl; [|apply (quote_charset safe b B)].
  intros c H. unfold quote_out_ok in H. unfold plainc.
  apply orb_true_iff in H as [H|H]; [|apply upper_hex_unreserved in H; now rewrite H].
  apply orb_true_iff in H as [H|H]; [|now rewrite H, orb_true_r].
  apply orb_true_iff in H as [H|H]; [now rewrite H|].
  apply S in H. subst c. reflexivity.
Qed.

Lemma quote_path_plain b : is_bytes b = true -> forallb plainc (quote_path b) = true.
Proof.
  intros B. apply quote_plain; [exact B|]. intros c H. simpl in H. rewrite orb_false_r in H.
  apply N.eqb_eq in H. now subst.
Qed.
Lemma quote_query_plain b : is_bytes b = true -> forallb plainc (quote_bytes [] b) = true.
Proof. intros B. apply quote_plain; [exact B|]. intros c H. discriminate. Qed.

Lemma quote_query_no d b :
  is_bytes b = true -> is_unreserved d = false -> d <> 37 -> mem_N d (quote_bytes [] b) = false.
Proof. intros B U P. now apply quote_no_space_ctl. Qed.

(* ---------- quote, then unquote ---------- *)
Lemma quote_str_decode safe b :
  is_bytes b = true -> quote_str safe (decode_se b) = Some (quote_bytes safe b).
Proof. intros B. unfold quote_str. now rewrite (encode_decode_se b B). Qed.

Lemma unquote_py_quote safe b :
  mem_N 37 safe = false -> is_bytes b = true -> unquote_py (quote_bytes safe b) = decode_se b.
Proof.
  intros S B. destruct (unquote_py_quote_str safe b S B) as (q & Q & U).
  rewrite (quote_str_decode safe b B) in Q. inversion Q. now subst q.
Qed.

Lemma link_path_decode b : is_bytes b = true -> link_path (decode_se b) = Some (quote_path b).
Proof. intros B. apply (quote_str_decode [SLASH] b B). Qed.
Lemma query_text_decode b : is_bytes b = true -> query_text (decode_se b) = Some (quote_bytes [] b).
Proof. intros B. apply (quote_str_decode [] b B). Qed.

Lemma quote_bytes_nil_iff safe b : quote_bytes safe b = [] <-> b = [].
Proof.
  split; [|intros ->; reflexivity]. destruct b as [|c b]; [reflexivity|]. simpl.
  unfold quote_byte. destruct (quote_keeps safe c); discriminate.
Qed.

(* ---------- Gopher family ---------- *)
Section Gopher.
Variable s : str.
Hypothesis NT : mem_N TAB s = false.
Hypothesis SS : strip_safe s = true.

Lemma requestlist_plain : requestlist (s ++ CRLF) = [s].
Proof.
  unfold requestlist. rewrite split_on_no_sep.
  - cbn [map]. now rewrite strip_crlf.
  - rewrite mem_N_app, NT. reflexivity.
Qed.

Lemma requestlist_plus : requestlist (s ++ [TAB; 43] ++ CRLF) = [s; [43]].
Proof.
  unfold requestlist. change (s ++ [TAB; 43] ++ CRLF) with (s ++ TAB :: ([43] ++ CRLF)).
  rewrite split_on_app, (split_on_no_sep TAB s NT).
  replace (split_on TAB ([43] ++ CRLF)) with [[43; 13; 10]] by reflexivity.
  cbn [app map]. rewrite strip_id by assumption. reflexivity.
Qed.

Variable q : str.
Hypothesis NTq : mem_N TAB q = false.
Hypothesis SSq : strip_safe q = true.

Lemma requestlist_search : requestlist (s ++ [TAB] ++ q ++ CRLF) = [s; q].
Proof.
  unfold requestlist. change (s ++ [TAB] ++ q ++ CRLF) with (s ++ TAB :: (q ++ CRLF)).
  rewrite split_on_app, (split_on_no_sep TAB s NT), split_on_no_sep.
  - cbn [app map]. now rewrite strip_id, strip_crlf.
  - rewrite mem_N_app, NTq. reflexivity.
Qed.

Lemma requestlist_search_plus : requestlist (s ++ [TAB] ++ q ++ [TAB; 43] ++ CRLF) = [s; q; [43]].
Proof.
  unfold requestlist.
  change (s ++ [TAB] ++ q ++ [TAB; 43] ++ CRLF) with (s ++ TAB :: (q ++ TAB :: ([43] ++ CRLF))).
  rewrite split_on_app, (split_on_no_sep TAB s NT), split_on_app, (split_on_no_sep TAB q NTq).
  replace (split_on TAB ([43] ++ CRLF)) with [[43; 13; 10]] by reflexivity.
  cbn [app map]. rewrite !strip_id by assumption. reflexivity.
Qed.
End Gopher.


Theorem gopher_roundtrip p waptop host s :
  is_gopher_family p = true -> mem_N TAB s = false -> strip_safe s = true ->
  exists req, request_of_link p waptop host s = Some req /\
              route p waptop req [] = ToHandler (slashnormalize s) None.
Proof.
  intros F NT SS. destruct p; try discriminate; eexists; (split; [reflexivity|]);
  unfold route, gopher_route, gopherplus_route, base_selector;
  first [rewrite requestlist_plain by assumption | rewrite requestlist_plus by assumption]; reflexivity.
Qed.

Theorem gopher_query_roundtrip p waptop host s q :
  is_gopher_family p = true -> mem_N TAB s = false -> strip_safe s = true ->
  mem_N TAB q = false -> strip_safe q = true ->
  exists req, search_request p waptop host s q = Some (req, []) /\
              route p waptop req [] = ToHandler (slashnormalize s) (Some q).
Proof.
  intros F NT SS NTq SSq. destruct p; try discriminate; eexists; (split; [reflexivity|]);
  unfold route, gopher_route, gopherplus_route, base_selector;
  first [rewrite requestlist_search by assumption | rewrite requestlist_search_plus by assumption]; reflexivity.
Qed.


Lemma unquote_py_quote_path b : is_bytes b = true -> unquote_py (quote_path b) = decode_se b.
Proof. exact (unquote_py_quote [47] b eq_refl). Qed.

(* ---------- HTTP ---------- *)
Lemma http_parts_req t :
  nospace t = true ->
  http_parts (GET_ ++ t ++ HTTP10 ++ CRLF) = [lit "GET"%string; t; lit "HTTP/1.0"%string].
Proof.
  intros NS. unfold http_parts.
  change (GET_ ++ t ++ HTTP10 ++ CRLF)
    with (lit "GET"%string ++ 32 :: (t ++ 32 :: (lit "HTTP/1.0"%string ++ CRLF))).
  assert (N32 : mem_N 32 t = false) by (apply (mem_N_forallb _ _ _ NS); reflexivity).
  rewrite split_on_app, split_on_app, (split_on_no_sep 32 t N32).
  replace (split_on 32 (lit "GET"%string)) with [lit "GET"%string] by reflexivity.
  replace (split_on 32 (lit "HTTP/1.0"%string ++ CRLF)) with [lit "HTTP/1.0"%string ++ CRLF] by reflexivity.
  cbn [app map]. rewrite (strip_id t) by (now apply nospace_strip_safe). reflexivity.
Qed.

Lemma http_shape_req t : nospace t = true -> http_shape (GET_ ++ t ++ HTTP10 ++ CRLF) = true.
Proof. intros NS. unfold http_shape. rewrite (http_parts_req t NS). reflexivity. Qed.

(* a target made of a rendered link, without query *)
Lemma http_of_target_link b :
  is_bytes b = true -> icon_of (slashnormalize (decode_se b)) = None ->
  http_of_target (quote_path b) = ToHandler (slashnormalize (decode_se b)) None.
Proof.
  intros B I. unfold http_of_target.
  rewrite split_on_no_sep by (apply plain_no; [now apply quote_path_plain|reflexivity]).
  cbn [hd]. rewrite (unquote_py_quote_path b B). now rewrite I.
Qed.

Lemma plus_to_space_id v : mem_N PLUSC v = false -> plus_to_space v = v.
Proof.
  induction v as [|c v IH]; [reflexivity|]. intros H.
  change (mem_N PLUSC (c :: v)) with ((PLUSC =? c) || mem_N PLUSC v) in H.
  apply orb_false_iff in H as [H1 H2]. unfold plus_to_space in *. cbn [map].
  rewrite N.eqb_sym, H1, (IH H2). reflexivity.
Qed.

Lemma qs_first_search bq :
  is_bytes bq = true -> bq <> [] ->
  qs_first SEARCHREQUEST (SEARCHREQUEST ++ EQUALS :: quote_bytes [] bq) = Some (decode_se bq).
Proof.
  intros B NE. set (v := quote_bytes [] bq).
  assert (Vne : v <> []) by (intros E; apply quote_bytes_nil_iff in E; contradiction).
  assert (Q : forall d, is_unreserved d = false -> d <> 37 -> mem_N d v = false)
    by (intros d; now apply quote_query_no).
  unfold qs_first, parse_qsl.
  destruct (SEARCHREQUEST ++ EQUALS :: v) eqn:E; [discriminate|]. rewrite <- E. clear E.
  rewrite split_on_no_sep.
  2:{ rewrite mem_N_app. change (mem_N AMPER (EQUALS :: v)) with ((AMPER =? EQUALS) || mem_N AMPER v).
      rewrite (Q AMPER) by (reflexivity || discriminate). reflexivity. }
  cbn [qsl_fields]. unfold qsl_field.
  rewrite split_once_at by reflexivity.
  destruct v as [|v0 v'] eqn:Ev; [contradiction|]. rewrite <- Ev in *.
  rewrite (plus_to_space_id v) by (apply Q; [reflexivity|discriminate]).
  unfold v. rewrite (unquote_py_quote [] bq eq_refl B).
  replace (unquote_py (plus_to_space SEARCHREQUEST)) with SEARCHREQUEST by (vm_compute; reflexivity).
  cbn [first_value]. now rewrite str_eqb_refl.
Qed.

Lemma http_of_target_search b bq :
  is_bytes b = true -> is_bytes bq = true -> bq <> [] ->
  icon_of (slashnormalize (decode_se b)) = None ->
  http_of_target (quote_path b ++ [QMARK] ++ SEARCHREQUEST ++ [EQUALS] ++ quote_bytes [] bq)
  = ToHandler (slashnormalize (decode_se b)) (Some (decode_se bq)).
Proof.
  intros B Bq NE I. unfold http_of_target.
  change (quote_path b ++ [QMARK] ++ SEARCHREQUEST ++ [EQUALS] ++ quote_bytes [] bq)
    with (quote_path b ++ QMARK :: (SEARCHREQUEST ++ EQUALS :: quote_bytes [] bq)).
  rewrite split_on_app.
  rewrite (split_on_no_sep QMARK (quote_path b)) by (apply plain_no; [now apply quote_path_plain|reflexivity]).
  rewrite split_on_no_sep.
  2:{ rewrite mem_N_app.
      change (mem_N QMARK (EQUALS :: quote_bytes [] bq)) with ((QMARK =? EQUALS) || mem_N QMARK (quote_bytes [] bq)).
      rewrite (quote_query_no QMARK bq Bq) by (reflexivity || discriminate). reflexivity. }
  cbn [app hd]. rewrite (unquote_py_quote_path b B), I.
  now rewrite (qs_first_search bq Bq NE).
Qed.


Theorem http_roundtrip p waptop host b :
  is_http p = true -> is_bytes b = true -> icon_of (slashnormalize (decode_se b)) = None ->
  exists req, request_of_link p waptop host (decode_se b) = Some req /\
              route p waptop req [] = ToHandler (slashnormalize (decode_se b)) None.
Proof.
  intros P B I. exists (GET_ ++ quote_path b ++ HTTP10 ++ CRLF).
  assert (NS : nospace (quote_path b) = true) by (now apply plain_nospace, quote_path_plain).
  destruct p; try discriminate; (split; [unfold request_of_link; now rewrite (link_path_decode b B)|]);
  unfold route, http_route; rewrite (http_parts_req _ NS); now apply http_of_target_link.
Qed.

Lemma nospace_app a b : nospace (a ++ b) = nospace a && nospace b.
Proof. apply forallb_app. Qed.

Theorem http_query_roundtrip p waptop host b bq :
  is_http p = true -> is_bytes b = true -> is_bytes bq = true -> bq <> [] ->
  icon_of (slashnormalize (decode_se b)) = None ->
  exists req, search_request p waptop host (decode_se b) (decode_se bq) = Some (req, []) /\
              route p waptop req [] = ToHandler (slashnormalize (decode_se b)) (Some (decode_se bq)).
Proof.
  intros P B Bq NE I.
  set (t := quote_path b ++ [QMARK] ++ SEARCHREQUEST ++ [EQUALS] ++ quote_bytes [] bq).
  exists (GET_ ++ t ++ HTTP10 ++ CRLF).
  assert (NS : nospace t = true).
  { unfold t. rewrite !nospace_app, (plain_nospace _ (quote_path_plain b B)),
      (plain_nospace _ (quote_query_plain bq Bq)). reflexivity. }
  destruct p; try discriminate;
  (split; [unfold search_request; rewrite (link_path_decode b B), (query_text_decode bq Bq); unfold t;
           now rewrite <- !app_assoc|]);
  unfold route, http_route; rewrite (http_parts_req _ NS); now apply http_of_target_search.
Qed.

(* ---------- WAP ---------- *)

Lemma prefixb_app_same (w a b : str) : prefixb (w ++ a) (w ++ b) = prefixb a b.
Proof. induction w as [|x w IH]; [reflexivity|]. simpl. now rewrite N.eqb_refl, IH. Qed.

Lemma skipn_app_same {A} (w u : list A) : skipn (List.length w) (w ++ u) = u.
Proof. induction w as [|x w IH]; [reflexivity|exact IH]. Qed.

Lemma wap_strip_link waptop u :
  starts_with_slash u = true -> wap_strip waptop (waptop ++ u) = u.
Proof.
  intros S. unfold wap_strip, wap_prefixed. destruct u as [|c u]; [discriminate|]. simpl in S.
  apply N.eqb_eq in S. subst c.
  rewrite (prefixb_app_same waptop [SLASH] (SLASH :: u)). cbn [prefixb]. rewrite N.eqb_refl.
  cbn [andb]. rewrite orb_true_r. cbn [orb]. apply skipn_app_same.
Qed.

Lemma decode_head_ascii b c r :
  is_bytes b = true -> decode_se b = c :: r -> c < 128 -> exists b', b = c :: b' /\ decode_se b' = r.
Proof.
  intros B E A. pose proof (encode_decode_se b B) as R. rewrite E in R. simpl in R.
  rewrite enc_cp_ascii in R by (now apply N.ltb_lt).
  destruct (encode_se r) as [b'|] eqn:Er; [|discriminate]. inversion R as [R1]. exists b'. split; [reflexivity|].
  subst b. simpl in E. apply N.ltb_lt in A. rewrite A in E. now inversion E.
Qed.

Lemma quote_path_starts_slash b :
  is_bytes b = true -> starts_with_slash (decode_se b) = true -> starts_with_slash (quote_path b) = true.
Proof.
  intros B H. destruct (decode_se b) as [|c r] eqn:E; [discriminate|]. simpl in H. apply N.eqb_eq in H. subst c.
  destruct (decode_head_ascii b SLASH r B E ltac:(reflexivity)) as (b' & -> & _). reflexivity.
Qed.

Theorem wap_roundtrip waptop host b :
  waptop_ok waptop = true -> is_bytes b = true -> starts_with_slash (decode_se b) = true ->
  icon_of (slashnormalize (decode_se b)) = None ->
  exists req, request_of_link PWap waptop host (decode_se b) = Some req /\
              route PWap waptop req [] = ToHandler (slashnormalize (decode_se b)) None.
Proof.
  intros W B S I. apply andb_true_iff in W as [W1 W2].
  pose proof (quote_path_starts_slash b B S) as SU.
  exists (GET_ ++ (waptop ++ quote_path b) ++ HTTP10 ++ CRLF).
  assert (NS : nospace (waptop ++ quote_path b) = true).
  { now rewrite nospace_app, W1, (plain_nospace _ (quote_path_plain b B)). }
  split; [unfold request_of_link; rewrite (link_path_decode b B); cbn [option_map]; now rewrite SU|].
  unfold route, wap_route, wap_route_with. rewrite (http_parts_req _ NS), (http_shape_req _ NS).
  rewrite (wap_strip_link waptop _ SU). now apply http_of_target_link.
Qed.

Theorem wap_query_roundtrip waptop host b bq :
  waptop_ok waptop = true -> is_bytes b = true -> starts_with_slash (decode_se b) = true ->
  is_bytes bq = true -> bq <> [] ->
  icon_of (slashnormalize (decode_se b)) = None ->
  exists req, search_request PWap waptop host (decode_se b) (decode_se bq) = Some (req, []) /\
              route PWap waptop req [] = ToHandler (slashnormalize (decode_se b)) (Some (decode_se bq)).
Proof.
  intros W B S Bq NE I. apply andb_true_iff in W as [W1 W2].
  pose proof (quote_path_starts_slash b B S) as SU.
  set (t := quote_path b ++ [QMARK] ++ SEARCHREQUEST ++ [EQUALS] ++ quote_bytes [] bq).
  exists (GET_ ++ (waptop ++ t) ++ HTTP10 ++ CRLF).
  assert (NS : nospace (waptop ++ t) = true).
  { unfold t. rewrite !nospace_app, W1, (plain_nospace _ (quote_path_plain b B)),
      (plain_nospace _ (quote_query_plain bq Bq)). reflexivity. }
  assert (ST : starts_with_slash t = true).
  { unfold t. destruct (quote_path b); [discriminate|exact SU]. }
  split.
  - unfold search_request. rewrite (link_path_decode b B), (query_text_decode bq Bq), SU. unfold t.
    now rewrite <- !app_assoc.
  - unfold route, wap_route, wap_route_with. rewrite (http_parts_req _ NS), (http_shape_req _ NS).
    rewrite (wap_strip_link waptop _ ST). now apply http_of_target_search.
Qed.


(* ---------- Gemini ---------- *)
Lemma host_plain h : host_ok h = true -> forallb plainc h = true /\ h <> [].
Proof.
  unfold host_ok. intros H. apply andb_true_iff in H as [H1 H2]. split; [now apply unreserved_plain|].
  intros ->. discriminate.
Qed.

Lemma lstrip_c0_id s : match s with [] => True | c :: _ => is_c0_space c = false end -> lstrip_c0 s = s.
Proof. destruct s as [|c s]; [reflexivity|]. simpl. now intros ->. Qed.

Definition url_safe_char (c : N) : bool := negb (is_unsafe_url_char c).
Lemma plain_url_safe u : forallb plainc u = true -> forallb url_safe_char u = true.
Proof.
  apply forallb_impl.
  intros c H. apply plainc_range in H. unfold url_safe_char, is_unsafe_url_char.
  apply negb_true_iff. repeat (apply orb_false_iff; split); apply N.eqb_neq; lia.
Qed.

Lemma unreserved_not_delim h : forallb is_unreserved h = true -> forallb (fun c => negb (is_netloc_delim c)) h = true.
Proof.
  apply forallb_impl. intros c H. apply negb_true_iff. unfold is_netloc_delim.
  repeat (apply orb_false_iff; split); apply N.eqb_neq; intros ->; discriminate.
Qed.

(* "gemini://" host path [ "?" query ], every piece made of link characters *)
Lemma urlparse_gemini h u v :
  host_ok h = true -> forallb url_safe_char u = true -> forallb url_safe_char v = true ->
  starts_with_slash u = true -> mem_N QM u = false -> mem_N HASH u = false -> mem_N HASH v = false ->
  urlparse (GEMINI_SCHEME ++ h ++ u ++ v) =
  Some (mk_url (lit "gemini"%string) h (fst (split1 QM (u ++ v))) [] (snd (split1 QM (u ++ v))) []).
Proof.
  intros H U V S Q1 H1 H2. destruct (host_plain h H) as [HP HN].
  unfold urlparse.
  assert (C : url_clean (GEMINI_SCHEME ++ h ++ u ++ v) = GEMINI_SCHEME ++ h ++ u ++ v).
  { unfold url_clean. rewrite lstrip_c0_id by reflexivity. apply filter_id.
    change (forallb url_safe_char (GEMINI_SCHEME ++ h ++ u ++ v) = true).
    rewrite !forallb_app, (plain_url_safe _ HP), U, V. reflexivity. }
  rewrite C.
  replace (split_scheme (GEMINI_SCHEME ++ h ++ u ++ v)) with (lit "gemini"%string, [SL; SL] ++ h ++ u ++ v) by reflexivity.
  assert (NLC : split_netloc ([SL; SL] ++ h ++ u ++ v) = (h, u ++ v)).
  { unfold split_netloc. cbn [app]. rewrite N.eqb_refl. cbn [andb].
    apply span_until_app.
    - apply unreserved_not_delim. unfold host_ok in H. now apply andb_true_iff in H as [_ H].
    - destruct u as [|c u]; [discriminate|]. simpl in S. apply N.eqb_eq in S. subst c. reflexivity. }
  rewrite NLC.
  assert (BR : brackets_unbalanced h = false).
  { unfold brackets_unbalanced. rewrite !(plain_no _ h HP) by reflexivity. reflexivity. }
  rewrite BR.
  rewrite (split1_no HASH (u ++ v)) by (now rewrite mem_N_app, H1, H2).
  destruct (split1 QM (u ++ v)) as [a b] eqn:E. cbn [fst snd].
  replace (split_params (lit "gemini"%string) a) with (a, @nil N) by reflexivity.
  reflexivity.
Qed.

Lemma strip_gemini t :
  t <> [] -> nospace t = true -> strip (GEMINI_SCHEME ++ t ++ CRLF) = GEMINI_SCHEME ++ t.
Proof.
  intros NE NS. rewrite app_assoc. apply strip_crlf. apply strip_safe_ends; [reflexivity|exact NE|].
  apply negb_true_iff. apply (forallb_last (fun c => negb (is_space c)) t 0 NS NE).
Qed.

Lemma or_slash_cons c u : or_slash (c :: u) = c :: u.
Proof. reflexivity. Qed.

Lemma quote_path_cons x b : exists c r, quote_path (x :: b) = c :: r.
Proof. unfold quote_path. simpl. unfold quote_byte. destruct (quote_keeps [47] x); simpl; eauto. Qed.

(* an ASCII prefix of the decoded selector is a prefix of its bytes *)
Lemma decode_nil b : is_bytes b = true -> decode_se b = [] -> b = [].
Proof. intros B E. pose proof (encode_decode_se b B) as R. rewrite E in R. simpl in R. now inversion R. Qed.

Lemma prefix_ascii_decode k : all_ascii k = true ->
  forall b, is_bytes b = true -> prefixb k (decode_se b) = prefixb k b.
Proof.
  induction k as [|c k IH]; intros A b B; [reflexivity|].
  unfold all_ascii in A. simpl in A. apply andb_true_iff in A as [Ac Ak].
  destruct (decode_se b) as [|d r] eqn:E.
  - rewrite (decode_nil b B E). reflexivity.
  - simpl prefixb at 1. destruct (c =? d) eqn:CD.
    + apply N.eqb_eq in CD. subst d. apply N.ltb_lt in Ac.
      destruct (decode_head_ascii b c r B E Ac) as (b' & -> & R). simpl. rewrite N.eqb_refl. simpl.
      rewrite <- R. apply IH; [exact Ak|]. apply is_bytes_cons in B. tauto.
    + simpl. destruct b as [|x b']; [reflexivity|]. simpl. destruct (c =? x) eqn:CX; [|reflexivity].
      exfalso. apply N.eqb_eq in CX. subst x. simpl in E. rewrite Ac in E. inversion E. subst d.
      rewrite N.eqb_refl in CD. discriminate.
Qed.

(* a prefix made of characters that quote() keeps is a prefix of the quoted text iff of the bytes *)
Lemma prefix_kept_quote k : forallb (quote_keeps [47]) k = true ->
  forall b, prefixb k (quote_path b) = prefixb k b.
Proof.
  induction k as [|c k IH]; intros K b; [reflexivity|]. simpl in K. apply andb_true_iff in K as [Kc Kk].
  destruct b as [|x b]; [reflexivity|].
  change (quote_path (x :: b)) with (quote_byte [47] x ++ quote_path b). unfold quote_byte.
  destruct (quote_keeps [47] x) eqn:KX.
  - simpl. now rewrite (IH Kk b).
  - simpl. rewrite (keeps_not_percent [47] c eq_refl Kc). simpl.
    destruct (c =? x) eqn:CX; [|reflexivity]. apply N.eqb_eq in CX. subst. congruence.
Qed.

Definition QP_SLASH : str := QUERY_PREFIX ++ [SLASH].

Lemma gemini_prefixed_link b :
  is_bytes b = true -> gemini_prefixed (decode_se b) = false ->
  gemini_prefixed (or_slash (quote_path b)) = false.
Proof.
  intros B H. destruct b as [|x b]; [reflexivity|].
  destruct (quote_path_cons x b) as (c & r & Q). rewrite Q, or_slash_cons, <- Q.
  unfold gemini_prefixed in *. apply orb_false_iff in H as [H1 H2]. apply orb_false_iff. split.
  - destruct (str_eqb (quote_path (x :: b)) QUERY_PREFIX) eqn:E; [|reflexivity]. exfalso.
    apply str_eqb_eq in E.
    assert (x :: b = QUERY_PREFIX).
    { apply (quote_injective [47]); [reflexivity|exact B|reflexivity|exact E]. }
    rewrite H in H1. vm_compute in H1. discriminate.
  - fold QP_SLASH in *. rewrite prefix_kept_quote by reflexivity.
    rewrite <- (prefix_ascii_decode QP_SLASH eq_refl _ B). exact H2.
Qed.

Lemma sn_unquote_link b :
  is_bytes b = true ->
  slashnormalize (unquote_py (or_slash (quote_path b))) = slashnormalize (decode_se b).
Proof.
  intros B. destruct b as [|x b]; [reflexivity|].
  destruct (quote_path_cons x b) as (c & r & Q). rewrite Q, or_slash_cons, <- Q.
  now rewrite unquote_py_quote_path.
Qed.

Lemma or_slash_plain u : forallb plainc u = true -> forallb plainc (or_slash u) = true.
Proof. destruct u; [reflexivity|auto]. Qed.
Lemma or_slash_starts u : (u = [] \/ starts_with_slash u = true) -> starts_with_slash (or_slash u) = true.
Proof. intros [->|H]; [reflexivity|]. destruct u; [discriminate|exact H]. Qed.
Lemma or_slash_ne u : or_slash u <> [].
Proof. destruct u; discriminate. Qed.

Section Gemini.
Variables (h : str) (b : list N).
Hypothesis H : host_ok h = true.
Hypothesis B : is_bytes b = true.
Hypothesis S : b = [] \/ starts_with_slash (decode_se b) = true.
Let u := or_slash (quote_path b).

Lemma gem_u_plain : forallb plainc u = true.
Proof. apply or_slash_plain, quote_path_plain, B. Qed.
Lemma gem_u_starts : starts_with_slash u = true.
Proof.
  apply or_slash_starts. destruct S as [->|S']; [now left|]. right. now apply quote_path_starts_slash.
Qed.

Lemma gemini_route_link :
  gemini_prefixed (decode_se b) = false ->
  gemini_route (GEMINI_SCHEME ++ h ++ u ++ CRLF) = ToHandler (slashnormalize (decode_se b)) (Some []).
Proof.
  intros G. destruct (host_plain h H) as [HP HN]. pose proof gem_u_plain as UP. pose proof gem_u_starts as US.
  unfold gemini_route, gemini_route_with.
  rewrite (app_assoc h u CRLF), strip_gemini.
  2:{ intros E. apply app_eq_nil in E as [E _]. contradiction. }
  2:{ now rewrite nospace_app, (plain_nospace _ HP), (plain_nospace _ UP). }
  rewrite <- (app_nil_r (h ++ u)), <- app_assoc.
  rewrite urlparse_gemini; try assumption; try reflexivity.
  2:{ now apply plain_url_safe. }
  2,3: apply plain_no; [exact UP|reflexivity].
  rewrite app_nil_r, split1_no by (apply plain_no; [exact UP|reflexivity]).
  cbn [fst snd u_path u_query]. unfold u in *. rewrite (gemini_prefixed_link b B G), (sn_unquote_link b B).
  reflexivity.
Qed.

Variable bq : list N.
Hypothesis Bq : is_bytes bq = true.
Let v := quote_bytes [] bq.

Lemma gem_query_parse (pre : str) :
  forallb plainc pre = true -> (pre = [] \/ starts_with_slash pre = true) ->
  urlparse (strip (GEMINI_SCHEME ++ h ++ (pre ++ u) ++ [QMARK] ++ v ++ CRLF)) =
  Some (mk_url (lit "gemini"%string) h (pre ++ u) [] v []).
Proof.
  intros PP PS. destruct (host_plain h H) as [HP HN]. pose proof gem_u_plain as UP. pose proof gem_u_starts as US.
  assert (VP : forallb plainc v = true) by (apply quote_query_plain, Bq).
  replace (GEMINI_SCHEME ++ h ++ (pre ++ u) ++ [QMARK] ++ v ++ CRLF)
    with (GEMINI_SCHEME ++ (h ++ (pre ++ u) ++ QMARK :: v) ++ CRLF) by (now rewrite <- !app_assoc).
  rewrite strip_gemini.
  2:{ intros E. apply app_eq_nil in E as [E _]. contradiction. }
  2:{ rewrite !nospace_app, (plain_nospace _ HP), (plain_nospace _ PP), (plain_nospace _ UP).
      change (nospace (QMARK :: v)) with (negb (is_space QMARK) && nospace v). now rewrite (plain_nospace _ VP). }
  assert (PU : forallb plainc (pre ++ u) = true) by (now rewrite forallb_app, PP, UP).
  replace (GEMINI_SCHEME ++ h ++ (pre ++ u) ++ QMARK :: v) with (GEMINI_SCHEME ++ h ++ (pre ++ u) ++ (QM :: v))
    by reflexivity.
  replace (GEMINI_SCHEME ++ (h ++ (pre ++ u) ++ QMARK :: v)) with (GEMINI_SCHEME ++ h ++ (pre ++ u) ++ (QM :: v))
    by reflexivity.
  rewrite (urlparse_gemini h (pre ++ u) (QM :: v)); try assumption.
  - rewrite split1_at by (apply plain_no; [exact PU|reflexivity]). reflexivity.
  - now apply plain_url_safe.
  - change (forallb url_safe_char (QM :: v)) with (url_safe_char QM && forallb url_safe_char v).
    now rewrite (plain_url_safe _ VP).
  - destruct PS as [->|PS]; [exact US|]. destruct pre; [discriminate|exact PS].
  - apply plain_no; [exact PU|reflexivity].
  - apply plain_no; [exact PU|reflexivity].
  - change (mem_N HASH (QM :: v)) with ((HASH =? QM) || mem_N HASH v).
    rewrite (plain_no HASH v VP) by reflexivity. reflexivity.
Qed.

Lemma gemini_route_search :
  gemini_prefixed (decode_se b) = false ->
  gemini_route (GEMINI_SCHEME ++ h ++ u ++ [QMARK] ++ v ++ CRLF)
  = ToHandler (slashnormalize (decode_se b)) (Some (decode_se bq)).
Proof.
  intros G. unfold gemini_route, gemini_route_with.
  pose proof (gem_query_parse [] eq_refl (or_introl eq_refl)) as P. change ([] ++ u) with u in P.
  rewrite P. cbn [u_path u_query].
  unfold u, v in *. rewrite (gemini_prefixed_link b B G), (sn_unquote_link b B).
  now rewrite (unquote_py_quote [] bq eq_refl Bq).
Qed.

Lemma gemini_prefixed_prompt : gemini_prefixed (QUERY_PREFIX ++ u) = true.
Proof.
  pose proof gem_u_starts as US. unfold gemini_prefixed. destruct u as [|c r]; [discriminate|].
  simpl in US. apply N.eqb_eq in US. subst c.
  rewrite (prefixb_app_same QUERY_PREFIX [SLASH] (SLASH :: r)). cbn [prefixb]. rewrite N.eqb_refl.
  apply orb_true_r.
Qed.

Lemma gemini_route_prompt :
  gemini_route (GEMINI_SCHEME ++ h ++ QUERY_PREFIX ++ u ++ CRLF) = GeminiInput.
Proof.
  destruct (host_plain h H) as [HP HN]. pose proof gem_u_plain as UP. pose proof gem_u_starts as US.
  unfold gemini_route, gemini_route_with.
  replace (GEMINI_SCHEME ++ h ++ QUERY_PREFIX ++ u ++ CRLF)
    with (GEMINI_SCHEME ++ (h ++ QUERY_PREFIX ++ u) ++ CRLF) by (now rewrite <- !app_assoc).
  assert (PU : forallb plainc (QUERY_PREFIX ++ u) = true) by (now rewrite forallb_app, UP).
  rewrite strip_gemini.
  2:{ intros E. apply app_eq_nil in E as [E _]. contradiction. }
  2:{ now rewrite nospace_app, (plain_nospace _ HP), (plain_nospace _ PU). }
  rewrite <- (app_nil_r (h ++ QUERY_PREFIX ++ u)), <- !app_assoc.
  rewrite (app_assoc QUERY_PREFIX u []).
  rewrite urlparse_gemini; try assumption; try reflexivity.
  2:{ now apply plain_url_safe. }
  2,3: apply plain_no; [exact PU|reflexivity].
  rewrite app_nil_r, split1_no by (apply plain_no; [exact PU|reflexivity]).
  cbn [fst snd u_path u_query]. now rewrite gemini_prefixed_prompt.
Qed.

Lemma gemini_route_answer :
  bq <> [] ->
  gemini_route (GEMINI_SCHEME ++ h ++ QUERY_PREFIX ++ u ++ [QMARK] ++ v ++ CRLF)
  = GeminiRedirect (u ++ [QMARK] ++ v).
Proof.
  intros NE. unfold gemini_route, gemini_route_with.
  rewrite (app_assoc QUERY_PREFIX u).
  rewrite (gem_query_parse QUERY_PREFIX eq_refl (or_intror eq_refl)). cbn [u_path u_query].
  rewrite gemini_prefixed_prompt.
  destruct v as [|v0 v'] eqn:Ev.
  - exfalso. unfold v in Ev. apply quote_bytes_nil_iff in Ev. contradiction.
  - now rewrite (skipn_app_same QUERY_PREFIX u).
Qed.
End Gemini.


(* ---------- Spartan ---------- *)
Lemma digits_nospace d : forallb is_ascii_digit d = true -> nospace d = true.
Proof.
  apply forallb_impl. intros c H. unfold is_ascii_digit in H. apply andb_true_iff in H as [A B].
  apply N.leb_le in A, B. apply negb_true_iff, range_not_space. lia.
Qed.

Lemma spartan_parts h u d :
  host_ok h = true -> forallb plainc u = true -> forallb is_ascii_digit d = true -> d <> [] ->
  split_on SPACE (strip (h ++ [SPACE] ++ u ++ [SPACE] ++ d ++ CRLF)) = [h; u; d].
Proof.
  intros H U D DN. destruct (host_plain h H) as [HP HN].
  pose proof (digits_nospace d D) as DS.
  replace (h ++ [SPACE] ++ u ++ [SPACE] ++ d ++ CRLF) with ((h ++ ([SPACE] ++ u ++ [SPACE]) ++ d) ++ CRLF)
    by (now rewrite <- !app_assoc).
  rewrite strip_crlf.
  2:{ rewrite app_assoc. apply strip_safe_ends.
      - destruct h as [|c h']; [contradiction|]. simpl in HP. apply andb_true_iff in HP as [HP _].
        cbn [app]. apply range_not_space, plainc_range, HP.
      - exact DN.
      - apply negb_true_iff. apply (forallb_last (fun c => negb (is_space c)) d 0 DS DN). }
  replace (h ++ ([SPACE] ++ u ++ [SPACE]) ++ d) with (h ++ SPACE :: (u ++ SPACE :: d)) by (now rewrite <- !app_assoc).
  assert (NS : forall t, nospace t = true -> mem_N SPACE t = false).
  { intros t T. apply (mem_N_forallb _ _ _ T). reflexivity. }
  rewrite split_on_app, split_on_app, !split_on_no_sep; [reflexivity| | |];
  apply NS; [exact DS|now apply plain_nospace|now apply plain_nospace].
Qed.

Lemma take_N_exact (l r : list N) : take_N (N.of_nat (List.length l)) (l ++ r) = l.
Proof.
  induction l as [|x l IH].
  - simpl. destruct r; reflexivity.
  - cbn [List.length app take_N]. rewrite Nat2N.inj_succ.
    destruct (N.succ (N.of_nat (List.length l)) =? 0) eqn:E; [apply N.eqb_eq in E; lia|].
    rewrite N.sub_1_r, N.pred_succ. now rewrite IH.
Qed.

Theorem spartan_roundtrip waptop host b :
  host_ok host = true -> is_bytes b = true ->
  exists req, request_of_link PSpartan waptop host (decode_se b) = Some req /\
              route PSpartan waptop req [] = ToHandler (slashnormalize (decode_se b)) None.
Proof.
  intros H B. eexists. split; [unfold request_of_link; rewrite (link_path_decode b B); reflexivity|].
  unfold route, spartan_route.
  change (lit " 0"%string) with ([SPACE] ++ [48]). rewrite <- !app_assoc.
  rewrite spartan_parts; [|exact H|apply or_slash_plain, quote_path_plain, B|reflexivity|discriminate].
  change (parse_dec [48]) with (Some 0). cbn [N.eqb]. now rewrite sn_unquote_link.
Qed.

Theorem spartan_query_roundtrip waptop host b bq rest :
  host_ok host = true -> is_bytes b = true -> is_bytes bq = true -> bq <> [] ->
  N.of_nat (List.length bq) <=? SSIZE_MAX = true ->
  exists req, search_request PSpartan waptop host (decode_se b) (decode_se bq) = Some (req, bq) /\
              route PSpartan waptop req (bq ++ rest) = ToHandler (slashnormalize (decode_se b)) (Some (decode_se bq)).
Proof.
  intros H B Bq NE SZ. eexists. split.
  { unfold search_request. rewrite (link_path_decode b B), (encode_decode_se bq Bq). reflexivity. }
  unfold route, spartan_route.
  rewrite spartan_parts; [|exact H|apply or_slash_plain, quote_path_plain, B|apply print_dec_digits|apply print_dec_nonempty].
  rewrite parse_print_dec.
  destruct (N.of_nat (List.length bq) =? 0) eqn:Z.
  { apply N.eqb_eq in Z. destruct bq; [contradiction|simpl in Z; lia]. }
  apply N.leb_le in SZ. destruct (SSIZE_MAX <? N.of_nat (List.length bq)) eqn:L; [apply N.ltb_lt in L; lia|].
  now rewrite take_N_exact, sn_unquote_link.
Qed.

(* ---------- Gemini, the statements ---------- *)
Theorem gemini_roundtrip waptop host b :
  host_ok host = true -> is_bytes b = true -> (b = [] \/ starts_with_slash (decode_se b) = true) ->
  gemini_prefixed (decode_se b) = false ->
  exists req, request_of_link PGemini waptop host (decode_se b) = Some req /\
              route PGemini waptop req [] = ToHandler (slashnormalize (decode_se b)) (Some []).
Proof.
  intros H B S G. eexists. split; [unfold request_of_link; rewrite (link_path_decode b B); reflexivity|].
  unfold route. now apply gemini_route_link.
Qed.

Theorem gemini_query_roundtrip waptop host b bq :
  host_ok host = true -> is_bytes b = true -> (b = [] \/ starts_with_slash (decode_se b) = true) ->
  gemini_prefixed (decode_se b) = false -> is_bytes bq = true ->
  exists req, search_request PGemini waptop host (decode_se b) (decode_se bq) = Some (req, []) /\
              route PGemini waptop req [] = ToHandler (slashnormalize (decode_se b)) (Some (decode_se bq)).
Proof.
  intros H B S G Bq. eexists. split.
  { unfold search_request. rewrite (link_path_decode b B), (query_text_decode bq Bq). reflexivity. }
  unfold route. now apply gemini_route_search.
Qed.

(* the /GEMINI-QUERY dance for a search item: prompt, redirect, the redirected request *)
Theorem gemini_search_dance host b bq :
  host_ok host = true -> is_bytes b = true -> (b = [] \/ starts_with_slash (decode_se b) = true) ->
  gemini_prefixed (decode_se b) = false -> is_bytes bq = true -> bq <> [] ->
  exists r1 r2 target,
    gemini_prompt_request host (decode_se b) = Some r1 /\ gemini_route r1 = GeminiInput /\
    gemini_answer_request host (decode_se b) (decode_se bq) = Some r2 /\ gemini_route r2 = GeminiRedirect target /\
    gemini_route (gemini_follow_redirect host target)
      = ToHandler (slashnormalize (decode_se b)) (Some (decode_se bq)).
Proof.
  intros H B S G Bq NE. do 3 eexists. split; [|split; [|split; [|split]]].
  - unfold gemini_prompt_request. rewrite (link_path_decode b B). reflexivity.
  - now apply gemini_route_prompt.
  - unfold gemini_answer_request. rewrite (link_path_decode b B), (query_text_decode bq Bq). reflexivity.
  - now apply gemini_route_answer.
  - unfold gemini_follow_redirect. rewrite <- !app_assoc. now apply gemini_route_search.
Qed.

(* ---------- the pinned prefix tests are refuted ---------- *)
Theorem gemini_prefix_pinned_refuted :
  exists b, is_bytes b = true /\ starts_with_slash (decode_se b) = true /\
    gemini_route_pinned (GEMINI_SCHEME ++ lit "h"%string ++ quote_path b ++ CRLF) = GeminiInput.
Proof. exists (lit "/GEMINI-QUERY.txt"%string). vm_compute. repeat split. Qed.

Theorem wap_prefix_pinned_refuted :
  exists b, is_bytes b = true /\
    (* a plain HTTP link to /wapfile.txt, answered by WAPProtocol when the client is a WAP browser *)
    wap_route_pinned (lit "/wap"%string) (GET_ ++ quote_path b ++ HTTP10 ++ CRLF)
      <> ToHandler (slashnormalize (decode_se b)) None /\
    wap_route (lit "/wap"%string) (GET_ ++ quote_path b ++ HTTP10 ++ CRLF)
      = ToHandler (slashnormalize (decode_se b)) None.
Proof. exists (lit "/wapfile.txt"%string). vm_compute. repeat split. discriminate. Qed.

(* reserved names that remain: the exact prefix, and the built-in icon names *)
Theorem gemini_reserved_refuted :
  exists b, is_bytes b = true /\
    gemini_route (GEMINI_SCHEME ++ lit "h"%string ++ quote_path b ++ CRLF) = GeminiInput.
Proof. exists (lit "/GEMINI-QUERY/x"%string). vm_compute. repeat split. Qed.

Theorem http_icon_shadow_refuted :
  exists b, is_bytes b = true /\
    http_route (GET_ ++ quote_path b ++ HTTP10 ++ CRLF) = Icon (lit "text.gif"%string).
Proof. exists (lit "/PYGOPHERD-HTTPPROTO-ICONS/text.gif"%string). vm_compute. repeat split. Qed.

(* ---------- virtual selectors are just selectors ---------- *)
Corollary virtual_roundtrip_http p waptop host real args :
  is_http p = true -> is_bytes real = true -> is_bytes args = true ->
  let b := real ++ [PIPE] ++ args in
  icon_of (slashnormalize (decode_se b)) = None ->
  exists req, request_of_link p waptop host (decode_se b) = Some req /\
              route p waptop req [] = ToHandler (slashnormalize (decode_se b)) None.
Proof.
  intros P R A b I. apply http_roundtrip; [exact P| |exact I].
  unfold b. rewrite !is_bytes_app, R, A. reflexivity.
Qed.


(* ---------- the wire: one line, decoded ---------- *)
Lemma readline_line l rest : mem_N 10 l = false -> readline (l ++ 10 :: rest) = (l ++ [10], rest).
Proof.
  induction l as [|x l IH]; intros H; [reflexivity|].
  change (mem_N 10 (x :: l)) with ((10 =? x) || mem_N 10 l) in H. apply orb_false_iff in H as [H1 H2].
  cbn [app readline]. rewrite N.eqb_sym, H1, (IH H2). reflexivity.
Qed.

Lemma not_cont a : a < 128 -> is_cont a = false.
Proof. intros H. unfold is_cont. apply andb_false_iff. left. apply N.leb_gt. lia. Qed.

Lemma dec2_nc x a : is_cont a = false -> dec2_ok x a = false.
Proof. intros H. unfold dec2_ok. rewrite H. apply andb_false_r. Qed.
Lemma dec3_nc2 x a z : is_cont a = false -> dec3_ok x a z = false.
Proof. intros H. unfold dec3_ok. rewrite H. now rewrite !andb_false_r. Qed.
Lemma dec3_nc3 x y a : is_cont a = false -> dec3_ok x y a = false.
Proof. intros H. unfold dec3_ok. rewrite H. now rewrite !andb_false_r. Qed.
Lemma dec4_nc2 x a z w : is_cont a = false -> dec4_ok x a z w = false.
Proof. intros H. unfold dec4_ok. rewrite H. now rewrite !andb_false_r. Qed.
Lemma dec4_nc3 x y a w : is_cont a = false -> dec4_ok x y a w = false.
Proof. intros H. unfold dec4_ok. rewrite H. now rewrite !andb_false_r. Qed.
Lemma dec4_nc4 x y z a : is_cont a = false -> dec4_ok x y z a = false.
Proof. intros H. unfold dec4_ok. rewrite H. now rewrite !andb_false_r. Qed.

(* bytes followed by ASCII text decode to the decoded bytes followed by that text:
   an ASCII byte never completes a multi-byte sequence *)
Lemma decode_se_app_ascii_suffix t : forallb (fun c => c <? 128) t = true ->
  forall b, decode_se (b ++ t) = decode_se b ++ t.
Proof.
  intros T.
  assert (NC : match t with [] => True | a :: _ => is_cont a = false end).
  { destruct t as [|a t']; [exact I|]. simpl in T. apply andb_true_iff in T as [T _].
    apply not_cont. now apply N.ltb_lt. }
  assert (NC2 : match t with a :: a2 :: _ => is_cont a2 = false | _ => True end).
  { destruct t as [|a [|a2 t']]; try exact I. simpl in T. apply andb_true_iff in T as [_ T].
    apply andb_true_iff in T as [T _]. apply not_cont. now apply N.ltb_lt. }
  assert (NC3 : match t with a :: a2 :: a3 :: _ => is_cont a3 = false | _ => True end).
  { destruct t as [|a [|a2 [|a3 t']]]; try exact I. simpl in T. apply andb_true_iff in T as [_ T].
    apply andb_true_iff in T as [_ T]. apply andb_true_iff in T as [T _]. apply not_cont. now apply N.ltb_lt. }
  intros b. remember (List.length b) as n eqn:Hn. revert b Hn.
  induction n as [n IH] using lt_wf_ind. intros b Hn.
  destruct b as [|x r]; [simpl; now apply decode_se_ascii|].
  assert (IHr : forall r', (List.length r' < n)%nat -> decode_se (r' ++ t) = decode_se r' ++ t).
  { intros r' L. now apply (IH _ L). }
  cbn [app]. cbn [decode_se]. destruct (x <? 128) eqn:A.
  { cbn [app]. f_equal. apply IHr. subst n. simpl. lia. }
  assert (Lr : (List.length r < n)%nat) by (subst n; simpl; lia).
  destruct r as [|y r2].
  { (* x is the last byte *)
    cbn [app]. destruct t as [|a [|a2 [|a3 t']]]; cbn [app];
    rewrite ?(dec2_nc x _ NC), ?(dec3_nc2 x _ _ NC), ?(dec4_nc2 x _ _ _ NC); f_equal;
    apply (IHr []); subst n; simpl; lia. }
  cbn [app]. destruct (dec2_ok x y) eqn:D2.
  { cbn [app]. f_equal. apply IHr. subst n. simpl. lia. }
  destruct r2 as [|z r3].
  { cbn [app]. destruct t as [|a [|a2 t']]; cbn [app];
    rewrite ?(dec3_nc3 x y _ NC), ?(dec4_nc3 x y _ _ NC); f_equal;
    apply (IHr [y]); subst n; simpl; lia. }
  cbn [app]. destruct (dec3_ok x y z) eqn:D3.
  { cbn [app]. f_equal. apply IHr. subst n. simpl. lia. }
  destruct r3 as [|w r4].
  { cbn [app]. destruct t as [|a t']; cbn [app]; rewrite ?(dec4_nc4 x y z _ NC); f_equal;
    try (apply (IHr [y; z]); subst n; simpl; lia); reflexivity. }
  cbn [app]. destruct (dec4_ok x y z w) eqn:D4.
  { cbn [app]. f_equal. apply IHr. subst n. simpl. lia. }
  cbn [app]. f_equal. apply (IHr (y :: z :: w :: r4)). subst n. simpl. lia.
Qed.

(* ---------- the statements of Props/C05.v (boolean hypotheses) ---------- *)
Lemma rooted_cases b :
  is_bytes b = true -> rooted (decode_se b) = true -> b = [] \/ starts_with_slash (decode_se b) = true.
Proof.
  intros B R. destruct (decode_se b) as [|c r] eqn:E; [left; now apply decode_nil|right; exact R].
Qed.
Lemma nonempty_ne (l : list N) : nonempty l = true -> l <> [].
Proof. destruct l; [discriminate|discriminate]. Qed.

Theorem listing_selector_fixed_b base name :
  rooted base = true -> nonempty name = true -> mem_N SLASH name = false ->
  slashnormalize (base ++ SLASH :: name) = base ++ SLASH :: name.
Proof.
  intros R NE NS. apply listing_selector_fixed; [|now apply nonempty_ne|exact NS].
  destruct base; [now left|right; exact R].
Qed.

Theorem wire_line b rest :
  is_bytes b = true -> mem_N 10 b = false ->
  readline (b ++ CRLF ++ rest) = (b ++ CRLF, rest) /\ decode_se (b ++ CRLF) = decode_se b ++ CRLF.
Proof.
  intros B L. split; [|now apply decode_se_app_ascii_suffix].
  change (b ++ CRLF ++ rest) with (b ++ [13] ++ 10 :: rest). rewrite app_assoc, readline_line.
  - now rewrite <- app_assoc.
  - now rewrite mem_N_app, L.
Qed.

Theorem gemini_roundtrip_b waptop host b :
  host_ok host = true -> is_bytes b = true -> rooted (decode_se b) = true ->
  gemini_prefixed (decode_se b) = false ->
  exists req, request_of_link PGemini waptop host (decode_se b) = Some req /\
              route PGemini waptop req [] = ToHandler (slashnormalize (decode_se b)) (Some []).
Proof. intros H B R. apply gemini_roundtrip; auto using rooted_cases. Qed.

Theorem gemini_query_roundtrip_b waptop host b bq :
  host_ok host = true -> is_bytes b = true -> rooted (decode_se b) = true ->
  gemini_prefixed (decode_se b) = false -> is_bytes bq = true ->
  exists req, search_request PGemini waptop host (decode_se b) (decode_se bq) = Some (req, []) /\
              route PGemini waptop req [] = ToHandler (slashnormalize (decode_se b)) (Some (decode_se bq)).
Proof. intros H B R. apply gemini_query_roundtrip; auto using rooted_cases. Qed.

Theorem gemini_search_dance_b host b bq :
  host_ok host = true -> is_bytes b = true -> rooted (decode_se b) = true ->
  gemini_prefixed (decode_se b) = false -> is_bytes bq = true -> nonempty bq = true ->
  exists r1 r2 target,
    gemini_prompt_request host (decode_se b) = Some r1 /\ gemini_route r1 = GeminiInput /\
    gemini_answer_request host (decode_se b) (decode_se bq) = Some r2 /\ gemini_route r2 = GeminiRedirect target /\
    gemini_route (gemini_follow_redirect host target)
      = ToHandler (slashnormalize (decode_se b)) (Some (decode_se bq)).
Proof. intros H B R G Bq NE. apply gemini_search_dance; auto using rooted_cases, nonempty_ne. Qed.

Theorem http_query_roundtrip_b p waptop host b bq :
  is_http p = true -> is_bytes b = true -> is_bytes bq = true -> nonempty bq = true ->
  icon_of (slashnormalize (decode_se b)) = None ->
  exists req, search_request p waptop host (decode_se b) (decode_se bq) = Some (req, []) /\
              route p waptop req [] = ToHandler (slashnormalize (decode_se b)) (Some (decode_se bq)).
Proof. intros P B Bq NE. apply http_query_roundtrip; auto using nonempty_ne. Qed.

Theorem wap_query_roundtrip_b waptop host b bq :
  waptop_ok waptop = true -> is_bytes b = true -> starts_with_slash (decode_se b) = true ->
  is_bytes bq = true -> nonempty bq = true ->
  icon_of (slashnormalize (decode_se b)) = None ->
  exists req, search_request PWap waptop host (decode_se b) (decode_se bq) = Some (req, []) /\
              route PWap waptop req [] = ToHandler (slashnormalize (decode_se b)) (Some (decode_se bq)).
Proof. intros W B S Bq NE. apply wap_query_roundtrip; auto using nonempty_ne. Qed.

Theorem spartan_query_roundtrip_b waptop host b bq rest :
  host_ok host = true -> is_bytes b = true -> is_bytes bq = true -> nonempty bq = true ->
  N.of_nat (List.length bq) <=? SSIZE_MAX = true ->
  exists req, search_request PSpartan waptop host (decode_se b) (decode_se bq) = Some (req, bq) /\
              route PSpartan waptop req (bq ++ rest) = ToHandler (slashnormalize (decode_se b)) (Some (decode_se bq)).
Proof. intros H B Bq NE. apply spartan_query_roundtrip; auto using nonempty_ne. Qed.

(* an empty search text: Gopher hands "", HTTP/WAP and Spartan hand None, Gemini "" *)
Theorem spartan_empty_query waptop host b :
  host_ok host = true -> is_bytes b = true ->
  exists req, search_request PSpartan waptop host (decode_se b) [] = Some (req, []) /\
              route PSpartan waptop req [] = ToHandler (slashnormalize (decode_se b)) None.
Proof.
  intros H B. destruct (spartan_roundtrip waptop host b H B) as (req & R1 & R2). exists req. split; [|exact R2].
  unfold search_request, request_of_link in *. rewrite (link_path_decode b B) in *. simpl in *.
  inversion R1 as [R]. reflexivity.
Qed.
