(* C04Facts.v — documents are delivered byte for byte, with truthful length and type. *)
From Coq Require Import Lia String ZArith.
From PG Require Import Lib.Str Lib.StrFacts Lib.Dec Lib.DecFacts Lib.Crlf Lib.CrlfFacts
     Lib.HtmlEsc Lib.HtmlEscFacts Model.Entry Model.Copy Model.Wml Model.Mime.
Local Open Scope N_scope.

(* ================= the copy loop ================= *)
Lemma chunks_from_concat n : (0 < n)%nat ->
  forall fuel d, (List.length d < fuel)%nat -> concat (chunks_from n fuel d) = d.
Proof.
  intros Hn. induction fuel as [|f IH]; intros d Hf; [lia|].
  cbn [chunks_from].
  destruct (firstn n d) as [|c cs] eqn:F.
  - (* an empty read happens only at the end of the file *)
    destruct d as [|x d]; [reflexivity|]. destruct n; [lia|]. discriminate.
  - rewrite <- F. cbn [concat]. rewrite IH.
    + apply firstn_skipn.
    + rewrite skipn_length. destruct d as [|x d]; [destruct n; discriminate|]. change (List.length (x :: d)) with (S (List.length d)) in *. lia.
Qed.

Theorem chunks_concat n d : (0 < n)%nat -> concat (chunks n d) = d.
Proof. intros Hn. unfold chunks. apply chunks_from_concat; [exact Hn | lia]. Qed.

Theorem copyto_exact d : copyto d = d.
Proof. unfold copyto, copyto_with, BLOCK. apply chunks_concat. lia. Qed.

(* every block written is non-empty and at most n long; all but the last are full *)
Lemma chunks_from_sizes n fuel d c :
  In c (chunks_from n fuel d) -> c <> [] /\ (List.length c <= n)%nat.
Proof.
  revert d; induction fuel as [|f IH]; intros d; [intros []|]. cbn [chunks_from].
  destruct (firstn n d) as [|x xs] eqn:F; [intros []|]. intros [<-|H].
  - split; [discriminate|]. rewrite <- F. apply firstn_le_length.
  - eapply IH, H.
Qed.

(* ================= framing ================= *)
Lemma no_lf_lit_check s : mem_N LF s = false -> no_lf s.
Proof. exact (fun H => H). Qed.

Lemma gplus_size_text_no_lf size : no_lf (gplus_size_text size).
Proof.
  destruct size as [n|]; [|reflexivity]. unfold gplus_size_text, no_lf. now apply print_dec_no.
Qed.

Lemma gplus_first_line_no_lf size : no_lf (gplus_first_line size).
Proof. unfold gplus_first_line. apply no_lf_cons. split; [discriminate | apply gplus_size_text_no_lf]. Qed.

(* generalisation of CrlfFacts.http_split_block to any sufficient fuel *)
Lemma http_split_block_fuel hs body :
  Forall (fun l => no_lf l /\ l <> []) hs ->
  forall fuel, (List.length hs < fuel)%nat ->
  http_split fuel (unlines_crlf hs ++ crlf ++ body) = Some (hs, body).
Proof.
  induction hs as [|l hs IH]; intros H fuel Hf.
  - destruct fuel; [simpl in Hf; lia | reflexivity].
  - inversion H as [|? ? [Hl Hne] Hhs]; subst.
    destruct fuel as [|f]; [simpl in Hf; lia|]. cbn [http_split].
    unfold unlines_crlf. simpl concat. rewrite <- !app_assoc.
    rewrite cut_crlf_line by exact Hl.
    destruct l as [|c l]; [congruence|].
    fold (unlines_crlf hs). rewrite (IH Hhs f); [reflexivity | simpl in Hf; lia].
Qed.

Definition header_ok (s : str) : Prop := no_lf s.

Lemma http_header_lines_ok lastmod ctype :
  match lastmod with Some t => no_lf t | None => True end -> no_lf ctype ->
  Forall (fun l => no_lf l /\ l <> []) (http_header_lines lastmod ctype).
Proof.
  intros Ht Hc. unfold http_header_lines.
  repeat first [apply Forall_app; split | apply Forall_cons | apply Forall_nil].
  - split; [reflexivity | discriminate].
  - destruct lastmod as [t|]; [|apply Forall_nil]. apply Forall_cons; [|apply Forall_nil].
    split; [apply no_lf_app; split; [reflexivity | exact Ht] | discriminate].
  - split; [apply no_lf_app; split; [reflexivity | exact Hc] | discriminate].
Qed.

(* what the reference client reports next to the body *)
Definition meta_lines (p : bproto) (m : option str) (size : option N) (lastmod : option str) : list str :=
  match p with
  | PGopher => []
  | PGopherPlus => [gplus_first_line size]
  | PHttp _ => http_header_lines lastmod (http_adjust m)
  | PGemini => [lit "20" ++ [32] ++ gemini_adjust m]
  | PSpartan => [lit "2" ++ [32] ++ gemini_adjust m]
  end.

Definition body_sent (p : bproto) (body : bytes) : bytes :=
  match p with PHttp HEAD => [] | _ => body end.

(* the MIME type and the formatted date are single-line texts *)
Definition meta_ok (m : option str) (lastmod : option str) : Prop :=
  match m with Some x => no_lf x | None => True end /\
  match lastmod with Some t => no_lf t | None => True end.

Lemma http_adjust_no_lf m : match m with Some x => no_lf x | None => True end -> no_lf (http_adjust m).
Proof. destruct m as [x|]; simpl; [|reflexivity]. destruct (str_eqb x MENU); [reflexivity | auto]. Qed.
Lemma gemini_adjust_no_lf m : match m with Some x => no_lf x | None => True end -> no_lf (gemini_adjust m).
Proof. destruct m as [x|]; simpl; [|reflexivity]. destruct (str_eqb x MENU); [reflexivity | auto]. Qed.

Theorem client_reads_back p k m size lastmod d :
  meta_ok m lastmod ->
  client_read p (serve_doc p k m size lastmod d) =
  Some (meta_lines p m size lastmod, body_sent p (handler_write k d)).
Proof.
  intros [Hm Ht]. destruct p as [| |meth| |]; cbn [serve_doc client_read meta_lines body_sent].
  - reflexivity.
  - unfold gplus_doc. rewrite cut_crlf_line by apply gplus_first_line_no_lf. reflexivity.
  - unfold http_doc, http_header_block. rewrite <- app_assoc.
    assert (L : (List.length (http_header_lines lastmod (http_adjust m)) < 16)%nat).
    { unfold http_header_lines. destruct lastmod; simpl; lia. }
    pose proof (http_header_lines_ok lastmod (http_adjust m) Ht (http_adjust_no_lf m Hm)) as OK.
    destruct meth; now rewrite (http_split_block_fuel _ _ OK 16 L).
  - unfold gemini_doc, status_doc.
    replace (lit "20" ++ [32] ++ gemini_adjust m ++ crlf ++ handler_write k d)
      with ((lit "20" ++ [32] ++ gemini_adjust m) ++ crlf ++ handler_write k d)
      by now rewrite <- !app_assoc.
    rewrite cut_crlf_line; [reflexivity|].
    apply no_lf_app; split; [reflexivity|]. apply no_lf_app; split; [reflexivity | now apply gemini_adjust_no_lf].
  - unfold spartan_doc, status_doc.
    replace (lit "2" ++ [32] ++ gemini_adjust m ++ crlf ++ handler_write k d)
      with ((lit "2" ++ [32] ++ gemini_adjust m) ++ crlf ++ handler_write k d)
      by now rewrite <- !app_assoc.
    rewrite cut_crlf_line; [reflexivity|].
    apply no_lf_app; split; [reflexivity|]. apply no_lf_app; split; [reflexivity | now apply gemini_adjust_no_lf].
Qed.

(* C04_body_exact: a stored file, any bytes, any size, every byte-exact protocol *)
Theorem body_exact p m size lastmod d :
  meta_ok m lastmod ->
  client_read p (serve_doc p Stored m size lastmod d) =
  Some (meta_lines p m size lastmod, body_sent p d).
Proof. intros H. rewrite (client_reads_back p Stored m size lastmod d H). cbn [handler_write]. now rewrite copyto_exact. Qed.

(* C04_gplus_length *)
Theorem gplus_length_stored m lastmod d :
  meta_ok m lastmod ->
  exists line body,
    client_read PGopherPlus (serve_doc PGopherPlus Stored m (entry_size Stored d) lastmod d) = Some ([line], body) /\
    gplus_announced line = Some (N.of_nat (List.length body)) /\ body = d.
Proof.
  intros H. exists (gplus_first_line (entry_size Stored d)), d. split; [|split; [|reflexivity]].
  - now rewrite body_exact.
  - cbn [entry_size gplus_first_line gplus_announced gplus_size_text]. change (PLUS =? PLUS) with true. cbn iota.
    apply parse_print_dec.
Qed.

(* repaired transforming handlers announce "unknown length" *)
Theorem gplus_length_transformed f m lastmod d :
  meta_ok m lastmod ->
  client_read PGopherPlus (serve_doc PGopherPlus (Transformed f) m (entry_size (Transformed f) d) lastmod d)
  = Some ([lit "+-2"], f d) /\ gplus_announced (lit "+-2") = None.
Proof. intros H. rewrite client_reads_back by exact H. split; reflexivity. Qed.

(* the pinned handlers announce the stored size for a body of another length *)
Theorem transformed_length_refuted :
  exists (f : bytes -> bytes) d line body n,
    client_read PGopherPlus (serve_doc PGopherPlus (Transformed f) None (entry_size_pinned (Transformed f) d) None d)
      = Some ([line], body) /\
    gplus_announced line = Some n /\ n <> N.of_nat (List.length body).
Proof.
  exists (fun d => d ++ d), [104; 105], (lit "+2"), [104; 105; 104; 105], 2.
  split; [vm_compute; reflexivity|]. split; [vm_compute; reflexivity|]. vm_compute. discriminate.
Qed.

(* C04_head *)
Theorem head_is_get_header k m size lastmod d :
  serve_doc (PHttp GET) k m size lastmod d =
    serve_doc (PHttp HEAD) k m size lastmod d ++ handler_write k d /\
  serve_doc (PHttp HEAD) k m size lastmod d = http_header_block lastmod (http_adjust m).
Proof. cbn [serve_doc]. unfold http_doc. now rewrite app_nil_r. Qed.

Theorem head_client k m size lastmod d :
  meta_ok m lastmod ->
  exists hs body,
    client_read (PHttp GET) (serve_doc (PHttp GET) k m size lastmod d) = Some (hs, body) /\
    client_read (PHttp HEAD) (serve_doc (PHttp HEAD) k m size lastmod d) = Some (hs, []).
Proof.
  intros H. exists (http_header_lines lastmod (http_adjust m)), (handler_write k d).
  split; now rewrite client_reads_back.
Qed.

(* ================= WML ================= *)
Lemma lstrip_suffix s : exists t, s = t ++ lstrip s.
Proof.
  induction s as [|x s [t IH]]; [now exists []|]. simpl.
  destruct (is_space x); [exists (x :: t); simpl; now rewrite <- IH | now exists []].
Qed.

Lemma rstrip_prefix s : exists t, s = rstrip s ++ t.
Proof.
  unfold rstrip. destruct (lstrip_suffix (rev s)) as [t E].
  exists (rev t). rewrite <- rev_app_distr, <- E. now rewrite rev_involutive.
Qed.

Lemma rstrip_snoc_space s c : is_space c = true -> rstrip (s ++ [c]) = rstrip s.
Proof. intros H. unfold rstrip. rewrite rev_app_distr. simpl. now rewrite H. Qed.

Lemma no_lf_prefix a b : no_lf (a ++ b) -> no_lf a.
Proof. intros H. now apply no_lf_app in H. Qed.

Lemma rstrip_no_lf s : no_lf s -> no_lf (rstrip s).
Proof. intros H. destruct (rstrip_prefix s) as [t E]. rewrite E in H. now apply no_lf_prefix in H. Qed.

(* every line produced by readline-style splitting is LF-free once right-stripped *)
Lemma lines_keepends_aux_no_lf cur s :
  no_lf cur -> Forall (fun l => no_lf (rstrip l)) (lines_keepends_aux cur s).
Proof.
  revert cur; induction s as [|x s IH]; intros cur Hc; cbn [lines_keepends_aux].
  - destruct cur; [apply Forall_nil|]. apply Forall_cons; [|apply Forall_nil].
    apply rstrip_no_lf. unfold no_lf in *. 
    assert (R : forall l, mem_N LF (rev l) = mem_N LF l).
    { induction l as [|y l IHl]; [reflexivity|]. simpl. rewrite mem_N_app, IHl. simpl. rewrite orb_false_r. apply orb_comm. }
    now rewrite R.
  - destruct (x =? 10) eqn:E.
    + apply Forall_cons; [|apply IH; reflexivity].
      apply N.eqb_eq in E. subst x. cbn [rev]. rewrite rstrip_snoc_space by reflexivity.
      apply rstrip_no_lf. unfold no_lf in *.
      assert (R : forall l, mem_N LF (rev l) = mem_N LF l).
      { induction l as [|y l IHl]; [reflexivity|]. simpl. rewrite mem_N_app, IHl. simpl. rewrite orb_false_r. apply orb_comm. }
      now rewrite R.
    + apply IH. apply no_lf_cons. split; [now apply N.eqb_neq in E | exact Hc].
Qed.

Lemma wml_source_lines_no_lf text : Forall no_lf (wml_source_lines text).
Proof.
  unfold wml_source_lines, lines_keepends. apply Forall_map. apply lines_keepends_aux_no_lf. reflexivity.
Qed.

Lemma split_once_line l rest : no_lf l -> split_once 10 (l ++ 10 :: rest) = (l, Some rest).
Proof.
  induction l as [|x l IH]; intros H; [reflexivity|].
  apply no_lf_cons in H as [Hx Hl]. simpl. apply N.eqb_neq in Hx. unfold LF in Hx. rewrite Hx, (IH Hl). reflexivity.
Qed.

Lemma str_eqb_first_diff x a y b : x <> y -> str_eqb (x :: a) (y :: b) = false.
Proof. intros H. simpl. apply N.eqb_neq in H. now rewrite H. Qed.

Lemma of_wml_body_pieces ls :
  Forall no_lf ls -> forall fuel, (List.length ls < fuel)%nat ->
  of_wml_body fuel (concat (map wml_piece ls) ++ WML_FOOT) = Some ls.
Proof.
  induction ls as [|l ls IH]; intros H fuel Hf.
  - destruct fuel; [simpl in Hf; lia|]. reflexivity.
  - inversion H as [|? ? Hl Hls]; subst. destruct fuel as [|f]; [simpl in Hf; lia|].
    assert (Hf' : (List.length ls < f)%nat) by (simpl in Hf; lia).
    cbn [map concat]. rewrite <- app_assoc. set (rest := concat (map wml_piece ls) ++ WML_FOOT) in *.
    destruct l as [|c l].
    + (* blank line: paragraph break *)
      cbn [wml_piece of_wml_body].
      assert (E1 : str_eqb (WML_PARA ++ rest) WML_FOOT = false) by reflexivity.
      assert (E2 : prefixb WML_PARA (WML_PARA ++ rest) = true) by apply prefixb_app.
      rewrite E1, E2.
      assert (E3 : skipn (List.length WML_PARA) (WML_PARA ++ rest) = rest) by reflexivity.
      rewrite E3. now rewrite (IH Hls f Hf').
    + (* text line: escaped, never starts with "<" *)
      cbn [wml_piece]. destruct (escape true (c :: l)) as [|e es] eqn:Esc;
        [apply escape_nil_iff in Esc; discriminate|].
      pose proof (escape_first_not_lt _ _ _ _ Esc) as NLT.
      pose proof (escape_no_lf true (c :: l) Hl) as ENL. rewrite Esc in ENL.
      cbn [of_wml_body]. rewrite <- app_assoc. cbn [app].
      assert (E1 : str_eqb (e :: es ++ NL ++ rest) WML_FOOT = false)
        by (apply str_eqb_first_diff; exact NLT).
      assert (E2 : prefixb WML_PARA (e :: es ++ NL ++ rest) = false).
      { assert (W : WML_PARA = LT :: tl WML_PARA) by reflexivity. rewrite W. cbn [prefixb].
        apply N.eqb_neq in NLT. rewrite N.eqb_sym, NLT. reflexivity. }
      rewrite E1, E2.
      change (e :: es ++ NL ++ rest) with ((e :: es) ++ 10 :: rest).
      rewrite split_once_line by exact ENL.
      rewrite (IH Hls f Hf'). cbn [option_map]. rewrite <- Esc, unescape_escape. reflexivity.
Qed.

(* C04_wml_invertible *)
Theorem wml_invertible text : of_wml (to_wml text) = Some (wml_source_lines text).
Proof.
  unfold of_wml, to_wml. rewrite prefixb_app.
  assert (E : skipn (List.length WML_HEAD) (WML_HEAD ++ to_wml_body text ++ WML_FOOT) = to_wml_body text ++ WML_FOOT)
    by reflexivity.
  rewrite E. unfold to_wml_body. apply of_wml_body_pieces; [apply wml_source_lines_no_lf|].
  rewrite app_length.
  assert (L : forall ls, (List.length ls <= List.length (concat (map wml_piece ls)))%nat).
  { induction ls as [|l ls IHl]; [simpl; lia|]. cbn [map concat]. rewrite app_length. cbn [List.length].
    assert (1 <= List.length (wml_piece l))%nat; [|lia].
    destruct l; cbn [wml_piece]; [vm_compute; lia | rewrite app_length; simpl; lia]. }
  specialize (L (wml_source_lines text)). lia.
Qed.

(* the WAP response around it *)
Theorem wap_text_client lastmod text :
  match lastmod with Some t => no_lf t | None => True end ->
  http_split 16 (wap_doc_text lastmod text) = Some (http_header_lines lastmod WML_TYPE, to_wml text).
Proof.
  intros Ht. unfold wap_doc_text, http_header_block. rewrite <- app_assoc.
  apply http_split_block_fuel; [apply http_header_lines_ok; [exact Ht | reflexivity]|].
  unfold http_header_lines. destruct lastmod; simpl; lia.
Qed.

(* ================= MIME ================= *)
Section MimeFacts.
  Variables suffix_map encodings_map types_strict types_common : list (str * str).
  Variable default_mimetype : str.
  Variable eaexts : list (str * str).
  Variable sidecar : str -> option str.

  Notation guess := (guess_type suffix_map encodings_map types_strict types_common).
  Notation fmime := (file_mimetype suffix_map encodings_map types_strict types_common default_mimetype).
  Notation populate := (populatefromfs suffix_map encodings_map types_strict types_common default_mimetype eaexts sidecar).

  Lemma e_mimetype_handleeaext sc ex e : e_mimetype (handleeaext sc ex e) = e_mimetype e.
  Proof. reflexivity. Qed.

  (* populatefromfs on the fresh entry of a regular file: the advertised type is
     the table type of the name, nothing else enters *)
  Theorem populate_file_mimetype sel fspath size mtime ctime :
    let e := populate fspath (Some (mkStat false size mtime ctime)) (new_entry sel) in
    e_mimetype e = Some (fmime sel) /\ e_size e = Some size /\ e_gopherpsupport e = true.
  Proof.
    cbn zeta. unfold populatefromfs, file_mimetype, file_mime_attrs. simpl.
    destruct (guess sel) as [m enc].
    destruct enc as [[|c enc]|]; destruct m as [[|c' m]|]; simpl; repeat split; reflexivity.
  Qed.

  (* the precedence spelled out *)
  Theorem file_mimetype_cases sel :
    match guess sel with
    | (_, Some (c :: enc)) => fmime sel = OCTET                       (* encoded: generic binary *)
    | (Some (c :: t), _) => fmime sel = c :: t                        (* a table type *)
    | _ => fmime sel = default_mimetype                               (* unknown: configured default *)
    end.
  Proof.
    unfold file_mimetype, file_mime_attrs. destruct (guess sel) as [m enc].
    destruct enc as [[|c enc]|]; destruct m as [[|d t]|]; reflexivity.
  Qed.
End MimeFacts.

(* the per-protocol adjustments leave a document type alone *)
Theorem adjust_identity x :
  x <> MENU ->
  http_adjust (Some x) = x /\ gemini_adjust (Some x) = x /\
  (x <> lit "text/plain" -> wap_adjust (Some x) = x /\ wap_needs_conversion (Some x) = false).
Proof.
  intros H. apply str_eqb_neq in H. unfold http_adjust, gemini_adjust, wap_adjust, wap_needs_conversion.
  rewrite H. repeat split; apply str_eqb_neq in H0; now rewrite H0.
Qed.
