(* Soundness of the boolean well-formedness check of Model/TALProg.v with respect to
   the declarative Model/TALProgSpec.v. *)
From Coq Require Import Lia Sorted PeanoNat.
From PG Require Import Lib.Str Model.TALProg Model.TALProgSpec.

Lemma span_head_app l : forall h r, span_head l = (h, r) -> l = h ++ r.
Proof.
  induction l as [|c l IH]; intros h r H; simpl in H.
  - inversion H. reflexivity.
  - destruct (is_head c).
    + destruct (span_head l) as [h1 r1] eqn:E. inversion H; subst. simpl. f_equal. now apply IH.
    + inversion H. reflexivity.
Qed.

(* what a successful check_items call establishes *)
Definition span_ok (t : symtab) (o : nat) (items : list cmd) (sp : nat * nat) : Prop :=
  exists pre el post, items = pre ++ el ++ post /\ fst sp = o + length pre /\
                      wfelem t (fst sp) el /\ S (snd sp) = fst sp + length el.

Lemma span_ok_shift t o items sp pre post :
  span_ok t (o + length pre) items sp -> span_ok t o (pre ++ items ++ post) sp.
Proof.
  intros (p1 & el & p2 & E & S1 & W & S2). exists (pre ++ p1), el, (p2 ++ post). repeat split; auto.
  - subst items. now rewrite <- !app_assoc.
  - rewrite app_length. lia.
Qed.

Lemma check_items_sound : forall fuel t o l rest spans,
  check_items fuel t o l = Some (rest, spans) ->
  exists items, l = items ++ rest /\ wfitems t o items /\
    (rest = [] \/ exists en r, rest = en :: r /\ is_etag en = true) /\
    (forall sp, In sp spans -> span_ok t o items sp).
Proof.
  induction fuel as [|f IH]; intros t o l rest spans H; [discriminate|].
  simpl in H. destruct l as [|c r].
  - inversion H; subst. exists []. repeat split; auto; [constructor | intros sp []].
  - destruct (is_out c) eqn:Eo.
    + apply IH in H. destruct H as (items & El & W & R & Sp).
      exists (c :: items). subst r. repeat split; auto.
      * now constructor.
      * intros sp Hin. destruct (Sp sp Hin) as (p1 & el & p2 & E & S1 & We & S2).
        exists (c :: p1), el, p2. repeat split; auto; [now rewrite E | simpl; lia].
    + destruct (is_etag c) eqn:Ee.
      * inversion H; subst. exists []. repeat split; auto; [constructor | right; eauto | intros sp []].
      * destruct (is_scope c) eqn:Es; [|discriminate].
        destruct (span_head r) as [h r1] eqn:Eh. apply span_head_app in Eh.
        destruct r1 as [|st r2]; [discriminate|].
        destruct (is_stag st && head_sorted 0 h) eqn:E1; [|discriminate].
        apply andb_true_iff in E1. destruct E1 as [Est Ehs].
        destruct (check_items f t (o + 2 + length h) r2) as [[r3' sb]|] eqn:Eb; [|discriminate].
        destruct r3' as [|en r3]; [discriminate|].
        apply IH in Eb. destruct Eb as (body & Er2 & Wb & _ & Sb).
        assert (Elen : length r2 - S (length r3) = length body).
        { rewrite Er2, app_length. simpl. lia. }
        rewrite Elen in H.
        destruct (is_etag en && syms_ok t (o + 2 + length h + length body) h) eqn:E2; [|discriminate].
        apply andb_true_iff in E2. destruct E2 as [Een Esy].
        destruct (check_items f t (S (o + 2 + length h + length body)) r3) as [[rest' sr]|] eqn:Er; [|discriminate].
        inversion H; subst rest' spans. clear H.
        apply IH in Er. destruct Er as (items' & Er3 & Wi & R & Sr).
        remember (c :: h ++ st :: body ++ [en]) as el eqn:Eel.
        assert (Lel : length el = 3 + length h + length body).
        { subst el. simpl. rewrite app_length. simpl. rewrite app_length. simpl. lia. }
        assert (Wel : wfelem t o el) by (subst el; now constructor).
        exists (el ++ items'). repeat split; auto.
        -- subst r r2 r3 el. simpl. rewrite <- !app_assoc. simpl. rewrite <- !app_assoc. reflexivity.
        -- apply wi_elem; [exact Wel|]. rewrite Lel. replace (o + (3 + length h + length body)) with
             (S (o + 2 + length h + length body)) by lia. exact Wi.
        -- intros sp [Hsp|Hsp].
           ++ subst sp. exists [], el, items'. simpl. repeat split; auto. rewrite Lel. lia.
           ++ apply in_app_or in Hsp. destruct Hsp as [Hsp|Hsp].
              ** destruct (Sb sp Hsp) as (p1 & e1 & p2 & E & S1 & We & S2).
                 exists (c :: h ++ st :: p1), e1, (p2 ++ [en] ++ items'). repeat split; auto.
                 --- rewrite Eel, E. simpl. rewrite <- !app_assoc. simpl. rewrite <- !app_assoc. reflexivity.
                 --- simpl. rewrite app_length. simpl. lia.
              ** destruct (Sr sp Hsp) as (p1 & e1 & p2 & E & S1 & We & S2).
                 exists (el ++ p1), e1, p2. repeat split; auto.
                 --- rewrite E. now rewrite <- !app_assoc.
                 --- rewrite app_length, Lel. lia.
Qed.

Lemma span_mem_In s e l : span_mem s e l = true -> In (s, e) l.
Proof.
  induction l as [|[a b] l IH]; simpl; [discriminate|].
  intros H. apply orb_true_iff in H. destruct H as [H|H].
  - apply andb_true_iff in H. destruct H as [H1 H2].
    apply Nat.eqb_eq in H1. apply Nat.eqb_eq in H2. subst. now left.
  - right. now apply IH.
Qed.

Theorem wf_program_sound p t m : wf_program p t m = true -> wf_spec p t m.
Proof.
  unfold wf_program, wf_spec. intros H.
  destruct (check_items (S (length p)) t 0 p) as [[rest spans]|] eqn:E; [|discriminate].
  destruct rest; [|discriminate].
  apply check_items_sound in E. destruct E as (items & El & W & _ & Sp).
  rewrite app_nil_r in El. subst items. split; [exact W|].
  intros s Hs. rewrite forallb_forall in H. specialize (H s Hs). unfold sub_ok in H.
  destruct (lookup_sym t (snd s)) as [e|] eqn:El; [|discriminate].
  apply span_mem_In in H. destruct (Sp _ H) as (pre & el & post & E & S1 & We & S2). simpl in *.
  exists pre, el, post, e. repeat split; auto.
Qed.

(* ---- priority order ---- *)
Lemma head_sorted_ranks : forall h lo, head_sorted lo h = true ->
  StronglySorted rank_lt h /\ Forall (fun c => exists k, head_rank c = Some k /\ lo < k) h.
Proof.
  induction h as [|c h IH]; intros lo H; simpl in H.
  - split; constructor.
  - destruct (head_rank c) as [k|] eqn:Ek; [|discriminate].
    apply andb_true_iff in H. destruct H as [Hlt Hs]. apply Nat.ltb_lt in Hlt.
    destruct (IH _ Hs) as [SS F]. split.
    + constructor; [exact SS|]. eapply Forall_impl; [|exact F].
      intros a (ka & Ea & La). unfold rank_lt. now rewrite Ek, Ea.
    + constructor; [eauto|]. eapply Forall_impl; [|exact F]. intros a (ka & Ea & La). exists ka. split; [auto|]. eapply Nat.lt_trans; eauto.
Qed.

Lemma syms_ok_spec t e h : syms_ok t e h = true ->
  forall c s, In c h -> cmd_sym c = Some s -> lookup_sym t s = Some e.
Proof.
  unfold syms_ok. rewrite forallb_forall. intros H c s Hin Hs. specialize (H c Hin). rewrite Hs in H.
  unfold opt_nat_eqb in H. destruct (lookup_sym t s); [|discriminate]. apply Nat.eqb_eq in H. now subst.
Qed.

Lemma nth_error_last2 {A} (a b : list A) (x : A) : nth_error (a ++ b ++ [x]) (length a + length b) = Some x.
Proof.
  rewrite nth_error_app2 by lia. rewrite nth_error_app2 by lia.
  replace (length a + length b - length a - length b) with 0 by lia. reflexivity.
Qed.

(* every element: commands in strictly increasing priority, symbols point at its own end tag *)
Lemma wfelem_priority t o el : wfelem t o el ->
  exists sc head st body en,
    el = sc :: head ++ st :: body ++ [en] /\ StronglySorted rank_lt head /\
    (forall c s, In c head -> cmd_sym c = Some s -> lookup_sym t s = Some (o + 2 + length head + length body)) /\
    nth_error el (2 + length head + length body) = Some en /\ is_etag en = true.
Proof.
  intros W. inversion W; subst. exists sc, head, st, body, en. repeat split; auto.
  - now apply (head_sorted_ranks head 0).
  - now apply syms_ok_spec.
  - change (sc :: head ++ st :: body ++ [en]) with ((sc :: head) ++ (st :: body) ++ [en]).
    replace (2 + length head + length body) with (length (sc :: head) + length (st :: body)) by (simpl; lia).
    apply nth_error_last2.
Qed.
