(* C02More.v — further facts about protocol detection: what the answer depends on. *)
From Coq Require Import Lia String.
From PG Require Import Lib.Str Lib.StrFacts Model.ProtoId Gen.Config Model.Detect Proofs.C02Facts.
Local Open Scope N_scope.

Section WithWaptop.
Variable waptop : str.

(* only the WAP class ever looks at the header block *)
Lemma accepts_headers_only_wap p tls req h1 h2 :
  p <> PWap -> accepts waptop p tls req h1 = accepts waptop p tls req h2.
Proof. intros H. destruct p; try reflexivity. congruence. Qed.

Lemma detect_headers_irrelevant_without_wap ps tls req h1 h2 :
  ~ In PWap ps -> detect waptop ps tls req h1 = detect waptop ps tls req h2.
Proof.
  induction ps as [|a ps IH]; simpl; intros H; [reflexivity|].
  rewrite (accepts_headers_only_wap a tls req h1 h2) by (intros ->; apply H; now left).
  destruct (accepts waptop a tls req h2); [reflexivity|]. apply IH. intros Hin. apply H. now right.
Qed.

(* ... and it looks at it only for lines that have the HTTP shape *)
Lemma accepts_headers_only_http p tls req h1 h2 :
  http_shape req = false -> accepts waptop p tls req h1 = accepts waptop p tls req h2.
Proof.
  intros H. destruct p; try reflexivity.
  unfold accepts, shape, wap_shape. rewrite H. reflexivity.
Qed.

Lemma detect_headers_irrelevant_unless_http ps tls req h1 h2 :
  http_shape req = false -> detect waptop ps tls req h1 = detect waptop ps tls req h2.
Proof.
  intros H. induction ps as [|a ps IH]; simpl; [reflexivity|].
  rewrite (accepts_headers_only_http a tls req h1 h2 H).
  destruct (accepts waptop a tls req h2); [reflexivity|exact IH].
Qed.

(* ... and never on a TLS connection (the WAP class is a plaintext class) *)
Lemma detect_headers_irrelevant_tls ps req h1 h2 :
  secure_flag PWap = false ->
  detect waptop ps true req h1 = detect waptop ps true req h2.
Proof.
  intros F. induction ps as [|a ps IH]; simpl; [reflexivity|].
  assert (E : accepts waptop a true req h1 = accepts waptop a true req h2).
  { destruct a; first [reflexivity | unfold accepts, tls_ok; rewrite F; reflexivity]. }
  rewrite E. destruct (accepts waptop a true req h2); [reflexivity|exact IH].
Qed.

(* classes of the other TLS-ness are invisible: removing them changes nothing *)
Lemma accepts_false_other_tls p tls req hdrs :
  secure_flag p <> tls -> accepts waptop p tls req hdrs = false.
Proof.
  intros H. destruct (accepts waptop p tls req hdrs) eqn:A; [|reflexivity].
  apply accepts_tls_strict in A. contradiction.
Qed.

Lemma detect_filter_tls ps tls req hdrs :
  detect waptop ps tls req hdrs =
  detect waptop (filter (fun p => Bool.eqb (secure_flag p) tls) ps) tls req hdrs.
Proof.
  induction ps as [|a ps IH]; simpl; [reflexivity|].
  destruct (Bool.eqb (secure_flag a) tls) eqn:E; simpl.
  - destruct (accepts waptop a tls req hdrs); [reflexivity|exact IH].
  - rewrite accepts_false_other_tls; [exact IH|]. apply Bool.eqb_false_iff. exact E.
Qed.

(* protocols that do not accept can be dropped from, or inserted into, the list anywhere *)
Lemma detect_app ps qs tls req hdrs :
  detect waptop (ps ++ qs) tls req hdrs =
  match detect waptop ps tls req hdrs with Some p => Some p | None => detect waptop qs tls req hdrs end.
Proof.
  induction ps as [|a ps IH]; simpl; [reflexivity|].
  destruct (accepts waptop a tls req hdrs); [reflexivity|exact IH].
Qed.

Lemma detect_skip pre q post tls req hdrs :
  accepts waptop q tls req hdrs = false ->
  detect waptop (pre ++ q :: post) tls req hdrs = detect waptop (pre ++ post) tls req hdrs.
Proof. intros H. rewrite !detect_app. simpl. rewrite H. reflexivity. Qed.

(* a protocol listed twice: the later copy is dead *)
Lemma detect_dup pre p mid post tls req hdrs :
  detect waptop (pre ++ p :: mid ++ p :: post) tls req hdrs =
  detect waptop (pre ++ p :: mid ++ post) tls req hdrs.
Proof.
  rewrite !detect_app. simpl. destruct (detect waptop pre tls req hdrs); [reflexivity|].
  destruct (accepts waptop p tls req hdrs) eqn:A; [reflexivity|].
  rewrite !detect_app. simpl. rewrite A. reflexivity.
Qed.

(* the answer is always a member of the list *)
Lemma detect_in ps tls req hdrs p : detect waptop ps tls req hdrs = Some p -> In p ps.
Proof.
  intros H. apply detect_first_match in H as (pre & post & -> & _). apply in_or_app. right. now left.
Qed.

(* the catch-all classes claim exactly the connections of their TLS-ness *)
Lemma catchall_accepts_iff p tls req hdrs :
  catch_all p = true -> (accepts waptop p tls req hdrs = true <-> secure_flag p = tls).
Proof.
  intros C. split; [apply accepts_tls_strict | apply catchall_accepts; exact C].
Qed.

(* a list is total as soon as it has a catch-all of each kind *)
Lemma total_with_catchalls ps tls req hdrs :
  (exists p, In p ps /\ catch_all p = true /\ secure_flag p = true) ->
  (exists p, In p ps /\ catch_all p = true /\ secure_flag p = false) ->
  detect waptop ps tls req hdrs <> None.
Proof.
  intros (p1 & I1 & C1 & F1) (p0 & I0 & C0 & F0) H. rewrite detect_none in H.
  destruct tls.
  - specialize (H p1 I1). rewrite (catchall_accepts waptop p1 true req hdrs C1 F1) in H. discriminate.
  - specialize (H p0 I0). rewrite (catchall_accepts waptop p0 false req hdrs C0 F0) in H. discriminate.
Qed.

(* ... and not total otherwise: without a catch-all the empty line is nobody's *)
Lemma shape_empty_line p hdrs : catch_all p = false -> shape waptop p [] hdrs = false.
Proof. destruct p; intros C; try discriminate; vm_compute; reflexivity. Qed.

Lemma not_total_without_catchall ps tls hdrs :
  (forall p, In p ps -> catch_all p = false) -> detect waptop ps tls [] hdrs = None.
Proof.
  intros H. apply detect_none. intros q Hq. unfold accepts.
  rewrite (shape_empty_line q hdrs (H q Hq)). apply andb_false_r.
Qed.

Lemma total_iff_catchalls ps :
  (forall tls req hdrs, detect waptop ps tls req hdrs <> None) <->
  ((exists p, In p ps /\ catch_all p = true /\ secure_flag p = true) /\
   (exists p, In p ps /\ catch_all p = true /\ secure_flag p = false)).
Proof.
  split.
  - intros T.
    assert (K : forall tls, exists p, In p ps /\ catch_all p = true /\ secure_flag p = tls).
    { intros tls. specialize (T tls [] []).
      destruct (detect waptop ps tls [] []) as [p|] eqn:D; [|congruence].
      pose proof (detect_in _ _ _ _ _ D) as I.
      apply detect_first_match in D as (_ & _ & _ & A & _).
      exists p. split; [exact I|]. split; [|now apply accepts_tls_strict in A].
      destruct (catch_all p) eqn:C; [reflexivity|].
      unfold accepts in A. rewrite (shape_empty_line p [] C), andb_false_r in A. discriminate. }
    split; apply K.
  - intros [H1 H0] tls req hdrs. now apply total_with_catchalls.
Qed.

End WithWaptop.

(* order matters between classes whose shapes overlap: "GET /<TAB>+ HTTP/1.0" is an HTTP line and a Gopher+ line *)
Definition overlap_line : str := lit "GET /"%string ++ [9] ++ lit "+ HTTP/1.0"%string ++ [13; 10].
Lemma order_matters :
  detect shipped_waptop [PHttp; PGopherPlus] false overlap_line [] = Some PHttp /\
  detect shipped_waptop [PGopherPlus; PHttp] false overlap_line [] = Some PGopherPlus /\
  detect shipped_waptop shipped_protocols false overlap_line [] = Some PHttp.
Proof. vm_compute. repeat split; reflexivity. Qed.

(* the Gemini shape excludes the HTTP shape, whatever follows the prefix: the order of Gemini and
   HTTPS in the list is immaterial *)
Lemma split_on_head c x s : x <> c -> exists h t, split_on c (x :: s) = (x :: h) :: t.
Proof.
  intros H. simpl. destruct (N.eqb_spec x c) as [E|_]; [contradiction|].
  destruct (split_on c s) as [|f r] eqn:E; [exfalso; now apply split_on_nonempty in E|eauto].
Qed.
Lemma lstrip_snoc_nonspace a x : is_space x = false -> exists t, lstrip (a ++ [x]) = t ++ [x].
Proof.
  intros H. induction a as [|a0 a IH]; simpl.
  - rewrite H. now exists [].
  - destruct (is_space a0); [exact IH|]. now exists (a0 :: a).
Qed.
Lemma strip_head x h : is_space x = false -> exists t, strip (x :: h) = x :: t.
Proof.
  intros H. unfold strip. simpl. rewrite H. unfold rstrip. simpl.
  destruct (lstrip_snoc_nonspace (rev h) x H) as [t E]. rewrite E, rev_app_distr. simpl. eauto.
Qed.
Lemma gemini_not_http req : gemini_shape req = true -> http_shape req = false.
Proof.
  unfold gemini_shape, GEMINI. intros H.
  destruct req as [|c0 req]; [discriminate|].
  simpl in H. apply andb_true_iff in H as [H0 _].
  destruct c0 as [|q]; [discriminate|]. apply Pos.eqb_eq in H0. subst q.
  unfold http_shape, http_parts.
  destruct (split_on_head SPACE 103 req) as (h & t & E); [discriminate|]. rewrite E. simpl map.
  destruct (strip_head 103 h eq_refl) as [m Em]. rewrite Em.
  destruct (map strip t) as [|u [|v [|w r]]]; try reflexivity.
Qed.
Lemma gemini_https_commute waptop pre post tls req hdrs :
  detect waptop (pre ++ PGemini :: PHttps :: post) tls req hdrs =
  detect waptop (pre ++ PHttps :: PGemini :: post) tls req hdrs.
Proof.
  rewrite !detect_app. destruct (detect waptop pre tls req hdrs); [reflexivity|]. simpl.
  unfold accepts at 1 2 3 4. unfold shape.
  destruct (gemini_shape req) eqn:G.
  - rewrite (gemini_not_http req G). rewrite !andb_false_r. rewrite andb_true_r.
    destruct (tls_ok PGemini tls); reflexivity.
  - rewrite !andb_false_r. destruct (tls_ok PHttps tls && http_shape req); reflexivity.
Qed.
